package qbftsim

import (
	"math/rand"
	"testing"
	"time"
)

func TestSpeed(t *testing.T) {
	t0 := time.Now()
	steps, dec := 0, 0
	var maxd time.Duration
	for i := 0; i < 300; i++ {
		c0 := time.Now()
		res := RunAsyncCase(rand.New(rand.NewSource(int64(i))))
		steps += len(res.Runner.Trace)
		dec += len(res.DecisionRounds())
		if d := time.Since(c0); d > maxd {
			maxd = d
			t.Logf("case %d took %v events=%d n=%d meta=%+v", i, d, len(res.Runner.Trace), res.Meta.N, res.Meta)
		}
	}
	t.Logf("300 cases %v, events %d, decisions %d", time.Since(t0), steps, dec)
}

func TestTimelyBoundExplore(t *testing.T) {
	QuietLogs(t)
	hist := map[string]map[int64]int{}
	for i := 0; i < 3000; i++ {
		res := RunTimelyCaseBound(rand.New(rand.NewSource(int64(i)*77+1)), i, 6)
		mx := int64(0)
		for _, d := range res.RoundsAfterFault {
			if d > mx {
				mx = d
			}
		}
		if len(res.Findings) > 0 {
			mx = 999
		}
		k := res.Meta.Timer
		if hist[k] == nil {
			hist[k] = map[int64]int{}
		}
		hist[k][mx]++
	}
	t.Logf("%v", hist)
}

func TestTimelyEagerExplore(t *testing.T) {
	QuietLogs(t)
	viol := 0
	hist := map[int64]int{}
	for i := 0; i < 60000; i++ {
		res := RunTimelyCaseBound(rand.New(rand.NewSource(int64(i)*91+7)), i, 1)
		if res.Meta.Timer != "eager" {
			continue
		}
		mx := int64(0)
		for _, d := range res.RoundsAfterFault {
			if d > mx {
				mx = d
			}
		}
		if len(res.Findings) > 0 {
			viol++
			if viol <= 3 {
				t.Logf("case %d: %s | %+v", i, res.Findings[0].What, res.Meta.Faults[0])
			}
			mx = 999
		}
		hist[mx]++
	}
	t.Logf("eager: %v violations=%d", hist, viol)
}

func TestLockCompareFailExplore(t *testing.T) {
	QuietLogs(t)
	viol, variant, ydec := 0, 0, 0
	for i := 0; i < 3000; i++ {
		res := RunLockCase(rand.New(rand.NewSource(int64(i)*13 + 5)))
		if res.Meta.Policy != "lock-override/compare-fail-committer" {
			continue
		}
		variant++
		y := res.Meta.CompareFailPairs[0][0]
		if len(res.Sim.Procs[y].Decisions) > 0 {
			ydec++
		}
		if f := CheckAgreement(res.Sim); len(f) > 0 {
			viol++
			if viol < 3 {
				t.Logf("case %d: %s", i, f[0].What)
			}
		}
	}
	t.Logf("variant cases %d, y decided %d, agreement violations %d", variant, ydec, viol)
}

func TestLockCompareFailTrace(t *testing.T) {
	QuietLogs(t)
	for i := 0; i < 3000; i++ {
		res := RunLockCase(rand.New(rand.NewSource(int64(i)*13 + 5)))
		if res.Meta.Policy != "lock-override/compare-fail-committer" {
			continue
		}
		t.Logf("meta %+v", res.Meta)
		for _, l := range res.Runner.TraceStrings(400)[:min(160, len(res.Runner.Trace))] {
			t.Log(l)
		}
		return
	}
}

func TestPartialCommitExplore(t *testing.T) {
	QuietLogs(t)
	viol, vdec, cases := 0, 0, 0
	byN := map[int]int{}
	for i := 0; i < 600; i++ {
		res := RunPartialCommitCase(rand.New(rand.NewSource(int64(i)*17 + 3)))
		cases++
		fs := CheckAgreement(res.Sim)
		if len(fs) > 0 {
			viol++
			byN[res.Meta.N]++
			if viol <= 3 {
				t.Logf("case %d n=%d: %s", i, res.Meta.N, fs[0].What)
			}
		}
		for _, v := range res.Meta.Partition[0] {
			if len(res.Sim.Procs[v].Decisions) > 0 {
				vdec++
			}
		}
	}
	t.Logf("cases %d, victims decided %d, agreement violations %d byN=%v", cases, vdec, viol, byN)
}
