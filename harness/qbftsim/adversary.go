package qbftsim

import (
	"math/rand"
	"sort"

	"github.com/obolnetwork/charon/core/qbft"
)

// Adversary is an omniscient coalition of at most f Byzantine ids. It can fabricate any message
// whose source is one of its own ids, attach as justification any authentic message (everything
// honest processes ever broadcast — including what honest messages carried as justification — plus
// its own fabrications), replay honest messages (optionally with another justification list:
// justifications are signed individually on the production wire, the list is not), and choose
// who receives what and when. It can never fabricate a message with an honest source.
type Adversary struct {
	N      int
	Inst   int64
	Byz    []int64
	Rng    *rand.Rand
	Values []int64 // candidate values (honest inputs + fresh ones)

	honest   []*Msg            // all honest top-level messages observed
	pps      map[int64][]*Msg  // round -> PRE-PREPAREs on the wire (any source)
	prepares map[rv]map[int64]*Msg
	commits  map[rv]map[int64]*Msg
	rcs      map[int64]map[int64][]*Msg // round -> source -> ROUND-CHANGEs (flat copies keep pr/pv)
	rcJust   map[int]([]QMsg)           // RC msg id -> its original prepare justification
	decided  []*Msg

	StratCount map[string]int
	sim        *Sim
}

type rv struct{ r, v int64 }

// NewAdversary creates the coalition.
func NewAdversary(s *Sim, byz []int64, values []int64, rng *rand.Rand) *Adversary {
	return &Adversary{
		N: s.Cfg.N, Inst: s.Cfg.Instance, Byz: byz, Rng: rng, Values: values, sim: s,
		pps: map[int64][]*Msg{}, prepares: map[rv]map[int64]*Msg{}, commits: map[rv]map[int64]*Msg{},
		rcs: map[int64]map[int64][]*Msg{}, rcJust: map[int][]QMsg{}, StratCount: map[string]int{},
	}
}

func (a *Adversary) isByz(id int64) bool {
	for _, b := range a.Byz {
		if b == id {
			return true
		}
	}

	return false
}

func (a *Adversary) index(m *Msg) {
	switch m.Typ {
	case qbft.MsgPrePrepare:
		a.pps[m.Rnd] = append(a.pps[m.Rnd], m)
	case qbft.MsgPrepare:
		k := rv{m.Rnd, m.Val}
		if a.prepares[k] == nil {
			a.prepares[k] = map[int64]*Msg{}
		}
		if a.prepares[k][m.Src] == nil {
			a.prepares[k][m.Src] = m.Flat()
		}
	case qbft.MsgCommit:
		k := rv{m.Rnd, m.Val}
		if a.commits[k] == nil {
			a.commits[k] = map[int64]*Msg{}
		}
		if a.commits[k][m.Src] == nil {
			a.commits[k][m.Src] = m.Flat()
		}
	case qbft.MsgRoundChange:
		if a.rcs[m.Rnd] == nil {
			a.rcs[m.Rnd] = map[int64][]*Msg{}
		}
		f := m.Flat()
		a.rcs[m.Rnd][m.Src] = append(a.rcs[m.Rnd][m.Src], f)
		a.rcJust[f.ID] = m.Just
	case qbft.MsgDecided:
		a.decided = append(a.decided, m)
	}
}

// Observe records an honest broadcast (and the authentic messages it carries).
func (a *Adversary) Observe(m *Msg) {
	a.honest = append(a.honest, m)
	a.index(m)
	for _, j := range m.Just {
		a.index(j.(*Msg))
	}
}

func (a *Adversary) mk(typ qbft.MsgType, src, round, val, pr, pv int64, just []QMsg) *Msg {
	m := &Msg{ID: a.sim.NewMsgID(), Typ: typ, Inst: a.Inst, Src: src, Rnd: round, Val: val, PR: pr, PV: pv, Just: just, Byz: true}
	a.index(m)

	return m
}

func (a *Adversary) byzID() int64 { return a.Byz[a.Rng.Intn(len(a.Byz))] }

func (a *Adversary) value() int64 { return a.Values[a.Rng.Intn(len(a.Values))] }

// targets returns a random non-empty subset of honest processes that can receive now.
func (a *Adversary) targets(r *Runner) []int64 {
	var can []int64
	for _, id := range r.S.Cfg.Honest {
		if r.S.Procs[id].CanReceive() {
			can = append(can, id)
		}
	}
	if len(can) == 0 {
		return nil
	}
	a.Rng.Shuffle(len(can), func(i, j int) { can[i], can[j] = can[j], can[i] })
	k := 1 + a.Rng.Intn(len(can))

	return can[:k]
}

// prepareQuorum returns quorum-many PREPAREs for (pr,pv) from distinct sources using observed
// honest ones plus own fabrications, or nil when even with all Byzantine ids there are too few.
func (a *Adversary) prepareQuorum(pr, pv int64, allowShort bool) []QMsg {
	have := map[int64]*Msg{}
	for s, m := range a.prepares[rv{pr, pv}] {
		have[s] = m
	}
	for _, b := range a.Byz {
		if have[b] == nil {
			have[b] = a.mk(qbft.MsgPrepare, b, pr, pv, 0, 0, nil).Flat()
		}
	}
	if len(have) < Quorum(a.N) && !allowShort {
		return nil
	}
	var srcs []int64
	for s := range have {
		srcs = append(srcs, s)
	}
	sort.Slice(srcs, func(i, j int) bool { return srcs[i] < srcs[j] })
	var out []QMsg
	for _, s := range srcs {
		out = append(out, have[s])
	}

	return out
}

// knownPrepared lists (pr,pv) pairs for which a PREPARE quorum can be assembled.
func (a *Adversary) knownPrepared() []rv {
	var out []rv
	for k, m := range a.prepares {
		cnt := len(m)
		for _, b := range a.Byz {
			if m[b] == nil {
				cnt++
			}
		}
		if cnt >= Quorum(a.N) && k.v != 0 && k.r > 0 {
			out = append(out, k)
		}
	}
	sort.Slice(out, func(i, j int) bool { return out[i].r < out[j].r || (out[i].r == out[j].r && out[i].v < out[j].v) })

	return out
}

// roundChange fabricates a ROUND-CHANGE for round from a Byzantine id; honest=true builds a
// properly justified one (null or a real prepared claim), otherwise a forged/malformed claim.
func (a *Adversary) roundChange(src, round int64, wellFormed bool) *Msg {
	kp := a.knownPrepared()
	if wellFormed {
		if len(kp) == 0 || a.Rng.Intn(2) == 0 {
			return a.mk(qbft.MsgRoundChange, src, round, 0, 0, 0, nil)
		}
		k := kp[a.Rng.Intn(len(kp))]

		return a.mk(qbft.MsgRoundChange, src, round, 0, k.r, k.v, a.prepareQuorum(k.r, k.v, false))
	}
	// forged prepared-claims
	switch a.Rng.Intn(5) {
	case 0: // claim without any justification
		return a.mk(qbft.MsgRoundChange, src, round, 0, 1+a.Rng.Int63n(round+1), a.value(), nil)
	case 1: // too few prepares (only own + whatever exists, short of quorum allowed)
		pr, pv := 1+a.Rng.Int63n(round+1), a.value()
		j := a.prepareQuorum(pr, pv, true)
		if len(j) > 1 {
			j = j[:len(j)-1]
		}

		return a.mk(qbft.MsgRoundChange, src, round, 0, pr, pv, j)
	case 2: // duplicated sources to reach the quorum size
		pr, pv := 1+a.Rng.Int63n(round+1), a.value()
		var j []QMsg
		for len(j) < Quorum(a.N) {
			j = append(j, a.mk(qbft.MsgPrepare, src, pr, pv, 0, 0, nil).Flat())
		}

		return a.mk(qbft.MsgRoundChange, src, round, 0, pr, pv, j)
	case 3: // prepares for another value / round than claimed
		if len(kp) > 0 {
			k := kp[a.Rng.Intn(len(kp))]
			return a.mk(qbft.MsgRoundChange, src, round, 0, k.r+a.Rng.Int63n(2), a.value(), a.prepareQuorum(k.r, k.v, false))
		}

		return a.mk(qbft.MsgRoundChange, src, round, 0, 0, a.value(), nil)
	default: // mixed values inside the justification
		pr := 1 + a.Rng.Int63n(round+1)
		var j []QMsg
		for i := 0; i < a.N; i++ {
			s := int64(i)
			if !a.isByz(s) {
				continue
			}
			j = append(j, a.mk(qbft.MsgPrepare, s, pr, a.value(), 0, 0, nil).Flat())
		}
		for _, m := range a.prepares[rv{pr, a.value()}] {
			j = append(j, m)
		}

		return a.mk(qbft.MsgRoundChange, src, round, 0, pr, a.value(), j)
	}
}

// prePrepare fabricates a PRE-PREPARE for a round led by a Byzantine id.
func (a *Adversary) prePrepare(leader, round int64, wellFormed bool) *Msg {
	if round == 1 {
		return a.mk(qbft.MsgPrePrepare, leader, 1, a.value(), 0, 0, []QMsg{})
	}
	// collect ROUND-CHANGEs for this round: observed honest ones (a random subset) + own
	var qrc []*Msg
	var honestSrcs []int64
	for s := range a.rcs[round] {
		if !a.isByz(s) {
			honestSrcs = append(honestSrcs, s)
		}
	}
	sort.Slice(honestSrcs, func(i, j int) bool { return honestSrcs[i] < honestSrcs[j] })
	a.Rng.Shuffle(len(honestSrcs), func(i, j int) { honestSrcs[i], honestSrcs[j] = honestSrcs[j], honestSrcs[i] })
	need := Quorum(a.N) - len(a.Byz)
	if need < 0 {
		need = 0
	}
	take := need
	if a.Rng.Intn(3) == 0 {
		take = len(honestSrcs)
	}
	for i, s := range honestSrcs {
		if i >= take {
			break
		}
		l := a.rcs[round][s]
		qrc = append(qrc, l[a.Rng.Intn(len(l))])
	}
	for _, b := range a.Byz {
		qrc = append(qrc, a.roundChange(b, round, true).Flat())
	}
	if len(qrc) < Quorum(a.N) && wellFormed {
		return nil
	}
	// highest prepared among chosen
	var hpr, hpv int64
	var hmsg *Msg
	for _, rc := range qrc {
		if rc.PR > hpr {
			hpr, hpv, hmsg = rc.PR, rc.PV, rc
		}
	}
	just := make([]QMsg, 0, len(qrc)+a.N)
	for _, rc := range qrc {
		just = append(just, rc)
	}
	val := a.value()
	if !wellFormed && round > 1 && a.Rng.Intn(4) == 0 {
		// Self-made prepared claim: the leader's own ROUND-CHANGE claims (p, B) with p at least as high as
		// every prepared round among the chosen ones, "proved" by its own PREPARE(p, B) repeated a quorum
		// of times (duplicate votes of one source), optionally mixed with the coalition's PREPAREs.
		a.StratCount["pp-forged/self-prepared-claim-duplicate-votes"]++
		p := hpr
		if p == 0 || (p+1 < round && a.Rng.Intn(2) == 0) {
			p++
		}
		b := val
		for i := 0; i < 4 && b == hpv; i++ {
			b = a.value()
		}
		just = just[:0]
		for _, rc := range qrc {
			if rc.Src == leader {
				continue
			}
			just = append(just, rc)
		}
		just = append(just, a.mk(qbft.MsgRoundChange, leader, round, 0, p, b, nil).Flat())
		var votes []QMsg
		if a.Rng.Intn(2) == 0 {
			for _, bz := range a.Byz {
				votes = append(votes, a.mk(qbft.MsgPrepare, bz, p, b, 0, 0, nil).Flat())
			}
		}
		own := a.mk(qbft.MsgPrepare, leader, p, b, 0, 0, nil).Flat()
		for len(votes) < Quorum(a.N) {
			votes = append(votes, own)
		}
		just = append(just, votes...)

		return a.mk(qbft.MsgPrePrepare, leader, round, b, 0, 0, just)
	}
	if hpr > 0 {
		var prepares []QMsg
		if oj := a.rcJust[hmsg.ID]; len(oj) > 0 {
			prepares = oj
		} else {
			prepares = a.prepareQuorum(hpr, hpv, true)
		}
		if wellFormed {
			val = hpv
			just = append(just, prepares...)
		} else {
			switch a.Rng.Intn(3) {
			case 0: // "forget" the prepared value: propose another one with the prepares attached
				just = append(just, prepares...)
			case 1: // drop the prepares
			default: // justify a lower prepared round although a higher one is present
				for _, rc := range qrc {
					if rc.PR > 0 && rc.PR < hpr {
						val = rc.PV
						just = append(just, a.prepareQuorum(rc.PR, rc.PV, true)...)
						break
					}
				}
			}
		}
	} else if !wellFormed && a.Rng.Intn(2) == 0 {
		val = 0 // zero value proposal
	}

	return a.mk(qbft.MsgPrePrepare, leader, round, val, 0, 0, just)
}

// prePrepareLowest builds the well-formed proposal most dangerous to a decided value: a quorum of
// ROUND-CHANGEs made of the coalition's own null ones plus the observed honest ones that report the
// lowest prepared rounds, proposing the value prepared highest among those.
func (a *Adversary) prePrepareLowest(leader, round int64) *Msg {
	var cands []*Msg
	for s, l := range a.rcs[round] {
		if a.isByz(s) {
			continue
		}
		best := l[0]
		for _, m := range l {
			if m.PR < best.PR {
				best = m
			}
		}
		cands = append(cands, best)
	}
	sort.Slice(cands, func(i, j int) bool {
		if cands[i].PR != cands[j].PR {
			return cands[i].PR < cands[j].PR
		}

		return cands[i].Src < cands[j].Src
	})
	need := Quorum(a.N) - len(a.Byz)
	if len(cands) < need {
		return nil
	}
	var qrc []*Msg
	qrc = append(qrc, cands[:need]...)
	for _, b := range a.Byz {
		qrc = append(qrc, a.mk(qbft.MsgRoundChange, b, round, 0, 0, 0, nil).Flat())
	}
	var hmsg *Msg
	just := make([]QMsg, 0, len(qrc)+a.N)
	for _, rc := range qrc {
		just = append(just, rc)
		if rc.PR > 0 && (hmsg == nil || rc.PR > hmsg.PR) {
			hmsg = rc
		}
	}
	val := a.value()
	if hmsg != nil {
		val = hmsg.PV
		if oj := a.rcJust[hmsg.ID]; len(oj) > 0 {
			just = append(just, oj...)
		} else {
			just = append(just, a.prepareQuorum(hmsg.PR, hmsg.PV, true)...)
		}
	}

	return a.mk(qbft.MsgPrePrepare, leader, round, val, 0, 0, just)
}

// decidedMsg fabricates a DECIDED.
func (a *Adversary) decidedMsg(src int64, wellFormed bool) *Msg {
	var keys []rv
	for k := range a.commits {
		keys = append(keys, k)
	}
	sort.Slice(keys, func(i, j int) bool { return keys[i].r < keys[j].r || (keys[i].r == keys[j].r && keys[i].v < keys[j].v) })
	if len(keys) == 0 {
		keys = append(keys, rv{1 + a.Rng.Int63n(3), a.value()})
	}
	k := keys[a.Rng.Intn(len(keys))]
	have := map[int64]*Msg{}
	for s, m := range a.commits[k] {
		have[s] = m
	}
	for _, b := range a.Byz {
		if have[b] == nil {
			have[b] = a.mk(qbft.MsgCommit, b, k.r, k.v, 0, 0, nil).Flat()
		}
	}
	var just []QMsg
	var srcs []int64
	for s := range have {
		srcs = append(srcs, s)
	}
	sort.Slice(srcs, func(i, j int) bool { return srcs[i] < srcs[j] })
	for _, s := range srcs {
		just = append(just, have[s])
	}
	if wellFormed {
		return a.mk(qbft.MsgDecided, src, k.r, k.v, 0, 0, just)
	}
	switch a.Rng.Intn(5) {
	case 0: // pad with duplicated sources
		for len(just) < Quorum(a.N) {
			just = append(just, a.mk(qbft.MsgCommit, src, k.r, k.v, 0, 0, nil).Flat())
		}

		return a.mk(qbft.MsgDecided, src, k.r, k.v, 0, 0, just)
	case 1: // commits of another value / round
		return a.mk(qbft.MsgDecided, src, k.r, a.value(), 0, 0, just)
	case 2: // zero value backed by own commits only
		var j []QMsg
		for _, b := range a.Byz {
			j = append(j, a.mk(qbft.MsgCommit, b, k.r, 0, 0, 0, nil).Flat())
		}

		return a.mk(qbft.MsgDecided, src, k.r, 0, 0, 0, j)
	case 3: // mixed rounds
		var j []QMsg
		for kk, m := range a.commits {
			if kk.v == k.v {
				for _, c := range m {
					j = append(j, c)
				}
			}
		}

		return a.mk(qbft.MsgDecided, src, k.r, k.v, 0, 0, j)
	default: // prepares instead of commits
		return a.mk(qbft.MsgDecided, src, k.r, k.v, 0, 0, a.prepareQuorum(k.r, k.v, true))
	}
}

// Act performs one adversarial step.
func (a *Adversary) Act(r *Runner) {
	tg := a.targets(r)
	if len(tg) == 0 {
		return
	}
	strat := []string{"pp", "pp", "votes", "votes", "votes", "rc", "rc-forged", "pp-forged", "decided", "decided-forged", "replay", "replay-rejust", "garbage", "pp-nonleader", "pp-nonleader"}[a.Rng.Intn(15)]
	a.StratCount[strat]++
	switch strat {
	case "pp", "pp-forged":
		// a round led by a Byzantine id, near the honest processes' current rounds
		base := r.S.Procs[tg[0]].Round
		for d := int64(0); d < int64(a.N)+1; d++ {
			round := base + d
			l := Leader(a.Inst, round, a.N)
			if !a.isByz(l) {
				continue
			}
			// equivocate: different proposals to different targets
			for _, id := range tg {
				if m := a.prePrepare(l, round, strat == "pp"); m != nil {
					r.Inject(id, m)
				}
			}

			break
		}
	case "pp-nonleader":
		// a proposal for the targets' current or next round from a coalition member that does NOT lead
		// that round, carrying a value of the coalition's own, without justification, backed by the
		// coalition's votes (only the designated leader's proposal may ever be acted on, also right after
		// a failed comparison, when the next round's proposal needs no justification)
		round := r.S.Procs[tg[0]].Round + a.Rng.Int63n(2)
		l := Leader(a.Inst, round, a.N)
		src := int64(-1)
		for _, b := range a.Byz {
			if b != l {
				src = b
			}
		}
		if src < 0 {
			return
		}
		val := a.Values[a.Rng.Intn(2)] // 91 / 92: values no honest member holds
		pp := a.mk(qbft.MsgPrePrepare, src, round, val, 0, 0, nil)
		for _, id := range tg {
			r.Inject(id, pp)
			for _, b := range a.Byz {
				r.Inject(id, a.mk(qbft.MsgPrepare, b, round, val, 0, 0, nil))
				r.Inject(id, a.mk(qbft.MsgCommit, b, round, val, 0, 0, nil))
			}
		}
	case "votes":
		// vote for every value some PRE-PREPARE carried in the targets' current rounds (both PREPARE and COMMIT)
		for _, id := range tg {
			round := r.S.Procs[id].Round
			vals := map[int64]bool{}
			for _, pp := range a.pps[round] {
				vals[pp.Val] = true
			}
			for k := range a.prepares {
				if k.r == round {
					vals[k.v] = true
				}
			}
			if len(vals) == 0 || a.Rng.Intn(6) == 0 {
				vals[a.value()] = true
			}
			var vs []int64
			for v := range vals {
				vs = append(vs, v)
			}
			sort.Slice(vs, func(i, j int) bool { return vs[i] < vs[j] })
			for _, v := range vs {
				for _, b := range a.Byz {
					if a.Rng.Intn(2) == 0 {
						r.Inject(id, a.mk(qbft.MsgPrepare, b, round, v, 0, 0, nil))
					}
					if a.Rng.Intn(2) == 0 {
						r.Inject(id, a.mk(qbft.MsgCommit, b, round, v, 0, 0, nil))
					}
				}
			}
		}
	case "rc", "rc-forged":
		for _, id := range tg {
			round := r.S.Procs[id].Round + a.Rng.Int63n(3)
			r.Inject(id, a.roundChange(a.byzID(), round, strat == "rc"))
		}
	case "decided", "decided-forged":
		m := a.decidedMsg(a.byzID(), strat == "decided")
		for _, id := range tg {
			r.Inject(id, m)
		}
	case "replay", "replay-rejust":
		if len(a.honest) == 0 {
			return
		}
		m := a.honest[a.Rng.Intn(len(a.honest))]
		if strat == "replay-rejust" {
			c := *m
			c.ID = a.sim.NewMsgID()
			// another list of authentic messages as justification (drop some / borrow from another message)
			o := a.honest[a.Rng.Intn(len(a.honest))]
			switch a.Rng.Intn(3) {
			case 0:
				c.Just = nil
			case 1:
				c.Just = o.Just
			default:
				if len(c.Just) > 1 {
					c.Just = c.Just[:len(c.Just)-1]
				}
			}
			m = &c
		}
		for _, id := range tg {
			r.Inject(id, m)
		}
	default: // garbage: random well-typed message from a Byzantine id
		typ := qbft.MsgType(1 + a.Rng.Intn(5))
		round := 1 + a.Rng.Int63n(r.S.Procs[tg[0]].Round+2)
		var just []QMsg
		if a.Rng.Intn(2) == 0 && len(a.honest) > 0 {
			for i := 0; i < 1+a.Rng.Intn(a.N); i++ {
				just = append(just, a.honest[a.Rng.Intn(len(a.honest))].Flat())
			}
		}
		m := a.mk(typ, a.byzID(), round, a.value()*int64(a.Rng.Intn(2)), a.Rng.Int63n(round+1), a.value()*int64(a.Rng.Intn(2)), just)
		for _, id := range tg {
			r.Inject(id, m)
		}
	}
}
