// Package qbftsim drives the real core/qbft.Run deterministically: every process runs the
// production algorithm in its own goroutine, but its Receive, input-value, compare-source and
// round-timer channels are unbuffered and owned by ONE scheduler goroutine, so a process advances
// only when the scheduler hands it exactly one event. After each event the scheduler sends an
// inert barrier message; completion of that send proves the previous event was fully handled.
// Round timers are created by the real timer.RoundTimer implementations on a virtual clock, so
// durations come from production code and ordering from the scheduler. See DESIGN §4.2.
package qbftsim

import (
	"context"
	"errors"
	"fmt"
	"sync"
	"time"

	"github.com/jonboulle/clockwork"

	"github.com/obolnetwork/charon/core"
	"github.com/obolnetwork/charon/core/consensus/timer"
	"github.com/obolnetwork/charon/core/qbft"
)

// QMsg is the qbft message interface instantiated for the simulator (instance, value and compare
// value are all int64).
type QMsg = qbft.Msg[int64, int64, int64]

// BarrierSource is the reserved source id of barrier messages.
const BarrierSource = int64(1 << 40)

// Msg is the simulator's message implementation.
type Msg struct {
	ID   int
	Typ  qbft.MsgType
	Inst int64
	Src  int64
	Rnd  int64
	Val  int64
	PR   int64
	PV   int64
	Just []QMsg // flat: justifications never carry justifications (as on the production wire)
	Byz  bool   // fabricated by the adversary (source is a Byzantine id)
}

func (m *Msg) Type() qbft.MsgType          { return m.Typ }
func (m *Msg) Instance() int64             { return m.Inst }
func (m *Msg) Source() int64               { return m.Src }
func (m *Msg) Round() int64                { return m.Rnd }
func (m *Msg) Value() int64                { return m.Val }
func (m *Msg) ValueSource() (int64, error) { return m.Val, nil }
func (m *Msg) PreparedRound() int64        { return m.PR }
func (m *Msg) PreparedValue() int64        { return m.PV }
func (m *Msg) Justification() []QMsg       { return m.Just }

// String renders a compact description.
func (m *Msg) String() string {
	s := fmt.Sprintf("#%d %s src=%d r=%d v=%d", m.ID, m.Typ, m.Src, m.Rnd, m.Val)
	if m.Typ == qbft.MsgRoundChange {
		s += fmt.Sprintf(" pr=%d pv=%d", m.PR, m.PV)
	}
	if len(m.Just) > 0 {
		s += " just=["
		for i, j := range m.Just {
			if i > 0 {
				s += " "
			}
			jm := j.(*Msg)
			s += fmt.Sprintf("%s/%d/r%d/v%d", shortType(jm.Typ), jm.Src, jm.Rnd, jm.Val)
			if jm.Typ == qbft.MsgRoundChange {
				s += fmt.Sprintf("/pr%d/pv%d", jm.PR, jm.PV)
			}
		}
		s += "]"
	}
	if m.Byz {
		s += " BYZ"
	}

	return s
}

func shortType(t qbft.MsgType) string {
	switch t {
	case qbft.MsgPrePrepare:
		return "PP"
	case qbft.MsgPrepare:
		return "P"
	case qbft.MsgCommit:
		return "C"
	case qbft.MsgRoundChange:
		return "RC"
	case qbft.MsgDecided:
		return "D"
	default:
		return fmt.Sprintf("T%d", int64(t))
	}
}

// Flat returns a copy of m without justification (how a message appears inside a justification).
func (m *Msg) Flat() *Msg {
	c := *m
	c.Just = nil

	return &c
}

// Decision is one Decide callback.
type Decision struct {
	Proc    int64
	Value   int64
	Round   int64
	QCommit []*Msg
	Step    int
	At      time.Duration // virtual time
}

// UponEvent is one LogUponRule callback.
type UponEvent struct {
	Proc  int64
	Round int64
	Rule  qbft.UponRule
	MsgID int
}

// Unjust is one LogUnjust callback.
type Unjust struct {
	Proc int64
	Msg  *Msg
	Step int
}

// Config describes one simulated instance.
type Config struct {
	N         int
	Instance  int64
	FIFOLimit int
	// Honest lists the ids that run the real algorithm (others are Byzantine or absent).
	Honest []int64
	// TimerKind selects the production round timer: "inc", "eager", "linear".
	TimerKind string
	// Duty is handed to the round timer constructors.
	Duty core.Duty
	// NeedsSource: process blocks in Compare until its local value source is delivered.
	NeedsSource map[int64]bool
	// CompareFail: Compare reports a mismatch for (process, proposed value).
	CompareFail func(proc, value int64) bool
	// SrcPreloaded: the process's local compare source is already waiting in its (buffered) source
	// channel when the instance starts — production's common case: the local attestation data was
	// fetched before the leader's proposal arrives. Compare then returns the value and its verdict
	// back to back without blocking.
	SrcPreloaded map[int64]int64
}

// Leader is the simulator's leader function (mirrors production: (slot+type+round) mod n).
func Leader(instance, round int64, n int) int64 {
	return (instance + round) % int64(n)
}

type simTimer struct {
	deadline time.Duration
	ch       chan time.Time
	stopped  bool
	fired    bool
	round    int64
}

func (t *simTimer) Chan() <-chan time.Time   { return t.ch }
func (t *simTimer) Reset(time.Duration) bool { panic("simTimer.Reset not supported") }
func (t *simTimer) Stop() bool               { was := !t.stopped && !t.fired; t.stopped = true; return was }

// procClock is the clockwork.Clock given to a process's round timer.
type procClock struct {
	clockwork.Clock // nil: unimplemented methods panic
	s               *Sim
	p               *Proc
}

func (c procClock) Now() time.Time { return c.s.epoch.Add(c.s.now) }

func (c procClock) NewTimer(d time.Duration) clockwork.Timer {
	t := &simTimer{deadline: c.s.now + d, ch: make(chan time.Time)}
	c.p.timer = t
	c.p.timersCreated++

	return t
}

// Proc is one simulated honest process.
type Proc struct {
	ID int64

	recv     chan QMsg
	input    chan int64
	inputSrc chan int64
	done     chan struct{}
	blocked  chan struct{} // Compare signals that it blocks waiting for the local source
	cancel   context.CancelFunc

	Started         bool
	Exited          bool
	ExitErr         error
	Panic           any
	InputGiven      bool
	SrcGiven        bool
	CompareBlocked  bool
	Crashed         bool
	Round           int64
	Decisions       []*Decision
	SentAfterDecide []*Msg

	timer         *simTimer
	timersCreated int
	rt            timer.RoundTimer
}

// Decided reports whether the process decided.
func (p *Proc) Decided() bool { return len(p.Decisions) > 0 }

// CanReceive reports whether a message/timer/input event can be handed to the process now.
func (p *Proc) CanReceive() bool { return p.Started && !p.Exited && !p.CompareBlocked }

// TimerArmed reports whether the process has a live round timer, and its virtual deadline.
func (p *Proc) TimerArmed() (time.Duration, bool) {
	if p.timer == nil || p.timer.stopped || p.timer.fired || p.Exited || !p.Started {
		return 0, false
	}

	return p.timer.deadline, true
}

// Sim is one simulated consensus instance.
type Sim struct {
	Cfg   Config
	Procs map[int64]*Proc

	epoch time.Time
	now   time.Duration // virtual time, scheduler-owned

	mu       sync.Mutex // guards the fields below (written from process goroutines during an event)
	outbox   []*Msg
	nextID   int
	Sent     []*Msg // every message honest processes broadcast, in order
	Upon     []UponEvent
	Unjusts  []Unjust
	Steps    int
	curProc  int64
	RuleSeen map[qbft.UponRule]int
	// Compares counts Compare invocations, CompareWaits those that had to wait for the local source.
	Compares, CompareWaits int
	MaxRound               int64

	ctx    context.Context
	cancel context.CancelFunc
}

// New creates the instance; processes are created but not started.
func New(cfg Config) *Sim {
	ctx, cancel := context.WithCancel(context.Background())
	s := &Sim{
		Cfg: cfg, Procs: map[int64]*Proc{}, epoch: time.Date(2030, 1, 1, 0, 0, 0, 0, time.UTC),
		RuleSeen: map[qbft.UponRule]int{}, ctx: ctx, cancel: cancel, nextID: 1,
	}
	for _, id := range cfg.Honest {
		p := &Proc{
			ID: id, recv: make(chan QMsg), input: make(chan int64), inputSrc: make(chan int64),
			done: make(chan struct{}), blocked: make(chan struct{}), Round: 1,
		}
		if v, ok := cfg.SrcPreloaded[id]; ok {
			p.inputSrc = make(chan int64, 1)
			p.inputSrc <- v
			p.SrcGiven = true
		}
		clk := procClock{s: s, p: p}
		switch cfg.TimerKind {
		case "eager":
			// As production wires it (timer.GetRoundTimerFunc): deadlines are anchored to the duty's
			// start (genesis + slot + duty delay), which the simulation places at virtual time 0.
			const slotDuration = 12 * time.Second
			delay := time.Duration(0)
			switch cfg.Duty.Type {
			case core.DutyAttester:
				delay = slotDuration / 3
			case core.DutyAggregator, core.DutySyncContribution:
				delay = 2 * slotDuration / 3
			}
			genesis := s.epoch.Add(-slotDuration*time.Duration(cfg.Duty.Slot) - delay)
			p.rt = timer.NewDoubleEagerLinearRoundTimerWithDutyTimingAndClock(cfg.Duty, genesis, slotDuration, clk)
		case "eager-unanchored":
			p.rt = timer.NewDoubleEagerLinearRoundTimerWithDutyAndClock(cfg.Duty, clk)
		case "linear":
			p.rt = timer.NewLinearRoundTimerWithDutyAndClock(cfg.Duty, clk)
		default:
			p.rt = timer.NewIncreasingRoundTimerWithDutyAndClock(cfg.Duty, clk)
		}
		s.Procs[id] = p
	}

	return s
}

// Now returns the virtual time.
func (s *Sim) Now() time.Duration { return s.now }

// AdvanceTo moves virtual time forward (never backwards).
func (s *Sim) AdvanceTo(t time.Duration) {
	if t > s.now {
		s.now = t
	}
}

// NewMsgID allocates a message id (for adversary fabricated messages).
func (s *Sim) NewMsgID() int {
	s.mu.Lock()
	defer s.mu.Unlock()
	id := s.nextID
	s.nextID++

	return id
}

func (s *Sim) definition(p *Proc) qbft.Definition[int64, int64, int64] {
	n := s.Cfg.N

	return qbft.Definition[int64, int64, int64]{
		IsLeader: func(instance, round, process int64) bool { return Leader(instance, round, n) == process },
		NewTimer: func(round int64) (<-chan time.Time, func()) {
			ch, stop := p.rt.Timer(round)
			if p.timer != nil {
				p.timer.round = round
			}

			return ch, stop
		},
		Compare: func(ctx context.Context, qcommit QMsg, srcCh <-chan int64, src int64, retErr chan error, retVal chan int64) {
			s.mu.Lock()
			s.Compares++
			s.mu.Unlock()
			if src == 0 && s.Cfg.NeedsSource[p.ID] {
				select {
				case src = <-srcCh: // already available: value and verdict go back to back
					retVal <- src
				default:
				}
			}
			if src == 0 && s.Cfg.NeedsSource[p.ID] {
				s.mu.Lock()
				s.CompareWaits++
				s.mu.Unlock()
				select {
				case p.blocked <- struct{}{}:
				case <-ctx.Done():
					retErr <- errors.New("timeout on waiting for local value")
					return
				}
				select {
				case <-ctx.Done():
					retErr <- errors.New("timeout on waiting for local value")
					return
				case src = <-srcCh:
					retVal <- src
				}
			}
			if s.Cfg.CompareFail != nil && s.Cfg.CompareFail(p.ID, qcommit.Value()) {
				retErr <- errors.New("leader value differs from local value")
				return
			}
			retErr <- nil
		},
		Decide: func(_ context.Context, _ int64, value int64, round int64, qcommit []QMsg) {
			d := &Decision{Proc: p.ID, Value: value, Round: round, At: s.now}
			for _, q := range qcommit {
				if m, ok := q.(*Msg); ok {
					d.QCommit = append(d.QCommit, m)
				}
			}
			s.mu.Lock()
			d.Step = s.Steps
			p.Decisions = append(p.Decisions, d)
			s.mu.Unlock()
		},
		LogUponRule: func(_ context.Context, _ int64, process, round int64, msg QMsg, rule qbft.UponRule) {
			s.mu.Lock()
			id := 0
			if m, ok := msg.(*Msg); ok {
				id = m.ID
			}
			s.Upon = append(s.Upon, UponEvent{Proc: process, Round: round, Rule: rule, MsgID: id})
			s.RuleSeen[rule]++
			s.mu.Unlock()
		},
		LogRoundChange: func(_ context.Context, _ int64, process, _, newRound int64, rule qbft.UponRule, _ []QMsg) {
			s.mu.Lock()
			p.Round = newRound
			if newRound > s.MaxRound {
				s.MaxRound = newRound
			}
			if rule == qbft.UponRoundTimeout {
				s.RuleSeen[rule]++
			}
			s.mu.Unlock()
		},
		LogUnjust: func(_ context.Context, _ int64, process int64, msg QMsg) {
			m, _ := msg.(*Msg)
			s.mu.Lock()
			s.Unjusts = append(s.Unjusts, Unjust{Proc: process, Msg: m, Step: s.Steps})
			s.mu.Unlock()
		},
		Nodes:     n,
		FIFOLimit: s.Cfg.FIFOLimit,
	}
}

func (s *Sim) transport(p *Proc) qbft.Transport[int64, int64, int64] {
	return qbft.Transport[int64, int64, int64]{
		Broadcast: func(_ context.Context, typ qbft.MsgType, instance, source, round, value, pr, pv int64, just []QMsg) error {
			m := &Msg{Typ: typ, Inst: instance, Src: source, Rnd: round, Val: value, PR: pr, PV: pv}
			for _, j := range just {
				jm, ok := j.(*Msg)
				if !ok {
					return errors.New("invalid justification")
				}
				m.Just = append(m.Just, jm.Flat()) // nested justifications are ignored on the wire
			}
			s.mu.Lock()
			m.ID = s.nextID
			s.nextID++
			s.outbox = append(s.outbox, m)
			s.Sent = append(s.Sent, m)
			if len(p.Decisions) > 0 {
				p.SentAfterDecide = append(p.SentAfterDecide, m)
			}
			s.mu.Unlock()

			return nil
		},
		Receive: p.recv,
	}
}

// TakeOutbox returns the messages broadcast by honest processes since the last call.
func (s *Sim) TakeOutbox() []*Msg {
	s.mu.Lock()
	defer s.mu.Unlock()
	out := s.outbox
	s.outbox = nil

	return out
}

var barrier = &Msg{Typ: qbft.MsgCommit, Src: BarrierSource, Rnd: -1}

// sync waits until p has fully handled the previous event: either it is back in its main select
// (the barrier message is taken), blocked inside Compare waiting for its local source, or gone.
func (s *Sim) sync(p *Proc) {
	select {
	case p.recv <- barrier:
		p.CompareBlocked = false
	case <-p.blocked:
		p.CompareBlocked = true
	case <-p.done:
		p.Exited = true
	}
	s.mu.Lock()
	s.Steps++
	s.mu.Unlock()
}

// Start launches the process goroutine and waits until it reached its event loop.
func (s *Sim) Start(id int64) {
	p := s.Procs[id]
	if p.Started {
		return
	}
	p.Started = true
	ctx, cancel := context.WithCancel(s.ctx)
	p.cancel = cancel
	def, tr := s.definition(p), s.transport(p)
	go func() {
		defer close(p.done)
		defer func() {
			if r := recover(); r != nil {
				p.Panic = r
			}
		}()
		p.ExitErr = qbft.Run(ctx, def, tr, s.Cfg.Instance, p.ID, p.input, p.inputSrc)
	}()
	s.sync(p)
}

// Deliver hands message m to process id.
func (s *Sim) Deliver(id int64, m *Msg) bool {
	p := s.Procs[id]
	if p == nil || !p.CanReceive() {
		return false
	}
	select {
	case p.recv <- m:
	case <-p.done:
		p.Exited = true
		return false
	}
	s.sync(p)

	return true
}

// GiveInput delivers the process's own proposal value.
func (s *Sim) GiveInput(id, value int64) bool {
	p := s.Procs[id]
	if p == nil || !p.CanReceive() || p.InputGiven {
		return false
	}
	select {
	case p.input <- value:
		p.InputGiven = true
	case <-p.done:
		p.Exited = true
		return false
	}
	s.sync(p)

	return true
}

// GiveSource delivers the local compare source to a process blocked in Compare.
func (s *Sim) GiveSource(id, value int64) bool {
	p := s.Procs[id]
	if p == nil || !p.Started || p.Exited || !p.CompareBlocked || p.SrcGiven {
		return false
	}
	select {
	case p.inputSrc <- value:
		p.SrcGiven = true
	case <-p.done:
		p.Exited = true
		return false
	}
	s.sync(p)

	return true
}

// FireTimer expires the live round timer of process id (works in the main loop and inside Compare).
func (s *Sim) FireTimer(id int64) bool {
	p := s.Procs[id]
	if p == nil || !p.Started || p.Exited {
		return false
	}
	if _, ok := p.TimerArmed(); !ok {
		return false
	}
	t := p.timer
	t.fired = true // before the hand-off: the process may call Stop() as soon as it has the event
	select {
	case t.ch <- s.epoch.Add(s.now):
	case <-p.done:
		p.Exited = true
		return false
	}
	s.sync(p)

	return true
}

// Crash stops a process for good (its context is cancelled).
func (s *Sim) Crash(id int64) {
	p := s.Procs[id]
	if p == nil {
		return
	}
	p.Crashed = true
	if !p.Started {
		p.Started, p.Exited = true, true
		close(p.done)
		return
	}
	if p.Exited {
		return
	}
	p.cancel()
	<-p.done
	p.Exited = true
}

// Stop ends the simulation and waits for all process goroutines.
func (s *Sim) Stop() {
	s.cancel()
	for _, p := range s.Procs {
		if p.Started && !p.Exited {
			<-p.done
			p.Exited = true
		}
	}
}

// Quorum and Faulty mirror the production formulas independently (ceil(2n/3), floor((n-1)/3)).
func Quorum(n int) int { return (2*n + 2) / 3 }
func Faulty(n int) int { return (n - 1) / 3 }
