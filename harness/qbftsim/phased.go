package qbftsim

import (
	"github.com/obolnetwork/charon/core/qbft"
)

// RunPhased executes a round-structured omission schedule: in every round the scheduler walks
// through the phases PRE-PREPARE → PREPARE → COMMIT → (DECIDED) → timeouts → ROUND-CHANGE and, per
// phase and per receiver, draws whether that receiver gets all / some / none of the pending
// messages of that phase. Compared with the fully random explorer this reaches "prepared at some
// nodes but not committed", "decided at one node only", "leader sees only some round changes"
// states with high probability — the states in which justification bugs become agreement bugs.
// Byzantine ids act in every phase through the same strategy library.
func (r *Runner) RunPhased(maxRounds int) {
	s := r.S
	rng := r.Rng
	// start everybody (late starters join at a random later phase) and hand out inputs
	var late []int64
	for _, id := range s.Cfg.Honest {
		if rng.Intn(6) == 0 {
			late = append(late, id)
			continue
		}
		r.ev("start", id, nil)
		s.Start(id)
	}
	giveInputs := func() {
		for _, id := range s.Cfg.Honest {
			p := s.Procs[id]
			if v := r.Opt.Inputs[id]; v != 0 && p.CanReceive() && !p.InputGiven && rng.Float64() >= r.Opt.LateInputP {
				if v == zeroMarker {
					v = 0
				}
				r.ev("input", id, nil)
				s.GiveInput(id, v)
			}
		}
	}
	startLate := func() {
		var rest []int64
		for _, id := range late {
			if rng.Intn(3) == 0 {
				r.ev("start", id, nil)
				s.Start(id)
			} else {
				rest = append(rest, id)
			}
		}
		late = rest
	}
	// deliverPhase delivers pending messages of the given types according to per-receiver coins.
	deliverPhase := func(types ...qbft.MsgType) {
		r.absorb()
		isT := func(t qbft.MsgType) bool {
			for _, x := range types {
				if x == t {
					return true
				}
			}

			return false
		}
		mode := map[int64]int{} // 0 none, 1 some, 2 all
		for _, id := range s.Cfg.Honest {
			mode[id] = []int{0, 1, 2, 2, 2}[rng.Intn(5)]
		}
		// several sweeps: deliveries produce new messages of later phases only, so one sweep over
		// a shuffled snapshot is enough for this phase
		idx := rng.Perm(len(r.Pend))
		var keep []Pending
		taken := make([]bool, len(r.Pend))
		for _, i := range idx {
			pd := r.Pend[i]
			if !isT(pd.M.Typ) {
				continue
			}
			p := s.Procs[pd.To]
			if p == nil || !p.CanReceive() {
				continue
			}
			m := mode[pd.To]
			if pd.M.Src == pd.To {
				m = 2 // a node's own message is not withheld from itself for long
			}
			if m == 0 || (m == 1 && rng.Intn(2) == 0) {
				continue
			}
			taken[i] = true
			r.ev("deliver", pd.To, pd.M)
			s.Deliver(pd.To, pd.M)
		}
		for i, pd := range r.Pend {
			if !taken[i] {
				keep = append(keep, pd)
			}
		}
		// stale messages are mostly discarded so that the pool does not grow without bound
		var kept2 []Pending
		for _, pd := range keep {
			if rng.Intn(4) != 0 || len(keep) < 64 {
				kept2 = append(kept2, pd)
			}
		}
		r.Pend = kept2
		r.absorb()
	}
	advAct := func(k int) {
		if r.Opt.Adv == nil {
			return
		}
		for i := 0; i < k; i++ {
			r.Opt.Adv.Act(r)
		}
		r.absorb()
	}

	for round := 1; round <= maxRounds; round++ {
		giveInputs()
		startLate()
		giveSources := func() {
			for _, id := range s.Cfg.Honest {
				p := s.Procs[id]
				if p.CompareBlocked && !p.SrcGiven && r.Opt.Sources[id] != 0 && rng.Intn(2) == 0 {
					r.ev("source", id, nil)
					s.GiveSource(id, r.Opt.Sources[id])
				}
			}
		}
		advAct(rng.Intn(3))
		deliverPhase(qbft.MsgPrePrepare)
		giveSources()
		advAct(rng.Intn(3))
		deliverPhase(qbft.MsgPrepare)
		advAct(rng.Intn(3))
		deliverPhase(qbft.MsgCommit)
		if rng.Intn(3) == 0 {
			deliverPhase(qbft.MsgDecided)
		}
		if r.allDecided() {
			break
		}
		// timeouts: most undecided nodes move on
		for _, id := range s.Cfg.Honest {
			p := s.Procs[id]
			if _, ok := p.TimerArmed(); ok && !p.Decided() && rng.Intn(8) != 0 {
				r.ev("timer", id, nil)
				s.FireTimer(id)
			}
		}
		advAct(rng.Intn(3))
		deliverPhase(qbft.MsgRoundChange)
		if rng.Intn(2) == 0 {
			deliverPhase(qbft.MsgRoundChange, qbft.MsgDecided)
		}
	}
	r.absorb()
}
