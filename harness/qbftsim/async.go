package qbftsim

import (
	"fmt"
	"math/rand"

	"github.com/obolnetwork/charon/core/qbft"
)

// Ev is one scheduler event of the trace.
type Ev struct {
	Kind string // start,input,source,deliver,dup,drop,timer,inject,crash
	Proc int64
	Msg  *Msg
}

func (e Ev) String() string {
	if e.Msg != nil {
		return fmt.Sprintf("%s p%d <- %s", e.Kind, e.Proc, e.Msg)
	}

	return fmt.Sprintf("%s p%d", e.Kind, e.Proc)
}

// Pending is an undelivered message.
type Pending struct {
	To int64
	M  *Msg
}

// AsyncOpts parameterises the asynchronous explorer.
type AsyncOpts struct {
	MaxSteps    int
	DropP       float64 // probability an honest message to one recipient is lost
	DupP        float64 // probability it is duplicated
	TimerW      float64 // weight of "fire some armed timer" relative to one pending delivery
	InjectW     float64 // weight of a Byzantine injection
	Inputs      map[int64]int64 // own proposal per honest process (0 = never obtains one)
	LateInputP  float64         // probability an input is withheld at a given opportunity
	Sources     map[int64]int64 // compare source per process that needs it
	Partition   [][]int64       // optional two-group partition: cross-group deliveries are held while it lasts
	PartitionSt int             // partition heals after this many steps
	ExtraSteps  int             // steps to keep running after everybody decided (post-decision behaviour)
	Adv         *Adversary
}

// Runner executes one schedule.
type Runner struct {
	S     *Sim
	Rng   *rand.Rand
	Opt   AsyncOpts
	Pend  []Pending
	Trace []Ev
	Drops int
	Dups  int
	// AllPrePrepares: every PRE-PREPARE put on the wire (honest broadcast or Byzantine injection).
	AllPrePrepares []*Msg
	// ByzAccepted counts adversary messages that passed isJustified (i.e. were not reported unjust).
	Injected int
}

// NewRunner wires a runner.
func NewRunner(s *Sim, rng *rand.Rand, opt AsyncOpts) *Runner {
	return &Runner{S: s, Rng: rng, Opt: opt}
}

func (r *Runner) ev(kind string, p int64, m *Msg) { r.Trace = append(r.Trace, Ev{Kind: kind, Proc: p, Msg: m}) }

func (r *Runner) group(id int64) int {
	for gi, g := range r.Opt.Partition {
		for _, x := range g {
			if x == id {
				return gi
			}
		}
	}

	return -1
}

// absorb moves new honest broadcasts into the pending pool (applying loss / duplication).
func (r *Runner) absorb() {
	for _, m := range r.S.TakeOutbox() {
		if m.Typ == qbft.MsgPrePrepare {
			r.AllPrePrepares = append(r.AllPrePrepares, m)
		}
		if r.Opt.Adv != nil {
			r.Opt.Adv.Observe(m)
		}
		for _, id := range r.S.Cfg.Honest {
			p := r.S.Procs[id]
			if p.Crashed {
				continue
			}
			if id != m.Src && r.Rng.Float64() < r.Opt.DropP {
				r.Drops++
				r.ev("drop", id, m)
				continue
			}
			r.Pend = append(r.Pend, Pending{To: id, M: m})
			if r.Rng.Float64() < r.Opt.DupP {
				r.Dups++
				r.Pend = append(r.Pend, Pending{To: id, M: m})
			}
		}
	}
}

// Inject delivers an adversary message to target right now (the adversary owns the schedule).
func (r *Runner) Inject(target int64, m *Msg) bool {
	if m.Typ == qbft.MsgPrePrepare {
		r.AllPrePrepares = append(r.AllPrePrepares, m)
	}
	r.Injected++
	r.ev("inject", target, m)

	return r.S.Deliver(target, m)
}

func (r *Runner) allDecided() bool {
	for _, id := range r.S.Cfg.Honest {
		p := r.S.Procs[id]
		if p.Crashed {
			continue
		}
		if !p.Started || (!p.Decided() && !p.Exited) {
			return false
		}
	}

	return true
}

// Run executes the schedule until everyone decided (+ExtraSteps) or MaxSteps.
func (r *Runner) Run() {
	s := r.S
	extra := r.Opt.ExtraSteps
	for step := 0; step < r.Opt.MaxSteps; step++ {
		r.absorb()
		if r.allDecided() {
			if extra <= 0 {
				break
			}
			extra--
		}
		partitioned := len(r.Opt.Partition) > 0 && step < r.Opt.PartitionSt

		type action struct {
			kind string
			id   int64
			idx  int
			w    float64
		}
		var acts []action
		var total float64
		add := func(a action) { acts = append(acts, a); total += a.w }
		for _, id := range s.Cfg.Honest {
			p := s.Procs[id]
			if p.Crashed || p.Exited {
				continue
			}
			if !p.Started {
				add(action{kind: "start", id: id, w: 2})
				continue
			}
			if v := r.Opt.Inputs[id]; v != 0 && !p.InputGiven && p.CanReceive() && r.Rng.Float64() >= r.Opt.LateInputP {
				add(action{kind: "input", id: id, w: 3})
			}
			if p.CompareBlocked && !p.SrcGiven {
				if v := r.Opt.Sources[id]; v != 0 {
					add(action{kind: "source", id: id, w: 1})
				}
			}
			if _, ok := p.TimerArmed(); ok && !p.Decided() {
				add(action{kind: "timer", id: id, w: r.Opt.TimerW})
			}
		}
		deliverable := 0
		for i, pd := range r.Pend {
			p := s.Procs[pd.To]
			if p == nil || !p.CanReceive() {
				continue
			}
			if partitioned && pd.M.Src != pd.To && r.group(pd.M.Src) != r.group(pd.To) && r.group(pd.M.Src) >= 0 {
				continue
			}
			deliverable++
			add(action{kind: "deliver", idx: i, id: pd.To, w: 1})
		}
		if r.Opt.Adv != nil && r.Opt.InjectW > 0 {
			add(action{kind: "inject", w: r.Opt.InjectW * float64(1+deliverable/4)})
		}
		if len(acts) == 0 {
			break
		}
		x := r.Rng.Float64() * total
		var a action
		for _, c := range acts {
			if x < c.w {
				a = c
				break
			}
			x -= c.w
			a = c
		}
		switch a.kind {
		case "start":
			r.ev("start", a.id, nil)
			s.Start(a.id)
		case "input":
			r.ev("input", a.id, nil)
			v := r.Opt.Inputs[a.id]
			if v == zeroMarker {
				v = 0
			}
			s.GiveInput(a.id, v)
		case "source":
			r.ev("source", a.id, nil)
			s.GiveSource(a.id, r.Opt.Sources[a.id])
		case "timer":
			r.ev("timer", a.id, nil)
			s.FireTimer(a.id)
		case "deliver":
			pd := r.Pend[a.idx]
			r.Pend[a.idx] = r.Pend[len(r.Pend)-1]
			r.Pend = r.Pend[:len(r.Pend)-1]
			r.ev("deliver", pd.To, pd.M)
			s.Deliver(pd.To, pd.M)
		case "inject":
			r.Opt.Adv.Act(r)
		}
	}
	r.absorb()
}

// TraceStrings renders the trace for a witness.
func (r *Runner) TraceStrings(max int) []string {
	out := make([]string, 0, len(r.Trace))
	for _, e := range r.Trace {
		out = append(out, e.String())
	}
	if len(out) > max {
		out = append([]string{fmt.Sprintf("… %d earlier events omitted …", len(out)-max)}, out[len(out)-max:]...)
	}

	return out
}
