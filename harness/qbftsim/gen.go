package qbftsim

import (
	"fmt"
	"io"
	"math/rand"
	"sort"
	"testing"

	"go.uber.org/zap/zapcore"

	"github.com/obolnetwork/charon/app/log"

	"github.com/obolnetwork/charon/core"
	"github.com/obolnetwork/charon/core/qbft"
)

// CaseMeta describes a generated asynchronous/adversarial case (for evidence and witnesses).
type CaseMeta struct {
	N         int     `json:"n"`
	Instance  int64   `json:"instance"`
	Byz       []int64 `json:"byzantine"`
	Absent    []int64 `json:"absent"`
	Honest    []int64 `json:"honest"`
	Inputs    map[int64]int64 `json:"inputs"`
	ZeroInput []int64 `json:"zero_input"`
	DropP     float64 `json:"drop_p"`
	DupP      float64 `json:"dup_p"`
	TimerW    float64 `json:"timer_w"`
	InjectW   float64 `json:"inject_w"`
	FIFO      int     `json:"fifo_limit"`
	Timer     string  `json:"timer"`
	Partition [][]int64 `json:"partition,omitempty"`
	CompareFailPairs [][2]int64 `json:"compare_fail,omitempty"`
	NeedsSource []int64 `json:"needs_source,omitempty"`
	Policy    string  `json:"policy"`
}

// AsyncResult is a finished case.
type AsyncResult struct {
	Meta   CaseMeta
	Sim    *Sim
	Runner *Runner
	Adv    *Adversary
}

// RunAsyncCase generates and executes one case of the asynchronous / adversarial explorer.
func RunAsyncCase(rng *rand.Rand) *AsyncResult {
	switch rng.Intn(14) {
	case 0, 1:
		return RunLockCase(rng)
	case 2:
		return RunPartialCommitCase(rng)
	}
	ns := []int{3, 4, 4, 4, 5, 6, 7, 7}
	n := ns[rng.Intn(len(ns))]
	f := Faulty(n)
	meta := CaseMeta{N: n, Instance: rng.Int63n(40), Inputs: map[int64]int64{}}
	ids := rng.Perm(n)
	nb := 0
	if f > 0 && rng.Intn(10) < 7 {
		nb = 1 + rng.Intn(f)
	}
	for i := 0; i < nb; i++ {
		meta.Byz = append(meta.Byz, int64(ids[i]))
	}
	// some of the remaining fault budget: members that never start
	na := 0
	if f-nb > 0 && rng.Intn(4) == 0 {
		na = 1 + rng.Intn(f-nb)
	}
	for i := nb; i < nb+na; i++ {
		meta.Absent = append(meta.Absent, int64(ids[i]))
	}
	for i := nb + na; i < n; i++ {
		meta.Honest = append(meta.Honest, int64(ids[i]))
	}
	sort.Slice(meta.Honest, func(i, j int) bool { return meta.Honest[i] < meta.Honest[j] })
	nvals := 1 + rng.Intn(3)
	for _, id := range meta.Honest {
		switch x := rng.Intn(12); {
		case x == 0:
			// never obtains a proposal
		case x == 1 && len(meta.ZeroInput) == 0 && len(meta.Honest) > Quorum(n):
			meta.ZeroInput = append(meta.ZeroInput, id)
		default:
			meta.Inputs[id] = int64(11 + rng.Intn(nvals))
		}
	}
	meta.DropP = []float64{0, 0, 0.03, 0.15}[rng.Intn(4)]
	meta.DupP = []float64{0, 0.1, 0.3}[rng.Intn(3)]
	meta.TimerW = []float64{0.01, 0.05, 0.2, 1}[rng.Intn(4)]
	meta.FIFO = []int{100, 100, 8, 3}[rng.Intn(4)]
	meta.Timer = []string{"inc", "eager", "linear"}[rng.Intn(3)]
	if nb > 0 {
		meta.InjectW = []float64{0.2, 0.6, 1.5}[rng.Intn(3)]
		meta.Policy = "adversarial"
	} else {
		meta.Policy = "random-async"
	}
	if rng.Intn(3) == 0 && len(meta.Honest) >= 2 {
		cut := 1 + rng.Intn(len(meta.Honest)-1)
		sh := append([]int64(nil), meta.Honest...)
		rng.Shuffle(len(sh), func(i, j int) { sh[i], sh[j] = sh[j], sh[i] })
		meta.Partition = [][]int64{sh[:cut], sh[cut:]}
	}
	cfail := map[[2]int64]bool{}
	if x := rng.Intn(8); x == 0 {
		// wide compare failure (a chain split seen by many): a set of honest members, at least a quorum
		// minus one of them, fails the comparison for every value an honest member may propose; values
		// that only the coalition brings up (91, 92) compare fine. These members sit in the "accept the
		// next round's proposal without justification" state round after round.
		sh := append([]int64(nil), meta.Honest...)
		rng.Shuffle(len(sh), func(i, j int) { sh[i], sh[j] = sh[j], sh[i] })
		k := Quorum(n) - 1
		if k > len(sh) {
			k = len(sh)
		}
		if k < len(sh) && rng.Intn(2) == 0 {
			k += rng.Intn(len(sh) - k + 1)
		}
		for _, p := range sh[:k] {
			for v := int64(11); v < int64(11+nvals); v++ {
				cfail[[2]int64{p, v}] = true
				meta.CompareFailPairs = append(meta.CompareFailPairs, [2]int64{p, v})
			}
		}
	} else if x < 3 {
		for i := 0; i < 1+rng.Intn(3); i++ {
			pr := [2]int64{meta.Honest[rng.Intn(len(meta.Honest))], int64(11 + rng.Intn(nvals))}
			if !cfail[pr] {
				cfail[pr] = true
				meta.CompareFailPairs = append(meta.CompareFailPairs, pr)
			}
		}
	}
	needs := map[int64]bool{}
	sources := map[int64]int64{}
	if rng.Intn(5) == 0 {
		for _, id := range meta.Honest {
			if rng.Intn(3) == 0 {
				needs[id] = true
				meta.NeedsSource = append(meta.NeedsSource, id)
				if rng.Intn(4) != 0 {
					sources[id] = 7
				}
			}
		}
	}
	cfg := Config{
		N: n, Instance: meta.Instance, FIFOLimit: meta.FIFO, Honest: meta.Honest, TimerKind: meta.Timer,
		Duty:        core.Duty{Slot: uint64(meta.Instance), Type: core.DutyAttester},
		NeedsSource: needs,
		CompareFail: func(p, v int64) bool { return cfail[[2]int64{p, v}] },
	}
	s := New(cfg)
	opt := AsyncOpts{
		MaxSteps: 400 + 150*n, DropP: meta.DropP, DupP: meta.DupP, TimerW: meta.TimerW, InjectW: meta.InjectW,
		Inputs: map[int64]int64{}, LateInputP: []float64{0, 0, 0.5, 0.9}[rng.Intn(4)], Sources: sources,
		Partition: meta.Partition, PartitionSt: 30 + rng.Intn(200), ExtraSteps: rng.Intn(25),
	}
	for k, v := range meta.Inputs {
		opt.Inputs[k] = v
	}
	for _, z := range meta.ZeroInput {
		opt.Inputs[z] = zeroMarker
	}
	res := &AsyncResult{Meta: meta, Sim: s}
	if nb > 0 {
		vals := []int64{91, 92}
		for i := 0; i < nvals; i++ {
			vals = append(vals, int64(11+i))
		}
		res.Adv = NewAdversary(s, meta.Byz, vals, rand.New(rand.NewSource(rng.Int63()))) //nolint:gosec // reproducible
		opt.Adv = res.Adv
	}
	res.Runner = NewRunner(s, rng, opt)
	if rng.Intn(2) == 0 {
		res.Meta.Policy += "/phased"
		res.Runner.RunPhased(4 + rng.Intn(2*n))
	} else {
		res.Runner.Run()
	}
	s.Stop()

	return res
}

// QuietLogs silences charon's global logger (qbft logs a warning per failed compare).
func QuietLogs(t *testing.T) {
	t.Helper()
	log.InitConsoleForT(t, zapcore.AddSync(io.Discard))
}

// zeroMarker asks the runner to hand the process the zero value as its proposal.
const zeroMarker = int64(-1)

// TraceHash is a distinctness hash of the schedule.
func (a *AsyncResult) TraceHash() string {
	h := fnvNew()
	for _, e := range a.Runner.Trace {
		h.add(e.Kind)
		h.addInt(e.Proc)
		if e.Msg != nil {
			h.addInt(int64(e.Msg.Typ))
			h.addInt(e.Msg.Src)
			h.addInt(e.Msg.Rnd)
			h.addInt(e.Msg.Val)
		}
	}

	return fmt.Sprintf("%d-%016x", a.Meta.N, h.v)
}

// NonTrivial: at least one round change happened or one Byzantine message passed isJustified.
func (a *AsyncResult) NonTrivial() bool {
	if a.Sim.MaxRound > 1 {
		return true
	}

	return a.ByzAccepted() > 0
}

// ByzAccepted counts injected messages that were not rejected as unjust by their receiver.
func (a *AsyncResult) ByzAccepted() int {
	rej := 0
	for _, u := range a.Sim.Unjusts {
		if u.Msg != nil && u.Msg.Byz {
			rej++
		}
	}
	n := a.Runner.Injected - rej
	if n < 0 {
		n = 0
	}

	return n
}

// DecisionRounds returns the rounds in which honest processes decided.
func (a *AsyncResult) DecisionRounds() []int64 {
	var out []int64
	for _, id := range a.Sim.Cfg.Honest {
		for _, d := range a.Sim.Procs[id].Decisions {
			out = append(out, d.Round)
		}
	}

	return out
}

// Witness renders the case for a replay file.
func (a *AsyncResult) Witness() map[string]any {
	dec := map[string]any{}
	for _, id := range a.Sim.Cfg.Honest {
		for _, d := range a.Sim.Procs[id].Decisions {
			var qc []string
			for _, c := range d.QCommit {
				qc = append(qc, c.String())
			}
			dec[fmt.Sprint(id)] = map[string]any{"value": d.Value, "round": d.Round, "qcommit": qc}
		}
	}
	exits := map[string]string{}
	for _, id := range a.Sim.Cfg.Honest {
		p := a.Sim.Procs[id]
		if p.Panic != nil {
			exits[fmt.Sprint(id)] = fmt.Sprint("panic: ", p.Panic)
		} else if p.ExitErr != nil {
			exits[fmt.Sprint(id)] = p.ExitErr.Error()
		}
	}

	return map[string]any{"meta": a.Meta, "decisions": dec, "exits": exits, "trace": a.Runner.TraceStrings(600)}
}

type fnv struct{ v uint64 }

func fnvNew() *fnv { return &fnv{v: 14695981039346656037} }
func (f *fnv) add(s string) {
	for i := 0; i < len(s); i++ {
		f.v ^= uint64(s[i])
		f.v *= 1099511628211
	}
}
func (f *fnv) addInt(x int64) {
	for i := 0; i < 8; i++ {
		f.v ^= uint64(byte(x >> (8 * i)))
		f.v *= 1099511628211
	}
}

var _ = qbft.MsgPrepare
