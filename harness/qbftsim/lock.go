package qbftsim

import (
	"math/rand"
	"sort"

	"github.com/obolnetwork/charon/core"
	"github.com/obolnetwork/charon/core/qbft"
)

// deliverWhere delivers (and removes) every pending message matching pred, in random order.
func (r *Runner) deliverWhere(pred func(Pending) bool) int {
	r.absorb()
	idx := r.Rng.Perm(len(r.Pend))
	taken := make([]bool, len(r.Pend))
	n := 0
	for _, i := range idx {
		pd := r.Pend[i]
		p := r.S.Procs[pd.To]
		if p == nil || !p.CanReceive() || !pred(pd) {
			continue
		}
		taken[i] = true
		r.ev("deliver", pd.To, pd.M)
		r.S.Deliver(pd.To, pd.M)
		n++
	}
	var keep []Pending
	for i, pd := range r.Pend {
		if !taken[i] {
			keep = append(keep, pd)
		}
	}
	r.Pend = keep
	r.absorb()

	return n
}

func (r *Runner) dropWhere(pred func(Pending) bool) {
	r.absorb()
	var keep []Pending
	for _, pd := range r.Pend {
		if !pred(pd) {
			keep = append(keep, pd)
		}
	}
	r.Pend = keep
}

func in(xs []int64, x int64) bool {
	for _, y := range xs {
		if y == x {
			return true
		}
	}

	return false
}

// RunLockCase builds, by a directed schedule, the classic dangerous state of PBFT-style
// protocols — value v1 prepared at one node in round 1, a different value v2 prepared by the
// others and decided at exactly one node in round 2 — and then lets a Byzantine leader of round 3
// (with its whole coalition voting for everything and owning the schedule) try every forged and
// well-formed proposal it can build. Agreement must survive; the run exercises exactly the
// justification checks (highest prepared round, matching prepared value, quorum sizes, distinct
// sources) whose failure lets a leader override a decided value.
func RunLockCase(rng *rand.Rand) *AsyncResult {
	n := []int{4, 4, 7}[rng.Intn(3)]
	f := Faulty(n)
	q := Quorum(n)
	// choose instance so that leaders of rounds 1,2 are honest and leader of round 3 is Byzantine
	inst := rng.Int63n(int64(n))
	l1, l2, l3 := Leader(inst, 1, n), Leader(inst, 2, n), Leader(inst, 3, n)
	byz := []int64{l3}
	for len(byz) < f {
		c := rng.Int63n(int64(n))
		if c != l1 && c != l2 && !in(byz, c) {
			byz = append(byz, c)
		}
	}
	var honest []int64
	for i := 0; i < n; i++ {
		if !in(byz, int64(i)) {
			honest = append(honest, int64(i))
		}
	}
	meta := CaseMeta{N: n, Instance: inst, Byz: byz, Honest: honest, Inputs: map[int64]int64{}, FIFO: 100,
		Timer: []string{"inc", "eager", "linear"}[rng.Intn(3)], Policy: "lock-override"}
	for i, id := range honest {
		meta.Inputs[id] = int64(11 + i) // all different
	}
	v1, v2 := meta.Inputs[l1], meta.Inputs[l2]
	// Variant (n=7 only, where a PREPARE quorum for v2 exists without it): one of the members that
	// will commit v2 in round 2 fails its local comparison of v2 (chain-split check). It does not
	// PREPARE v2 but still sees the PREPARE quorum and COMMITs — and must still report v2 as its
	// prepared value in later ROUND-CHANGEs, otherwise a null quorum can override the decision.
	cfail := map[[2]int64]bool{}
	if n == 7 && rng.Intn(2) == 0 {
		var ys []int64
		for _, id := range honest {
			if id != l1 && id != l2 {
				ys = append(ys, id)
			}
		}
		y := ys[rng.Intn(len(ys))]
		cfail[[2]int64{y, v2}] = true
		meta.CompareFailPairs = append(meta.CompareFailPairs, [2]int64{y, v2})
		meta.Policy = "lock-override/compare-fail-committer"
	}
	cfg := Config{N: n, Instance: inst, FIFOLimit: 100, Honest: honest, TimerKind: meta.Timer,
		Duty:        core.Duty{Slot: uint64(inst), Type: core.DutyAttester},
		CompareFail: func(p, v int64) bool { return cfail[[2]int64{p, v}] }}
	s := New(cfg)
	vals := []int64{v1, v2, 91}
	adv := NewAdversary(s, byz, vals, rand.New(rand.NewSource(rng.Int63()))) //nolint:gosec // reproducible
	opt := AsyncOpts{MaxSteps: 600, Inputs: meta.Inputs, Adv: adv, InjectW: 1.5, TimerW: 0.02, DupP: 0.1, ExtraSteps: 5}
	r := NewRunner(s, rng, opt)
	res := &AsyncResult{Meta: meta, Sim: s, Runner: r, Adv: adv}

	for _, id := range honest {
		r.ev("start", id, nil)
		s.Start(id)
	}
	for _, id := range honest {
		r.ev("input", id, nil)
		s.GiveInput(id, meta.Inputs[id])
	}
	// X: the node that becomes prepared on v1 in round 1 (not the round-2 leader, not the decider)
	var cands []int64
	for _, id := range honest {
		if id != l2 {
			cands = append(cands, id)
		}
	}
	if len(meta.CompareFailPairs) > 0 {
		var c2 []int64
		for _, id := range cands {
			if id != meta.CompareFailPairs[0][0] {
				c2 = append(c2, id)
			}
		}
		cands = c2
	}
	x := cands[rng.Intn(len(cands))]
	// round 1: PRE-PREPARE(v1) reaches q-f honest nodes including X; their PREPAREs (+ Byzantine ones) reach only X
	s1 := []int64{x}
	for _, id := range honest {
		if len(s1) >= q-f {
			break
		}
		if id != x {
			s1 = append(s1, id)
		}
	}
	r.deliverWhere(func(pd Pending) bool { return pd.M.Typ == qbft.MsgPrePrepare && pd.M.Rnd == 1 && in(s1, pd.To) })
	for _, b := range byz {
		r.Inject(x, adv.mk(qbft.MsgPrepare, b, 1, v1, 0, 0, nil))
	}
	r.deliverWhere(func(pd Pending) bool { return pd.M.Typ == qbft.MsgPrepare && pd.M.Rnd == 1 && pd.To == x })
	r.dropWhere(func(pd Pending) bool { return pd.M.Rnd == 1 }) // nothing else of round 1 arrives
	// everybody times out of round 1
	for _, id := range honest {
		r.ev("timer", id, nil)
		s.FireTimer(id)
	}
	// round 2 leader sees only null ROUND-CHANGEs (from everybody but X, plus the Byzantine ids)
	for _, b := range byz {
		r.Inject(l2, adv.mk(qbft.MsgRoundChange, b, 2, 0, 0, 0, nil))
	}
	r.deliverWhere(func(pd Pending) bool {
		return pd.M.Typ == qbft.MsgRoundChange && pd.M.Rnd == 2 && pd.To == l2 && pd.M.Src != x
	})
	// its PRE-PREPARE(v2) reaches everybody but X; all of them prepare and commit v2
	others := func(id int64) bool { return id != x }
	r.deliverWhere(func(pd Pending) bool { return pd.M.Typ == qbft.MsgPrePrepare && pd.M.Rnd == 2 && others(pd.To) })
	// COMMITs reach exactly one node D, which decides v2
	d := l2
	if rng.Intn(2) == 0 {
		var ds []int64
		for _, id := range honest {
			if others(id) {
				ds = append(ds, id)
			}
		}
		d = ds[rng.Intn(len(ds))]
	}
	// In the compare-fail variant one more member W prepares v2 but never sees the PREPARE quorum, so
	// that X, Y, W and the coalition form a ROUND-CHANGE quorum in which only Y knows about v2.
	w := int64(-1)
	if len(meta.CompareFailPairs) > 0 {
		var ws []int64
		for _, id := range honest {
			if id != x && id != d && id != meta.CompareFailPairs[0][0] {
				ws = append(ws, id)
			}
		}
		w = ws[rng.Intn(len(ws))]
	}
	seesQuorum := func(id int64) bool { return others(id) && id != w }
	for _, id := range honest {
		if !seesQuorum(id) {
			continue
		}
		for _, b := range byz {
			r.Inject(id, adv.mk(qbft.MsgPrepare, b, 2, v2, 0, 0, nil))
		}
	}
	r.deliverWhere(func(pd Pending) bool { return pd.M.Typ == qbft.MsgPrepare && pd.M.Rnd == 2 && seesQuorum(pd.To) })
	for _, b := range byz {
		r.Inject(d, adv.mk(qbft.MsgCommit, b, 2, v2, 0, 0, nil))
	}
	r.deliverWhere(func(pd Pending) bool { return pd.M.Typ == qbft.MsgCommit && pd.M.Rnd == 2 && pd.To == d })
	r.dropWhere(func(pd Pending) bool { return pd.M.Rnd <= 2 })
	// the rest times out into round 3 (led by a Byzantine id)
	for _, id := range honest {
		if id != d {
			r.ev("timer", id, nil)
			s.FireTimer(id)
		}
	}
	r.absorb()
	// From here the adversary improvises: forged and well-formed proposals for round 3 (and later
	// Byzantine-led rounds) to everybody, votes for everything, random delivery of the rest.
	var und []int64
	for _, id := range honest {
		if id != d {
			und = append(und, id)
		}
	}
	sort.Slice(und, func(i, j int) bool { return und[i] < und[j] })
	for k := 0; k < 3+rng.Intn(4); k++ {
		pp := adv.prePrepare(l3, 3, rng.Intn(3) == 0)
		if k == 0 && len(meta.CompareFailPairs) > 0 {
			pp = adv.prePrepareLowest(l3, 3) // the strongest well-formed attack first
		}
		if pp == nil {
			continue
		}
		adv.StratCount["lock/pp-round3"]++
		for _, id := range und {
			if s.Procs[id].CanReceive() {
				r.Inject(id, pp)
			}
		}
		// vote for whatever was proposed, to everybody, and deliver honest votes everywhere
		for _, phase := range []qbft.MsgType{qbft.MsgPrepare, qbft.MsgCommit} {
			for _, id := range und {
				for _, b := range byz {
					if s.Procs[id].CanReceive() {
						r.Inject(id, adv.mk(phase, b, 3, pp.Val, 0, 0, nil))
					}
				}
			}
			r.deliverWhere(func(pd Pending) bool { return pd.M.Typ == phase && pd.M.Rnd == 3 && pd.To != d })
		}
	}
	r.Run() // random adversarial continuation
	s.Stop()

	return res
}

// RunPartialCommitCase builds, by a directed schedule, the state in which value A gathered COMMITs
// from fewer than a quorum of members in round 1 (the largest number that still lets the others
// form a null ROUND-CHANGE quorum), was never decided, and another value B is then decided by
// everybody else in round 2 while the committers of A are partitioned away. The coalition then
// presents the committers with a DECIDED for A backed by exactly the genuine COMMITs it collected
// plus its own — one or more short of a quorum unless n = 3f+1 — and improvises from there.
// Exercises the DECIDED quorum size for every cluster size (2f+1 differs from the quorum for n = 5, 6).
func RunPartialCommitCase(rng *rand.Rand) *AsyncResult {
	n := []int{4, 5, 5, 6, 6, 6, 7}[rng.Intn(7)]
	f := Faulty(n)
	q := Quorum(n)
	var inst, l1, l2 int64
	for {
		inst = rng.Int63n(int64(n) * 3)
		l1, l2 = Leader(inst, 1, n), Leader(inst, 2, n)
		if l1 != l2 {
			break
		}
	}
	var byz []int64
	for len(byz) < f {
		c := rng.Int63n(int64(n))
		if c != l1 && c != l2 && !in(byz, c) {
			byz = append(byz, c)
		}
	}
	var honest []int64
	for i := 0; i < n; i++ {
		if !in(byz, int64(i)) {
			honest = append(honest, int64(i))
		}
	}
	meta := CaseMeta{N: n, Instance: inst, Byz: byz, Honest: honest, Inputs: map[int64]int64{}, FIFO: 100,
		Timer: []string{"inc", "eager", "linear"}[rng.Intn(3)], Policy: "partial-commit"}
	for i, id := range honest {
		meta.Inputs[id] = int64(11 + i)
	}
	va, vb := meta.Inputs[l1], meta.Inputs[l2]
	cfg := Config{N: n, Instance: inst, FIFOLimit: 100, Honest: honest, TimerKind: meta.Timer,
		Duty: core.Duty{Slot: uint64(inst), Type: core.DutyAttester}}
	s := New(cfg)
	adv := NewAdversary(s, byz, []int64{va, vb, 91}, rand.New(rand.NewSource(rng.Int63()))) //nolint:gosec // reproducible
	opt := AsyncOpts{MaxSteps: 600, Inputs: meta.Inputs, Adv: adv, InjectW: 1.0, TimerW: 0.02, DupP: 0.1, ExtraSteps: 5}
	r := NewRunner(s, rng, opt)
	res := &AsyncResult{Meta: meta, Sim: s, Runner: r, Adv: adv}
	for _, id := range honest {
		r.ev("start", id, nil)
		s.Start(id)
	}
	for _, id := range honest {
		r.ev("input", id, nil)
		s.GiveInput(id, meta.Inputs[id])
	}
	// committers C (never the round-2 leader), |C| <= n-q so that the others still form a quorum of ROUND-CHANGEs
	var pool []int64
	for _, id := range honest {
		if id != l2 {
			pool = append(pool, id)
		}
	}
	rng.Shuffle(len(pool), func(i, j int) { pool[i], pool[j] = pool[j], pool[i] })
	maxC := n - q
	nc := maxC
	if rng.Intn(4) == 0 {
		nc = 1 + rng.Intn(maxC)
	}
	cset := append([]int64(nil), pool[:nc]...)
	// receivers of PRE-PREPARE(A): the committers plus enough others for q-f honest PREPAREs
	pset := append([]int64(nil), cset...)
	for _, id := range pool[nc:] {
		if len(pset) >= q-f {
			break
		}
		pset = append(pset, id)
	}
	if len(pset) < q-f {
		pset = append(pset, l2)
	}
	r.deliverWhere(func(pd Pending) bool { return pd.M.Typ == qbft.MsgPrePrepare && pd.M.Rnd == 1 && in(pset, pd.To) })
	for _, id := range cset {
		for _, b := range byz {
			r.Inject(id, adv.mk(qbft.MsgPrepare, b, 1, va, 0, 0, nil))
		}
	}
	r.deliverWhere(func(pd Pending) bool { return pd.M.Typ == qbft.MsgPrepare && pd.M.Rnd == 1 && in(cset, pd.To) })
	r.dropWhere(func(pd Pending) bool { return pd.M.Rnd == 1 }) // the COMMITs for A reach nobody but the coalition
	for _, id := range honest {
		r.ev("timer", id, nil)
		s.FireTimer(id)
	}
	// the round-2 leader hears only members that know nothing of A
	for _, b := range byz {
		r.Inject(l2, adv.mk(qbft.MsgRoundChange, b, 2, 0, 0, 0, nil))
	}
	r.deliverWhere(func(pd Pending) bool {
		return pd.M.Typ == qbft.MsgRoundChange && pd.M.Rnd == 2 && pd.To == l2 && !in(cset, pd.M.Src) && !in(pset, pd.M.Src)
	})
	r.deliverWhere(func(pd Pending) bool {
		return pd.M.Typ == qbft.MsgRoundChange && pd.M.Rnd == 2 && pd.To == l2 && !in(cset, pd.M.Src)
	})
	// victims: a non-empty subset of the committers is partitioned away from round 2
	nv := 1 + rng.Intn(len(cset))
	victims := cset[:nv]
	meta.Partition = [][]int64{victims}
	res.Meta = meta
	rest := func(id int64) bool { return !in(victims, id) }
	r.deliverWhere(func(pd Pending) bool { return pd.M.Typ == qbft.MsgPrePrepare && pd.M.Rnd == 2 && rest(pd.To) })
	for _, phase := range []qbft.MsgType{qbft.MsgPrepare, qbft.MsgCommit} {
		for _, id := range honest {
			if !rest(id) {
				continue
			}
			for _, b := range byz {
				r.Inject(id, adv.mk(phase, b, 2, vb, 0, 0, nil))
			}
		}
		r.deliverWhere(func(pd Pending) bool { return pd.M.Typ == phase && pd.M.Rnd == 2 && rest(pd.To) })
	}
	r.dropWhere(func(pd Pending) bool { return pd.M.Rnd <= 2 && pd.M.Typ != qbft.MsgDecided })
	// the coalition presents A as decided: genuine COMMITs of round 1 plus its own
	var just []QMsg
	var srcs []int64
	for src := range adv.commits[rv{1, va}] {
		srcs = append(srcs, src)
	}
	sort.Slice(srcs, func(i, j int) bool { return srcs[i] < srcs[j] })
	for _, src := range srcs {
		if !in(byz, src) {
			just = append(just, adv.commits[rv{1, va}][src])
		}
	}
	for _, b := range byz {
		just = append(just, adv.mk(qbft.MsgCommit, b, 1, va, 0, 0, nil).Flat())
	}
	adv.StratCount["partial-commit/decided-short-of-quorum"]++
	for _, v := range victims {
		if s.Procs[v].CanReceive() {
			r.Inject(v, adv.mk(qbft.MsgDecided, byz[rng.Intn(len(byz))], 1, va, 0, 0, just))
		}
	}
	for k := 0; k < 2+rng.Intn(3); k++ {
		for _, v := range victims {
			if s.Procs[v].CanReceive() {
				if m := adv.decidedMsg(byz[rng.Intn(len(byz))], rng.Intn(2) == 0); m != nil {
					r.Inject(v, m)
				}
			}
		}
	}
	r.Run()
	s.Stop()

	return res
}
