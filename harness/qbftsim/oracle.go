package qbftsim

import (
	"fmt"
	"sort"

	"github.com/obolnetwork/charon/core/qbft"
)

// Finding is one refuted oracle of a finished run.
type Finding struct {
	Prop string // C02 / C03 / C04
	Sig  string
	What string
}

// CheckAgreement is the C02 oracle: all honest decisions of the instance carry one value, and no
// honest process ever voted (or proposed) two different values in one round.
func CheckAgreement(s *Sim) []Finding {
	var out []Finding
	var first *Decision
	for _, id := range s.Cfg.Honest {
		for _, d := range s.Procs[id].Decisions {
			if first == nil {
				first = d
				continue
			}
			if d.Value != first.Value {
				out = append(out, Finding{"C02", "qbft/agreement/two-values-decided",
					fmt.Sprintf("process %d decided %d (round %d) but process %d decided %d (round %d)", first.Proc, first.Value, first.Round, d.Proc, d.Value, d.Round)})
			}
		}
	}
	type key struct {
		src, round int64
		typ        qbft.MsgType
	}
	seen := map[key]int64{}
	for _, m := range s.Sent {
		if m.Typ != qbft.MsgPrepare && m.Typ != qbft.MsgCommit && m.Typ != qbft.MsgPrePrepare {
			continue
		}
		k := key{m.Src, m.Rnd, m.Typ}
		if v, ok := seen[k]; ok && v != m.Val {
			out = append(out, Finding{"C02", "qbft/honest-equivocation/" + m.Typ.String(),
				fmt.Sprintf("honest process %d sent %s for values %d and %d in round %d", m.Src, m.Typ, v, m.Val, m.Rnd)})
		}
		seen[k] = m.Val
	}

	return out
}

// CheckValidity is the C03 oracle. inputs = proposal values supplied to processes; byzantine =
// whether any Byzantine id took part; allPP = every PRE-PREPARE put on the wire.
func CheckValidity(s *Sim, inputs map[int64]int64, byzantine bool, allPP []*Msg) []Finding {
	var out []Finding
	q := Quorum(s.Cfg.N)
	leaderVals := map[int64]bool{}
	for _, pp := range allPP {
		if pp.Src == Leader(s.Cfg.Instance, pp.Rnd, s.Cfg.N) {
			leaderVals[pp.Val] = true
		}
	}
	inputVals := map[int64]bool{}
	for _, v := range inputs {
		if v != 0 {
			inputVals[v] = true
		}
	}
	for _, id := range s.Cfg.Honest {
		p := s.Procs[id]
		if len(p.Decisions) > 1 {
			out = append(out, Finding{"C03", "qbft/integrity/decided-twice", fmt.Sprintf("process %d decided %d times", id, len(p.Decisions))})
		}
		for _, d := range p.Decisions {
			if d.Value == 0 {
				out = append(out, Finding{"C03", "qbft/validity/decided-empty-value", fmt.Sprintf("process %d decided the zero value in round %d", id, d.Round)})
			}
			if !leaderVals[d.Value] {
				out = append(out, Finding{"C03", "qbft/validity/value-not-proposed-by-a-leader",
					fmt.Sprintf("process %d decided %d which no designated round leader proposed", id, d.Value)})
			}
			if !byzantine && !inputVals[d.Value] {
				out = append(out, Finding{"C03", "qbft/validity/value-is-nobodys-input",
					fmt.Sprintf("process %d decided %d which no member supplied as its proposal (no Byzantine members)", id, d.Value)})
			}
			srcs := map[int64]bool{}
			for _, c := range d.QCommit {
				if c.Typ == qbft.MsgCommit && c.Rnd == d.Round && c.Val == d.Value {
					srcs[c.Src] = true
				}
			}
			if len(srcs) < q {
				out = append(out, Finding{"C03", "qbft/integrity/decision-not-backed-by-commit-quorum",
					fmt.Sprintf("process %d decided %d in round %d backed by COMMITs of only %d distinct members for exactly that value and round (quorum %d)", id, d.Value, d.Round, len(srcs), q)})
			}
		}
		for _, m := range p.SentAfterDecide {
			if m.Typ != qbft.MsgDecided {
				out = append(out, Finding{"C03", "qbft/integrity/acts-after-deciding",
					fmt.Sprintf("process %d broadcast %s after it had decided", id, m.Typ)})
			} else if len(p.Decisions) > 0 && m.Val != p.Decisions[0].Value {
				out = append(out, Finding{"C03", "qbft/integrity/decided-resend-other-value",
					fmt.Sprintf("process %d re-sent DECIDED for %d but decided %d", id, m.Val, p.Decisions[0].Value)})
			}
		}
	}

	return dedup(out)
}

func dedup(in []Finding) []Finding {
	seen := map[string]bool{}
	var out []Finding
	for _, f := range in {
		if seen[f.Sig] {
			continue
		}
		seen[f.Sig] = true
		out = append(out, f)
	}
	sort.Slice(out, func(i, j int) bool { return out[i].Sig < out[j].Sig })

	return out
}

// HonestUnjust returns LogUnjust events whose message is an unmodified honest broadcast.
func HonestUnjust(s *Sim) []Unjust {
	sent := map[*Msg]bool{}
	for _, m := range s.Sent {
		sent[m] = true
	}
	var out []Unjust
	for _, u := range s.Unjusts {
		if u.Msg != nil && sent[u.Msg] {
			out = append(out, u)
		}
	}

	return out
}
