package qbftsim

import (
	"container/heap"
	"fmt"
	"math/rand"
	"sort"
	"time"

	"github.com/obolnetwork/charon/core"
	"github.com/obolnetwork/charon/core/qbft"
)

// FaultMode of a faulty member in the timely (C04) simulation.
type FaultMode string

const (
	FaultCrash     FaultMode = "crash-mid-broadcast" // stops at its k-th broadcast after reaching a recipient subset
	FaultNever     FaultMode = "never-starts"
	FaultSilent    FaultMode = "silent"     // runs but nothing it sends arrives (send omission from the start)
	FaultLateStart FaultMode = "late-start" // starts after a long delay, then runs correctly
)

// Fault describes one faulty member.
type Fault struct {
	ID        int64     `json:"id"`
	Mode      FaultMode `json:"mode"`
	AtBcast   int       `json:"at_broadcast,omitempty"` // crash: index of the broadcast being interrupted (1-based)
	Reach     []int64   `json:"reached,omitempty"`      // crash: recipients that still get that broadcast
	StartAt   string    `json:"start_at,omitempty"`     // late start: virtual time
	startAt   time.Duration
	bcasts    int
	happened  bool
	faultTime time.Duration
}

// TimelyMeta describes a timely case.
type TimelyMeta struct {
	N            int              `json:"n"`
	Instance     int64            `json:"instance"`
	Timer        string           `json:"timer"`
	DutyType     string           `json:"duty_type"`
	Faults       []*Fault         `json:"faults"`
	T1           string           `json:"shortest_round_timeout"`
	MaxLat       string           `json:"max_latency"`
	Starts       map[int64]string `json:"start_offsets"`
	LateInputs   map[int64]string `json:"late_inputs,omitempty"`
	CompareFlow  bool             `json:"compare_flow,omitempty"`
	ConstLatency string           `json:"constant_latency,omitempty"`
}

func compareWaits(s *Sim) int {
	s.mu.Lock()
	defer s.mu.Unlock()

	return s.CompareWaits
}

// TimelyResult is a finished timely case.
type TimelyResult struct {
	Meta             TimelyMeta
	Sim              *Sim
	Trace            []string
	Findings         []Finding
	LastFault        time.Duration
	RoundAtFault     map[int64]int64
	DecideRound      map[int64]int64
	RoundsAfterFault map[int64]int64 // decided round - round at last fault, per running member
	Events           int
	SubsetKey        string
}

type desEv struct {
	at   time.Duration
	seq  int
	kind string // start, input, deliver
	proc int64
	msg  *Msg
	val  int64
}

type evHeap []desEv

func (h evHeap) Len() int { return len(h) }
func (h evHeap) Less(i, j int) bool {
	return h[i].at < h[j].at || (h[i].at == h[j].at && h[i].seq < h[j].seq)
}
func (h evHeap) Swap(i, j int) { h[i], h[j] = h[j], h[i] }
func (h *evHeap) Push(x any)   { *h = append(*h, x.(desEv)) }
func (h *evHeap) Pop() any     { o := *h; x := o[len(o)-1]; *h = o[:len(o)-1]; return x }

// shortestRoundTimeout asks the real timer implementation for the shortest time a round can last
// (rounds 1..k). The relative timers (inc, linear) give each round its own duration from the moment
// it starts. The eager timer has absolute deadlines anchored to the duty start, so the time a round
// has before its (first) deadline is the gap between consecutive deadlines, not deadline minus
// "now" — using the latter overstated the window (1.5 s instead of 1 s for proposer duties) and let
// the harness generate latencies the statement's precondition excludes.
func shortestRoundTimeout(kind string, duty core.Duty, k int) time.Duration {
	s := New(Config{N: 4, Honest: []int64{0}, TimerKind: kind, Duty: duty})
	p := s.Procs[0]
	min := time.Duration(1<<62 - 1)
	prev := time.Duration(0)
	for r := int64(1); r <= int64(k); r++ {
		p.rt.Timer(r)
		d := p.timer.deadline - s.now
		if kind == "eager" {
			d, prev = p.timer.deadline-prev, p.timer.deadline
		}
		if d < min {
			min = d
		}
	}

	return min
}

// FaultSubsets enumerates all member subsets of size <= f.
func FaultSubsets(n int) [][]int64 {
	f := Faulty(n)
	out := [][]int64{{}}
	var rec func(start int, cur []int64)
	rec = func(start int, cur []int64) {
		if len(cur) > 0 {
			out = append(out, append([]int64(nil), cur...))
		}
		if len(cur) == f {
			return
		}
		for i := start; i < n; i++ {
			rec(i+1, append(cur, int64(i)))
		}
	}
	rec(0, nil)

	return out
}

// RunTimelyCase runs one discrete-event simulation in virtual time: all members run the real
// algorithm, every message between running members arrives with latency < T1/3 (T1 = shortest
// round timeout of the production timer under test), running members start within T1 and have
// their proposals, and the members in `faulty` misbehave by crashing (possibly halfway through a
// broadcast), never starting, staying silent or starting late. idx selects n and the fault subset.
func RunTimelyCase(rng *rand.Rand, idx int) *TimelyResult {
	return RunTimelyCaseBound(rng, idx, 1)
}

// RunTimelyCaseBound is RunTimelyCase with the progress bound multiplied (exploration aid only).
func RunTimelyCaseBound(rng *rand.Rand, idx int, boundMult int) *TimelyResult {
	n := 4 + idx%4
	subs := FaultSubsets(n)
	faultyIDs := subs[(idx/4)%len(subs)]
	meta := TimelyMeta{N: n, Instance: rng.Int63n(40), Timer: []string{"inc", "eager", "linear"}[rng.Intn(3)], Starts: map[int64]string{}, LateInputs: map[int64]string{}}
	duty := core.Duty{Slot: uint64(meta.Instance), Type: []core.DutyType{core.DutyAttester, core.DutyProposer, core.DutyAggregator}[rng.Intn(3)]}
	meta.DutyType = duty.Type.String()
	t1 := shortestRoundTimeout(meta.Timer, duty, n+4)
	maxLat := t1/3 - time.Millisecond
	meta.T1, meta.MaxLat = t1.String(), maxLat.String()
	// latency model: independent per message (2 of 3 cases) or one constant latency for the whole
	// case (a uniform network: offsets and latencies then line up the same way in every round)
	constLat := time.Duration(-1)
	if rng.Intn(3) == 0 {
		constLat = maxLat/4 + time.Duration(rng.Int63n(int64(maxLat-maxLat/4)+1))
		meta.ConstLatency = constLat.String()
	}
	latency := func() time.Duration {
		if constLat >= 0 {
			return constLat
		}

		return time.Duration(rng.Int63n(int64(maxLat) + 1))
	}

	var all []int64
	for i := 0; i < n; i++ {
		all = append(all, int64(i))
	}
	cfg := Config{N: n, Instance: meta.Instance, FIFOLimit: 100, Honest: all, TimerKind: meta.Timer, Duty: duty}
	// Attester duties may run the compare flow (chain-split halt feature): every member compares the
	// leader's proposal with its own attestation data, which it holds from the start ("with their
	// proposals available").
	if duty.Type == core.DutyAttester && rng.Intn(2) == 0 {
		meta.CompareFlow = true
		cfg.NeedsSource, cfg.SrcPreloaded = map[int64]bool{}, map[int64]int64{}
		for _, id := range all {
			cfg.NeedsSource[id] = true
			cfg.SrcPreloaded[id] = 7
		}
	}
	s := New(cfg)
	res := &TimelyResult{Meta: meta, Sim: s, RoundAtFault: map[int64]int64{}, DecideRound: map[int64]int64{}, RoundsAfterFault: map[int64]int64{},
		SubsetKey: fmt.Sprintf("n%d/%v", n, faultyIDs)}

	faults := map[int64]*Fault{}
	for _, id := range faultyIDs {
		f := &Fault{ID: id}
		switch rng.Intn(6) {
		case 0:
			f.Mode = FaultNever
		case 1:
			f.Mode = FaultSilent
		case 2:
			f.Mode = FaultLateStart
			f.startAt = t1 + time.Duration(rng.Int63n(int64(6*t1)))
			f.StartAt = f.startAt.String()
		default:
			f.Mode = FaultCrash
			f.AtBcast = 1 + rng.Intn(8)
			for _, o := range all {
				if rng.Intn(2) == 0 {
					f.Reach = append(f.Reach, o)
				}
			}
		}
		faults[id] = f
		res.Meta.Faults = append(res.Meta.Faults, f)
	}
	running := func(id int64) bool { return faults[id] == nil }

	var h evHeap
	seq := 0
	push := func(e desEv) { seq++; e.seq = seq*7919 + rng.Intn(7919); heap.Push(&h, e) }
	inputs := map[int64]int64{}
	startAt := map[int64]time.Duration{}
	for _, id := range all {
		inputs[id] = int64(11 + rng.Intn(3))
		f := faults[id]
		if f != nil && f.Mode == FaultNever {
			continue
		}
		at := time.Duration(rng.Int63n(int64(t1)))
		if f != nil && f.Mode == FaultLateStart {
			at = f.startAt
		}
		res.Meta.Starts[id] = at.String()
		startAt[id] = at + time.Nanosecond
		push(desEv{at: at, kind: "start", proc: id})
		_ = startAt
		inAt := at + time.Nanosecond
		if rng.Intn(5) == 0 { // proposal becomes available a little after the start
			inAt += time.Duration(rng.Int63n(int64(t1 / 3)))
			res.Meta.LateInputs[id] = inAt.String()
		}
		push(desEv{at: inAt, kind: "input", proc: id, val: inputs[id]})
	}
	lastFault := time.Duration(0)
	for _, f := range faults {
		if f.Mode == FaultLateStart && f.startAt > lastFault {
			lastFault = f.startAt
		}
	}
	tr := func(format string, a ...any) {
		if len(res.Trace) < 4000 {
			res.Trace = append(res.Trace, fmt.Sprintf("%8.3fs ", s.now.Seconds())+fmt.Sprintf(format, a...))
		}
	}
	snapshotRounds := func() {
		for _, id := range all {
			if running(id) {
				res.RoundAtFault[id] = s.Procs[id].Round
			}
		}
	}
	snapshotRounds()

	absorb := func() {
		for _, m := range s.TakeOutbox() {
			f := faults[m.Src]
			if f != nil {
				switch f.Mode {
				case FaultSilent:
					continue
				case FaultCrash:
					f.bcasts++
					if f.bcasts == f.AtBcast {
						for _, to := range f.Reach {
							push(desEv{at: s.now + latency(), kind: "deliver", proc: to, msg: m})
						}
						tr("CRASH p%d during broadcast #%d (%s) reaching %v", m.Src, f.bcasts, m, f.Reach)
						s.Crash(m.Src)
						f.happened, f.faultTime = true, s.now
						if s.now > lastFault {
							lastFault = s.now
						}
						snapshotRounds()

						continue
					} else if f.bcasts > f.AtBcast {
						continue
					}
				}
			}
			for _, to := range all {
				lat := latency()
				if to == m.Src {
					// a member's own message goes through a local channel, not the network
					lat = time.Duration(rng.Int63n(int64(time.Millisecond)))
				}
				push(desEv{at: s.now + lat, kind: "deliver", proc: to, msg: m})
			}
		}
	}
	allRunningDecided := func() bool {
		for _, id := range all {
			if running(id) && !s.Procs[id].Decided() {
				return false
			}
		}

		return true
	}
	// Shape bookkeeping for bound exceedances: when did each member time out of each round, and who
	// accepted which round's PRE-PREPARE while still able to act on it.
	noRestartJump := "" // first observed "moved up on f+1 ROUND-CHANGEs without restarting the round timer"
	noRestart := ""     // first observed "accepted a justified PRE-PREPARE without restarting the round timer"
	horizon := lastFault + 400*t1
	for steps := 0; steps < 200000; steps++ {
		// earliest armed timer
		var tp *Proc
		td := time.Duration(1<<62 - 1)
		ids := append([]int64(nil), all...)
		rng.Shuffle(len(ids), func(i, j int) { ids[i], ids[j] = ids[j], ids[i] })
		for _, id := range ids {
			p := s.Procs[id]
			if p.Decided() {
				continue
			}
			if d, ok := p.TimerArmed(); ok && d < td {
				td, tp = d, p
			}
		}
		if h.Len() == 0 && tp == nil {
			break
		}
		useTimer := tp != nil && (h.Len() == 0 || td < h[0].at || (td == h[0].at && rng.Intn(2) == 0))
		if useTimer {
			if td > horizon {
				break
			}
			s.AdvanceTo(td)
			tr("timeout p%d round %d", tp.ID, tp.Round)
			s.FireTimer(tp.ID)
		} else {
			e := heap.Pop(&h).(desEv)
			if e.at > horizon {
				break
			}
			s.AdvanceTo(e.at)
			p := s.Procs[e.proc]
			switch e.kind {
			case "start":
				tr("start p%d", e.proc)
				s.Start(e.proc)
				if f := faults[e.proc]; f != nil && f.Mode == FaultLateStart {
					snapshotRounds()
				}
			case "input":
				if p.CanReceive() {
					s.GiveInput(e.proc, e.val)
				}
			case "deliver":
				if !p.Started && startAt[e.proc] > 0 && !p.Crashed {
					// production buffers messages that arrive before the instance is started
					e.at = startAt[e.proc] + time.Duration(1+rng.Intn(1000))*time.Nanosecond
					push(e)
					break
				}
				if p.Started && !p.Exited && !p.Crashed && p.CompareBlocked {
					// the transport buffers what arrives while the member waits inside Compare
					e.at = s.now + time.Millisecond
					if d, ok := p.TimerArmed(); ok && d > s.now {
						e.at = d + time.Duration(1+rng.Intn(1000))*time.Nanosecond // Compare returns when the round timer fires
					}
					push(e)

					break
				}
				if p.Started && !p.Exited && !p.Crashed {
					tr("deliver p%d <- %s", e.proc, e.msg)
					timersBefore, uponBefore := p.timersCreated, len(s.Upon)
					s.Deliver(e.proc, e.msg)
					if e.msg.Typ == qbft.MsgRoundChange && noRestartJump == "" && p.timersCreated == timersBefore {
						for _, u := range s.Upon[uponBefore:] {
							if u.Proc == e.proc && u.Rule == qbft.UponFPlus1RoundChanges {
								noRestartJump = fmt.Sprintf("member %d moved to round %d on f+1 ROUND-CHANGEs at %v without restarting its round timer", e.proc, p.Round, s.now)
							}
						}
					}
					if e.msg.Typ == qbft.MsgPrePrepare && noRestart == "" && p.timersCreated == timersBefore {
						for _, u := range s.Upon[uponBefore:] {
							if u.Proc == e.proc && u.Rule == qbft.UponJustifiedPrePrepare {
								noRestart = fmt.Sprintf("member %d accepted the PRE-PREPARE of round %d (from %d) at %v without restarting its round timer", e.proc, e.msg.Rnd, e.msg.Src, s.now)
							}
						}
					}
				}
			}
		}
		res.Events++
		absorb()
		// bounded progress: a running member that leaves round (round at last fault + n) undecided
		if s.now >= lastFault {
			stop := false
			for _, id := range all {
				p := s.Procs[id]
				if running(id) && p.Started && !p.Decided() && p.Round > res.RoundAtFault[id]+int64(n*boundMult) {
					sig := "qbft/termination/not-decided-within-one-leader-rotation/timer=" + meta.Timer
					what := fmt.Sprintf("running member %d entered round %d undecided; it was in round %d at the last fault (virtual time %v), n=%d", id, p.Round, res.RoundAtFault[id], lastFault, n)
					// Shape: the known desynchronisation histories happen although every member restarts its round
					// timer whenever it accepts a justified PRE-PREPARE (Algorithm 2:1). A history in which some
					// member accepted a proposal WITHOUT restarting its timer is a different mechanism.
					if noRestart != "" {
						sig += "/a-member-accepted-a-proposal-without-restarting-its-round-timer"
						what += "; " + noRestart
					}
					if noRestartJump != "" {
						sig += "/a-member-changed-round-on-f-plus-1-round-changes-without-restarting-its-round-timer"
						what += "; " + noRestartJump
					}
					// Shape: every member held its local compare value from the start, so Compare never has to
					// wait for it; a member that did wait has lost the value it already read.
					if w := compareWaits(s); meta.CompareFlow && w > 0 {
						sig += "/a-member-waited-in-compare-for-a-local-value-it-already-had"
						what += fmt.Sprintf("; %d Compare call(s) waited for the local value although every member's value was available from the start", w)
					}
					res.Findings = append(res.Findings, Finding{"C04", sig, what})
					stop = true
				}
			}
			if stop {
				break
			}
		}
		if allRunningDecided() && s.now >= lastFault {
			break
		}
	}
	// crash faults that never triggered (member sent fewer broadcasts): they simply ran correctly
	res.LastFault = lastFault
	if !allRunningDecided() && len(res.Findings) == 0 {
		var und []int64
		for _, id := range all {
			if running(id) && !s.Procs[id].Decided() {
				und = append(und, id)
			}
		}
		res.Findings = append(res.Findings, Finding{"C04", "qbft/termination/stalled/timer=" + meta.Timer,
			fmt.Sprintf("running members %v never decided although no event is pending before the horizon (virtual time %v)", und, s.now)})
	}
	for _, id := range all {
		p := s.Procs[id]
		if running(id) && p.Decided() {
			res.DecideRound[id] = p.Decisions[0].Round
			d := p.Decisions[0].Round - res.RoundAtFault[id]
			if p.Decisions[0].At < lastFault {
				d = 0
			}
			res.RoundsAfterFault[id] = d
		}
		if running(id) && p.Exited && !p.Crashed && p.ExitErr != nil && p.ExitErr.Error() != "context canceled" {
			res.Findings = append(res.Findings, Finding{"C04", "qbft/termination/running-member-aborted",
				fmt.Sprintf("running member %d left the instance with error: %v", id, p.ExitErr)})
		}
	}
	for _, u := range HonestUnjust(s) {
		res.Findings = append(res.Findings, Finding{"C04", "qbft/honest-message-judged-unjust/" + u.Msg.Typ.String(),
			fmt.Sprintf("member %d rejected as unjustified the honest message %s", u.Proc, u.Msg)})
	}
	s.Stop()
	sort.Slice(res.Findings, func(i, j int) bool { return res.Findings[i].Sig < res.Findings[j].Sig })
	_ = qbft.MsgPrepare

	return res
}
