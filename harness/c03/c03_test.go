// Package c03 checks consensus validity and integrity (property C03) over scheduled executions
// of the real core/qbft.Run (engine: verifharness/qbftsim).
package c03

import (
	"context"
	"fmt"
	"sort"
	"testing"

	"verifharness/consworld"
	"verifharness/kit"
	"verifharness/qbftsim"
)

func TestCheck(t *testing.T) {
	r := kit.Start(t, "C03")
	defer r.Finish()
	qbftsim.QuietLogs(t)
	r.Rule("case = one consensus instance of the real qbft.Run as in C02 (n in {3,4,5,6,7}, random asynchronous / round-structured-omission / directed lock-override schedules, up to f Byzantine ids from the strategy library incl. assembled and forged DECIDED messages), " +
		"plus value assignments in which some members never obtain a proposal, obtain it late, or are handed the zero value; every Decide(value, round, qcommit) callback is judged; " +
		"plus a component world: clusters of 4 real consensus components over the in-memory network running duties with early / late / repeated Propose and Participate calls, every subscriber delivery judged; " +
		"non-trivial = a round change happened or a Byzantine message passed isJustified; distinct = hash of the event trace")
	r.Assume("message authenticity is provided by the wrapper layer (C05): the adversary never fabricates an honest source")
	r.Assume("extra entries in qcommit beyond a quorum of matching COMMITs are tolerated (the statement requires backing, not purity)")
	r.RacePkgs(false, "core/qbft")
	r.Require("decisions", 100)
	r.Require("decisions_via_decided_msg", 10)
	r.Require("decisions_with_byzantine_members", 50)
	r.Require("zero_input_refused", 5)

	// Component world: the algorithm is only half of what decides a duty in production. Clusters of
	// the real consensus component (Participate / Propose entry points, per-duty instance bookkeeping,
	// transport, subscribers) run duties in which members obtain their proposals early, late (after
	// their own subscriber was already handed the decision) or never, and retry; every subscriber
	// delivery is judged.
	if b, err := consworld.NewBeacon(context.Background()); err != nil {
		r.Inconclusive("component world: beacon mock: %v", err)
	} else {
		worlds, duties := 12, 6
		if r.Thorough() {
			worlds, duties = 150, 8
		}
		report := func(mine bool) func(consworld.Finding, *consworld.Result) {
			return func(f consworld.Finding, res *consworld.Result) {
				if !mine {
					r.Count("component_findings_of_the_sibling_property/"+f.Sig, 1)
					return
				}
				r.Violation(-1, f.Sig, f.What, map[string]any{"duty": res.Duty.String(), "plan": res.Plan, "decisions": res.Decisions, "errors": res.Errors})
			}
		}
		obs := consworld.RunBatch(t, b, r.Rand(-1, 77), worlds, duties, report(false), report(true))
		for k, v := range obs {
			r.Count(k, int64(v))
		}
		if k := obs["component_duties_with_a_call_that_never_returned"]; k > 0 {
			r.Inconclusive("component world: in %d duties a Propose / Participate call did not return after its context had ended (not a verdict by itself; what the monitors observed up to then was judged)", k)
		}
		// Byzantine member on the wire (consworld/adversary.go): a member that is handed the adversary's
		// value decided something no leader proposed and no quorum of distinct members committed.
		advWorlds, advDuties := 5, 6
		if r.Thorough() {
			advWorlds, advDuties = 40, 10
		}
		rngA := r.Rand(-1, 79)
		for k := 0; k < advWorlds; k++ {
			aw, err := consworld.NewAdv(t, b)
			if err != nil {
				r.Count("adversary_world_setup_failed", 1)
				continue
			}
			for d := 0; d < advDuties; d++ {
				play := consworld.AdvPlays[(k*advDuties+d+2)%5]
				if d == advDuties-1 || d == advDuties/2 {
					play = consworld.AdvPlays[5] // replay of an earlier duty's genuine COMMITs (falls back while there is no earlier duty of the type)
				}
				res := aw.RunAdvDuty(b, rngA, play, fmt.Sprintf("adv%d-d%d", k, d))
				r.Count("adversary_duties", 1)
				r.Count("adversary_duties/"+res.Play, 1)
				if res.OthersGotA {
					r.Count("adversary_duties_in_which_the_other_members_decided_with_the_adversarys_genuine_votes", 1)
				}
				if len(res.Decisions[res.Victim]) > 0 {
					r.Count("adversary_duties_in_which_the_victim_decided", 1)
				}
				fs := res.CheckAdvValidity()
				for _, f := range fs {
					r.Violation(-1, f.Sig, f.What, map[string]any{"duty": res.Duty.String(), "play": res.Play, "victim": res.Victim, "leader": res.Leader, "decisions": res.Decisions, "adversary_sent": res.Sent})
				}
				if len(fs) > 0 {
					break
				}
			}
			aw.Close()
		}
		r.Require("adversary_duties_in_which_the_other_members_decided_with_the_adversarys_genuine_votes", int64(advWorlds*advDuties/2))
		r.Require("adversary_duties_in_which_the_victim_decided", int64(advWorlds*advDuties/2))
		r.Require("component_members_decided", int64(worlds*duties*2))
		r.Require("component_duties_with_a_quorum_of_late_proposals", int64(worlds))
	}

	n := r.N(6000, 150000)
	r.Cases(n, 0, func(c *kit.Case) {
		res := qbftsim.RunAsyncCase(c.Rng)
		s := res.Sim
		byz := len(res.Meta.Byz) > 0
		for _, f := range qbftsim.CheckValidity(s, res.Meta.Inputs, byz, res.Runner.AllPrePrepares) {
			w := res.Witness()
			w["finding"] = f.What
			c.Violation(f.Sig, f.What, w)
		}
		// zero proposal: the process must stop with an error and never decide because of it
		for _, z := range res.Meta.ZeroInput {
			p := s.Procs[z]
			if p.InputGiven {
				// informational: the statement only forbids *deciding* the empty value
				if p.ExitErr == nil || p.ExitErr.Error() == "context canceled" {
					r.Count("zero_input_not_refused", 1)
				} else {
					r.Count("zero_input_refused", 1)
				}
			}
		}
		dec := res.DecisionRounds()
		r.Count("decisions", int64(len(dec)))
		if byz {
			r.Count("decisions_with_byzantine_members", int64(len(dec)))
		}
		r.Count("decisions_via_decided_msg", int64(s.RuleSeen[7]))
		r.Count("decisions_via_commit_quorum", int64(s.RuleSeen[3]))
		for _, id := range s.Cfg.Honest {
			p := s.Procs[id]
			r.Count("msgs_after_decide(decided-resends)", int64(len(p.SentAfterDecide)))
			for _, d := range p.Decisions {
				extra := 0
				for _, q := range d.QCommit {
					if q.Rnd != d.Round || q.Val != d.Value {
						extra++
					}
				}
				if extra > 0 {
					r.Count("decisions_with_extra_qcommit_entries", 1)
				}
			}
			if p.Panic != nil {
				c.Violation("qbft/run-panicked", fmt.Sprint("qbft.Run panicked: ", p.Panic), res.Witness())
			}
		}
		r.Count("byz_msgs_accepted", int64(res.ByzAccepted()))
		r.Count("events", int64(len(res.Runner.Trace)))
		r.Count("cases_policy/"+res.Meta.Policy, 1)
		if res.Adv != nil {
			var ks []string
			for k := range res.Adv.StratCount {
				ks = append(ks, k)
			}
			sort.Strings(ks)
			for _, k := range ks {
				if k == "decided" || k == "decided-forged" {
					r.Count("adversary/"+k, int64(res.Adv.StratCount[k]))
				}
			}
		}
		if res.NonTrivial() {
			c.NonTrivial(res.TraceHash())
		}
		if c.Idx < 2 {
			r.Sample(map[string]any{"meta": res.Meta, "events": len(res.Runner.Trace), "decision_rounds": dec, "trace_head": res.Runner.TraceStrings(100000)[:min(25, len(res.Runner.Trace))]})
		}
	})
}
