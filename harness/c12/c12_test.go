// Package c12 checks property C12: cluster artifacts written by `charon create cluster` are mutually
// consistent (W1), every hashed or signed field of a definition/lock is tamper-evident in every
// format version v1.0..v1.11 (W2), and decode→encode→decode never changes the hashes (W3).
//
// Which leaves are hashed or signed (derived from cluster/ssz.go, cluster/lock.go, cluster/definition.go
// at the pinned commit; every JSON member that the per-version (un)marshallers read is listed):
//
//	definition: uuid, name, version, timestamp, num_validators, threshold, dkg_algorithm, fork_version,
//	  fee_recipient_address/withdrawal_address (< v1.5) or validators[].{fee_recipient_address,withdrawal_address}
//	  (>= v1.5), operators[].address  → config hash (hashDefinitionLegacy / V1x3or4 / V1x5to9 / V1x11 with configOnly);
//	  operators[].{enr,config_signature,enr_signature} (+ nonce, which must decode as 0, in v1.0/v1.1),
//	  creator.{address,config_signature} (>= v1.4), deposit_amounts (>= v1.8), consensus_protocol (>= v1.9),
//	  target_gas_limit, compounding (>= v1.10) → definition hash (and config hash for the non-signature ones);
//	  config_hash, definition_hash → compared with the recomputed values by Definition.VerifyHashes;
//	  config_hash additionally is what operators/creator sign (EIP-712).
//	  (v1.0: timestamp is left out of the definition hash but is in the config hash when non-empty.)
//	lock: cluster_definition.* as above; distributed_validators[].distributed_public_key and
//	  .public_shares[] (all versions), .deposit_data.* (v1.6, v1.7), .partial_deposit_data[].* (>= v1.8),
//	  .builder_registration.{message.{fee_recipient,gas_limit,timestamp,pubkey},signature} (>= v1.7) → lock hash
//	  (hashLockLegacy / hashLockV1x3orLater + hashValidator*); lock_hash → compared by Lock.VerifyHashes and signed by
//	  signature_aggregate and node_signatures[] (>= v1.7), which are verified by Lock.VerifySignatures.
//
// So in every version every member that is present in the JSON is hashed, signed, or is itself a
// hash/signature that verification checks. The single exemption (see `exemptions` in
// w2_tamper_test.go): removing signature_aggregate from a v1.0/v1.1 lock, which lock.go documents
// as the legitimate unsigned form of those versions.
package c12

import (
	"testing"

	"github.com/obolnetwork/charon/app/log"

	"verifharness/kit"
)

const tamperShards = 4

func TestCheck(t *testing.T) {
	r := kit.Start(t, "C12")
	defer r.Finish()
	_ = log.InitLogger(log.Config{Level: "error", Format: "console", Color: "disable"})

	r.Rule("three kinds of cases in one index space. W1 (first block): one real `charon create cluster` run (cobra root command, in-process, --insecure-keys) " +
		"into a temp dir; node count cycles 3..10, mode cycles flags/definition-file/split-existing-keys, the rest (threshold incl. default/2/n, 1..3 validators, " +
		"6 networks + prater alias + custom testnet, deposit-amount sets with/without compounding, single vs per-validator addresses, gas limit, consensus protocol, " +
		"definition version v1.0..v1.11 in definition-file mode) comes from the case PRNG; every artifact is cross-checked and combine.Combine is run on every " +
		"threshold-size subset of node directories (n<=6, sampled above). W1-definition-file (second block): `create cluster --definition-file` with a harness-written definition for every " +
		"version that carries deposit amounts (v1.8..v1.11) x every order class of deposit_amounts (ascending, descending, duplicates, top-up last, unsorted, single, absent), with/without compounding; " +
		"same artifact checks, plus: the lock's definition equals the definition file in every hashed member (config_hash equal, definition_hash = hash of the file's definition completed with the " +
		"generated operator ENRs), 2 combine subsets. W2 (third block): one shard (1/4 of the alterations) of one document (lock or definition) of " +
		"one valid, fully signed base per format version x variant (cluster.NewForT + deposit data added and lock re-signed by the harness; from v1.3 on operators/creator may be " +
		"ERC-1271 contract accounts verified through a harness Safe model as eth1 client: single-entry before v1.11, and in every v1.11 base a Safe with 3-5 entries of which 2 are checked, " +
		"a fully checked 2-entry Safe, an EOA, further operators with up to 32 entries and a 2-4 entry creator); every JSON node gets every " +
		"representative alteration (nibble flips, byte/char append/prepend/drop, +-1, zero, clear, toggle, delete member, swap/delete/duplicate/empty array elements, swap to every other supported version string; long byte strings additionally get flips at the first/last byte of every 32-byte chunk, " +
		"at first/second/r-s-boundary/v byte of every 65-byte entry, at content-derived positions, and whole-entry swap/drop/duplicate/zero). Besides the accept/reject oracle, " +
		"same-length and whole-entry alterations of hashed members must change at least one recomputed hash (SetDefinitionHashes/SetLockHash). " +
		"W2-crafted (last block): per version x (t,n) shape (n>=t+2: 4/6 5/7 3/5 2/4 3/6 2/5 ..., and n=t+1), public shares of one or all validators are moved onto another polynomial " +
		"with the same constant term, Q(x)=P(x)+c*x*prod_{s in S}(x-s), for ~15 choices of kept set S / replaced set R (trailing shares agreeing on window overlaps, single shares, all shares, random), " +
		"(a) only replaced in the file and (b) with lock hash recomputed and aggregate + node signatures re-signed by the crafted key shares; a lock that passes full verification must have every " +
		"threshold-size subset of public shares (all for n<=7, 40 sampled above) reconstruct the validator key. " +
		"W3 (block before that): decode→encode→decode (compact, indented, compact again) of the golden files, the generated files, the create-cluster locks of W1 and hand-assembled valid files " +
		"with unusual spellings of free-text members and address letter case, per version. " +
		"non-trivial: W1 = the CLI ran and all checks were evaluated, W2 = the base verified and alterations were judged, W3 = files verified before re-encoding; " +
		"distinct = hash of the configuration (W1), of base shape+document+shard (W2), of version (W3)")
	r.Assume("genesis fork versions of mainnet/goerli/sepolia/hoodi/gnosis/chiado are the public constants hard-coded in ssz_indep_test.go")
	r.Assume("SSZ hash-tree-root / compute_domain / signing-root as in the consensus and builder specs (hand-rolled sha256 merkleisation in the harness)")
	r.Assume("tbls.Verify, tbls.SecretToPublicKey (C08) and the keystorev4 library decrypt correctly")
	r.Assume("an alteration is value-changing iff the decoded cluster.Lock/Definition differs field-by-field (nil and empty slices identified)")
	r.Assume("the harness Safe model (first `threshold` 65-byte entries must be by distinct owners, further entries ignored) stands in for an on-chain ERC-1271 contract")
	r.Assume("a panic inside decode/VerifyHashes/VerifySignatures counts as 'not accepted' for C12; it is reported under extra.tamper_panics, not as a violation")
	r.RacePkgs(false, "cluster", "cmd")

	nCLI := r.N(12, 150)
	nDefFile := len(defFileVersions) * len(defFileOrders) * r.N(1, 4)
	nCrafted := len(allVersions) * r.N(2, 12)
	variants := r.N(1, 8)
	nVer := len(allVersions)
	nTamper := variants * nVer * 2 * tamperShards
	nRound := variants * nVer

	r.Require("cli_runs", int64(nCLI+nDefFile))
	r.Require("locks_verified", int64(nCLI+nDefFile))
	r.Require("deffile_runs", int64(nDefFile))
	r.Require("shares_checked", int64(nCLI*3))
	r.Require("deposits_checked", int64(nCLI))
	r.Require("combine_runs", int64(nCLI*3))
	r.Require("combined_keys_checked", int64(nCLI*3))
	r.Require("tamper_valid_bases", int64(variants*nVer*2))
	r.Require("tamper_judged", int64(variants*nVer*300))
	r.Require("tamper_multisig_accounts", int64(variants*2*3)) // every v1.11 base: >= 2 multi-entry operators + creator, lock and definition
	r.Require("hash_sensitivity_checked", int64(variants*nVer*100))
	r.Require("roundtrips", int64(nRound*30))

	r.Require("crafted_locks_judged", int64(nCrafted*10))
	r.Require("crafted_rehashed-and-resigned_signatures", int64(nCrafted*3))

	nPartial := r.N(48, 480)
	r.Require("partially_signed_definitions_judged", int64(nPartial/3))
	r.Cases(nCLI+nDefFile+nTamper+nRound+nCrafted+nPartial, 0, func(c *kit.Case) {
		switch i := c.Idx - nDefFile; {
		case c.Idx >= nCLI+nDefFile+nTamper+nRound+nCrafted:
			runPartiallySignedCase(c, c.Idx-(nCLI+nDefFile+nTamper+nRound+nCrafted))
		case c.Idx >= nCLI+nDefFile+nTamper+nRound:
			runCraftedSharesCase(c, c.Idx-(nCLI+nDefFile+nTamper+nRound))
		case c.Idx < nCLI:
			runCLICase(c, c.Idx)
		case c.Idx < nCLI+nDefFile:
			j := c.Idx - nCLI
			runCLIConf(c, c.Idx, genDefFileConf(j, c.Rng, r.Thorough()), 2)
		case i < nCLI+nTamper:
			j := i - nCLI
			shard := j % tamperShards
			kind := []string{"lock", "definition"}[(j/tamperShards)%2]
			unit := j / (2 * tamperShards)
			runTamperShard(c, unit, allVersions[unit%nVer], kind, shard, tamperShards)
		default:
			unit := i - nCLI - nTamper
			runRoundTripCase(c, unit, allVersions[unit%nVer])
		}
	})
	r.Set("tamper_table", stats.export())
	r.Set("tamper_panics", panics.list())
	r.Set("tamper_exemptions", exemptionList())
}
