package c12

// W1: run the real `charon create cluster` command in-process and cross-check every artifact it
// writes; then run the real combine.Combine over threshold-size subsets of the node directories.

import (
	"bytes"
	"context"
	"encoding/hex"
	"encoding/json"
	"fmt"
	"io"
	"math/rand"
	"net/http"
	"net/http/httptest"
	"os"
	"path/filepath"
	"reflect"
	"regexp"
	"sort"
	"strconv"
	"strings"
	"sync"

	keystorev4 "github.com/wealdtech/go-eth2-wallet-encryptor-keystorev4"

	"github.com/obolnetwork/charon/app/k1util"
	"github.com/obolnetwork/charon/cluster"
	"github.com/obolnetwork/charon/cmd"
	"github.com/obolnetwork/charon/cmd/combine"
	"github.com/obolnetwork/charon/eth2util"
	"github.com/obolnetwork/charon/eth2util/enr"
	"github.com/obolnetwork/charon/eth2util/keystore"
	"github.com/obolnetwork/charon/p2p"
	"github.com/obolnetwork/charon/tbls"
	"github.com/obolnetwork/charon/tbls/tblsconv"

	"verifharness/kit"
)

const (
	gwei               = 1000000000
	defaultGasLimitCLI = 60000000 // default of --target-gas-limit (cmd/createcluster.go bindClusterFlags)
)

type cliConf struct {
	Mode        string   `json:"mode"` // flags | definition-file | split-keys
	DefVersion  string   `json:"definition_version,omitempty"`
	Nodes       int      `json:"nodes"`
	Threshold   int      `json:"threshold_flag"` // 0: flag not given
	Validators  int      `json:"validators"`
	Network     string   `json:"network"`
	FeeAddrs    []string `json:"fee_recipient_addresses"`
	WdAddrs     []string `json:"withdrawal_addresses"`
	Amounts     []int    `json:"deposit_amounts_eth"`
	Compounding bool     `json:"compounding"`
	GasLimit    uint     `json:"target_gas_limit_flag"` // 0: flag not given
	Consensus   string   `json:"consensus_protocol,omitempty"`
	Name        string   `json:"name"`
	AmountOrder string   `json:"amount_order,omitempty"`
	// Keymanager: key shares are pushed to one keymanager API per node (--keymanager-addresses)
	// instead of being written to the node directories
	Keymanager bool `json:"keymanager_mode,omitempty"`

	net netInfo
}

func (c cliConf) expThreshold() int {
	if c.Threshold > 0 {
		return c.Threshold
	}

	return (2*c.Nodes + 2) / 3 // ceil(2n/3)
}

func (c cliConf) expAmounts() []uint64 {
	var out []uint64
	if len(c.Amounts) == 0 {
		if c.Compounding {
			out = []uint64{1 * gwei, 8 * gwei, 32 * gwei, 256 * gwei}
		} else {
			out = []uint64{1 * gwei, 32 * gwei}
		}

		return out
	}
	seen := map[int]bool{}
	for _, a := range c.Amounts {
		if !seen[a] {
			seen[a] = true
			out = append(out, uint64(a)*gwei)
		}
	}
	sort.Slice(out, func(i, j int) bool { return out[i] < out[j] })

	return out
}

func (c cliConf) addrFor(list []string, i int) string {
	if len(list) == 1 {
		return list[0]
	}

	return list[i]
}

// genCLIConf derives the configuration of CLI case idx: node counts cycle through 3..10 so that every
// count appears even in the quick tier, everything else comes from the case PRNG.
func genCLIConf(idx int, rng *rand.Rand) cliConf {
	conf := cliConf{Mode: "flags"}
	switch idx % 6 {
	case 3:
		conf.Mode = "definition-file"
	case 5:
		conf.Mode = "split-keys"
	}
	conf.Nodes = 3 + (idx*5+idx/8)%8
	conf.Validators = 1 + rng.Intn(3)
	if idx%6 == 1 {
		// several validators, so that the order of the pushed keystores and of their passwords matters
		conf.Keymanager = true
		conf.Validators = 2 + rng.Intn(5)
	}
	switch rng.Intn(5) {
	case 0: // default threshold
	case 1:
		conf.Threshold = 2
	case 2:
		conf.Threshold = conf.Nodes
	default:
		conf.Threshold = 2 + rng.Intn(conf.Nodes-1)
	}

	nets := networks
	if conf.Mode == "definition-file" {
		// insecure keys are refused for mainnet/gnosis definitions
		nets = nil
		for _, n := range networks {
			// (and a custom testnet definition cannot be loaded: loadDefinition needs the network before the
			// --testnet-* flags are registered)
			if n.Name != "mainnet" && n.Name != "gnosis" && n.Name != "prater" && !n.Custom {
				nets = append(nets, n)
			}
		}
	}
	conf.net = nets[rng.Intn(len(nets))]
	conf.Network = conf.net.Name

	conf.Compounding = rng.Intn(3) == 0
	sets := [][]int{nil, nil, {32}, {16, 16}, {8, 24}, {1, 31}, {8, 8, 16}, {1, 1, 30}, {32, 32}, {20, 31}}
	if conf.Compounding {
		sets = [][]int{nil, nil, {32}, {32, 64}, {1, 8, 32, 256}, {2048}, {100, 1}, {16, 16, 2000}}
	}
	conf.Amounts = sets[rng.Intn(len(sets))]

	checksummed := conf.Mode == "definition-file" || rng.Intn(2) == 0
	nAddr := func() int {
		if rng.Intn(2) == 0 {
			return 1
		}

		return conf.Validators
	}
	for range nAddr() {
		conf.FeeAddrs = append(conf.FeeAddrs, randAddr(rng, checksummed))
	}
	for range nAddr() {
		conf.WdAddrs = append(conf.WdAddrs, randAddr(rng, checksummed))
	}
	if rng.Intn(2) == 0 {
		conf.GasLimit = uint(30000000 + 1000000*rng.Intn(60))
	}
	if rng.Intn(3) == 0 {
		conf.Consensus = "qbft"
	}
	conf.Name = fmt.Sprintf("verif-c12-%d", idx)

	if conf.Mode == "definition-file" {
		conf.DefVersion = allVersions[rng.Intn(len(allVersions))]
		minor := minorOf(conf.DefVersion)
		if minor < 10 {
			conf.Compounding = false
			conf.GasLimit = 0
			if len(conf.Amounts) > 0 {
				conf.Amounts = [][]int{{32}, {16, 16}, {8, 24}, {1, 31}}[rng.Intn(4)]
			}
		} else if conf.GasLimit == 0 {
			conf.GasLimit = 36000000
		}
		if minor < 9 {
			conf.Consensus = ""
		}
		if minor < 8 {
			conf.Amounts = nil
		}
		if minor < 5 {
			conf.FeeAddrs, conf.WdAddrs = conf.FeeAddrs[:1], conf.WdAddrs[:1]
		}
		if conf.Threshold == 0 {
			conf.Threshold = (2*conf.Nodes + 2) / 3
		}
	}

	return conf
}

func csvInts(xs []int) string {
	parts := make([]string, len(xs))
	for i, x := range xs {
		parts[i] = strconv.Itoa(x)
	}

	return strings.Join(parts, ",")
}

func (c cliConf) testnetArgs() []string {
	if !c.net.Custom {
		return nil
	}

	return []string{
		"--testnet-name", c.net.Name, "--testnet-fork-version", "0x" + hex.EncodeToString(c.net.ForkVersion[:]),
		"--testnet-chain-id", strconv.Itoa(customChainID), "--testnet-genesis-timestamp", strconv.Itoa(customGenesisTime),
	}
}

// writeDefinition builds an (unsigned) definition of the requested version through the exported
// constructor and writes it to a file for --definition-file.
func writeDefinition(conf cliConf, rng *rand.Rand, dir string) (string, *cluster.Definition, error) {
	minor := minorOf(conf.DefVersion)
	var fee, wd []string
	for i := range conf.Validators {
		fee = append(fee, conf.addrFor(conf.FeeAddrs, i))
		wd = append(wd, conf.addrFor(conf.WdAddrs, i))
	}
	ops := make([]cluster.Operator, conf.Nodes)
	opt := func(d *cluster.Definition) {
		d.Version = conf.DefVersion
		if minor < 10 {
			d.TargetGasLimit = 0
		}
		if minor < 9 {
			d.ConsensusProtocol = ""
		}
		if minor < 8 {
			d.DepositAmounts = nil
		}
	}
	var amounts []int
	if minor >= 8 {
		amounts = conf.Amounts
	}
	gas := conf.GasLimit
	if gas == 0 {
		gas = 30000000 // replaced by 0 in opt for < v1.10
	}
	def, err := cluster.NewDefinition(conf.Name, conf.Validators, conf.Threshold, fee, wd,
		"0x"+hex.EncodeToString(conf.net.ForkVersion[:]), cluster.Creator{}, ops, amounts, conf.Consensus, gas, conf.Compounding,
		rng, opt)
	if err != nil {
		return "", nil, err
	}
	b, err := json.MarshalIndent(def, "", " ")
	if err != nil {
		return "", nil, err
	}
	// What create cluster will read is the file, so the reference is the decoded file.
	var input cluster.Definition
	if err := json.Unmarshal(b, &input); err != nil {
		return "", nil, err
	}
	if err := input.VerifyHashes(); err != nil {
		return "", nil, fmt.Errorf("definition written by the harness does not verify: %w", err)
	}
	p := filepath.Join(dir, "cluster-definition.json")

	return p, &input, os.WriteFile(p, b, 0o600)
}

var cliMu sync.Mutex // one `create cluster` at a time, as in a real process

type ksFile struct {
	Crypto map[string]any `json:"crypto"`
	Pubkey string         `json:"pubkey"`
}

var reKeystore = regexp.MustCompile(`^keystore(-insecure)?-([0-9]+)\.json$`)

// loadKeystores decrypts every keystore-*.json of dir with its .txt password, independently of
// charon's keystore loader. Result is indexed by the number in the file name.
func loadKeystores(dir string) (map[int]tbls.PrivateKey, map[int]string, error) {
	entries, err := os.ReadDir(dir)
	if err != nil {
		return nil, nil, err
	}
	secrets := map[int]tbls.PrivateKey{}
	declared := map[int]string{}
	for _, e := range entries {
		m := reKeystore.FindStringSubmatch(e.Name())
		if m == nil {
			continue
		}
		idx, _ := strconv.Atoi(m[2])
		b, err := os.ReadFile(filepath.Join(dir, e.Name()))
		if err != nil {
			return nil, nil, err
		}
		var ks ksFile
		if err := json.Unmarshal(b, &ks); err != nil {
			return nil, nil, fmt.Errorf("%s: %w", e.Name(), err)
		}
		pw, err := os.ReadFile(filepath.Join(dir, strings.TrimSuffix(e.Name(), ".json")+".txt"))
		if err != nil {
			return nil, nil, err
		}
		raw, err := keystorev4.New().Decrypt(ks.Crypto, string(pw))
		if err != nil {
			return nil, nil, fmt.Errorf("%s: decrypt: %w", e.Name(), err)
		}
		secret, err := tblsconv.PrivkeyFromBytes(raw)
		if err != nil {
			return nil, nil, err
		}
		if _, dup := secrets[idx]; dup {
			return nil, nil, fmt.Errorf("two keystores with index %d in %s", idx, dir)
		}
		secrets[idx] = secret
		declared[idx] = ks.Pubkey
	}

	return secrets, declared, nil
}

type depositEntry struct {
	PubKey                string `json:"pubkey"`
	WithdrawalCredentials string `json:"withdrawal_credentials"`
	Amount                uint64 `json:"amount"`
	Signature             string `json:"signature"`
	DepositMessageRoot    string `json:"deposit_message_root"`
	DepositDataRoot       string `json:"deposit_data_root"`
	ForkVersion           string `json:"fork_version"`
	NetworkName           string `json:"network_name"`
}

func unhex(s string) []byte {
	b, err := hex.DecodeString(strings.TrimPrefix(s, "0x"))
	if err != nil {
		return nil
	}

	return b
}

func copyFile(src, dst string) error {
	b, err := os.ReadFile(src)
	if err != nil {
		return err
	}

	return os.WriteFile(dst, b, 0o600)
}

// copyNodeDir copies what combine needs (lock + validator_keys) of one node directory.
func copyNodeDir(src, dst string) error {
	if err := os.MkdirAll(filepath.Join(dst, "validator_keys"), 0o755); err != nil {
		return err
	}
	if err := copyFile(filepath.Join(src, "cluster-lock.json"), filepath.Join(dst, "cluster-lock.json")); err != nil {
		return err
	}
	entries, err := os.ReadDir(filepath.Join(src, "validator_keys"))
	if err != nil {
		return err
	}
	for _, e := range entries {
		if err := copyFile(filepath.Join(src, "validator_keys", e.Name()), filepath.Join(dst, "validator_keys", e.Name())); err != nil {
			return err
		}
	}

	return nil
}

func runCLICase(c *kit.Case, idx int) {
	runCLIConf(c, idx, genCLIConf(idx, c.Rng), 0)
}

// runCLIConf runs one create-cluster configuration. maxSubsets > 0 caps the combine subsets.
func runCLIConf(c *kit.Case, idx int, conf cliConf, maxSubsets int) {
	r := c.R
	rng := c.Rng
	viol := func(rule, what string, extra map[string]any) {
		w := map[string]any{"config": conf}
		for k, v := range extra {
			w[k] = v
		}
		c.Violation("create-cluster/"+rule, what, w)
	}

	tmp, err := os.MkdirTemp("/var/tmp", "verif-c12-")
	if err != nil {
		r.Inconclusive("W1: temp dir: %v", err)
		return
	}
	defer os.RemoveAll(tmp)
	clusterDir := filepath.Join(tmp, "cluster")

	args := []string{"create", "cluster", "--cluster-dir", clusterDir, "--insecure-keys"}
	var (
		origSecrets []tbls.PrivateKey
		inputDef    *cluster.Definition
	)
	switch conf.Mode {
	case "definition-file":
		var defPath string
		defPath, inputDef, err = writeDefinition(conf, rng, tmp)
		if err != nil {
			r.Inconclusive("W1 case %d: cannot build definition %+v: %v", idx, conf, err)
			return
		}
		args = append(args, "--definition-file", defPath)
		args = append(args, conf.testnetArgs()...)
	default:
		args = append(args, "--nodes", strconv.Itoa(conf.Nodes), "--name", conf.Name,
			"--fee-recipient-addresses", strings.Join(conf.FeeAddrs, ","),
			"--withdrawal-addresses", strings.Join(conf.WdAddrs, ","))
		if conf.net.Custom {
			args = append(args, conf.testnetArgs()...)
		} else {
			args = append(args, "--network", conf.Network)
		}
		if conf.Threshold > 0 {
			args = append(args, "--threshold", strconv.Itoa(conf.Threshold))
		}
		if len(conf.Amounts) > 0 {
			args = append(args, "--deposit-amounts", csvInts(conf.Amounts))
		}
		if conf.Compounding {
			args = append(args, "--compounding")
		}
		if conf.GasLimit > 0 {
			args = append(args, "--target-gas-limit", strconv.FormatUint(uint64(conf.GasLimit), 10))
		}
		if conf.Consensus != "" {
			args = append(args, "--consensus-protocol", conf.Consensus)
		}
		if conf.Mode == "split-keys" {
			splitDir := filepath.Join(tmp, "split")
			if err := os.MkdirAll(splitDir, 0o755); err != nil {
				r.Inconclusive("W1: mkdir: %v", err)
				return
			}
			for range conf.Validators {
				s, err := tbls.GenerateSecretKey()
				if err != nil {
					r.Inconclusive("W1: keygen: %v", err)
					return
				}
				origSecrets = append(origSecrets, s)
			}
			if err := keystore.StoreKeysInsecure(origSecrets, splitDir, keystore.ConfirmInsecureKeys); err != nil {
				r.Inconclusive("W1: store split keys: %v", err)
				return
			}
			args = append(args, "--split-existing-keys", "--split-keys-dir", splitDir)
		} else {
			args = append(args, "--num-validators", strconv.Itoa(conf.Validators))
		}
	}

	var kms []*kmServer
	if conf.Keymanager {
		var addrs, tokens []string
		for i := 0; i < conf.Nodes; i++ {
			km := newKMServer()
			defer km.srv.Close()
			kms = append(kms, km)
			addrs = append(addrs, km.srv.URL)
			tokens = append(tokens, fmt.Sprintf("token-%d", i))
		}
		args = append(args, "--keymanager-addresses", strings.Join(addrs, ","), "--keymanager-auth-tokens", strings.Join(tokens, ","))
		r.Count("cli_runs_keymanager_mode", 1)
	}

	root := cmd.New()
	root.SetArgs(args)
	root.SetOut(io.Discard)
	root.SetErr(io.Discard)
	cliMu.Lock()
	err = root.ExecuteContext(context.Background())
	cliMu.Unlock()
	if err != nil {
		r.Count("cli_errors", 1)
		r.Inconclusive("W1 case %d: create cluster refused a configuration the harness believes valid: %v (args %v)", idx, err, args)
		return
	}
	r.Count("cli_runs", 1)
	r.Seen("cli_modes", conf.Mode)
	r.Seen("cli_nodes", strconv.Itoa(conf.Nodes))
	r.Seen("cli_networks", conf.Network)
	r.Seen("cli_thresholds", fmt.Sprintf("n=%d,t=%d", conf.Nodes, conf.expThreshold()))
	r.Seen("cli_amount_sets", fmt.Sprintf("%v compounding=%v", conf.Amounts, conf.Compounding))
	if conf.DefVersion != "" {
		r.Seen("cli_definition_versions", conf.DefVersion)
	}

	// ---- lock: identical on every node, decodes, verifies -----------------------------------
	nodeDir := func(i int) string { return filepath.Join(clusterDir, fmt.Sprintf("node%d", i)) }
	lockBytes, err := os.ReadFile(filepath.Join(nodeDir(0), "cluster-lock.json"))
	if err != nil {
		viol("lock/missing", "node0 has no cluster-lock.json: "+err.Error(), nil)
		return
	}
	for i := 1; i < conf.Nodes; i++ {
		b, err := os.ReadFile(filepath.Join(nodeDir(i), "cluster-lock.json"))
		if err != nil || !bytes.Equal(b, lockBytes) {
			viol("lock/differs-between-nodes", fmt.Sprintf("cluster-lock.json of node%d differs from node0 (err=%v)", i, err), nil)
			return
		}
	}
	var lock cluster.Lock
	if err := json.Unmarshal(lockBytes, &lock); err != nil {
		viol("lock/decode", "written cluster-lock.json does not decode: "+err.Error(), map[string]any{"lock": string(lockBytes)})
		return
	}
	if err := lock.VerifyHashes(); err != nil {
		viol("lock/verify-hashes", "written lock fails VerifyHashes: "+err.Error(), map[string]any{"lock": string(lockBytes)})
	}
	if err := lock.VerifySignatures(noEth1); err != nil {
		viol("lock/verify-signatures", "written lock fails VerifySignatures: "+err.Error(), map[string]any{"lock": string(lockBytes)})
	}
	r.Count("locks_verified", 1)
	roundTrip(c, "lock", lock.Version, "create-cluster", lockBytes)
	minor := minorOf(lock.Version)

	// ---- lock vs. inputs ----------------------------------------------------------------------
	mismatch := func(field string, got, want any) {
		viol("lock/input-mismatch/"+field, fmt.Sprintf("lock %s = %v, inputs say %v", field, got, want), map[string]any{"lock": string(lockBytes)})
	}
	if len(lock.Operators) != conf.Nodes {
		mismatch("operators", len(lock.Operators), conf.Nodes)
		return
	}
	if lock.Threshold != conf.expThreshold() {
		mismatch("threshold", lock.Threshold, conf.expThreshold())
	}
	if lock.NumValidators != conf.Validators || len(lock.Validators) != conf.Validators {
		mismatch("num_validators", fmt.Sprint(lock.NumValidators, "/", len(lock.Validators)), conf.Validators)
		return
	}
	if !bytes.Equal(lock.ForkVersion, conf.net.ForkVersion[:]) {
		mismatch("fork_version", hex.EncodeToString(lock.ForkVersion), hex.EncodeToString(conf.net.ForkVersion[:]))
	}
	if conf.DefVersion != "" && lock.Version != conf.DefVersion {
		mismatch("version", lock.Version, conf.DefVersion)
	}
	if len(lock.ValidatorAddresses) != conf.Validators {
		mismatch("validator_addresses", len(lock.ValidatorAddresses), conf.Validators)
		return
	}
	for i, va := range lock.ValidatorAddresses {
		if !bytes.Equal(unhex(va.FeeRecipientAddress), unhex(conf.addrFor(conf.FeeAddrs, i))) {
			mismatch("fee_recipient_address", va.FeeRecipientAddress, conf.addrFor(conf.FeeAddrs, i))
		}
		if !bytes.Equal(unhex(va.WithdrawalAddress), unhex(conf.addrFor(conf.WdAddrs, i))) {
			mismatch("withdrawal_address", va.WithdrawalAddress, conf.addrFor(conf.WdAddrs, i))
		}
	}
	if minor >= 8 {
		var got []uint64
		for _, a := range lock.DepositAmounts {
			got = append(got, uint64(a))
		}
		var want []uint64
		for _, a := range conf.Amounts {
			want = append(want, uint64(a)*gwei)
		}
		if fmt.Sprint(got) != fmt.Sprint(want) {
			mismatch("deposit_amounts", got, want)
		}
	}
	if minor >= 10 {
		if lock.Compounding != conf.Compounding {
			mismatch("compounding", lock.Compounding, conf.Compounding)
		}
		wantGas := conf.GasLimit
		if wantGas == 0 {
			wantGas = defaultGasLimitCLI
		}
		if lock.TargetGasLimit != wantGas {
			mismatch("target_gas_limit", lock.TargetGasLimit, wantGas)
		}
	}

	// ---- definition-file flow: the lock's definition is the input definition ---------------------------
	if inputDef != nil {
		r.Count("deffile_runs", 1)
		r.Seen("deffile_amount_orders", fmt.Sprintf("%s %s %v compounding=%v", lock.Version, conf.AmountOrder, conf.Amounts, conf.Compounding))
		w := map[string]any{"lock": string(lockBytes), "input_definition": inputDef}
		changed := func(field string, got, want any) {
			w["got"], w["want"] = got, want
			viol("definition-file/hashed-field-changed/"+field, fmt.Sprintf("lock definition %s = %v, the definition file it was created from says %v", field, got, want), w)
		}
		if !bytes.Equal(lock.ConfigHash, inputDef.ConfigHash) {
			w["got"], w["want"] = hex.EncodeToString(lock.ConfigHash), hex.EncodeToString(inputDef.ConfigHash)
			viol("definition-file/config-hash-changed", fmt.Sprintf("config_hash of the written lock is %x, the definition file's is %x", lock.ConfigHash, inputDef.ConfigHash), w)
		}
		ld := lock.Definition
		for _, f := range []struct {
			name      string
			got, want any
		}{
			{"uuid", ld.UUID, inputDef.UUID}, {"name", ld.Name, inputDef.Name}, {"version", ld.Version, inputDef.Version},
			{"timestamp", ld.Timestamp, inputDef.Timestamp}, {"num_validators", ld.NumValidators, inputDef.NumValidators},
			{"threshold", ld.Threshold, inputDef.Threshold}, {"dkg_algorithm", ld.DKGAlgorithm, inputDef.DKGAlgorithm},
			{"fork_version", hex.EncodeToString(ld.ForkVersion), hex.EncodeToString(inputDef.ForkVersion)},
			{"creator", canon(reflect.ValueOf(ld.Creator)), canon(reflect.ValueOf(inputDef.Creator))},
			{"validators", canon(reflect.ValueOf(ld.ValidatorAddresses)), canon(reflect.ValueOf(inputDef.ValidatorAddresses))},
			{"deposit_amounts", canon(reflect.ValueOf(ld.DepositAmounts)), canon(reflect.ValueOf(inputDef.DepositAmounts))},
			{"consensus_protocol", ld.ConsensusProtocol, inputDef.ConsensusProtocol},
			{"target_gas_limit", ld.TargetGasLimit, inputDef.TargetGasLimit}, {"compounding", ld.Compounding, inputDef.Compounding},
		} {
			if !reflect.DeepEqual(f.got, f.want) {
				changed(f.name, f.got, f.want)
			}
		}
		// Operators: create cluster fills in the ENRs it generated (nothing else); the definition hash of
		// the lock must be the input definition's with exactly those operators.
		for i, op := range ld.Operators {
			in := inputDef.Operators[i]
			if op.Address != in.Address || !bytes.Equal(op.ConfigSignature, in.ConfigSignature) || !bytes.Equal(op.ENRSignature, in.ENRSignature) {
				changed(fmt.Sprintf("operators[%d]", i), canon(reflect.ValueOf(op)), canon(reflect.ValueOf(in)))
			}
		}
		exp := *inputDef
		exp.Operators = ld.Operators
		if exp, err := exp.SetDefinitionHashes(); err != nil {
			r.Inconclusive("W1: hash of input definition with lock operators: %v", err)
		} else if !bytes.Equal(exp.DefinitionHash, ld.DefinitionHash) {
			w["got"], w["want"] = hex.EncodeToString(ld.DefinitionHash), hex.EncodeToString(exp.DefinitionHash)
			viol("definition-file/definition-hash-changed", "definition_hash of the written lock is not the hash of the input definition completed with the lock's operator ENRs", w)
		}
		if bytes.Equal(inputDef.DefinitionHash, ld.DefinitionHash) {
			r.Count("deffile_definition_hash_equal_to_file", 1)
		} else {
			r.Count("deffile_definition_hash_differs_only_by_operator_enrs", 1)
		}
	}

	// ---- split-existing-keys with per-validator addresses: keystore-N is paired with the N-th address
	if conf.Mode == "split-keys" && (len(conf.FeeAddrs) > 1 || len(conf.WdAddrs) > 1) {
		for vi, s := range origSecrets {
			pub, err := tbls.SecretToPublicKey(s)
			if err != nil || !bytes.Equal(pub[:], lock.Validators[vi].PubKey) {
				viol("split-keys/address-pairing", fmt.Sprintf("validator %d of the lock (paired with the %d-th addresses) is not the key of keystore-%d (err=%v)", vi, vi, vi, err), map[string]any{"lock": string(lockBytes)})
			}
		}
	}

	// ---- ENR keys and key shares on disk vs. lock ------------------------------------------------
	for i := range conf.Nodes {
		key, err := k1util.Load(p2p.KeyPath(nodeDir(i)))
		if err != nil {
			viol("enr-key/missing", fmt.Sprintf("node%d: %v", i, err), nil)
			continue
		}
		rec, err := enr.Parse(lock.Operators[i].ENR)
		if err != nil || !rec.PubKey.IsEqual(key.PubKey()) {
			viol("enr-key/mismatch", fmt.Sprintf("node%d: charon-enr-private-key does not belong to operator %d's ENR in the lock (err=%v)", i, i, err), nil)
		}
		var (
			secrets  map[int]tbls.PrivateKey
			declared map[int]string
		)
		if conf.Keymanager {
			// what node i's keymanager was handed: keystore k must open with password k and hold this
			// node's share of validator k (the keymanager API pairs them by position)
			secrets, declared, err = kms[i].imported()
			if err != nil {
				viol("keymanager/import-unusable", fmt.Sprintf("node%d: the keystores pushed to its keymanager cannot be opened with the passwords pushed alongside them: %v", i, err), nil)
				continue
			}
			r.Count("keymanager_imports_checked", 1)
		} else {
			secrets, declared, err = loadKeystores(filepath.Join(nodeDir(i), "validator_keys"))
			if err != nil {
				viol("keystore/unreadable", fmt.Sprintf("node%d: %v", i, err), nil)
				continue
			}
		}
		if len(secrets) != conf.Validators {
			viol("keystore/count", fmt.Sprintf("node%d has %d keystores, lock has %d validators", i, len(secrets), conf.Validators), nil)
		}
		for vi := range conf.Validators {
			secret, ok := secrets[vi]
			if !ok {
				viol("keystore/missing-index", fmt.Sprintf("node%d has no keystore with index %d", i, vi), nil)
				continue
			}
			pub, err := tbls.SecretToPublicKey(secret)
			if err != nil {
				viol("keystore/bad-secret", fmt.Sprintf("node%d keystore %d: %v", i, vi, err), nil)
				continue
			}
			r.Count("shares_checked", 1)
			if len(lock.Validators[vi].PubShares) != conf.Nodes {
				viol("lock/pubshare-count", fmt.Sprintf("validator %d has %d public shares for %d nodes", vi, len(lock.Validators[vi].PubShares), conf.Nodes), nil)
				continue
			}
			if !bytes.Equal(pub[:], lock.Validators[vi].PubShares[i]) {
				viol("keystore/share-mismatch",
					fmt.Sprintf("node%d keystore %d holds a share whose public key is not lock.validators[%d].public_shares[%d]", i, vi, vi, i),
					map[string]any{"share_pubkey": hex.EncodeToString(pub[:]), "lock_pubshare": hex.EncodeToString(lock.Validators[vi].PubShares[i]), "node": i, "validator": vi})
			}
			if !bytes.Equal(unhex(declared[vi]), pub[:]) {
				viol("keystore/declared-pubkey", fmt.Sprintf("node%d keystore %d: pubkey field does not match the encrypted secret", i, vi), nil)
			}
		}
	}

	// ---- deposit data files -----------------------------------------------------------------------
	valIdx := map[string]int{}
	for vi, v := range lock.Validators {
		valIdx[hex.EncodeToString(v.PubKey)] = vi
	}
	wcPrefix := byte(0x01)
	if conf.Compounding {
		wcPrefix = 0x02
	}
	expWC := func(vi int) []byte {
		wc := make([]byte, 32)
		wc[0] = wcPrefix
		copy(wc[12:], unhex(conf.addrFor(conf.WdAddrs, vi)))

		return wc
	}
	type ddKey struct {
		vi     int
		amount uint64
	}
	fileDD := map[ddKey]depositEntry{}
	files, _ := filepath.Glob(filepath.Join(nodeDir(0), "deposit-data*.json"))
	sort.Strings(files)
	var fileAmounts []uint64
	for _, f := range files {
		b, err := os.ReadFile(f)
		if err != nil {
			viol("deposit-data/unreadable", err.Error(), nil)
			continue
		}
		for i := 1; i < conf.Nodes; i++ {
			o, err := os.ReadFile(filepath.Join(nodeDir(i), filepath.Base(f)))
			if err != nil || !bytes.Equal(o, b) {
				viol("deposit-data/differs-between-nodes", fmt.Sprintf("%s of node%d differs from node0 (err=%v)", filepath.Base(f), i, err), nil)
			}
		}
		var entries []depositEntry
		if err := json.Unmarshal(b, &entries); err != nil {
			viol("deposit-data/decode", filepath.Base(f)+": "+err.Error(), nil)
			continue
		}
		if len(entries) != conf.Validators {
			viol("deposit-data/entry-count", fmt.Sprintf("%s has %d entries for %d validators", filepath.Base(f), len(entries), conf.Validators), nil)
		}
		if len(entries) > 0 {
			fileAmounts = append(fileAmounts, entries[0].Amount)
		}
		for _, e := range entries {
			w := map[string]any{"file": filepath.Base(f), "entry": e}
			vi, ok := valIdx[strings.TrimPrefix(e.PubKey, "0x")]
			if !ok {
				viol("deposit-data/unknown-pubkey", "deposit entry for a public key that is not a validator of the lock", w)
				continue
			}
			if _, dup := fileDD[ddKey{vi, e.Amount}]; dup {
				viol("deposit-data/duplicate", "two deposit entries for the same validator and amount", w)
			}
			fileDD[ddKey{vi, e.Amount}] = e
			r.Count("deposits_checked", 1)
			if len(entries) > 0 && e.Amount != entries[0].Amount {
				viol("deposit-data/mixed-amounts", "one deposit-data file mixes amounts", w)
			}
			pk, wc, sigB := unhex(e.PubKey), unhex(e.WithdrawalCredentials), unhex(e.Signature)
			if !bytes.Equal(wc, expWC(vi)) {
				w["expected_withdrawal_credentials"] = hex.EncodeToString(expWC(vi))
				viol("deposit-data/withdrawal-credentials", fmt.Sprintf("deposit of validator %d does not pay out to its withdrawal address with prefix %#x", vi, wcPrefix), w)
			}
			sroot := depositSigningRoot(pk, wc, e.Amount, conf.net.ForkVersion)
			pubkey, err1 := tblsconv.PubkeyFromBytes(pk)
			sig, err2 := tblsconv.SignatureFromBytes(sigB)
			if err1 != nil || err2 != nil {
				viol("deposit-data/malformed", fmt.Sprintf("pubkey/signature malformed: %v %v", err1, err2), w)
				continue
			}
			if err := tbls.Verify(pubkey, sroot[:], sig); err != nil {
				viol("deposit-data/signature", fmt.Sprintf("deposit signature of validator %d (%d gwei) does not verify under the lock's validator key for the independently computed signing root (DOMAIN_DEPOSIT, fork version %x): %v", vi, e.Amount, conf.net.ForkVersion, err), w)
			}
			if mr := depositMessageRoot(pk, wc, e.Amount); !bytes.Equal(unhex(e.DepositMessageRoot), mr[:]) {
				viol("deposit-data/message-root", "deposit_message_root does not match the entry", w)
			}
			if dr := depositDataRoot(pk, wc, e.Amount, sigB); !bytes.Equal(unhex(e.DepositDataRoot), dr[:]) {
				viol("deposit-data/data-root", "deposit_data_root does not match the entry", w)
			}
			if !bytes.Equal(unhex(e.ForkVersion), conf.net.ForkVersion[:]) {
				viol("deposit-data/fork-version", "fork_version of the deposit entry is not the cluster's", w)
			}
			if e.NetworkName != conf.net.Canonical {
				viol("deposit-data/network-name", fmt.Sprintf("network_name %q, expected %q", e.NetworkName, conf.net.Canonical), w)
			}
		}
	}
	sort.Slice(fileAmounts, func(i, j int) bool { return fileAmounts[i] < fileAmounts[j] })
	if fmt.Sprint(fileAmounts) != fmt.Sprint(conf.expAmounts()) {
		viol("deposit-data/amount-set", fmt.Sprintf("deposit-data files cover amounts %v, inputs ask for %v", fileAmounts, conf.expAmounts()), nil)
	}

	// ---- deposit data and builder registrations inside the lock ------------------------------------
	for vi, v := range lock.Validators {
		if minor >= 6 {
			if minor >= 8 && len(v.PartialDepositData) != len(conf.expAmounts()) {
				viol("lock/deposit-count", fmt.Sprintf("validator %d has %d partial deposits in the lock, expected %d", vi, len(v.PartialDepositData), len(conf.expAmounts())), map[string]any{"lock": string(lockBytes)})
			}
			for _, dd := range v.PartialDepositData {
				e, ok := fileDD[ddKey{vi, uint64(dd.Amount)}]
				w := map[string]any{"validator": vi, "lock_deposit": map[string]any{
					"pubkey": hex.EncodeToString(dd.PubKey), "withdrawal_credentials": hex.EncodeToString(dd.WithdrawalCredentials),
					"amount": dd.Amount, "signature": hex.EncodeToString(dd.Signature),
				}}
				if !ok {
					viol("lock/deposit-not-in-files", fmt.Sprintf("validator %d: lock deposit of %d gwei has no deposit-data file entry", vi, dd.Amount), w)
				} else if !bytes.Equal(dd.PubKey, unhex(e.PubKey)) || !bytes.Equal(dd.WithdrawalCredentials, unhex(e.WithdrawalCredentials)) || !bytes.Equal(dd.Signature, unhex(e.Signature)) {
					viol("lock/deposit-differs-from-file", fmt.Sprintf("validator %d: lock deposit of %d gwei differs from the deposit-data file entry", vi, dd.Amount), w)
				}
				sroot := depositSigningRoot(dd.PubKey, dd.WithdrawalCredentials, uint64(dd.Amount), conf.net.ForkVersion)
				pubkey, err1 := tblsconv.PubkeyFromBytes(v.PubKey)
				sig, err2 := tblsconv.SignatureFromBytes(dd.Signature)
				if err1 != nil || err2 != nil || !bytes.Equal(dd.PubKey, v.PubKey) || tbls.Verify(pubkey, sroot[:], sig) != nil {
					viol("lock/deposit-signature", fmt.Sprintf("validator %d: lock deposit of %d gwei does not verify under the validator key", vi, dd.Amount), w)
				}
				r.Count("lock_deposits_checked", 1)
			}
		}
		if minor >= 7 {
			reg := v.BuilderRegistration
			w := map[string]any{"validator": vi, "registration": map[string]any{
				"fee_recipient": hex.EncodeToString(reg.Message.FeeRecipient), "gas_limit": reg.Message.GasLimit,
				"timestamp": reg.Message.Timestamp.Unix(), "pubkey": hex.EncodeToString(reg.Message.PubKey), "signature": hex.EncodeToString(reg.Signature),
			}}
			if !bytes.Equal(reg.Message.PubKey, v.PubKey) {
				viol("builder-registration/pubkey", fmt.Sprintf("validator %d: registration is for another public key", vi), w)
			}
			if !bytes.Equal(reg.Message.FeeRecipient, unhex(conf.addrFor(conf.FeeAddrs, vi))) {
				viol("builder-registration/fee-recipient", fmt.Sprintf("validator %d: registration fee recipient is not the configured one", vi), w)
			}
			if minor >= 10 && uint(reg.Message.GasLimit) != lock.TargetGasLimit {
				viol("builder-registration/gas-limit", fmt.Sprintf("validator %d: registration gas limit %d, lock target gas limit %d", vi, reg.Message.GasLimit, lock.TargetGasLimit), w)
			}
			sroot := registrationSigningRoot(reg.Message.FeeRecipient, uint64(reg.Message.GasLimit), uint64(reg.Message.Timestamp.Unix()), reg.Message.PubKey, conf.net.ForkVersion)
			pubkey, err1 := tblsconv.PubkeyFromBytes(v.PubKey)
			sig, err2 := tblsconv.SignatureFromBytes(reg.Signature)
			if err1 != nil || err2 != nil {
				viol("builder-registration/malformed", fmt.Sprintf("validator %d: %v %v", vi, err1, err2), w)
			} else if err := tbls.Verify(pubkey, sroot[:], sig); err != nil {
				viol("builder-registration/signature", fmt.Sprintf("validator %d: registration signature does not verify under the validator key for the independently computed signing root (DOMAIN_APPLICATION_BUILDER, genesis fork version %x): %v", vi, conf.net.ForkVersion, err), w)
			}
			r.Count("registrations_checked", 1)
		}
	}

	// ---- combine over threshold-size subsets of node directories ------------------------------------
	t := lock.Threshold
	subsets := kit.Subsets(conf.Nodes, t)
	exhaustive := true
	if conf.Nodes > 6 {
		limit := 6
		if r.Thorough() {
			limit = 12
		}
		if len(subsets) > limit {
			exhaustive = false
			rng.Shuffle(len(subsets), func(i, j int) { subsets[i], subsets[j] = subsets[j], subsets[i] })
			subsets = subsets[:limit]
		}
	}
	if maxSubsets > 0 && len(subsets) > maxSubsets {
		exhaustive = false
		rng.Shuffle(len(subsets), func(i, j int) { subsets[i], subsets[j] = subsets[j], subsets[i] })
		subsets = subsets[:maxSubsets]
	}
	if conf.Keymanager {
		// no key shares on disk to run combine on: recombine what the keymanagers were handed
		for _, subset := range subsets {
			for vi := range conf.Validators {
				shares := map[int]tbls.PrivateKey{}
				for _, ni := range subset {
					if sec, _, err := kms[ni].imported(); err == nil {
						if s, ok := sec[vi]; ok {
							shares[ni+1] = s
						}
					}
				}
				if len(shares) < t {
					continue // already reported above
				}
				rec, err := tbls.RecoverSecret(shares, uint(conf.Nodes), uint(t))
				var pub tbls.PublicKey
				if err == nil {
					pub, err = tbls.SecretToPublicKey(rec)
				}
				if err != nil || !bytes.Equal(pub[:], lock.Validators[vi].PubKey) {
					viol("keymanager/recombined-key-mismatch", fmt.Sprintf("the shares of validator %d pushed to the keymanagers of nodes %v do not recombine to the lock's validator key (err=%v)", vi, subset, err), map[string]any{"subset": subset})
				}
				r.Count("keymanager_recombinations_checked", 1)
			}
		}
		subsets = nil
	}
	var testnet eth2util.Network
	for si, subset := range subsets {
		in := filepath.Join(tmp, fmt.Sprintf("in%d", si))
		out := filepath.Join(tmp, fmt.Sprintf("out%d", si))
		ok := true
		// directory names deliberately do not reveal the node index
		for j, ni := range rng.Perm(len(subset)) {
			if err := copyNodeDir(nodeDir(subset[ni]), filepath.Join(in, fmt.Sprintf("op-%c", 'a'+j))); err != nil {
				r.Inconclusive("W1: copy node dir: %v", err)
				ok = false
			}
		}
		if !ok {
			continue
		}
		w := map[string]any{"subset": subset, "threshold": t, "lock": string(lockBytes)}
		err := combine.Combine(context.Background(), in, out, false, false, "", testnet, combine.WithInsecureKeysForT(r.T()))
		r.Count("combine_runs", 1)
		if err != nil {
			viol("combine/error", fmt.Sprintf("combine of the %d node directories %v (threshold %d of %d) failed: %v", len(subset), subset, t, conf.Nodes, err), w)
			continue
		}
		secrets, _, err := loadKeystores(out)
		if err != nil {
			viol("combine/output-unreadable", err.Error(), w)
			continue
		}
		if len(secrets) != conf.Validators {
			viol("combine/key-count", fmt.Sprintf("combine wrote %d keys for %d validators", len(secrets), conf.Validators), w)
		}
		for vi := range conf.Validators {
			s, ok := secrets[vi]
			if !ok {
				viol("combine/missing-key", fmt.Sprintf("combine output has no keystore %d", vi), w)
				continue
			}
			pub, err := tbls.SecretToPublicKey(s)
			if err != nil || !bytes.Equal(pub[:], lock.Validators[vi].PubKey) {
				viol("combine/wrong-key", fmt.Sprintf("recombining shares of nodes %v yields a private key whose public key is not lock.validators[%d].distributed_public_key (err=%v)", subset, vi, err), w)
			}
			if conf.Mode == "split-keys" {
				found := false
				for _, o := range origSecrets {
					found = found || o == s
				}
				if !found {
					viol("combine/not-the-split-key", fmt.Sprintf("recombined key %d is none of the keys that were split", vi), w)
				}
			}
			r.Count("combined_keys_checked", 1)
		}
		_ = os.RemoveAll(in)
		_ = os.RemoveAll(out)
	}
	if exhaustive {
		r.Count("cli_cases_all_subsets", 1)
	}

	c.NonTrivial(kit.Hash("cli", conf.Mode, conf.DefVersion, conf.Nodes, conf.expThreshold(), conf.Validators, conf.Network, conf.Amounts, conf.Compounding, len(conf.FeeAddrs), len(conf.WdAddrs), conf.GasLimit, conf.Consensus))
	r.Sample(map[string]any{"workload": "W1", "config": conf, "lock_version": lock.Version, "subsets_combined": len(subsets), "all_subsets": exhaustive})
}

// Deposit-amount sets (ETH) of the definition-file block, by order class. Every amount is within
// [1, 32] (non-compounding) / [1, 2048] (compounding) and every set sums to at least 32.
var defFileAmountSets = map[bool]map[string][][]int{
	false: {
		"ascending":   {{1, 31}, {8, 24}, {4, 12, 16}, {1, 2, 29}},
		"descending":  {{31, 1}, {24, 8}, {16, 12, 4}, {32, 1}, {29, 2, 1}},
		"duplicates":  {{16, 16}, {8, 8, 8, 8}, {8, 16, 8}, {16, 8, 8, 16}, {31, 1, 31}},
		"top-up-last": {{16, 8, 8}, {32, 1, 1}, {16, 16, 1}, {20, 12, 1}},
		"unsorted":    {{8, 1, 23}, {2, 29, 1}, {12, 4, 16}},
		"single":      {{32}},
		"absent":      {nil},
	},
	true: {
		"ascending":   {{1, 32, 64}, {32, 2048}},
		"descending":  {{256, 32, 1}, {2048, 1}, {64, 32}},
		"duplicates":  {{64, 32, 64}, {32, 32}, {1000, 1, 1000}},
		"top-up-last": {{32, 32, 1}, {2048, 31, 1}},
		"unsorted":    {{32, 1, 2048}, {8, 256, 1, 32}},
		"single":      {{2048}, {32}},
		"absent":      {nil},
	},
}

var defFileOrders = []string{"ascending", "descending", "duplicates", "top-up-last", "unsorted", "single", "absent"}

// defFileVersions are the format versions that carry deposit amounts (partial deposits).
var defFileVersions = []string{"v1.8.0", "v1.9.0", "v1.10.0", "v1.11.0"}

// genDefFileConf derives case j of the definition-file block: version and order class cycle so that
// every (version, order) pair appears in every tier; shapes are small because combine and the other
// artifact checks are exercised at full size by the first block.
func genDefFileConf(j int, rng *rand.Rand, thorough bool) cliConf {
	conf := cliConf{Mode: "definition-file"}
	conf.DefVersion = defFileVersions[j%len(defFileVersions)]
	conf.AmountOrder = defFileOrders[(j/len(defFileVersions))%len(defFileOrders)]
	minor := minorOf(conf.DefVersion)
	conf.Nodes = 3 + rng.Intn(2)
	if thorough {
		conf.Nodes = 3 + rng.Intn(8)
	}
	conf.Threshold = 2 + rng.Intn(conf.Nodes-1)
	conf.Validators = 1 + rng.Intn(2)
	var nets []netInfo
	for _, n := range networks {
		if n.Name != "mainnet" && n.Name != "gnosis" && n.Name != "prater" && !n.Custom {
			nets = append(nets, n)
		}
	}
	conf.net = nets[rng.Intn(len(nets))]
	conf.Network = conf.net.Name
	conf.Compounding = minor >= 10 && rng.Intn(2) == 0
	sets := defFileAmountSets[conf.Compounding][conf.AmountOrder]
	conf.Amounts = sets[rng.Intn(len(sets))]
	for range conf.Validators {
		conf.FeeAddrs = append(conf.FeeAddrs, randAddr(rng, true))
		conf.WdAddrs = append(conf.WdAddrs, randAddr(rng, true))
	}
	if minor >= 10 {
		conf.GasLimit = uint(30000000 + 1000000*rng.Intn(60))
	}
	if minor >= 9 && rng.Intn(2) == 0 {
		conf.Consensus = "qbft"
	}
	conf.Name = fmt.Sprintf("verif-c12-deffile-%d", j)

	return conf
}

// kmServer is a minimal keymanager API (POST /eth/v1/keystores) that records what it is handed.
type kmServer struct {
	srv *httptest.Server
	mu  sync.Mutex
	req struct {
		Keystores []string `json:"keystores"`
		Passwords []string `json:"passwords"`
	}
	calls int
}

func newKMServer() *kmServer {
	km := &kmServer{}
	km.srv = httptest.NewServer(http.HandlerFunc(func(w http.ResponseWriter, r *http.Request) {
		if r.Method != http.MethodPost || r.URL.Path != "/eth/v1/keystores" {
			w.WriteHeader(http.StatusNotFound)
			return
		}
		b, _ := io.ReadAll(r.Body)
		km.mu.Lock()
		km.calls++
		_ = json.Unmarshal(b, &km.req)
		km.mu.Unlock()
		w.WriteHeader(http.StatusOK)
		_, _ = w.Write([]byte(`{"data":[]}`))
	}))

	return km
}

// imported opens keystore k with password k, for every k.
func (km *kmServer) imported() (map[int]tbls.PrivateKey, map[int]string, error) {
	km.mu.Lock()
	defer km.mu.Unlock()
	if km.calls != 1 {
		return nil, nil, fmt.Errorf("%d import requests, want 1", km.calls)
	}
	if len(km.req.Keystores) != len(km.req.Passwords) {
		return nil, nil, fmt.Errorf("%d keystores but %d passwords", len(km.req.Keystores), len(km.req.Passwords))
	}
	secrets, declared := map[int]tbls.PrivateKey{}, map[int]string{}
	for k, raw := range km.req.Keystores {
		var ks ksFile
		if err := json.Unmarshal([]byte(raw), &ks); err != nil {
			return nil, nil, fmt.Errorf("keystore #%d: %w", k, err)
		}
		b, err := keystorev4.New().Decrypt(ks.Crypto, km.req.Passwords[k])
		if err != nil {
			return nil, nil, fmt.Errorf("keystore #%d does not open with password #%d: %w", k, k, err)
		}
		secret, err := tblsconv.PrivkeyFromBytes(b)
		if err != nil {
			return nil, nil, err
		}
		secrets[k], declared[k] = secret, ks.Pubkey
	}

	return secrets, declared, nil
}
