package c12

// W3: decode → encode → decode never changes config hash, definition hash or lock hash.

import (
	"bytes"
	"encoding/base64"
	"encoding/hex"
	"encoding/json"
	"fmt"
	"os"
	"path/filepath"
	"strings"

	"github.com/obolnetwork/charon/cluster"

	"verifharness/kit"
)

const goldenDir = "cluster/testdata"

type hashes struct {
	Config, Definition, Lock string
}

func decodeHashes(kind string, b []byte) (h hashes, v verifier, err error) {
	if kind == "lock" {
		var l cluster.Lock
		if err := json.Unmarshal(b, &l); err != nil {
			return h, nil, err
		}

		return hashes{hex.EncodeToString(l.ConfigHash), hex.EncodeToString(l.DefinitionHash), hex.EncodeToString(l.LockHash)}, l, nil
	}
	var d cluster.Definition
	if err := json.Unmarshal(b, &d); err != nil {
		return h, nil, err
	}

	return hashes{hex.EncodeToString(d.ConfigHash), hex.EncodeToString(d.DefinitionHash), ""}, d, nil
}

// roundTrip checks one file. source names where it came from (golden / generated / cli).
func roundTrip(c *kit.Case, kind, version, source string, b []byte) {
	r := c.R
	h1, v1, err := decodeHashes(kind, b)
	if err != nil {
		r.Inconclusive("W3 %s %s %s: does not decode: %v", source, kind, version, err)
		return
	}
	if err := v1.VerifyHashes(); err != nil {
		// Not a valid file: the statement is about valid files only.
		r.Count("roundtrip_skipped_invalid_hashes", 1)
		r.Seen("roundtrip_skipped", fmt.Sprintf("%s %s %s: %v", source, kind, version, kit.Short(err.Error(), 80)))
		if source != "golden" {
			// files the harness produced through charon's own API must verify, otherwise W3 saw nothing
			r.Inconclusive("W3 %s %s %s: file produced by charon's own encoder/hash functions fails VerifyHashes: %v", source, kind, version, err)
		}

		return
	}
	cur, curV := b, v1
	for pass, indent := range []bool{false, true, false} {
		var enc []byte
		if indent {
			enc, err = json.MarshalIndent(curV, "", " ")
		} else {
			enc, err = json.Marshal(curV)
		}
		w := map[string]any{"kind": kind, "version": version, "source": source, "pass": pass, "original": string(b), "reencoded": string(enc)}
		if err != nil {
			c.Violation(fmt.Sprintf("cluster/reencode-fails/%s/%s", kind, version), fmt.Sprintf("%s %s (%s): encoding the decoded file fails: %v", kind, version, source, err), w)
			return
		}
		h2, v2, err := decodeHashes(kind, enc)
		if err != nil {
			c.Violation(fmt.Sprintf("cluster/reencode-undecodable/%s/%s", kind, version), fmt.Sprintf("%s %s (%s): re-encoded file does not decode: %v", kind, version, source, err), w)
			return
		}
		for _, f := range []struct{ name, a, b string }{
			{"config_hash", h1.Config, h2.Config}, {"definition_hash", h1.Definition, h2.Definition}, {"lock_hash", h1.Lock, h2.Lock},
		} {
			if f.a != f.b {
				w["before"], w["after"] = f.a, f.b
				c.Violation(fmt.Sprintf("cluster/reencode-changes-hash/%s/%s/%s", kind, version, f.name),
					fmt.Sprintf("%s %s (%s): %s is %s before and %s after decode→encode→decode", kind, version, source, f.name, f.a, f.b), w)
			}
		}
		if err := v2.VerifyHashes(); err != nil {
			c.Violation(fmt.Sprintf("cluster/reencode-breaks-hashes/%s/%s", kind, version),
				fmt.Sprintf("%s %s (%s): file verified before, re-encoded file fails VerifyHashes: %v", kind, version, source, err), w)
		}
		cur, curV = enc, v2
		r.Count("roundtrips", 1)
	}
	_ = cur
	r.Seen("roundtrip_files", fmt.Sprintf("%s %s %s", source, kind, version))
}

// repoRoot finds the charon checkout the binary was built against (module replace target).
func repoRoot() string {
	for _, k := range []string{"VERIF_REPO_DIR", "VERIF_REPO"} {
		if d := os.Getenv(k); d != "" {
			return d
		}
	}

	return "/repo"
}

func runRoundTripCase(c *kit.Case, unit int, version string) {
	r := c.R
	vStr := strings.ReplaceAll(version, ".", "_")
	for _, kind := range []string{"definition", "lock"} {
		p := filepath.Join(repoRoot(), goldenDir, fmt.Sprintf("cluster_%s_%s.json", kind, vStr))
		b, err := os.ReadFile(p)
		if err != nil {
			r.Inconclusive("W3: golden file %s: %v", p, err)
			continue
		}
		roundTrip(c, kind, version, "golden", bytes.TrimSpace(b))
	}
	e := baseFor(r, unit, version)
	if e.err != nil {
		baseBuildFailed(r, "W3", version, e.err)
		return
	}
	roundTrip(c, "lock", version, "generated", e.lockJSON)
	roundTrip(c, "definition", version, "generated", e.defJSON)
	// Hand-assembled valid files: free-text members replaced by unusual spellings in the JSON tree and
	// the hash members patched from charon's own hash functions, without going through MarshalJSON.
	for _, kind := range []string{"lock", "definition"} {
		doc := e.lockJSON
		if kind == "definition" {
			doc = e.defJSON
		}
		for variant := range 3 {
			b, err := stressFile(kind, doc, variant)
			if err != nil {
				r.Inconclusive("W3 %s %s: cannot assemble stress file %d: %v", kind, version, variant, err)
				continue
			}
			roundTrip(c, kind, version, fmt.Sprintf("patched-stress%d", variant), b)
		}
	}
	c.NonTrivial(kit.Hash("roundtrip", version, unit))
}

var stressText = [][]string{
	// name, dkg_algorithm, consensus_protocol, uuid, timestamp
	{" Mixed Case  Name ", "Default", "QBFT", "0194fdc2-fa2f-4cc0-81d3-ff12045b73c8", "2022-07-19T18:19:58+02:00"},
	{"ÜNÏ-名前 <&> \"q\"", "FROST", "Qbft", "0194FDC2FA2F4CC081D3FF12045B73C8", "2022-07-19 18:19:58"},
	{"tab\there", "default ", "qbft ", " 0194FDC2-FA2F-4CC0-81D3-FF12045B73C8", "1658247598"},
}

func flipHexCase(s string) string {
	if !strings.HasPrefix(s, "0x") {
		return s
	}
	if low := strings.ToLower(s); low != s {
		return low
	}

	return "0x" + strings.ToUpper(s[2:])
}

// stressFile rewrites free-text members (and the letter case of address strings) of a valid file
// directly in the JSON tree and patches config_hash/definition_hash/lock_hash with the values
// charon's hash functions give for the decoded result. Signatures become stale, which W3 ignores.
func stressFile(kind string, doc []byte, variant int) ([]byte, error) {
	tree, err := decodeTree(doc)
	if err != nil {
		return nil, err
	}
	root, _ := tree.(map[string]any)
	def := root
	if kind == "lock" {
		def, _ = root["cluster_definition"].(map[string]any)
	}
	if def == nil {
		return nil, fmt.Errorf("no definition object")
	}
	txt := stressText[variant%len(stressText)]
	for i, key := range []string{"name", "dkg_algorithm", "consensus_protocol", "uuid", "timestamp"} {
		if _, ok := def[key]; ok {
			def[key] = txt[i]
		}
	}
	flipAddr := func(m map[string]any, key string) {
		if s, ok := m[key].(string); ok {
			m[key] = flipHexCase(s)
		}
	}
	flipAddr(def, "fee_recipient_address")
	flipAddr(def, "withdrawal_address")
	if c, ok := def["creator"].(map[string]any); ok {
		flipAddr(c, "address")
	}
	for _, listKey := range []string{"operators", "validators"} {
		list, _ := def[listKey].([]any)
		for _, o := range list {
			if m, ok := o.(map[string]any); ok {
				flipAddr(m, "address")
				flipAddr(m, "fee_recipient_address")
				flipAddr(m, "withdrawal_address")
			}
		}
	}

	enc := func(old any, h []byte) any {
		if s, ok := old.(string); ok && !strings.HasPrefix(s, "0x") {
			return base64.StdEncoding.EncodeToString(h) // v1.0/v1.1 write []byte members as base64
		}

		return "0x" + hex.EncodeToString(h)
	}
	b, err := json.Marshal(tree)
	if err != nil {
		return nil, err
	}
	if kind == "definition" {
		var d cluster.Definition
		if err := json.Unmarshal(b, &d); err != nil {
			return nil, err
		}
		d, err = d.SetDefinitionHashes()
		if err != nil {
			return nil, err
		}
		def["config_hash"], def["definition_hash"] = enc(def["config_hash"], d.ConfigHash), enc(def["definition_hash"], d.DefinitionHash)

		return json.Marshal(tree)
	}
	var l cluster.Lock
	if err := json.Unmarshal(b, &l); err != nil {
		return nil, err
	}
	l.Definition, err = l.Definition.SetDefinitionHashes()
	if err != nil {
		return nil, err
	}
	l, err = l.SetLockHash()
	if err != nil {
		return nil, err
	}
	def["config_hash"], def["definition_hash"] = enc(def["config_hash"], l.ConfigHash), enc(def["definition_hash"], l.DefinitionHash)
	root["lock_hash"] = enc(root["lock_hash"], l.LockHash)

	return json.Marshal(tree)
}
