package c12

// Independent (hand-rolled, sha256-only) recomputation of the consensus-spec signing roots that
// create-cluster must have signed: deposit message root + DOMAIN_DEPOSIT, deposit data root,
// validator-registration root + DOMAIN_APPLICATION_BUILDER. Nothing here calls charon's
// eth2util/deposit, eth2util/registration or any generated HashTreeRoot code.

import (
	"crypto/sha256"
	"encoding/binary"
)

type chunk = [32]byte

func hash2(a, b chunk) chunk {
	var buf [64]byte
	copy(buf[:32], a[:])
	copy(buf[32:], b[:])

	return sha256.Sum256(buf[:])
}

// merkle returns the SSZ merkle root of the chunks, zero-padded to the next power of two.
func merkle(chunks ...chunk) chunk {
	n := 1
	for n < len(chunks) {
		n *= 2
	}
	layer := make([]chunk, n)
	copy(layer, chunks)
	for len(layer) > 1 {
		next := make([]chunk, len(layer)/2)
		for i := range next {
			next[i] = hash2(layer[2*i], layer[2*i+1])
		}
		layer = next
	}

	return layer[0]
}

// bytesRoot is the hash tree root of a fixed-size byte vector (right-padded to whole chunks).
func bytesRoot(b []byte) chunk {
	var chunks []chunk
	for i := 0; i < len(b); i += 32 {
		var c chunk
		copy(c[:], b[i:min(i+32, len(b))])
		chunks = append(chunks, c)
	}
	if len(chunks) == 0 {
		chunks = append(chunks, chunk{})
	}

	return merkle(chunks...)
}

func u64Chunk(v uint64) chunk {
	var c chunk
	binary.LittleEndian.PutUint64(c[:8], v)

	return c
}

// computeDomain implements compute_domain(domain_type, fork_version, genesis_validators_root=0).
func computeDomain(domainType [4]byte, forkVersion [4]byte) chunk {
	var fv chunk
	copy(fv[:4], forkVersion[:])
	forkDataRoot := merkle(fv, chunk{})
	var d chunk
	copy(d[:4], domainType[:])
	copy(d[4:], forkDataRoot[:28])

	return d
}

func signingRoot(objectRoot, domain chunk) chunk { return merkle(objectRoot, domain) }

var (
	domainDeposit = [4]byte{0x03, 0x00, 0x00, 0x00}
	domainBuilder = [4]byte{0x00, 0x00, 0x00, 0x01}
)

// depositMessageRoot = HTR(DepositMessage{pubkey, withdrawal_credentials, amount}).
func depositMessageRoot(pubkey []byte, wc []byte, amountGwei uint64) chunk {
	var wcc chunk
	copy(wcc[:], wc)

	return merkle(bytesRoot(pubkey), wcc, u64Chunk(amountGwei))
}

// depositDataRoot = HTR(DepositData{pubkey, withdrawal_credentials, amount, signature}).
func depositDataRoot(pubkey []byte, wc []byte, amountGwei uint64, sig []byte) chunk {
	var wcc chunk
	copy(wcc[:], wc)

	return merkle(bytesRoot(pubkey), wcc, u64Chunk(amountGwei), bytesRoot(sig))
}

// depositSigningRoot is what the validator key must have signed for a deposit.
func depositSigningRoot(pubkey []byte, wc []byte, amountGwei uint64, forkVersion [4]byte) chunk {
	return signingRoot(depositMessageRoot(pubkey, wc, amountGwei), computeDomain(domainDeposit, forkVersion))
}

// registrationSigningRoot is what the validator key must have signed for a builder registration
// ValidatorRegistrationV1{fee_recipient, gas_limit, timestamp, pubkey}.
func registrationSigningRoot(feeRecipient []byte, gasLimit, timestamp uint64, pubkey []byte, genesisForkVersion [4]byte) chunk {
	var fr chunk
	copy(fr[:], feeRecipient)
	root := merkle(fr, u64Chunk(gasLimit), u64Chunk(timestamp), bytesRoot(pubkey))

	return signingRoot(root, computeDomain(domainBuilder, genesisForkVersion))
}

// netInfo is the harness's own table of public network constants (genesis fork versions), not
// read from charon's eth2util.
type netInfo struct {
	Name        string // name passed to --network
	Canonical   string // name expected in deposit-data files
	ForkVersion [4]byte
	Custom      bool
}

var networks = []netInfo{
	{Name: "mainnet", Canonical: "mainnet", ForkVersion: [4]byte{0x00, 0x00, 0x00, 0x00}},
	{Name: "goerli", Canonical: "goerli", ForkVersion: [4]byte{0x00, 0x00, 0x10, 0x20}},
	{Name: "prater", Canonical: "goerli", ForkVersion: [4]byte{0x00, 0x00, 0x10, 0x20}},
	{Name: "sepolia", Canonical: "sepolia", ForkVersion: [4]byte{0x90, 0x00, 0x00, 0x69}},
	{Name: "hoodi", Canonical: "hoodi", ForkVersion: [4]byte{0x10, 0x00, 0x09, 0x10}},
	{Name: "gnosis", Canonical: "gnosis", ForkVersion: [4]byte{0x00, 0x00, 0x00, 0x64}},
	{Name: "chiado", Canonical: "chiado", ForkVersion: [4]byte{0x00, 0x00, 0x00, 0x6f}},
	{Name: "verifnet", Canonical: "verifnet", ForkVersion: [4]byte{0x12, 0x34, 0x56, 0x78}, Custom: true},
}

const (
	customChainID     = 424242
	customGenesisTime = 1700000000
)
