package c12

// Smart-contract (Safe multisig / ERC-1271) operators and creators for the W2/W3 bases.
//
// From v1.3 on an operator or the creator may be a contract account: its EIP-712 signatures are then
// checked through eth1wrap.EthClientRunner.VerifySmartContractBasedSignature (cluster/helpers.go
// verifySigOrERC1271). Up to v1.10 the signature members are fixed Bytes65, so such an account
// can only carry one 65 byte entry (a 1-of-n Safe); v1.11 hashes them as List[Bytes65,32]
// (putK1SigList) and accepts concatenations of 2..32 entries (definition.go validateSignatureLength).
//
// The harness has no access to charon's unexported EIP-712 helpers. It obtains the digests that must
// be signed from the real verifier instead: with placeholder signatures everywhere,
// Definition.VerifySignatures hands every (address, digest) pair to the eth1 client, which here is
// a recorder. The digests do not depend on the signature members (they cover config_hash and the
// ENR), so the recorded values are the ones the final document is verified against.

import (
	"context"
	"encoding/hex"
	"fmt"
	"math/rand"
	"strings"

	k1 "github.com/decred/dcrd/dcrec/secp256k1/v4"

	"github.com/obolnetwork/charon/app/k1util"
	"github.com/obolnetwork/charon/cluster"
	"github.com/obolnetwork/charon/eth2util"
)

const k1SigLen = 65

// fakeSafe models the ERC-1271 behaviour of a Safe: isValidSignature succeeds iff the first
// `threshold` 65 byte entries were made by distinct owners over the digest. Further entries are
// ignored, like Safe's checkNSignatures, so they are protected by the definition hash alone.
type fakeSafe struct {
	owners    map[string]bool
	threshold int
}

// fakeEth1 is the execution client of one base: a registry of the Safes that exist "on chain".
type fakeEth1 struct {
	safes map[string]*fakeSafe // lower-case address
}

func (*fakeEth1) Run(context.Context) {}

func (*fakeEth1) ClientVersion(context.Context) (string, error) { return "verif-fake/1.0", nil }

func (f *fakeEth1) VerifySmartContractBasedSignature(contractAddress string, hash [32]byte, sig []byte) (bool, error) {
	s := f.safes[strings.ToLower(contractAddress)]
	if s == nil || len(sig) < s.threshold*k1SigLen {
		return false, nil
	}
	seen := map[string]bool{}
	for i := range s.threshold {
		pub, err := k1util.Recover(hash[:], sig[i*k1SigLen:(i+1)*k1SigLen])
		if err != nil {
			return false, nil //nolint:nilerr // unparsable entry = invalid signature
		}
		owner := eth2util.PublicKeyToAddress(pub)
		if !s.owners[owner] || seen[owner] {
			return false, nil
		}
		seen[owner] = true
	}

	return true, nil
}

// digestRecorder accepts everything and remembers what it was asked to verify.
type digestRecorder struct {
	calls []recordedCall
}

type recordedCall struct {
	addr   string
	digest [32]byte
}

func (*digestRecorder) Run(context.Context) {}

func (*digestRecorder) ClientVersion(context.Context) (string, error) {
	return "verif-recorder/1.0", nil
}

func (d *digestRecorder) VerifySmartContractBasedSignature(contractAddress string, hash [32]byte, _ []byte) (bool, error) {
	d.calls = append(d.calls, recordedCall{addr: contractAddress, digest: hash})

	return true, nil
}

// safeMeta describes one contract account of a base (goes into samples and witnesses).
type safeMeta struct {
	Role      string   `json:"role"` // operator[i] | creator
	Address   string   `json:"address"`
	Entries   int      `json:"signature_entries"`
	Threshold int      `json:"safe_threshold"`
	Owners    []string `json:"owner_addresses"`
}

type safePlan struct {
	entries   int
	threshold int
}

// planSafes decides which operators / the creator are contract accounts. v1.11: always a Safe with
// unchecked trailing entries, a Safe whose entries are all checked and an EOA among the operators
// and a multi-entry creator, so that every tier covers every list-typed signature member; before
// v1.11 single-entry contract accounts with probability 1/3 each.
func planSafes(rng *rand.Rand, minor, n int) (ops map[int]safePlan, creator *safePlan) {
	ops = map[int]safePlan{}
	if minor < 3 {
		return ops, nil
	}
	if minor < 11 {
		for i := range n {
			if rng.Intn(3) == 0 {
				ops[i] = safePlan{entries: 1, threshold: 1}
			}
		}
		if minor >= 4 && rng.Intn(3) == 0 {
			creator = &safePlan{entries: 1, threshold: 1}
		}

		return ops, creator
	}
	ops[0] = safePlan{entries: 3 + rng.Intn(3), threshold: 2}
	ops[1] = safePlan{entries: 2, threshold: 2}
	// operator 2 stays an EOA
	for i := 3; i < n; i++ {
		switch rng.Intn(4) {
		case 0: // EOA
		case 1:
			ops[i] = safePlan{entries: 32, threshold: 1 + rng.Intn(32)}
		default:
			e := 2 + rng.Intn(5)
			ops[i] = safePlan{entries: e, threshold: 1 + rng.Intn(e)}
		}
	}
	e := 2 + rng.Intn(3)
	creator = &safePlan{entries: e, threshold: 1 + rng.Intn(e-1)} // always at least one unchecked trailing entry

	return ops, creator
}

func rngKey(rng *rand.Rand) *k1.PrivateKey {
	for {
		b := make([]byte, 32)
		for i := range b {
			b[i] = byte(rng.Intn(256))
		}
		b[0] &= 0x7f // below the group order
		if key := k1.PrivKeyFromBytes(b); !key.Key.IsZero() {
			return key
		}
	}
}

// applySafes turns the planned operators/creator of def into contract accounts and (re)signs the
// whole definition. It returns the eth1 client that knows those contracts.
func applySafes(rng *rand.Rand, def cluster.Definition, p2pKeys []*k1.PrivateKey, ops map[int]safePlan, creator *safePlan) (cluster.Definition, *fakeEth1, []safeMeta, error) {
	minor := minorOf(def.Version)
	eth1 := &fakeEth1{safes: map[string]*fakeSafe{}}
	var metas []safeMeta

	type signer struct {
		eoa    *k1.PrivateKey
		owners []*k1.PrivateKey
	}
	newSafe := func(role string, plan safePlan) (string, signer) {
		addr := randAddr(rng, true)
		s := &fakeSafe{owners: map[string]bool{}, threshold: plan.threshold}
		var sg signer
		m := safeMeta{Role: role, Address: addr, Entries: plan.entries, Threshold: plan.threshold}
		for range plan.entries {
			key := rngKey(rng)
			sg.owners = append(sg.owners, key)
			oa := eth2util.PublicKeyToAddress(key.PubKey())
			s.owners[oa] = true
			m.Owners = append(m.Owners, oa)
		}
		eth1.safes[strings.ToLower(addr)] = s
		metas = append(metas, m)

		return addr, sg
	}

	def.Operators = append([]cluster.Operator(nil), def.Operators...)
	opSigners := make([]signer, len(def.Operators))
	for i := range def.Operators {
		opSigners[i] = signer{eoa: p2pKeys[i]}
		if plan, ok := ops[i]; ok {
			def.Operators[i].Address, opSigners[i] = newSafe(fmt.Sprintf("operator[%d]", i), plan)
		}
	}
	creatorSigner := signer{eoa: p2pKeys[0]} // NewForT: creator address = address of p2p key 0
	if minor < 4 {
		def.Creator = cluster.Creator{}
	} else if creator != nil {
		def.Creator.Address, creatorSigner = newSafe("creator", *creator)
	}

	// Pass 1: placeholder signatures, record the digests the verifier wants signed.
	placeholder := make([]byte, k1SigLen)
	for i := range placeholder {
		placeholder[i] = 0x11
	}
	for i := range def.Operators {
		def.Operators[i].ConfigSignature = placeholder
		def.Operators[i].ENRSignature = placeholder
	}
	if minor >= 4 {
		def.Creator.ConfigSignature = placeholder
	}
	def, err := def.SetDefinitionHashes()
	if err != nil {
		return def, nil, nil, err
	}
	rec := &digestRecorder{}
	if err := def.VerifySignatures(rec); err != nil {
		return def, nil, nil, fmt.Errorf("record digests: %w", err)
	}
	want := 2 * len(def.Operators)
	if minor >= 4 {
		want++
	}
	if len(rec.calls) != want {
		return def, nil, nil, fmt.Errorf("recorded %d digests, expected %d", len(rec.calls), want)
	}

	// Pass 2: real signatures.
	sign := func(sg signer, digest [32]byte) ([]byte, error) {
		if sg.owners == nil {
			return k1util.Sign(sg.eoa, digest[:])
		}
		var out []byte
		for _, owner := range sg.owners {
			s, err := k1util.Sign(owner, digest[:])
			if err != nil {
				return nil, err
			}
			out = append(out, s...)
		}

		return out, nil
	}
	for i := range def.Operators {
		cfg, enr := rec.calls[2*i], rec.calls[2*i+1]
		if cfg.addr != def.Operators[i].Address || enr.addr != def.Operators[i].Address {
			return def, nil, nil, fmt.Errorf("digest order: operator %d got calls for %s/%s", i, cfg.addr, enr.addr)
		}
		if def.Operators[i].ConfigSignature, err = sign(opSigners[i], cfg.digest); err != nil {
			return def, nil, nil, err
		}
		if def.Operators[i].ENRSignature, err = sign(opSigners[i], enr.digest); err != nil {
			return def, nil, nil, err
		}
	}
	if minor >= 4 {
		cr := rec.calls[len(rec.calls)-1]
		if cr.addr != def.Creator.Address {
			return def, nil, nil, fmt.Errorf("digest order: creator got call for %s", cr.addr)
		}
		if def.Creator.ConfigSignature, err = sign(creatorSigner, cr.digest); err != nil {
			return def, nil, nil, err
		}
	}
	def, err = def.SetDefinitionHashes()
	if err != nil {
		return def, nil, nil, err
	}
	if err := def.VerifySignatures(eth1); err != nil {
		return def, nil, nil, fmt.Errorf("signed definition with contract accounts does not verify: %w", err)
	}

	return def, eth1, metas, nil
}

// byteFlipPositions returns (position-class, byte offset) pairs for a byte string of length n:
// first/last byte of every 32 byte SSZ chunk, and - when the string is a list of 65 byte entries -
// first/middle/last byte of every entry, plus three positions derived from the content.
func byteFlipPositions(body string) [][2]any {
	n := len(body) / 2
	var out [][2]any
	if n > 32 {
		for c := 0; c*32 < n; c++ {
			out = append(out, [2]any{"chunk-first", c * 32}, [2]any{"chunk-last", min(c*32+31, n-1)})
		}
	}
	if n%k1SigLen == 0 && n >= 2*k1SigLen {
		entries := n / k1SigLen
		for e := range entries {
			which := "middle-entry"
			switch e {
			case 0:
				which = "first-entry"
			case entries - 1:
				which = "last-entry"
			}
			out = append(out,
				[2]any{which + "/first-byte", e * k1SigLen},
				[2]any{which + "/r-s-boundary", e*k1SigLen + 32},
				[2]any{which + "/v-byte", e*k1SigLen + 64},
				[2]any{which + "/second-byte", e*k1SigLen + 1})
		}
	}
	if n > 32 {
		h := uint32(2166136261)
		for i := range len(body) {
			h = (h ^ uint32(body[i])) * 16777619
		}
		for range 3 {
			h = h*1664525 + 1013904223
			out = append(out, [2]any{"pseudo-random", int(h>>8) % n})
		}
	}

	return out
}

// entryAlterations are whole-entry edits of a concatenated signature list.
func entryAlterations(body string) [][2]string {
	n := len(body) / 2
	if n%k1SigLen != 0 || n < 2*k1SigLen {
		return nil
	}
	raw, err := hex.DecodeString(body)
	if err != nil {
		return nil
	}
	entries := n / k1SigLen
	entry := func(i int) []byte { return raw[i*k1SigLen : (i+1)*k1SigLen] }
	join := func(order ...int) string {
		var b []byte
		for _, i := range order {
			b = append(b, entry(i)...)
		}

		return "0x" + hex.EncodeToString(b)
	}
	seq := func(n int) []int {
		s := make([]int, n)
		for i := range s {
			s[i] = i
		}

		return s
	}
	var out [][2]string
	o := seq(entries)
	o[entries-1], o[entries-2] = o[entries-2], o[entries-1]
	out = append(out, [2]string{"swap-last-two-entries", join(o...)})
	o = seq(entries)
	o[0], o[entries-1] = o[entries-1], o[0]
	out = append(out, [2]string{"swap-first-last-entry", join(o...)})
	out = append(out, [2]string{"drop-last-entry", join(seq(entries - 1)...)})
	out = append(out, [2]string{"drop-first-entry", join(seq(entries)[1:]...)})
	out = append(out, [2]string{"dup-last-entry", join(append(seq(entries), entries-1)...)})
	zeroed := append([]byte(nil), raw...)
	for i := (entries - 1) * k1SigLen; i < n; i++ {
		zeroed[i] = 0
	}
	out = append(out, [2]string{"zero-last-entry", "0x" + hex.EncodeToString(zeroed)})

	return out
}
