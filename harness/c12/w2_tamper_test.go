package c12

// W2: per-leaf tamper of valid, signed definitions and locks in every format version.

import (
	"bytes"
	"encoding/hex"
	"encoding/json"
	"errors"
	"fmt"
	"math/big"
	"math/rand"
	"os"
	"reflect"
	"regexp"
	"sort"
	"strings"
	"sync"
	"testing"
	"time"

	eth2p0 "github.com/attestantio/go-eth2-client/spec/phase0"
	k1 "github.com/decred/dcrd/dcrec/secp256k1/v4"

	"github.com/obolnetwork/charon/app/eth1wrap"
	"github.com/obolnetwork/charon/app/k1util"
	"github.com/obolnetwork/charon/cluster"
	"github.com/obolnetwork/charon/eth2util"
	"github.com/obolnetwork/charon/eth2util/deposit"
	"github.com/obolnetwork/charon/tbls"

	"verifharness/kit"
)

// allVersions lists the supported format versions, oldest first (cluster/version.go).
var allVersions = []string{
	"v1.0.0", "v1.1.0", "v1.2.0", "v1.3.0", "v1.4.0", "v1.5.0",
	"v1.6.0", "v1.7.0", "v1.8.0", "v1.9.0", "v1.10.0", "v1.11.0",
}

func minorOf(version string) int {
	var major, minor, patch int
	_, _ = fmt.Sscanf(version, "v%d.%d.%d", &major, &minor, &patch)

	return minor
}

// ---------------------------------------------------------------------------------------------
// Generic JSON tree handling

func decodeTree(b []byte) (any, error) {
	dec := json.NewDecoder(bytes.NewReader(b))
	dec.UseNumber()
	var v any
	if err := dec.Decode(&v); err != nil {
		return nil, err
	}

	return v, nil
}

type pathElem struct {
	Key string
	Idx int
	Arr bool
}

type jpath []pathElem

func (p jpath) with(e pathElem) jpath {
	out := make(jpath, len(p)+1)
	copy(out, p)
	out[len(p)] = e

	return out
}

func (p jpath) String() string { return p.render(false) }
func (p jpath) Class() string  { return p.render(true) }

func (p jpath) render(class bool) string {
	var sb strings.Builder
	for i, e := range p {
		if e.Arr {
			if class {
				sb.WriteString("[]")
			} else {
				fmt.Fprintf(&sb, "[%d]", e.Idx)
			}

			continue
		}
		if i > 0 {
			sb.WriteByte('.')
		}
		sb.WriteString(e.Key)
	}

	return sb.String()
}

func getAt(root any, p jpath) any {
	cur := root
	for _, e := range p {
		if e.Arr {
			cur = cur.([]any)[e.Idx]
		} else {
			cur = cur.(map[string]any)[e.Key]
		}
	}

	return cur
}

// setAt replaces the node at path p (p non-empty).
func setAt(root any, p jpath, v any) {
	parent := getAt(root, p[:len(p)-1])
	last := p[len(p)-1]
	if last.Arr {
		parent.([]any)[last.Idx] = v
	} else {
		parent.(map[string]any)[last.Key] = v
	}
}

func deleteKeyAt(root any, p jpath) {
	parent := getAt(root, p[:len(p)-1])
	delete(parent.(map[string]any), p[len(p)-1].Key)
}

// alteration is one representative modification of one node of the JSON document.
type alteration struct {
	Path  jpath
	Kind  string
	apply func(root any)
}

var (
	reHex    = regexp.MustCompile(`^0x([0-9a-fA-F]{2})+$`)
	reDigits = regexp.MustCompile(`^[0-9]+$`)
)

func flipNibble(c byte) byte {
	switch {
	case c >= '0' && c <= '9':
		return '0' + ((c - '0') ^ 1)
	case c >= 'a' && c <= 'f':
		return 'a' + ((c - 'a') ^ 1)
	case c >= 'A' && c <= 'F':
		return 'A' + ((c - 'A') ^ 1)
	}

	return c
}

// otherChar returns a different character of the same class.
func otherChar(c byte) byte {
	switch {
	case c >= '0' && c <= '9':
		return '0' + (c-'0'+1)%10
	case c >= 'a' && c <= 'z':
		return 'a' + (c-'a'+1)%26
	case c >= 'A' && c <= 'Z':
		return 'A' + (c-'A'+1)%26
	case c == 'x':
		return 'y'
	}

	return 'x'
}

func replaceAt(s string, i int, c byte) string {
	b := []byte(s)
	b[i] = c

	return string(b)
}

// appendNUL (env C12_APPEND_NUL=1) adds the alteration "append a NUL character" to string leaves. It is
// off by default: it is not a representative edit, and it is accepted for every string member of
// v1.0-v1.2 files (hashDefinitionLegacy zero-pads strings without mixing in their length), which
// would be 48 signatures for one root cause. See the C12 report.
var appendNUL = os.Getenv("C12_APPEND_NUL") == "1"

// stringAlterations returns (kind, new value) pairs for one string leaf.
func stringAlterations(key, s string) [][2]string {
	var out [][2]string
	seen := map[string]bool{s: true}
	add := func(kind, v string) {
		if !seen[v] {
			seen[v] = true
			out = append(out, [2]string{kind, v})
		}
	}

	switch {
	case reHex.MatchString(s):
		body := s[2:]
		for _, pos := range uniqInts(0, len(body)/2, len(body)-1) {
			add(fmt.Sprintf("flip-nibble@%s", posName(pos, len(body))), "0x"+replaceAt(body, pos, flipNibble(body[pos])))
		}
		for _, pp := range byteFlipPositions(body) {
			class, _ := pp[0].(string)
			pos, _ := pp[1].(int)
			add("flip-byte@"+class, "0x"+replaceAt(body, 2*pos+1, flipNibble(body[2*pos+1])))
		}
		for _, kv := range entryAlterations(body) {
			add(kv[0], kv[1])
		}
		add("append-byte-00", s+"00")
		add("prepend-byte-00", "0x00"+body)
		add("drop-first-byte", "0x"+body[2:])
		add("drop-last-byte", "0x"+body[:len(body)-2])
		add("append-nibble", s+"0")
		if appendNUL {
			add("append-nul", s+"\x00")
		}
		add("clear", "")
	case reDigits.MatchString(s):
		n, _ := new(big.Int).SetString(s, 10)
		add("plus-1", new(big.Int).Add(n, big.NewInt(1)).String())
		add("minus-1", new(big.Int).Sub(n, big.NewInt(1)).String())
		add("append-char", s+"0")
		add("clear", "")
	case s == "":
		add("set-nonempty", "x")
		add("set-hex", "0x00")
	default:
		for _, pos := range uniqInts(0, len(s)/2, len(s)-1) {
			add(fmt.Sprintf("replace-char@%s", posName(pos, len(s))), replaceAt(s, pos, otherChar(s[pos])))
		}
		add("append-char", s+"x")
		if appendNUL {
			add("append-nul", s+"\x00")
		}
		add("drop-last-char", s[:len(s)-1])
		add("clear", "")
	}

	if key == "version" {
		for _, v := range allVersions {
			add("version-swap:"+v, v)
		}
	}

	return out
}

func posName(pos, n int) string {
	switch {
	case pos == 0:
		return "first"
	case pos == n-1:
		return "last"
	default:
		return "mid"
	}
}

func uniqInts(xs ...int) []int {
	var out []int
	seen := map[int]bool{}
	for _, x := range xs {
		if x < 0 || seen[x] {
			continue
		}
		seen[x] = true
		out = append(out, x)
	}

	return out
}

// genAlterations walks the tree and returns every representative alteration of every node.
func genAlterations(root any) []alteration {
	var out []alteration
	var walk func(node any, p jpath)
	walk = func(node any, p jpath) {
		switch n := node.(type) {
		case map[string]any:
			keys := make([]string, 0, len(n))
			for k := range n {
				keys = append(keys, k)
			}
			sort.Strings(keys)
			for _, k := range keys {
				kp := p.with(pathElem{Key: k})
				out = append(out, alteration{Path: kp, Kind: "delete-key", apply: func(root any) { deleteKeyAt(root, kp) }})
				walk(n[k], kp)
			}
		case []any:
			if len(p) == 0 {
				return
			}
			arrOp := func(kind string, f func(a []any) []any) {
				out = append(out, alteration{Path: p.with(pathElem{Arr: true, Idx: -1}), Kind: kind, apply: func(root any) {
					a := getAt(root, p).([]any)
					setAt(root, p, f(append([]any(nil), a...)))
				}})
			}
			if len(n) >= 2 {
				arrOp("swap-first-two", func(a []any) []any { a[0], a[1] = a[1], a[0]; return a })
			}
			if len(n) >= 3 {
				arrOp("swap-first-last", func(a []any) []any { a[0], a[len(a)-1] = a[len(a)-1], a[0]; return a })
			}
			if len(n) >= 1 {
				arrOp("delete-first", func(a []any) []any { return a[1:] })
				arrOp("dup-last", func(a []any) []any { return append(a, a[len(a)-1]) })
				arrOp("empty-array", func(a []any) []any { return []any{} })
			}
			if len(n) >= 2 {
				arrOp("delete-last", func(a []any) []any { return a[:len(a)-1] })
			}
			for i := range n {
				walk(n[i], p.with(pathElem{Arr: true, Idx: i}))
			}
		case string:
			key := ""
			if len(p) > 0 {
				key = p[len(p)-1].Key
			}
			for _, kv := range stringAlterations(key, n) {
				nv := kv[1]
				out = append(out, alteration{Path: p, Kind: kv[0], apply: func(root any) { setAt(root, p, nv) }})
			}
		case json.Number:
			v, ok := new(big.Int).SetString(n.String(), 10)
			if !ok {
				return
			}
			set := func(kind string, x *big.Int) {
				if x.Cmp(v) == 0 {
					return
				}
				nv := json.Number(x.String())
				out = append(out, alteration{Path: p, Kind: kind, apply: func(root any) { setAt(root, p, nv) }})
			}
			set("plus-1", new(big.Int).Add(v, big.NewInt(1)))
			set("minus-1", new(big.Int).Sub(v, big.NewInt(1)))
			set("zero", big.NewInt(0))
		case bool:
			out = append(out, alteration{Path: p, Kind: "toggle", apply: func(root any) { setAt(root, p, !n) }})
		case nil:
			out = append(out, alteration{Path: p, Kind: "null-to-string", apply: func(root any) { setAt(root, p, "x") }})
			out = append(out, alteration{Path: p, Kind: "null-to-hex", apply: func(root any) { setAt(root, p, "0x00") }})
		}
	}
	walk(root, nil)

	return out
}

// ---------------------------------------------------------------------------------------------
// Semantic equality of decoded values (nil and empty slices are the same value).

func canon(v reflect.Value) any {
	switch v.Kind() {
	case reflect.Ptr, reflect.Interface:
		if v.IsNil() {
			return nil
		}

		return canon(v.Elem())
	case reflect.Struct:
		if v.Type() == reflect.TypeOf(time.Time{}) {
			t, _ := v.Interface().(time.Time)

			return t.UnixNano()
		}
		m := map[string]any{}
		for i := range v.NumField() {
			f := v.Type().Field(i)
			if !f.IsExported() {
				continue
			}
			m[f.Name] = canon(v.Field(i))
		}

		return m
	case reflect.Slice, reflect.Array:
		if v.Type().Elem().Kind() == reflect.Uint8 {
			b := make([]byte, v.Len())
			for i := range b {
				b[i] = byte(v.Index(i).Uint())
			}

			return hex.EncodeToString(b)
		}
		out := make([]any, v.Len())
		for i := range out {
			out[i] = canon(v.Index(i))
		}

		return out
	case reflect.String:
		return v.String()
	case reflect.Bool:
		return v.Bool()
	case reflect.Int, reflect.Int8, reflect.Int16, reflect.Int32, reflect.Int64:
		return v.Int()
	case reflect.Uint, reflect.Uint8, reflect.Uint16, reflect.Uint32, reflect.Uint64:
		return v.Uint()
	default:
		return fmt.Sprintf("%v", v.Interface())
	}
}

func semEqual(a, b any) bool {
	return reflect.DeepEqual(canon(reflect.ValueOf(a)), canon(reflect.ValueOf(b)))
}

// ---------------------------------------------------------------------------------------------
// Running the real decoder + verifiers

var noEth1 = eth1wrap.NewDefaultEthClientRunner("") // no execution client: EOA signatures only

type outcome struct {
	Stage    string // decode | hashes | signatures | accepted
	Err      string
	Panic    string // non-empty if any stage panicked (stage where it happened is in Stage)
	SigPanic string // VerifySignatures panicked although an earlier stage had already rejected
	Decoded  any
}

func guard(f func() error) (err error, panicked string) {
	defer func() {
		if r := recover(); r != nil {
			panicked = fmt.Sprint(r)
		}
	}()

	return f(), ""
}

func errStr(err error) string {
	if err == nil {
		return ""
	}

	return kit.Short(err.Error(), 160)
}

// verifier is the part of cluster.Lock / cluster.Definition the oracle needs.
type verifier interface {
	VerifyHashes() error
	VerifySignatures(eth1 eth1wrap.EthClientRunner) error
}

// judgeDoc decodes b with the real json.Unmarshal and runs the real verifiers in the order charon's
// loaders use (hashes, then signatures). sideSigs additionally runs VerifySignatures on documents
// whose hashes were already rejected, only to observe panics (the --no-verify path runs both).
func judgeDoc(kind string, b []byte, eth1 eth1wrap.EthClientRunner, sideSigs bool) outcome {
	var (
		v       verifier
		decoded any
	)
	err, p := guard(func() error {
		if kind == "lock" {
			var lock cluster.Lock
			if err := json.Unmarshal(b, &lock); err != nil {
				return err
			}
			v, decoded = lock, lock

			return nil
		}
		var def cluster.Definition
		if err := json.Unmarshal(b, &def); err != nil {
			return err
		}
		v, decoded = def, def

		return nil
	})
	if p != "" {
		return outcome{Stage: "decode", Panic: p}
	} else if err != nil {
		return outcome{Stage: "decode", Err: errStr(err)}
	}
	out := outcome{Decoded: decoded}
	if herr, hp := guard(v.VerifyHashes); hp != "" {
		out.Stage, out.Panic = "hashes", hp
		return out
	} else if herr != nil {
		out.Stage, out.Err = "hashes", errStr(herr)
		if sideSigs {
			_, out.SigPanic = guard(func() error { return v.VerifySignatures(eth1) })
		}

		return out
	}
	serr, sp := guard(func() error { return v.VerifySignatures(eth1) })
	switch {
	case sp != "":
		out.Stage, out.Panic = "signatures", sp
	case serr != nil:
		out.Stage, out.Err = "signatures", errStr(serr)
	default:
		out.Stage = "accepted"
	}

	return out
}

// ---------------------------------------------------------------------------------------------
// Classification of leaves that are neither hashed nor signed (derived from cluster/ssz.go and
// cluster/lock.go, see README comment in c12_test.go). Everything not listed here is judged.

type exemption struct {
	Kind     string // lock | definition
	Versions []string
	Class    string // path class
	// OnlyWhen restricts the exemption to alterations whose decoded result satisfies the predicate.
	OnlyWhen func(decoded any) bool
	Why      string
}

var exemptions = []exemption{
	{
		Kind: "lock", Versions: []string{"v1.0.0", "v1.1.0"}, Class: "signature_aggregate",
		OnlyWhen: func(decoded any) bool {
			l, ok := decoded.(cluster.Lock)

			return ok && len(l.SignatureAggregate) == 0
		},
		Why: "the aggregate signature is itself neither hashed nor signed, and lock.go VerifySignatures documents that " +
			"v1.0/v1.1 locks may carry no aggregate signature (older create-cluster did not populate it): removing it is the format's 'unsigned' form",
	},
}

func exemptFor(kind, version, class string, decoded any) *exemption {
	for i := range exemptions {
		e := &exemptions[i]
		if e.Kind != kind || e.Class != class {
			continue
		}
		ok := false
		for _, v := range e.Versions {
			ok = ok || v == version
		}
		if !ok {
			continue
		}
		if e.OnlyWhen != nil && !e.OnlyWhen(decoded) {
			continue
		}

		return e
	}

	return nil
}

// ---------------------------------------------------------------------------------------------
// Building a fully valid, signed lock (+definition) of a given version

type baseMeta struct {
	Version     string     `json:"version"`
	Nodes       int        `json:"nodes"`
	Threshold   int        `json:"threshold"`
	Validators  int        `json:"validators"`
	Network     string     `json:"network"`
	Amounts     []int      `json:"deposit_amounts_eth,omitempty"`
	Compounding bool       `json:"compounding,omitempty"`
	Consensus   string     `json:"consensus_protocol,omitempty"`
	Name        string     `json:"name"`
	Safes       []safeMeta `json:"contract_accounts,omitempty"`
	Seed        int        `json:"newfort_seed"`
}

var newForTMu sync.Mutex

// buildBase returns the JSON of a valid signed lock and of its definition.
func buildBase(t *testing.T, rng *rand.Rand, version string) (lockJSON, defJSON []byte, meta baseMeta, eth1 eth1wrap.EthClientRunner, err error) {
	return buildBaseShape(t, rng, version, nil, nil)
}

// baseExtra receives the in-memory lock and every secret of a base (for re-signing crafted locks).
type baseExtra struct {
	lock     cluster.Lock
	p2pKeys  []*k1.PrivateKey
	dvShares [][]tbls.PrivateKey
}

// roundTripError: a lock whose hashes verify as an object no longer verifies once encoded and decoded.
type roundTripError struct {
	version, consensus string
	err                error
}

func (e *roundTripError) Error() string {
	return fmt.Sprintf("lock %s (consensus_protocol %q) verifies as built but not after encode+decode: %v", e.version, e.consensus, e.err)
}

// baseBuildFailed reports why no base could be built: a round-trip failure of the code under test is
// a violation, anything else leaves the case inconclusive.
func baseBuildFailed(r *kit.Run, where, version string, err error) {
	var rt *roundTripError
	if errors.As(err, &rt) {
		cls := "lower-case-or-empty-protocol-name"
		if rt.consensus != strings.ToLower(rt.consensus) {
			cls = "protocol-name-with-upper-case-letters"
		}
		r.Violation(-1, "cluster/encode-decode-changes-hashes/lock/"+version+"/"+cls, rt.Error(), map[string]any{"where": where, "version": version, "consensus_protocol": rt.consensus, "error": rt.err.Error()})
		return
	}
	r.Inconclusive("%s %s: cannot build valid base: %v", where, version, err)
}

// buildBaseShape is buildBase with an optional forced (threshold, nodes) shape.
func buildBaseShape(t *testing.T, rng *rand.Rand, version string, shape *[2]int, extra *baseExtra) (lockJSON, defJSON []byte, meta baseMeta, eth1 eth1wrap.EthClientRunner, err error) {
	eth1 = noEth1
	minor := minorOf(version)
	n := 3 + rng.Intn(3)
	k := 2 + rng.Intn(n-1)
	if shape != nil {
		k, n = shape[0], shape[1]
	}
	dv := 2 + rng.Intn(2)
	if rng.Intn(4) == 0 {
		dv = 1
	}
	nets := []eth2util.Network{eth2util.Goerli, eth2util.Mainnet, eth2util.Sepolia, eth2util.Hoodi, eth2util.Gnosis, eth2util.Chiado}
	net := nets[rng.Intn(len(nets))]
	// testutil.GenerateInsecureK1Key(seed+i) reads constReader(byte(seed+i+1)) and never returns for a zero byte:
	// keep the low byte of seed+i+1 away from 0 for every node index.
	seed := rng.Intn(1<<20)<<8 | (1 + rng.Intn(200))
	meta = baseMeta{Version: version, Nodes: n, Threshold: k, Validators: dv, Network: net.Name, Seed: seed}

	forkVersion, err := hex.DecodeString(strings.TrimPrefix(net.GenesisForkVersionHex, "0x"))
	if err != nil {
		return nil, nil, meta, eth1, err
	}

	if minor >= 10 && rng.Intn(2) == 0 {
		meta.Compounding = true
	}
	if minor >= 8 {
		sets := [][]int{nil, {32}, {8, 24}, {16, 16}, {1, 8, 23}}
		if meta.Compounding {
			sets = [][]int{nil, {32, 64}, {1, 8, 32, 256}, {2048}}
		}
		meta.Amounts = sets[rng.Intn(len(sets))]
	}
	consensusOpts := []string{"", "qbft", "QBFT"}
	nameOpts := []string{"test cluster", "Tëst <cluster> & \"co\" / 100%", "ünïcode-名前-\u2028-end", "x"}
	ci, ni := rng.Intn(len(consensusOpts)), rng.Intn(len(nameOpts))
	if minor >= 9 {
		meta.Consensus = consensusOpts[ci]
	}
	meta.Name = nameOpts[ni]
	legacyFee, legacyWd := randAddr(rng, true), randAddr(rng, true)

	gasLimit := uint(30000000 + 1000*rng.Intn(1000))
	opt := func(d *cluster.Definition) {
		d.Version = version
		d.ForkVersion = forkVersion
		d.Name = meta.Name
		d.Timestamp = "2026-01-02T03:04:05Z" // deterministic: every shard of a unit rebuilds the same base
		if minor < 10 {
			d.TargetGasLimit = 0
		} else {
			d.TargetGasLimit = gasLimit
			d.Compounding = meta.Compounding
		}
		if minor >= 8 {
			d.DepositAmounts = deposit.EthsToGweis(meta.Amounts)
		}
		if minor >= 9 {
			d.ConsensusProtocol = meta.Consensus
		}
		if minor < 5 {
			cluster.WithLegacyVAddrs(legacyFee, legacyWd)(d)
		} else {
			// Addresses that begin with zero bytes (the deposit contract 0x00000000219ab5…, burn and
			// vanity addresses, 1 in 256 ordinary ones): shortening such a value changes the text of the
			// field but not its numeric value, so a hash that pads instead of checking the length cannot
			// tell the two apart (seeded change C12-r7). Every second validator gets 1-4 leading zero
			// bytes in its withdrawal address; the fee recipient too where no builder registration was
			// pre-signed over it (v1.5, v1.6).
			for i := range d.ValidatorAddresses {
				if (seed+i)%2 != 0 {
					continue
				}
				d.ValidatorAddresses[i].WithdrawalAddress = zeroLedAddr(d.ValidatorAddresses[i].WithdrawalAddress, 1+(seed+i)/2%4)
				if minor < 7 {
					d.ValidatorAddresses[i].FeeRecipientAddress = zeroLedAddr(d.ValidatorAddresses[i].FeeRecipientAddress, 1+(seed+i)/3%4)
				}
			}
		}
	}

	// NewForT calls t.Setenv (testutil.GenerateInsecureK1Key), which must not run concurrently.
	newForTMu.Lock()
	lock, p2pKeys, dvShares := cluster.NewForT(t, dv, k, n, seed, rand.New(rand.NewSource(int64(seed))), opt) //nolint:gosec // deterministic
	newForTMu.Unlock()

	// Contract-account (Safe multisig / ERC-1271) operators and creator, see safe_multisig_test.go.
	if opPlans, creatorPlan := planSafes(rng, minor, n); len(opPlans) > 0 || creatorPlan != nil {
		def, fake, metas, err := applySafes(rng, lock.Definition, p2pKeys, opPlans, creatorPlan)
		if err != nil {
			return nil, nil, meta, eth1, fmt.Errorf("contract accounts: %w", err)
		}
		lock.Definition, eth1, meta.Safes = def, fake, metas
	}

	// Add signed deposit data where the format carries it (NewForT leaves it empty).
	if minor >= 6 {
		amounts := lock.DepositAmounts
		if len(amounts) == 0 {
			amounts = deposit.DefaultDepositAmounts(lock.Compounding)
		}
		amounts = deposit.DedupAmounts(amounts)
		if minor < 8 {
			amounts = []eth2p0.Gwei{deposit.DefaultDepositAmount}
		}
		wdAddrs := lock.WithdrawalAddresses()
		for vi := range lock.Validators {
			shares := map[int]tbls.PrivateKey{}
			for i := 0; i < k; i++ {
				shares[i+1] = dvShares[vi][i]
			}
			secret, err := tbls.RecoverSecret(shares, uint(n), uint(k))
			if err != nil {
				return nil, nil, meta, eth1, err
			}
			var pdd []cluster.DepositData
			for _, amount := range amounts {
				msg, err := deposit.NewMessage(eth2p0.BLSPubKey(lock.Validators[vi].PubKey), wdAddrs[vi], amount, lock.Compounding)
				if err != nil {
					return nil, nil, meta, eth1, err
				}
				root, err := deposit.GetMessageSigningRoot(msg, net.Name)
				if err != nil {
					return nil, nil, meta, eth1, err
				}
				sig, err := tbls.Sign(secret, root[:])
				if err != nil {
					return nil, nil, meta, eth1, err
				}
				pdd = append(pdd, cluster.DepositData{
					PubKey: msg.PublicKey[:], WithdrawalCredentials: msg.WithdrawalCredentials,
					Amount: int(msg.Amount), Signature: sig[:],
				})
			}
			lock.Validators[vi].PartialDepositData = pdd
		}
	}

	lock, err = lock.SetLockHash()
	if err != nil {
		return nil, nil, meta, eth1, err
	}
	var sigs []tbls.Signature
	for _, shares := range dvShares {
		for _, share := range shares {
			sig, err := tbls.Sign(share, lock.LockHash)
			if err != nil {
				return nil, nil, meta, eth1, err
			}
			sigs = append(sigs, sig)
		}
	}
	agg, err := tbls.Aggregate(sigs)
	if err != nil {
		return nil, nil, meta, eth1, err
	}
	lock.SignatureAggregate = agg[:]
	lock.NodeSignatures = nil
	if minor >= 7 {
		for _, key := range p2pKeys {
			sig, err := k1util.Sign(key, lock.LockHash)
			if err != nil {
				return nil, nil, meta, eth1, err
			}
			lock.NodeSignatures = append(lock.NodeSignatures, sig)
		}
	}

	lockJSON, err = json.Marshal(lock)
	if err != nil {
		return nil, nil, meta, eth1, err
	}
	var back cluster.Lock
	if err := json.Unmarshal(lockJSON, &back); err != nil {
		return nil, nil, meta, eth1, fmt.Errorf("decode own lock: %w", err)
	}
	// The lock was assembled and hashed through the cluster API; the document is its encoding. If
	// the object's hashes are consistent and those of its decoded encoding are not, encoding followed
	// by decoding has changed hashed content (the property's round-trip clause), whatever was generated.
	if lock.VerifyHashes() == nil {
		if verr := back.VerifyHashes(); verr != nil {
			return nil, nil, meta, eth1, &roundTripError{version: version, consensus: meta.Consensus, err: verr}
		}
	}
	defJSON, err = json.Marshal(back.Definition)
	if err != nil {
		return nil, nil, meta, eth1, err
	}

	if extra != nil {
		extra.lock, extra.p2pKeys, extra.dvShares = lock, p2pKeys, dvShares
	}

	return lockJSON, defJSON, meta, eth1, nil
}

// zeroLedAddr returns addr with its first k bytes set to zero (checksummed like the original).
func zeroLedAddr(addr string, k int) string {
	b, err := hex.DecodeString(strings.TrimPrefix(strings.ToLower(addr), "0x"))
	if err != nil || len(b) != 20 {
		return addr
	}
	for i := 0; i < k && i < 19; i++ {
		b[i] = 0
	}
	b[19] |= 1
	out := "0x" + hex.EncodeToString(b)
	if c, err := eth2util.ChecksumAddress(out); err == nil {
		return c
	}

	return out
}

func randAddr(rng *rand.Rand, checksummed bool) string {
	b := make([]byte, 20)
	for i := range b {
		b[i] = byte(rng.Intn(256))
	}
	b[0] |= 0x10 // never the zero address, never a leading zero byte
	addr := "0x" + hex.EncodeToString(b)
	if checksummed {
		if c, err := eth2util.ChecksumAddress(addr); err == nil {
			return c
		}
	}

	return addr
}

// ---------------------------------------------------------------------------------------------
// The tamper unit

type tamperStats struct {
	mu    sync.Mutex
	table map[string]map[string]*[4]int // "kind pathclass" -> version -> counts [decode, hashes, signatures, unjudged]
}

func (s *tamperStats) add(kind, class, version string, slot int) {
	s.mu.Lock()
	defer s.mu.Unlock()
	if s.table == nil {
		s.table = map[string]map[string]*[4]int{}
	}
	key := kind + " " + class
	if s.table[key] == nil {
		s.table[key] = map[string]*[4]int{}
	}
	if s.table[key][version] == nil {
		s.table[key][version] = &[4]int{}
	}
	s.table[key][version][slot]++
}

func (s *tamperStats) export() map[string]map[string]string {
	s.mu.Lock()
	defer s.mu.Unlock()
	out := map[string]map[string]string{}
	for key, byVer := range s.table {
		out[key] = map[string]string{}
		for v, c := range byVer {
			out[key][v] = fmt.Sprintf("decode=%d hashes=%d signatures=%d unjudged=%d", c[0], c[1], c[2], c[3])
		}
	}

	return out
}

type panicObs struct {
	Kind    string `json:"kind"`
	Version string `json:"version"`
	Path    string `json:"path"`
	Alt     string `json:"alteration"`
	Stage   string `json:"stage"`
	Panic   string `json:"panic"`
	Doc     string `json:"doc,omitempty"`
}

type panicLog struct {
	mu   sync.Mutex
	seen map[string]panicObs
}

func (p *panicLog) add(o panicObs) {
	p.mu.Lock()
	defer p.mu.Unlock()
	if p.seen == nil {
		p.seen = map[string]panicObs{}
	}
	key := o.Kind + "/" + o.Version + "/" + o.Path + "/" + o.Stage
	if _, ok := p.seen[key]; !ok {
		p.seen[key] = o
	}
}

func (p *panicLog) list() []panicObs {
	p.mu.Lock()
	defer p.mu.Unlock()
	keys := make([]string, 0, len(p.seen))
	for k := range p.seen {
		keys = append(keys, k)
	}
	sort.Strings(keys)
	out := make([]panicObs, 0, len(keys))
	for _, k := range keys {
		out = append(out, p.seen[k])
	}

	return out
}

var (
	stats  tamperStats
	panics panicLog
)

// baseEntry caches the valid base documents of one tamper unit (version x variant) so that the
// shards of the unit, which are separate cases, do not rebuild it.
type baseEntry struct {
	once     sync.Once
	lockJSON []byte
	defJSON  []byte
	meta     baseMeta
	eth1     eth1wrap.EthClientRunner
	err      error
}

// sideSigsEvery: every n-th alteration also runs VerifySignatures after a hash rejection (panic watch).
const sideSigsEvery = 6

var baseCache sync.Map // unit index -> *baseEntry

func baseFor(r *kit.Run, unit int, version string) *baseEntry {
	v, _ := baseCache.LoadOrStore(unit, &baseEntry{})
	e, _ := v.(*baseEntry)
	e.once.Do(func() {
		e.lockJSON, e.defJSON, e.meta, e.eth1, e.err = buildBase(r.T(), r.Rand(1_000_000+unit, 1), version)
	})

	return e
}

// runTamperShard judges the alterations i (i mod shards == shard) of one document (lock or
// definition) of tamper unit `unit`.
func runTamperShard(c *kit.Case, unit int, version, kind string, shard, shards int) {
	r := c.R
	e := baseFor(r, unit, version)
	if e.err != nil {
		baseBuildFailed(r, "W2", version, e.err)
		return
	}
	meta := e.meta
	docJSON := e.lockJSON
	if kind == "definition" {
		docJSON = e.defJSON
	}

	base := judgeDoc(kind, docJSON, e.eth1, false)
	baseHashes, _ := recomputeHashes(base.Decoded)
	if base.Stage != "accepted" {
		r.Inconclusive("W2 %s %s: generated base document does not verify (%s: %s %s) meta=%+v", version, kind, base.Stage, base.Err, base.Panic, meta)
		return
	}
	tree, err := decodeTree(docJSON)
	if err != nil {
		r.Inconclusive("W2 %s %s: tree decode: %v", version, kind, err)
		return
	}
	// The re-marshalled, unaltered tree must still be the same valid document.
	if b, err := json.Marshal(tree); err != nil {
		r.Inconclusive("W2 marshal tree: %v", err)
		return
	} else if o := judgeDoc(kind, b, e.eth1, false); o.Stage != "accepted" || !semEqual(o.Decoded, base.Decoded) {
		r.Inconclusive("W2 %s %s: unaltered re-marshalled tree differs from base (%s %s)", version, kind, o.Stage, o.Err)
		return
	}
	if shard == 0 {
		r.Count("tamper_valid_bases", 1)
		r.Seen("tamper_versions_"+kind, version)
		for _, sm := range meta.Safes {
			role := sm.Role
			if i := strings.IndexByte(role, '['); i >= 0 {
				role = role[:i]
			}
			r.Seen("tamper_contract_accounts", fmt.Sprintf("%s %s entries=%d safe-threshold=%d", version, role, sm.Entries, sm.Threshold))
			if sm.Entries >= 2 {
				r.Count("tamper_multisig_accounts", 1)
			}
		}
	}

	judged := 0
	alts := genAlterations(tree)
	for ai, alt := range alts {
		if ai%shards != shard {
			continue
		}
		fresh, _ := decodeTree(docJSON)
		alt.apply(fresh)
		b, err := json.Marshal(fresh)
		if err != nil {
			r.Inconclusive("W2 marshal altered tree: %v", err)
			continue
		}
		r.Count("tamper_alterations", 1)
		r.Seen("tamper_alteration_kinds", strings.SplitN(alt.Kind, ":", 2)[0])
		class := alt.Path.Class()
		o := judgeDoc(kind, b, e.eth1, ai%sideSigsEvery == 0)
		if o.Panic != "" || o.SigPanic != "" {
			p, stage := o.Panic, o.Stage
			if p == "" {
				p, stage = o.SigPanic, "signatures(after "+o.Stage+" rejected)"
			}
			r.Count("tamper_panics", 1)
			panics.add(panicObs{Kind: kind, Version: version, Path: class, Alt: alt.Kind, Stage: stage, Panic: kit.Short(p, 200), Doc: string(b)})
		}
		// Direct hash-sensitivity oracle: a same-length (or whole-entry) change of a hashed member must
		// change at least one of the recomputed config / definition / lock hashes.
		if o.Decoded != nil && sensitivityKind(alt.Kind) && !unhashedClass(class) && !semEqual(o.Decoded, base.Decoded) {
			if h, err := recomputeHashes(o.Decoded); err == nil {
				r.Count("hash_sensitivity_checked", 1)
				if h == baseHashes {
					oldV, _ := json.Marshal(getAtSafe(tree, alt.Path))
					newV, _ := json.Marshal(getAtSafe(fresh, alt.Path))
					c.Violation(fmt.Sprintf("cluster/hash-insensitive/%s/%s/%s", kind, version, class),
						fmt.Sprintf("%s %s: alteration %q of %s changes the decoded value of a hashed member but the recomputed config, definition and lock hashes are all unchanged (verification stage: %s)", kind, version, alt.Kind, alt.Path, o.Stage),
						map[string]any{
							"kind": kind, "version": version, "path": alt.Path.String(), "alteration": alt.Kind, "verification": o.Stage + " " + o.Err,
							"old_value": kit.Short(string(oldV), 4200), "new_value": kit.Short(string(newV), 4200), "hashes": h,
							"base_meta": meta, "original_json": string(docJSON), "altered_json": string(b),
							"reproduce": "json.Unmarshal(original_json) and (altered_json); SetDefinitionHashes() (and SetLockHash() for locks) give identical hashes",
						})
				}
			}
		}
		switch o.Stage {
		case "decode":
			stats.add(kind, class, version, 0)
			r.Count("tamper_rejected_decode", 1)
			judged++
		case "hashes":
			stats.add(kind, class, version, 1)
			r.Count("tamper_rejected_hashes", 1)
			judged++
		case "signatures":
			stats.add(kind, class, version, 2)
			r.Count("tamper_rejected_signatures", 1)
			judged++
		case "accepted":
			if semEqual(o.Decoded, base.Decoded) {
				r.Count("tamper_not_value_changing", 1)
				r.Seen("tamper_not_value_changing", fmt.Sprintf("%s %s (%s)", kind, class, alt.Kind))
				continue
			}
			if ex := exemptFor(kind, version, class, o.Decoded); ex != nil {
				stats.add(kind, class, version, 3)
				r.Count("tamper_unjudged_unhashed", 1)
				r.Seen("tamper_unjudged", fmt.Sprintf("%s/%s/%s (%s)", kind, version, class, alt.Kind))
				continue
			}
			judged++
			oldV, _ := json.Marshal(getAtSafe(tree, alt.Path))
			newV, _ := json.Marshal(getAtSafe(fresh, alt.Path))
			sig := fmt.Sprintf("cluster/tamper-accepted/%s/%s/%s", kind, version, class)
			c.Violation(sig,
				fmt.Sprintf("%s %s: alteration %q of %s changes the decoded value but json.Unmarshal, VerifyHashes and VerifySignatures all accept it", kind, version, alt.Kind, alt.Path),
				map[string]any{
					"kind": kind, "version": version, "path": alt.Path.String(), "alteration": alt.Kind,
					"old_value": kit.Short(string(oldV), 300), "new_value": kit.Short(string(newV), 300),
					"base_meta": meta, "original_json": string(docJSON), "altered_json": string(b),
					"reproduce": "json.Unmarshal(altered_json) into cluster." + map[string]string{"lock": "Lock", "definition": "Definition"}[kind] +
						"; VerifyHashes(); VerifySignatures(eth1wrap.NewDefaultEthClientRunner(\"\")) all return nil",
				})
		}
	}
	r.Count("tamper_judged", int64(judged))
	c.NonTrivial(kit.Hash("tamper", kind, shard, version, meta.Nodes, meta.Threshold, meta.Validators, meta.Network, meta.Amounts, meta.Compounding, meta.Consensus))
	if shard == 0 && kind == "lock" {
		r.Sample(map[string]any{"workload": "W2", "base": meta, "lock_alterations": len(alts)})
	}
}

func getAtSafe(root any, p jpath) (v any) {
	defer func() {
		if recover() != nil {
			v = "<absent>"
		}
	}()
	if len(p) > 0 && p[len(p)-1].Arr && p[len(p)-1].Idx < 0 {
		return getAt(root, p[:len(p)-1])
	}

	return getAt(root, p)
}

func exemptionList() []map[string]any {
	var out []map[string]any
	for _, e := range exemptions {
		out = append(out, map[string]any{"kind": e.Kind, "versions": e.Versions, "path_class": e.Class, "why": e.Why})
	}

	return out
}

// hashTriple are the hashes charon recomputes from the content of a decoded document.
type hashTriple struct {
	Config, Definition, Lock string
}

func recomputeHashes(decoded any) (hashTriple, error) {
	switch d := decoded.(type) {
	case cluster.Definition:
		d2, err := d.SetDefinitionHashes()
		if err != nil {
			return hashTriple{}, err
		}

		return hashTriple{hex.EncodeToString(d2.ConfigHash), hex.EncodeToString(d2.DefinitionHash), ""}, nil
	case cluster.Lock:
		def, err := d.Definition.SetDefinitionHashes()
		if err != nil {
			return hashTriple{}, err
		}
		d.Definition = def
		l2, err := d.SetLockHash()
		if err != nil {
			return hashTriple{}, err
		}

		return hashTriple{hex.EncodeToString(def.ConfigHash), hex.EncodeToString(def.DefinitionHash), hex.EncodeToString(l2.LockHash)}, nil
	}

	return hashTriple{}, fmt.Errorf("unknown document type %T", decoded)
}

// sensitivityKind selects the alterations the hash-sensitivity oracle judges: those that keep the
// length of the member (so that the zero padding of fixed-size members, which is guarded by length
// checks elsewhere, plays no role) and whole-entry edits of signature lists.
func sensitivityKind(kind string) bool {
	for _, p := range []string{"flip-", "replace-char", "plus-1", "minus-1", "zero", "toggle", "swap-", "drop-last-entry", "drop-first-entry", "dup-last-entry"} {
		if strings.HasPrefix(kind, p) {
			return true
		}
	}

	return false
}

// unhashedClass lists the members that are hashes or lock-level signatures themselves: they are
// checked by comparison / signature verification, not covered by a hash.
func unhashedClass(class string) bool {
	class = strings.TrimPrefix(class, "cluster_definition.")
	switch class {
	case "config_hash", "definition_hash", "lock_hash", "signature_aggregate", "node_signatures[]", "node_signatures":
		return true
	}

	return false
}
