package c12

// Partially signed definitions. A definition in which SOME operators have signed (config hash and
// ENR) and others have not is not a signed artifact: the unsigned operators' entries are covered by
// nobody's signature. Bases built here sign every operator but a chosen subset (leading, middle,
// trailing, several trailing entries), with hashes set through the cluster API and signatures made
// over the digests the verifier itself asks for. Signature verification must refuse every one of them.

import (
	"fmt"
	"math/rand"

	k1 "github.com/decred/dcrd/dcrec/secp256k1/v4"

	"github.com/obolnetwork/charon/app/k1util"
	"github.com/obolnetwork/charon/cluster"

	"verifharness/kit"
)

func runPartiallySignedCase(c *kit.Case, j int) {
	r := c.R
	rng := c.Rng
	versions := []string{"v1.4.0", "v1.5.0", "v1.6.0", "v1.7.0", "v1.8.0", "v1.9.0", "v1.10.0", "v1.11.0"}
	version := versions[j%len(versions)]
	minor := minorOf(version)
	n := 3 + rng.Intn(3)
	seed := 1 + rng.Intn(200)
	for (seed+n+1)&0xff == 0 || (seed+n+1)&0xff == 0xff || seed&0xff == 0xff { // testutil.GenerateInsecureK1Key never returns for 0x00 / 0xff
		seed++
	}
	opt := func(d *cluster.Definition) {
		d.Version = version
		if minor < 10 {
			d.TargetGasLimit = 0
		}
	}
	newForTMu.Lock()
	lock, p2pKeys, _ := cluster.NewForT(r.T(), 1, n-1, n, seed, rand.New(rand.NewSource(int64(seed))), opt) //nolint:gosec // deterministic
	newForTMu.Unlock()
	def := lock.Definition
	def.Operators = append([]cluster.Operator(nil), def.Operators...)

	shapes := map[string][]int{"last": {n - 1}, "first": {0}, "middle": {n / 2}, "last-two": {n - 2, n - 1}, "all-but-first": nil}
	names := []string{"last", "first", "middle", "last-two", "all-but-first", "last"}
	shape := names[(j/len(versions))%len(names)]
	unsigned := map[int]bool{}
	for _, i := range shapes[shape] {
		unsigned[i] = true
	}
	if shape == "all-but-first" {
		for i := 1; i < n; i++ {
			unsigned[i] = true
		}
	}
	placeholder := make([]byte, k1SigLen)
	for i := range placeholder {
		placeholder[i] = 0x11
	}
	for i := range def.Operators {
		if unsigned[i] {
			def.Operators[i].Address, def.Operators[i].ConfigSignature, def.Operators[i].ENRSignature = "", nil, nil
			continue
		}
		def.Operators[i].ConfigSignature, def.Operators[i].ENRSignature = placeholder, placeholder
	}
	def.Creator.ConfigSignature = placeholder
	def, err := def.SetDefinitionHashes()
	if err != nil {
		r.Count("partially_signed_bases_not_built/set-hashes", 1)
		return
	}
	rec := &digestRecorder{}
	_ = def.VerifySignatures(rec) // refuses (that is the point); the digests of the signed entries were asked for before
	byAddr := map[string][][32]byte{}
	for _, cl := range rec.calls {
		byAddr[cl.addr] = append(byAddr[cl.addr], cl.digest)
	}
	sign := func(key *k1.PrivateKey, d [32]byte) []byte {
		s, err := k1util.Sign(key, d[:])
		if err != nil {
			panic(err)
		}

		return s
	}
	ok := true
	for i := range def.Operators {
		if unsigned[i] {
			continue
		}
		ds := byAddr[def.Operators[i].Address]
		if len(ds) < 2 {
			ok = false
			break
		}
		def.Operators[i].ConfigSignature, def.Operators[i].ENRSignature = sign(p2pKeys[i], ds[0]), sign(p2pKeys[i], ds[1])
		// NewForT: the creator is operator 0's key and its digest is asked for last. A verifier that
		// refuses the partially signed operator list before it looks at the creator never asks for it;
		// the creator's signature then stays a placeholder (the definition must be refused either way).
		if i == 0 && len(ds) == 3 {
			def.Creator.ConfigSignature = sign(p2pKeys[0], ds[2])
			r.Count("partially_signed_definitions_with_a_valid_creator_signature", 1)
		}
	}
	if !ok {
		// the verifier stopped asking before it reached every signed entry (it refused early): nothing to sign with
		r.Count("partially_signed_bases_not_built/digests-not-offered/"+shape, 1)
		return
	}
	def, err = def.SetDefinitionHashes()
	if err != nil {
		r.Count("partially_signed_bases_not_built/set-hashes", 1)
		return
	}
	r.Count("partially_signed_definitions_judged", 1)
	r.Count("partially_signed_definitions_judged/"+shape, 1)
	if verr := def.VerifySignatures(noEth1); verr == nil {
		c.Violation("cluster/partially-signed-definition-accepted/"+version+"/unsigned-operators="+shape,
			fmt.Sprintf("definition %s with %d operators of which %v carry no address and no signatures (all others and the creator validly signed) passed VerifySignatures: the unsigned operators' entries (ENR) are covered by no signature", version, n, shapes[shape]),
			map[string]any{"version": version, "operators": n, "unsigned": shape})
		return
	}
	c.NonTrivial(kit.Hash("partial-sigs", version, shape, n))
}
