package c12

// W2-crafted: alterations of distributed_validators[].public_shares[] that keep local consistency:
// some shares are moved onto another polynomial Q of the same degree with the same constant term (same
// validator key), |S| <= t-2,
//
//	Q(x) = P(x) + c * x * prod_{s in S} (x - s)
//
// so that the shares with index in S are unchanged. Variant (a) only replaces the public shares in the
// file; variant (b) is what a malicious creator can do: lock hash recomputed, aggregate signature
// re-signed by the handed-out (crafted) key shares, node signatures re-signed.
//
// Oracle (statement): a lock that passes full verification must have EVERY threshold-size subset of
// its public shares reconstruct the validator public key ("recombining any threshold of a validator's
// shares yields the private key of the lock's validator public key").

import (
	"encoding/json"
	"fmt"
	"math/big"
	"math/rand"
	"sort"

	k1 "github.com/decred/dcrd/dcrec/secp256k1/v4"

	"github.com/obolnetwork/charon/app/k1util"
	"github.com/obolnetwork/charon/cluster"
	"github.com/obolnetwork/charon/tbls"

	"verifharness/kit"
)

// frOrder is the order of the BLS12-381 scalar field.
var frOrder, _ = new(big.Int).SetString("73eda753299d7d483339d80809a1d80553bda402fffe5bfeffffffff00000001", 16)

// shapes (threshold, nodes) of the crafted-share cases.
var (
	shapesWide  = [][2]int{{4, 6}, {5, 7}, {3, 5}, {2, 4}, {3, 6}, {2, 5}, {4, 7}, {6, 8}, {6, 9}, {7, 10}, {3, 7}} // n >= t+2
	shapesTight = [][2]int{{2, 3}, {3, 4}, {4, 5}, {5, 6}}                                                          // n = t+1
)

// polyShift returns share + c*x*prod(x-s) mod r (secret shares are big-endian scalars).
func polyShift(share tbls.PrivateKey, c *big.Int, x int, s []int) tbls.PrivateKey {
	term := new(big.Int).Mul(c, big.NewInt(int64(x)))
	for _, si := range s {
		term.Mul(term, big.NewInt(int64(x-si)))
	}
	v := new(big.Int).SetBytes(share[:])
	v.Add(v, term).Mod(v, frOrder)
	var out tbls.PrivateKey
	v.FillBytes(out[:])

	return out
}

// signLock recomputes the lock hash and re-signs it with every key share and every node key.
func signLock(lock cluster.Lock, dvShares [][]tbls.PrivateKey, p2pKeys []*k1.PrivateKey) (cluster.Lock, error) {
	lock, err := lock.SetLockHash()
	if err != nil {
		return lock, err
	}
	var sigs []tbls.Signature
	for _, shares := range dvShares {
		for _, share := range shares {
			sig, err := tbls.Sign(share, lock.LockHash)
			if err != nil {
				return lock, err
			}
			sigs = append(sigs, sig)
		}
	}
	agg, err := tbls.Aggregate(sigs)
	if err != nil {
		return lock, err
	}
	lock.SignatureAggregate = agg[:]
	lock.NodeSignatures = nil
	if minorOf(lock.Version) >= 7 {
		for _, key := range p2pKeys {
			sig, err := k1util.Sign(key, lock.LockHash)
			if err != nil {
				return lock, err
			}
			lock.NodeSignatures = append(lock.NodeSignatures, sig)
		}
	}

	return lock, nil
}

// craftPlan is one choice of (kept indices S, replaced indices R), 1-based share indices.
type craftPlan struct {
	Name string `json:"strategy"`
	S    []int  `json:"kept_on_both_polynomials"`
	R    []int  `json:"replaced_by_Q"`
}

func seqInts(from, to int) []int {
	var out []int
	for i := from; i <= to; i++ {
		out = append(out, i)
	}

	return out
}

func minus(all, drop []int) []int {
	d := map[int]bool{}
	for _, x := range drop {
		d[x] = true
	}
	var out []int
	for _, x := range all {
		if !d[x] {
			out = append(out, x)
		}
	}

	return out
}

func randSubset(rng *rand.Rand, from []int, size int) []int {
	p := append([]int(nil), from...)
	rng.Shuffle(len(p), func(i, j int) { p[i], p[j] = p[j], p[i] })
	p = p[:size]
	sort.Ints(p)

	return p
}

func craftPlans(rng *rand.Rand, t, n int) []craftPlan {
	all := seqInts(1, n)
	var plans []craftPlan
	add := func(name string, s, r []int) {
		// deg(c*x*prod(x-s)) = |S|+1 must stay <= t-1, otherwise Q is not a threshold-t sharing at all
		if len(r) > 0 && len(s) <= t-2 {
			plans = append(plans, craftPlan{Name: name, S: s, R: r})
		}
	}
	// the trailing shares follow Q, Q agrees with P where the last window of t shares overlaps the first
	if n > t {
		overlap := minus(seqInts(n-t+1, n), seqInts(t+1, n)) // indices of the last window that are <= t
		add("trailing-shares/agree-on-window-overlap", overlap, seqInts(t+1, n))
		// shorter tails: shares m+1..n follow Q, Q agrees with P on the part of the last window that is <= m
		for m := t + 1; m < n; m++ {
			add(fmt.Sprintf("tail-of-%d/agree-on-window-overlap", n-m), minus(seqInts(n-t+1, n), seqInts(m+1, n)), seqInts(m+1, n))
		}
		add("last-share-only/agree-on-first-t-2", seqInts(1, t-2), []int{n})
		add("last-share-only/agree-on-preceding-t-2", seqInts(n-t+2, n-1), []int{n})
	}
	add("first-share-only/agree-on-next-t-2", seqInts(2, t-1), []int{1})
	add("all-shares/new-polynomial-same-key", nil, all)
	add("all-but-first-t-2", seqInts(1, t-2), seqInts(t-1, n))
	for range 3 {
		s := randSubset(rng, all, rng.Intn(t-1))
		rest := minus(all, s)
		add("random-S/all-others", s, rest)
		add("random-S/random-R", s, randSubset(rng, rest, 1+rng.Intn(len(rest))))
	}

	return plans
}

// subsetsReconstruct checks every (or, above 7 shares, a sample of) threshold-size subsets of the
// public shares of every validator. It returns the first failing (validator, subset).
func subsetsReconstruct(rng *rand.Rand, lock cluster.Lock) (checked int, badVal int, badSubset []int, err error) {
	t := lock.Threshold
	for vi, v := range lock.Validators {
		n := len(v.PubShares)
		subsets := kit.Subsets(n, t)
		if n > 7 && len(subsets) > 40 {
			rng.Shuffle(len(subsets), func(i, j int) { subsets[i], subsets[j] = subsets[j], subsets[i] })
			subsets = subsets[:40]
		}
		for _, sub := range subsets {
			m := map[int]tbls.PublicKey{}
			for _, i := range sub {
				if len(v.PubShares[i]) != len(tbls.PublicKey{}) {
					return checked, vi, sub, fmt.Errorf("share %d has length %d", i, len(v.PubShares[i]))
				}
				m[i+1] = tbls.PublicKey(v.PubShares[i])
			}
			rec, err := tbls.RecoverPubkey(m)
			checked++
			if err != nil || string(rec[:]) != string(v.PubKey) {
				one := make([]int, len(sub))
				for j, i := range sub {
					one[j] = i + 1
				}

				return checked, vi, one, nil
			}
		}
	}

	return checked, -1, nil, nil
}

// runCraftedSharesCase: case j = round k (j / #versions) of version j % #versions; rounds 1, 4, 7, ...
// use an n = t+1 shape, the others n >= t+2.
func runCraftedSharesCase(c *kit.Case, j int) {
	r := c.R
	rng := c.Rng
	vidx, k := j%len(allVersions), j/len(allVersions)
	version := allVersions[vidx]
	shapes := shapesWide
	if k%3 == 1 {
		shapes = shapesTight
	}
	limit := len(shapes)
	if !r.Thorough() {
		limit = min(limit, 6) // keep quick shapes at <= 7 shares (all subsets checked)
	}
	shape := shapes[(vidx+k)%limit]
	t, n := shape[0], shape[1]

	var ex baseExtra
	lockJSON, _, meta, eth1, err := buildBaseShape(r.T(), r.Rand(3_000_000+j, 1), version, &shape, &ex)
	if err != nil {
		baseBuildFailed(r, fmt.Sprintf("W2-crafted %d-of-%d", t, n), version, err)
		return
	}
	if o := judgeDoc("lock", lockJSON, eth1, false); o.Stage != "accepted" {
		r.Inconclusive("W2-crafted %s: base lock does not verify: %s %s", version, o.Stage, o.Err)
		return
	} else if l, ok := o.Decoded.(cluster.Lock); ok {
		if _, bad, sub, err := subsetsReconstruct(rng, l); bad >= 0 || err != nil {
			c.Violation("cluster/verified-lock/threshold-subset-does-not-reconstruct-validator-key/"+version,
				fmt.Sprintf("honest %d-of-%d lock verifies but public shares %v of validator %d do not reconstruct its key (%v)", t, n, sub, bad, err),
				map[string]any{"lock": string(lockJSON), "base_meta": meta})
		}
	}
	r.Seen("crafted_shapes", fmt.Sprintf("%d-of-%d", t, n))
	r.Seen("crafted_versions", version)

	for _, plan := range craftPlans(rng, t, n) {
		// which validators get crafted shares
		vals := []int{rng.Intn(len(ex.lock.Validators))}
		if rng.Intn(3) == 0 {
			vals = seqInts(0, len(ex.lock.Validators)-1)
		}
		c0 := new(big.Int).Rand(rng, frOrder)
		if c0.Sign() == 0 {
			c0.SetInt64(1)
		}

		lock := ex.lock
		lock.Validators = append([]cluster.DistValidator(nil), ex.lock.Validators...)
		shares := make([][]tbls.PrivateKey, len(ex.dvShares))
		for vi := range shares {
			shares[vi] = append([]tbls.PrivateKey(nil), ex.dvShares[vi]...)
		}
		ok := true
		for _, vi := range vals {
			pubs := make([][]byte, n)
			copy(pubs, lock.Validators[vi].PubShares)
			for _, x := range plan.R {
				shares[vi][x-1] = polyShift(ex.dvShares[vi][x-1], c0, x, plan.S)
				pub, err := tbls.SecretToPublicKey(shares[vi][x-1])
				if err != nil {
					ok = false
					break
				}
				pubs[x-1] = pub[:]
			}
			lock.Validators[vi].PubShares = pubs
			// Harness self-check: t shares that all lie on Q recombine to the validator's key.
			onQ := append(append([]int(nil), plan.S...), plan.R...)
			if ok && len(onQ) >= t {
				m := map[int]tbls.PrivateKey{}
				for _, x := range onQ[:t] {
					m[x] = shares[vi][x-1]
				}
				sec, err := tbls.RecoverSecret(m, uint(n), uint(t))
				var pub tbls.PublicKey
				if err == nil {
					pub, err = tbls.SecretToPublicKey(sec)
				}
				if err != nil || string(pub[:]) != string(lock.Validators[vi].PubKey) {
					r.Inconclusive("W2-crafted: harness polynomial arithmetic is wrong (shares on Q do not recombine to the key): %v", err)
					ok = false
				}
			}
		}
		if !ok {
			continue
		}

		for _, variant := range []string{"shares-replaced-only", "rehashed-and-resigned"} {
			l := lock
			if variant == "rehashed-and-resigned" {
				if l, err = signLock(lock, shares, ex.p2pKeys); err != nil {
					r.Inconclusive("W2-crafted: re-sign: %v", err)
					continue
				}
			}
			b, err := json.Marshal(l)
			if err != nil {
				r.Inconclusive("W2-crafted: marshal: %v", err)
				continue
			}
			if variant == "shares-replaced-only" {
				// Lock.MarshalJSON writes a freshly computed lock_hash: put the original (now stale) one back.
				tree, _ := decodeTree(b)
				orig, _ := decodeTree(lockJSON)
				tree.(map[string]any)["lock_hash"] = orig.(map[string]any)["lock_hash"]
				b, _ = json.Marshal(tree)
			}
			o := judgeDoc("lock", b, eth1, false)
			r.Count("crafted_locks_judged", 1)
			r.Count("crafted_"+variant+"_"+o.Stage, 1)
			r.Seen("crafted_outcomes", fmt.Sprintf("%s %s -> %s", plan.Name, variant, o.Stage))
			if o.Panic != "" {
				r.Count("tamper_panics", 1)
				panics.add(panicObs{Kind: "lock", Version: version, Path: "distributed_validators[].public_shares[]", Alt: "crafted:" + plan.Name, Stage: o.Stage, Panic: kit.Short(o.Panic, 200), Doc: string(b)})
			}
			if o.Stage != "accepted" {
				continue
			}
			dl, _ := o.Decoded.(cluster.Lock)
			checked, bad, sub, serr := subsetsReconstruct(rng, dl)
			r.Count("crafted_accepted_subsets_checked", int64(checked))
			if bad < 0 && serr == nil {
				r.Count("crafted_accepted_consistent", 1) // e.g. all shares moved to Q: a valid sharing of the same key
				continue
			}
			c.Violation("cluster/verified-lock/threshold-subset-does-not-reconstruct-validator-key/"+version,
				fmt.Sprintf("lock %s %d-of-%d (%s, %s): json.Unmarshal, VerifyHashes and VerifySignatures accept it, but public shares %v of validator %d do not reconstruct distributed_public_key (%v)",
					version, t, n, plan.Name, variant, sub, bad, serr),
				map[string]any{
					"version": version, "threshold": t, "nodes": n, "plan": plan, "variant": variant, "validators_crafted": vals,
					"failing_subset": sub, "validator": bad, "base_meta": meta, "original_lock": string(lockJSON), "crafted_lock": string(b),
					"construction": "shares at `replaced_by_Q` are P(x) + c*x*prod(x-s) for s in `kept_on_both_polynomials`; public shares are their public keys",
				})
		}
	}
	c.NonTrivial(kit.Hash("crafted", version, t, n))
	if j < 3 {
		r.Sample(map[string]any{"workload": "W2-crafted", "version": version, "shape": fmt.Sprintf("%d-of-%d", t, n), "base": meta})
	}
}
