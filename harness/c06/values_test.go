package c06

import (
	"crypto/sha256"
	"fmt"
	"sort"
	"strings"
	"sync"

	"github.com/OffchainLabs/go-bitfield"
	eth2api "github.com/attestantio/go-eth2-client/api"
	eth2v1 "github.com/attestantio/go-eth2-client/api/v1"
	eth2deneb "github.com/attestantio/go-eth2-client/api/v1/deneb"
	eth2electra "github.com/attestantio/go-eth2-client/api/v1/electra"
	eth2spec "github.com/attestantio/go-eth2-client/spec"
	"github.com/attestantio/go-eth2-client/spec/altair"
	"github.com/attestantio/go-eth2-client/spec/electra"
	eth2p0 "github.com/attestantio/go-eth2-client/spec/phase0"

	"github.com/obolnetwork/charon/core"
	"github.com/obolnetwork/charon/testutil"
)

// kind of a DutyDB key.
type kind int

const (
	kAtt kind = iota // AwaitAttestation(slot, commIdx)
	kPK              // PubKeyByAttestation(slot, commIdx, valIdx)
	kPro             // AwaitProposal(slot)
	kAgg             // AwaitAggAttestation(slot, data root, commIdx)
	kCon             // AwaitSyncContribution(slot, subcommIdx, block root)
)

func (k kind) String() string {
	return [...]string{"await-attestation", "pubkey-by-attestation", "await-proposal", "await-agg-attestation", "await-sync-contribution"}[k]
}

// key is one query key of the DutyDB as seen at its client boundary.
type key struct {
	Kind kind
	Slot uint64
	Comm uint64 // committee index (att, pk, agg) or subcommittee index (con)
	VIdx uint64 // validator index (pk only)
	Root int    // index of the attestation-data (agg) / beacon block root (con) of the slot, else 0
}

func (k key) String() string {
	switch k.Kind {
	case kAtt:
		return fmt.Sprintf("att(slot=%d,comm=%d)", k.Slot, k.Comm)
	case kPK:
		return fmt.Sprintf("pk(slot=%d,comm=%d,val=%d)", k.Slot, k.Comm, k.VIdx)
	case kPro:
		return fmt.Sprintf("pro(slot=%d)", k.Slot)
	case kAgg:
		return fmt.Sprintf("agg(slot=%d,data=%d,comm=%d)", k.Slot, k.Root, k.Comm)
	default:
		return fmt.Sprintf("con(slot=%d,sub=%d,root=%d)", k.Slot, k.Comm, k.Root)
	}
}

// duty returns the duty whose Store calls provide this key (and whose expiry trims it).
func (k key) duty() core.Duty {
	switch k.Kind {
	case kAtt, kPK:
		return core.NewAttesterDuty(k.Slot)
	case kPro:
		return core.NewProposerDuty(k.Slot)
	case kAgg:
		return core.NewAggregatorDuty(k.Slot)
	default:
		return core.NewSyncContributionDuty(k.Slot)
	}
}

// How a stored entry relates to a key (see memory.go).
const (
	modeStrict  = iota // full equality required (signed content)
	modeRelaxed        // commIdx-0 shadow entry: only source and target must match
	modeSet            // aggregates: key is the data root itself; later value replaces
)

// provide says: this Store call carries value Val for key Key.
type provide struct {
	Key  key
	Val  int
	Mode int
}

// valInfo describes one logical value (unique signed content).
type valInfo struct {
	ID     int
	Kind   kind
	Label  string
	SrcTgt string // attestation data: source+target (relaxed comparison class)
}

type attVK struct {
	Slot uint64
	Var  string
}
type aggVK struct {
	Slot    uint64
	DataIdx int
	Comm    uint64
	Bits    int
}
type conVK struct {
	Slot    uint64
	Sub     uint64
	RootIdx int
	Var     string
}
type validator struct {
	Idx uint64
	PK  [2]core.PubKey
	Raw [2]eth2p0.BLSPubKey
	Val [2]int
}

var (
	attVariants = []string{"canon", "head2", "head3", "src2", "tgt2", "idx2", "px"}
	proVariants = []string{"canon", "alt1", "alt2", "px"}
	conVariants = []string{"canon", "bits2", "sig2", "px"}
	aggBitsPX   = 3 // bits variant reserved for stores issued after the duty expired
)

// universe is the (small) key and value space of one case. Built single-threaded, read-only later.
type universe struct {
	salt     string
	slots    []uint64 // the two contended slots (all duty types use them)
	late     uint64   // slot reserved for the wake-up phase
	unsat    uint64   // slot never stored
	comms    []uint64 // the two attestation committees (may contain 0)
	aggComms []uint64
	proVer   string
	aggVer   string
	vals     []valInfo
	vds      []validator

	att       map[attVK]int
	attData   map[int]eth2p0.AttestationData
	attByRoot map[[32]byte]int

	pro       map[attVK]int
	proObj    map[int]core.VersionedProposal
	proByRoot map[[32]byte]int

	agg        map[aggVK]int
	aggObj     map[int]core.VersionedAggregatedAttestation
	aggByRoot  map[[32]byte]int
	aggKeyRoot map[key]eth2p0.Root

	con        map[conVK]int
	conObj     map[int]core.SyncContribution
	conByRoot  map[[32]byte]int
	conKeyRoot map[key]eth2p0.Root

	pkByStr map[core.PubKey]int
}

func (u *universe) h(parts ...any) [32]byte {
	return sha256.Sum256([]byte(u.salt + "|" + fmt.Sprint(parts...)))
}

func (u *universe) sig(parts ...any) (s eth2p0.BLSSignature) {
	a := u.h(append([]any{"sigA"}, parts...)...)
	b := u.h(append([]any{"sigB"}, parts...)...)
	c := u.h(append([]any{"sigC"}, parts...)...)
	copy(s[:32], a[:])
	copy(s[32:64], b[:])
	copy(s[64:], c[:])

	return s
}

func (u *universe) newVal(k kind, label, srcTgt string) int {
	id := len(u.vals)
	u.vals = append(u.vals, valInfo{ID: id, Kind: k, Label: label, SrcTgt: srcTgt})

	return id
}

func (u *universe) label(id int) string {
	if id < 0 || id >= len(u.vals) {
		return fmt.Sprintf("unknown(%d)", id)
	}

	return u.vals[id].Label
}

// Proposal templates: block bodies of the newer forks come from testutil (their filler content is
// irrelevant to the workload; slot / proposer / state root are overwritten from the case PRNG).
var (
	tmplOnce           sync.Once
	tmplDeneb          *eth2api.VersionedProposal
	tmplElectraBlinded *eth2electra.BlindedBeaconBlock
)

func templates() {
	tmplOnce.Do(func() {
		tmplDeneb = testutil.RandomDenebVersionedProposal()
		tmplElectraBlinded = testutil.RandomElectraBlindedBeaconBlock()
	})
}

func newUniverse(salt string, base uint64, comms, aggComms []uint64, proVer, aggVer string) (*universe, error) {
	templates()
	u := &universe{
		salt: salt, slots: []uint64{base, base + 1}, late: base + 5, unsat: base + 7,
		comms: comms, aggComms: aggComms, proVer: proVer, aggVer: aggVer,
		att: map[attVK]int{}, attData: map[int]eth2p0.AttestationData{}, attByRoot: map[[32]byte]int{},
		pro: map[attVK]int{}, proObj: map[int]core.VersionedProposal{}, proByRoot: map[[32]byte]int{},
		agg: map[aggVK]int{}, aggObj: map[int]core.VersionedAggregatedAttestation{}, aggByRoot: map[[32]byte]int{}, aggKeyRoot: map[key]eth2p0.Root{},
		con: map[conVK]int{}, conObj: map[int]core.SyncContribution{}, conByRoot: map[[32]byte]int{}, conKeyRoot: map[key]eth2p0.Root{},
		pkByStr: map[core.PubKey]int{},
	}
	for i := 0; i < 3; i++ {
		vd := validator{Idx: uint64(100 + 7*i)}
		for v := 0; v < 2; v++ {
			a, b := u.h("pk", i, v, 0), u.h("pk", i, v, 1)
			copy(vd.Raw[v][:32], a[:])
			copy(vd.Raw[v][32:], b[:16])
			pk, err := core.PubKeyFromBytes(vd.Raw[v][:])
			if err != nil {
				return nil, err
			}
			vd.PK[v] = pk
			vd.Val[v] = u.newVal(kPK, fmt.Sprintf("pubkey(validator=%d,variant=%d)", vd.Idx, v), "")
			u.pkByStr[pk] = vd.Val[v]
		}
		u.vds = append(u.vds, vd)
	}
	if base == 0 { // slots are built by the caller (real-deadliner world)
		return u, nil
	}
	for _, slot := range []uint64{u.slots[0], u.slots[1], u.late} {
		if err := u.buildSlot(slot); err != nil {
			return nil, err
		}
	}

	return u, nil
}

// allKinds is the default content of a slot.
var allKinds = []kind{kAtt, kPro, kAgg, kCon}

func (u *universe) buildSlot(slot uint64, kinds ...kind) error {
	if len(kinds) == 0 {
		kinds = allKinds
	}
	want := map[kind]bool{}
	for _, k := range kinds {
		want[k] = true
	}
	// attestation data
	for _, v := range attVariants {
		if !want[kAtt] {
			break
		}
		d := eth2p0.AttestationData{
			Slot: eth2p0.Slot(slot), Index: 0, BeaconBlockRoot: u.h("head", slot, "canon"),
			Source: &eth2p0.Checkpoint{Epoch: eth2p0.Epoch(slot/32) + 1, Root: u.h("src", slot, "canon")},
			Target: &eth2p0.Checkpoint{Epoch: eth2p0.Epoch(slot/32) + 2, Root: u.h("tgt", slot, "canon")},
		}
		switch v {
		case "head2", "head3", "px":
			d.BeaconBlockRoot = u.h("head", slot, v)
		case "src2":
			d.Source.Root = u.h("src", slot, v)
		case "tgt2":
			d.Target.Root = u.h("tgt", slot, v)
		case "idx2":
			d.Index = 9
		}
		root, err := d.HashTreeRoot()
		if err != nil {
			return err
		}
		id := u.newVal(kAtt, fmt.Sprintf("attdata(slot=%d,%s)", slot, v), fmt.Sprintf("%d/%x|%d/%x", d.Source.Epoch, d.Source.Root, d.Target.Epoch, d.Target.Root))
		u.att[attVK{slot, v}] = id
		u.attData[id] = d
		u.attByRoot[root] = id
	}
	// proposals
	for _, v := range proVariants {
		if !want[kPro] {
			break
		}
		var p *eth2api.VersionedProposal
		state := eth2p0.Root(u.h("state", slot, v))
		switch u.proVer {
		case "deneb":
			b := *tmplDeneb.Deneb.Block
			b.Slot, b.StateRoot, b.ProposerIndex = eth2p0.Slot(slot), state, 11
			p = &eth2api.VersionedProposal{Version: eth2spec.DataVersionDeneb, Deneb: &eth2deneb.BlockContents{
				Block: &b, KZGProofs: tmplDeneb.Deneb.KZGProofs, Blobs: tmplDeneb.Deneb.Blobs,
			}}
		case "electra-blinded":
			b := *tmplElectraBlinded
			b.Slot, b.StateRoot, b.ProposerIndex = eth2p0.Slot(slot), state, 11
			p = &eth2api.VersionedProposal{Version: eth2spec.DataVersionElectra, Blinded: true, ElectraBlinded: &b}
		default:
			bh := u.h("eth1hash", slot)
			p = &eth2api.VersionedProposal{Version: eth2spec.DataVersionPhase0, Phase0: &eth2p0.BeaconBlock{
				Slot: eth2p0.Slot(slot), ProposerIndex: 11, ParentRoot: u.h("parent", slot), StateRoot: state,
				Body: &eth2p0.BeaconBlockBody{
					RANDAOReveal: u.sig("randao", slot),
					ETH1Data:     &eth2p0.ETH1Data{DepositRoot: u.h("deposit", slot), BlockHash: bh[:]},
					Graffiti:     u.h("graffiti", slot),
				},
			}}
		}
		cp, err := core.NewVersionedProposal(p)
		if err != nil {
			return err
		}
		root, err := cp.Root()
		if err != nil {
			return err
		}
		id := u.newVal(kPro, fmt.Sprintf("proposal(slot=%d,%s,%s)", slot, u.proVer, v), "")
		u.pro[attVK{slot, v}] = id
		u.proObj[id] = cp
		u.proByRoot[root] = id
	}
	// aggregates
	for dataIdx := 0; dataIdx < 2 && want[kAgg]; dataIdx++ {
		for _, comm := range u.aggComms {
			for bits := 0; bits <= aggBitsPX; bits++ {
				data := &eth2p0.AttestationData{
					Slot: eth2p0.Slot(slot), BeaconBlockRoot: u.h("aggdata", slot, dataIdx),
					Source: &eth2p0.Checkpoint{Epoch: 3, Root: u.h("aggsrc", slot)},
					Target: &eth2p0.Checkpoint{Epoch: 4, Root: u.h("aggtgt", slot)},
				}
				bl := bitfield.NewBitlist(16)
				bl.SetBitAt(uint64(bits), true)
				bl.SetBitAt(uint64(8+dataIdx), true)
				sig := u.sig("agg", slot, dataIdx, comm, bits)
				var va eth2spec.VersionedAttestation
				if u.aggVer == "electra" {
					cb := bitfield.NewBitvector64()
					cb.SetBitAt(comm, true)
					va = eth2spec.VersionedAttestation{Version: eth2spec.DataVersionElectra, Electra: &electra.Attestation{
						AggregationBits: bl, Data: data, Signature: sig, CommitteeBits: cb,
					}}
				} else {
					data.Index = eth2p0.CommitteeIndex(comm)
					va = eth2spec.VersionedAttestation{Version: eth2spec.DataVersionDeneb, Deneb: &eth2p0.Attestation{
						AggregationBits: bl, Data: data, Signature: sig,
					}}
				}
				obj, err := core.NewVersionedAggregatedAttestation(&va)
				if err != nil {
					return err
				}
				full, err := va.HashTreeRoot()
				if err != nil {
					return err
				}
				dataRoot, err := data.HashTreeRoot()
				if err != nil {
					return err
				}
				id := u.newVal(kAgg, fmt.Sprintf("aggregate(slot=%d,data=%d,comm=%d,%s,bits=%d)", slot, dataIdx, comm, u.aggVer, bits), "")
				u.agg[aggVK{slot, dataIdx, comm, bits}] = id
				u.aggObj[id] = obj
				u.aggByRoot[full] = id
				u.aggKeyRoot[key{Kind: kAgg, Slot: slot, Comm: comm, Root: dataIdx}] = dataRoot
			}
		}
	}
	// sync contributions
	for sub := uint64(0); sub < 2 && want[kCon]; sub++ {
		for rootIdx := 0; rootIdx < 2; rootIdx++ {
			blockRoot := eth2p0.Root(u.h("conroot", slot, rootIdx))
			for _, v := range conVariants {
				bv := bitfield.NewBitvector128()
				bv.SetBitAt(sub+1, true)
				sigv := "canon"
				switch v {
				case "bits2":
					bv.SetBitAt(77, true)
				case "sig2":
					sigv = "sig2"
				case "px":
					bv.SetBitAt(99, true)
				}
				c := &altair.SyncCommitteeContribution{
					Slot: eth2p0.Slot(slot), BeaconBlockRoot: blockRoot, SubcommitteeIndex: sub,
					AggregationBits: bv, Signature: u.sig("con", slot, sub, rootIdx, sigv),
				}
				root, err := c.HashTreeRoot()
				if err != nil {
					return err
				}
				id := u.newVal(kCon, fmt.Sprintf("contribution(slot=%d,sub=%d,root=%d,%s)", slot, sub, rootIdx, v), "")
				u.con[conVK{slot, sub, rootIdx, v}] = id
				u.conObj[id] = core.NewSyncContribution(c)
				u.conByRoot[root] = id
				u.conKeyRoot[key{Kind: kCon, Slot: slot, Comm: sub, Root: rootIdx}] = blockRoot
			}
		}
	}

	return nil
}

// conItem is one contribution inside a (plural) SyncContributions entry.
type conItem struct {
	Sub     uint64
	RootIdx int
	Var     string
}

// entry is one element of an UnsignedDataSet (keyed by the pubkey of validator VI / variant PKVar).
type entry struct {
	Kind    kind
	Slot    uint64
	VI      int
	PKVar   int
	Comm    uint64 // att/agg committee
	Var     string // att / pro variant
	DataIdx int    // agg
	Bits    int    // agg
	Cons    []conItem
	Plural  bool
	Slow    bool // wrap the value so that its Clone yields (inside the DutyDB critical section)
}

func (e entry) String() string {
	switch e.Kind {
	case kAtt:
		return fmt.Sprintf("att{slot=%d comm=%d validator#%d pk%d data=%s}", e.Slot, e.Comm, e.VI, e.PKVar, e.Var)
	case kPro:
		return fmt.Sprintf("pro{slot=%d %s}", e.Slot, e.Var)
	case kAgg:
		return fmt.Sprintf("agg{slot=%d data=%d comm=%d bits=%d}", e.Slot, e.DataIdx, e.Comm, e.Bits)
	default:
		var items []string
		for _, it := range e.Cons {
			items = append(items, fmt.Sprintf("(sub=%d root=%d %s)", it.Sub, it.RootIdx, it.Var))
		}

		return fmt.Sprintf("con{slot=%d validator#%d plural=%v %s}", e.Slot, e.VI, e.Plural, strings.Join(items, ""))
	}
}

// slowData delays Clone (called by the DutyDB while it holds its mutex) and then delegates, so the
// DutyDB still receives the concrete core type it asserts on.
type slowData struct {
	core.UnsignedData
	yield func()
}

func (s slowData) Clone() (core.UnsignedData, error) {
	s.yield()
	return s.UnsignedData.Clone()
}

// buildSet turns entries into the UnsignedDataSet handed to Store plus the (key,value) pairs it
// carries. Entries with the same pubkey collapse (the set is a map), later ones win.
func (u *universe) buildSet(entries []entry, yield func()) (core.UnsignedDataSet, []provide, []string) {
	set := core.UnsignedDataSet{}
	byPK := map[core.PubKey]entry{}
	var order []core.PubKey
	for _, e := range entries {
		pk := u.vds[e.VI].PK[e.PKVar]
		if _, ok := byPK[pk]; !ok {
			order = append(order, pk)
		}
		byPK[pk] = e
	}
	var (
		provides []provide
		descs    []string
	)
	for _, pk := range order {
		e := byPK[pk]
		vd := u.vds[e.VI]
		var data core.UnsignedData
		switch e.Kind {
		case kAtt:
			id := u.att[attVK{e.Slot, e.Var}]
			data = core.AttestationData{
				Data: u.attData[id],
				Duty: eth2v1.AttesterDuty{
					PubKey: vd.Raw[e.PKVar], Slot: eth2p0.Slot(e.Slot), ValidatorIndex: eth2p0.ValidatorIndex(vd.Idx),
					CommitteeIndex: eth2p0.CommitteeIndex(e.Comm), CommitteeLength: 8, CommitteesAtSlot: 4,
					ValidatorCommitteeIndex: uint64(e.VI),
				},
			}
			provides = append(provides,
				provide{key{Kind: kPK, Slot: e.Slot, Comm: e.Comm, VIdx: vd.Idx}, vd.Val[e.PKVar], modeStrict},
				provide{key{Kind: kAtt, Slot: e.Slot, Comm: e.Comm}, id, modeStrict})
			if e.Comm != 0 {
				provides = append(provides,
					provide{key{Kind: kPK, Slot: e.Slot, Comm: 0, VIdx: vd.Idx}, vd.Val[e.PKVar], modeStrict},
					provide{key{Kind: kAtt, Slot: e.Slot, Comm: 0}, id, modeRelaxed})
			}
		case kPro:
			id := u.pro[attVK{e.Slot, e.Var}]
			data = u.proObj[id]
			provides = append(provides, provide{key{Kind: kPro, Slot: e.Slot}, id, modeStrict})
		case kAgg:
			id := u.agg[aggVK{e.Slot, e.DataIdx, e.Comm, e.Bits}]
			data = u.aggObj[id]
			provides = append(provides, provide{key{Kind: kAgg, Slot: e.Slot, Comm: e.Comm, Root: e.DataIdx}, id, modeSet})
		default:
			var list core.SyncContributions
			items := e.Cons
			if !e.Plural {
				items = items[:1] // legacy single-contribution form
			}
			for _, it := range items {
				id := u.con[conVK{e.Slot, it.Sub, it.RootIdx, it.Var}]
				list = append(list, u.conObj[id])
				provides = append(provides, provide{key{Kind: kCon, Slot: e.Slot, Comm: it.Sub, Root: it.RootIdx}, id, modeStrict})
			}
			if e.Plural {
				data = list
			} else {
				data = list[0]
			}
		}
		if e.Slow {
			data = slowData{UnsignedData: data, yield: yield}
		}
		set[pk] = data
		descs = append(descs, e.String())
	}

	return set, provides, descs
}

// keysOf lists the distinct keys in a list of provides (stable order).
func keysOf(ps []provide) []key {
	seen := map[key]bool{}
	var out []key
	for _, p := range ps {
		if !seen[p.Key] {
			seen[p.Key] = true
			out = append(out, p.Key)
		}
	}
	sort.Slice(out, func(i, j int) bool { return out[i].String() < out[j].String() })

	return out
}
