package c06

import (
	"fmt"
	"sort"
	"strings"
	"time"

	"github.com/anishathalye/porcupine"

	"github.com/obolnetwork/charon/core"

	"verifharness/kit"
)

// witness returns the recorded operations that touch key k (all operations if k is the zero key).
func (e *env) witness(what string, ks ...key) map[string]any {
	want := map[key]bool{}
	duties := map[core.Duty]bool{}
	for _, k := range ks {
		want[k] = true
		duties[k.duty()] = true
	}
	var rows []map[string]any
	ops := e.snapshot()
	for i := range ops {
		o := &ops[i]
		rel := len(ks) == 0
		switch o.Kind {
		case opStore:
			for _, p := range o.Provides {
				rel = rel || want[p.Key]
			}
		case opExpire:
			rel = rel || duties[o.Duty]
		default:
			rel = rel || want[o.Key]
		}
		if rel {
			row := o.view(e.u)
			if o.Kind == opStore {
				var carried []string
				for _, p := range o.Provides {
					if len(ks) == 0 || want[p.Key] {
						carried = append(carried, fmt.Sprintf("%v=%s", p.Key, e.u.label(p.Val)))
					}
				}
				row["carries"] = carried
			}
			rows = append(rows, row)
		}
	}
	var keys []string
	for _, k := range ks {
		keys = append(keys, k.String())
	}

	return map[string]any{
		"what": what, "keys": keys, "total_ops": len(ops), "history": rows,
		"config": map[string]any{"slots": e.u.slots, "late_slot": e.u.late, "committees": e.u.comms, "agg_committees": e.u.aggComms,
			"proposal_version": e.u.proVer, "aggregate_version": e.u.aggVer, "yield_mod": e.yieldMod},
		"note": "call/ret/registered/cancel are values of one atomic counter taken before invoking / after returning; goroutine scheduling is not replayable, the history is the evidence",
	}
}

// compatible reports whether storing nv (with mode) on top of stored value sv must be accepted.
func (u *universe) compatible(sv, nv, mode int) bool {
	switch mode {
	case modeSet:
		return true
	case modeRelaxed:
		return u.vals[sv].SrcTgt == u.vals[nv].SrcTgt
	default:
		return sv == nv
	}
}

type provRef struct {
	S    *op
	Val  int
	Mode int
}

func storeErrClass(msg string) string {
	switch {
	case msg == "":
		return "ok"
	case strings.Contains(msg, "expired"):
		return "expired"
	case strings.Contains(msg, "clashing"):
		return "clash"
	default:
		return "other"
	}
}

// judge evaluates the offline oracles over the recorded history of the case.
func (e *env) judge(sc script, first *op, shutdownSeq int64) {
	c, r, u := e.c, e.c.R, e.u
	ops := e.snapshot()
	expiry := map[core.Duty]*op{}
	prov := map[key][]provRef{}
	var stores, answers, absents []*op
	for i := range ops {
		o := &ops[i]
		switch o.Kind {
		case opExpire:
			if o.OK { // the call that actually moved virtual time past the deadline (marks happen inside [Call,Ret])
				expiry[o.Duty] = o
			}
		case opStore:
			stores = append(stores, o)
			for _, p := range o.Provides {
				prov[p.Key] = append(prov[p.Key], provRef{o, p.Val, p.Mode})
			}
		default:
			if o.Ret == 0 {
				continue
			}
			if o.Ans != ansNone {
				answers = append(answers, o)
			} else if o.Kind != opAwait && (o.ErrKind == "ctx" || o.ErrKind == "notfound") {
				absents = append(absents, o)
			}
		}
	}
	refused := func(s *op) bool { // the Deadliner certainly reported the duty expired to this Store
		x := expiry[s.Duty]
		return x != nil && s.Call > x.Ret
	}
	neverExpiredBefore := func(d core.Duty, seq int64) bool {
		x := expiry[d]
		return x == nil || x.Call > seq
	}
	opName := func(o *op) string { return o.Key.Kind.String() }
	dutyName := func(s *op) string { return s.Duty.Type.String() }

	// vacuity guard
	if fo := &ops[first.ID]; !fo.OK {
		c.Violation("dutydb/store/"+dutyName(fo)+"/canonical-store-into-empty-db-rejected",
			"the first Store of the case (one canonical entry, empty DB, duty not expired) returned an error: "+fo.Err, e.witness("first store", keysOf(fo.Provides)...))
	}

	// (4) data for expired duties is refused
	for _, s := range stores {
		switch {
		case refused(s) && s.OK:
			c.Violation("dutydb/store/"+dutyName(s)+"/expired-duty-accepted",
				"Store for a duty the Deadliner reports expired (Store called after the expiry) returned success", e.witness(fmt.Sprintf("store #%d", s.ID), keysOf(s.Provides)...))
		case refused(s):
			r.Count("stores_after_expiry_refused", 1)
		}
		if s.OK {
			r.Count("stores_ok", 1)
		} else {
			r.Count("stores_err_"+storeErrClass(s.Err), 1)
			r.Seen("store_errors", kit.Short(s.Err, 70))
		}
	}

	// (K) answer belongs to the key, (2) answer was carried by an eligible Store, (1) uniqueness
	perKey := map[key]map[int]*op{}
	for _, a := range answers {
		if a.Mismatch != "" {
			c.Violation("dutydb/"+opName(a)+"/answer-for-wrong-key", "returned data does not belong to the queried key: "+a.Mismatch, e.witness(fmt.Sprintf("op #%d", a.ID), a.Key))
		}
		if a.Ans == ansUnknown {
			c.Violation("dutydb/"+opName(a)+"/answer-not-stored-data", "returned data is none of the values any Store of the case carried", e.witness(fmt.Sprintf("op #%d", a.ID), a.Key))
			continue
		}
		eligible, byRefused, late := false, false, false
		for _, p := range prov[a.Key] {
			if p.Val != a.Ans {
				continue
			}
			switch {
			case p.S.Call > a.Ret:
				late = true
			case refused(p.S):
				byRefused = true
			default:
				eligible = true
			}
		}
		if !eligible {
			sig, what := "answer-never-stored-for-key", "returned data was not carried for this key by any Store that started before the answer returned"
			if byRefused {
				sig, what = "data-of-expired-duty-store-readable", "returned data was carried only by Stores issued after the duty expired (which must make nothing readable)"
			} else if late {
				what += " (only by a Store that started later)"
			}
			c.Violation("dutydb/"+opName(a)+"/"+sig, what+": "+u.label(a.Ans), e.witness(fmt.Sprintf("op #%d", a.ID), a.Key))
		}
		if perKey[a.Key] == nil {
			perKey[a.Key] = map[int]*op{}
		}
		if perKey[a.Key][a.Ans] == nil {
			perKey[a.Key][a.Ans] = a
		}
		switch a.Kind {
		case opAwait:
			r.Count("awaits_answered", 1)
			blockedAtReg := a.Reg != 0
			for _, p := range prov[a.Key] {
				if p.S.Ret != 0 && p.S.Ret < a.Reg {
					blockedAtReg = false
				}
			}
			if blockedAtReg {
				r.Count("awaits_woken_by_later_store", 1)
				if a.Phase == "wake-up" {
					r.Count("late_waiters_woken", 1)
				}
			}
		case opProbe:
			r.Count("probes_present", 1)
		default:
			r.Count("pubkey_found", 1)
		}
	}
	for k, m := range perKey {
		if k.Kind == kAgg || len(m) < 2 {
			continue // aggregates: key = data root + committee, checked by (K); a later aggregate may replace
		}
		var labels []string
		for v := range m {
			labels = append(labels, u.label(v))
		}
		sort.Strings(labels)
		c.Violation("dutydb/"+k.Kind.String()+"/two-different-answers-for-one-key",
			fmt.Sprintf("answers with different signed content for one key: %v", labels), e.witness("uniqueness", k))
	}

	// (3) conflicting data is rejected once a successful Store completed
	var conflictRejected bool
	for k, ps := range prov {
		if k.Kind == kAgg {
			continue
		}
		for _, p1 := range ps {
			if !p1.S.OK || p1.S.Ret == 0 {
				continue
			}
			for _, p2 := range ps {
				if p2.S == p1.S || p2.S.Call < p1.S.Ret {
					continue
				}
				mode := p2.Mode
				if p1.Mode == modeRelaxed {
					mode = modeRelaxed // the earlier Store only guarantees source/target of the shadow entry
				}
				if u.compatible(p1.Val, p2.Val, mode) {
					if p1.Val != p2.Val && p2.S.OK {
						r.Count("stores_head_only_difference_accepted_at_commidx0", 1)
					}

					continue
				}
				if p2.S.OK {
					cls := "strict"
					if mode == modeRelaxed {
						cls = "commidx0-source-target"
					}
					c.Violation("dutydb/store/"+dutyName(p2.S)+"/conflicting-data-accepted/"+k.Kind.String()+"/"+cls,
						fmt.Sprintf("Store #%d carrying %s for %v succeeded after Store #%d had successfully provided %s", p2.S.ID, u.label(p2.Val), k, p1.S.ID, u.label(p1.Val)),
						e.witness("conflict", k))
				} else {
					conflictRejected = true
					r.Count("stores_conflict_rejected", 1)
				}
			}
		}
	}

	// (R) a key provided by a completed successful Store of a non-expired duty is readable
	for _, a := range absents {
		if a.Kind == opProbe {
			r.Count("probes_absent", 1)
		} else {
			r.Count("pubkey_notfound", 1)
		}
		for _, p := range prov[a.Key] {
			if p.S.OK && p.S.Ret != 0 && p.S.Ret < a.Call && neverExpiredBefore(a.Key.duty(), a.Ret) {
				c.Violation("dutydb/"+opName(a)+"/stored-key-not-readable",
					fmt.Sprintf("non-blocking read found nothing for %v although Store #%d had completed successfully and the duty had not expired", a.Key, p.S.ID), e.witness(fmt.Sprintf("op #%d", a.ID), a.Key))

				break
			}
		}
	}

	// blocking queries: errors, cancellations, shutdown
	for i := range ops {
		o := &ops[i]
		if o.Kind != opAwait {
			continue
		}
		r.Count("awaits", 1)
		switch {
		case o.Ret == 0:
			r.Count("awaits_never_returned", 1)
		case o.ErrKind == "ctx":
			r.Count("awaits_cancelled", 1)
			if o.Cancel == 0 {
				c.Violation("dutydb/"+opName(o)+"/context-error-without-cancel", "blocking query returned a context error although its context was never cancelled", e.witness(fmt.Sprintf("op #%d", o.ID), o.Key))
			}
		case o.ErrKind == "shutdown":
			r.Count("awaits_released_by_shutdown", 1)
			if o.Ret < shutdownSeq {
				c.Violation("dutydb/"+opName(o)+"/shutdown-error-before-shutdown", "blocking query returned a shutdown error before Shutdown was called", e.witness(fmt.Sprintf("op #%d", o.ID), o.Key))
			}
		case strings.HasPrefix(o.ErrKind, "other"):
			c.Violation("dutydb/"+opName(o)+"/unexpected-error", "blocking query returned an error that is neither cancellation nor shutdown: "+o.ErrKind, e.witness(fmt.Sprintf("op #%d", o.ID), o.Key))
		}
	}

	// (5) linearizability per key against the write-once register
	maxOps := 0
	for k := range prov {
		n := e.linearizable(k, ops, prov[k], expiry[k.duty()])
		if n > maxOps {
			maxOps = n
		}
	}

	// evidence
	r.Count("ops", int64(len(ops)))
	r.Count("expiries", int64(len(expiry)))
	r.Seen("clients", fmt.Sprint(len(sc.Clients)))
	r.Seen("proposal_versions", u.proVer)
	r.Seen("aggregate_versions", u.aggVer)
	r.Seen("committee_sets", fmt.Sprint(u.comms))
	woken := false
	for _, a := range answers {
		if a.Kind != opAwait || a.Reg == 0 {
			continue
		}
		w := true
		for _, p := range prov[a.Key] {
			if p.S.Ret != 0 && p.S.Ret < a.Reg {
				w = false
			}
		}
		woken = woken || w
	}
	if woken && conflictRejected {
		var outcome []any
		for i := range ops {
			o := &ops[i]
			outcome = append(outcome, o.Kind, o.OK, o.Ans, o.ErrKind)
		}
		var script []string
		for _, cl := range sc.Clients {
			for _, s := range cl {
				script = append(script, s.String())
			}
			script = append(script, "|")
		}
		c.NonTrivial(kit.Hash(script, sc.Late, sc.Epilogue, outcome))
	}
	if c.Idx < 2 {
		r.Sample(e.witness(fmt.Sprintf("sample case %d: %d clients, %d ops, longest per-key history %d", c.Idx, len(sc.Clients), len(ops), maxOps)))
	}
}

// ---------------------------------------------------------------------------------------------
// porcupine model: one key = one write-once register.
//
//	Store carrying values vs for the key, returned ok : not expired; unset -> one of vs that all others
//	        are compatible with | set -> every v compatible with the stored value, unchanged
//	Store ..., returned error: unchanged, or (key unset, not expired) any one of vs — a failed Store may
//	        have stored some entries before the failing one (the oracle never demands success)
//	Await / read -> v        : register holds v
//	read -> nothing          : register unset, or the duty expired (trimmed)
//	Expire                   : no Store succeeds afterwards
//
// Aggregates: the key is the signed content (data root + committee); the register holds the set of
// aggregates stored for it and a read may return any of them.

type pcIn struct {
	Op    int // 0 store, 1 read, 2 expire
	Vals  []int
	Modes []int
	Desc  string
}

type pcOut struct {
	OK     bool
	Val    int
	Absent bool
}

type pcState struct {
	Val     int // -1 unset
	Set     uint64
	Expired bool
}

func (e *env) linearizable(k key, ops []op, ps []provRef, expire *op) int {
	u, r := e.u, e.c.R
	isAgg := k.Kind == kAgg
	local := map[int]uint64{} // aggregates: value id -> bit (filled before the checker runs; read-only later)
	for _, p := range ps {
		if _, ok := local[p.Val]; !ok {
			local[p.Val] = uint64(1) << uint(len(local)%64)
		}
	}
	bit := func(v int) uint64 { return local[v] } // a value no Store carried for the key has no bit
	byStore := map[int]*pcIn{}
	var hist []porcupine.Operation
	var order []int
	for _, p := range ps {
		in := byStore[p.S.ID]
		if in == nil {
			in = &pcIn{Op: 0, Desc: fmt.Sprintf("store#%d", p.S.ID)}
			byStore[p.S.ID] = in
			order = append(order, p.S.ID)
		}
		in.Vals = append(in.Vals, p.Val)
		in.Modes = append(in.Modes, p.Mode)
	}
	for _, id := range order {
		s := &ops[id]
		if s.Ret == 0 {
			continue
		}
		hist = append(hist, porcupine.Operation{ClientId: len(hist), Input: *byStore[id], Output: pcOut{OK: s.OK}, Call: s.Call, Return: s.Ret})
	}
	for i := range ops {
		o := &ops[i]
		if o.Kind == opStore || o.Kind == opExpire || o.Key != k || o.Ret == 0 || o.Ans == ansUnknown {
			continue
		}
		switch {
		case o.Ans != ansNone:
			hist = append(hist, porcupine.Operation{ClientId: len(hist), Input: pcIn{Op: 1, Desc: fmt.Sprintf("%s#%d", o.Kind, o.ID)}, Output: pcOut{Val: o.Ans}, Call: o.Call, Return: o.Ret})
		case o.Kind != opAwait && (o.ErrKind == "ctx" || o.ErrKind == "notfound"):
			hist = append(hist, porcupine.Operation{ClientId: len(hist), Input: pcIn{Op: 1, Desc: fmt.Sprintf("%s#%d", o.Kind, o.ID)}, Output: pcOut{Absent: true, Val: -1}, Call: o.Call, Return: o.Ret})
		}
	}
	if expire != nil {
		hist = append(hist, porcupine.Operation{ClientId: len(hist), Input: pcIn{Op: 2, Desc: "expire"}, Output: pcOut{}, Call: expire.Call, Return: expire.Ret})
	}
	if len(hist) == 0 {
		return 0
	}
	nm := porcupine.NondeterministicModel{
		Init: func() []any { return []any{pcState{Val: -1}} },
		Step: func(state, input, output any) []any {
			st, in, out := state.(pcState), input.(pcIn), output.(pcOut)
			switch in.Op {
			case 2:
				st.Expired = true
				return []any{st}
			case 1:
				unset := st.Val < 0
				if isAgg {
					unset = st.Set == 0
				}
				if out.Absent {
					if unset || st.Expired {
						return []any{st}
					}

					return nil
				}
				if (isAgg && st.Set&bit(out.Val) != 0) || (!isAgg && st.Val == out.Val) {
					return []any{st}
				}

				return nil
			}
			// store
			if out.OK {
				if st.Expired {
					return nil
				}
				if isAgg {
					for _, v := range in.Vals {
						st.Set |= bit(v)
					}

					return []any{st}
				}
				if st.Val >= 0 {
					for j, v := range in.Vals {
						if !u.compatible(st.Val, v, in.Modes[j]) {
							return nil
						}
					}

					return []any{st}
				}
				var next []any
				seen := map[int]bool{}
				for j, cand := range in.Vals {
					if seen[cand] {
						continue
					}
					ok := true
					for i2, v := range in.Vals {
						if i2 != j && !u.compatible(cand, v, in.Modes[i2]) {
							ok = false
						}
					}
					if ok {
						seen[cand] = true
						next = append(next, pcState{Val: cand})
					}
				}

				return next
			}
			next := []any{st}
			if st.Expired {
				return next
			}
			if isAgg {
				seen := map[uint64]bool{st.Set: true}
				for m := 1; m < 1<<uint(len(in.Vals)); m++ {
					s2 := st
					for j, v := range in.Vals {
						if m&(1<<uint(j)) != 0 {
							s2.Set |= bit(v)
						}
					}
					if !seen[s2.Set] {
						seen[s2.Set] = true
						next = append(next, s2)
					}
				}

				return next
			}
			if st.Val < 0 {
				seen := map[int]bool{}
				for _, v := range in.Vals {
					if !seen[v] {
						seen[v] = true
						next = append(next, pcState{Val: v})
					}
				}
			}

			return next
		},
		Equal: func(a, b any) bool { return a.(pcState) == b.(pcState) },
	}
	res := porcupine.CheckOperationsTimeout(nm.ToModel(), hist, 20*time.Second)
	r.Count("linearizability_keys_checked", 1)
	r.Count("linearizability_ops_checked", int64(len(hist)))
	switch res {
	case porcupine.Illegal:
		e.c.Violation("dutydb/"+k.Kind.String()+"/history-not-linearizable-as-write-once-register",
			fmt.Sprintf("the recorded history of %v has no linearization against the write-once register model (%d operations)", k, len(hist)), e.witness("porcupine: illegal", k))
	case porcupine.Unknown:
		r.Inconclusive("case %d: porcupine timed out on %v (%d operations)", e.c.Idx, k, len(hist))
	}

	return len(hist)
}
