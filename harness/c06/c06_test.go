// Package c06 monitors core/dutydb.MemDB (property C06): per key all answers carry identical signed
// content, conflicting data is rejected, data for expired duties is refused, and a blocking query
// returns only stored data and returns once a successful Store has provided its key.
//
// The real MemDB runs with a harness Deadliner (virtual time) under PRNG-generated hostile
// histories: 1–8 client goroutines, few keys, equal / conflicting / partially conflicting single-
// and multi-entry Stores, blocking queries (some cancelled), non-blocking reads, expiry ticks.
// The history is recorded at the client boundary and judged offline (see oracle_test.go).
package c06

import (
	"fmt"
	"math/rand"
	"strings"
	"sync"
	"sync/atomic"
	"testing"
	"time"

	"github.com/obolnetwork/charon/core"
	"github.com/obolnetwork/charon/core/dutydb"

	"verifharness/kit"
)

// settleWait is the generous real-time settle used only to let already-runnable goroutines run
// before a blocked query is examined; it never decides anything alone (see settle()).
const settleWait = 8 * time.Second

// After this many confirmed lost wake-ups further cases no longer spend the full settle on them.
const lostWakeBudget = 3

var lostWakeConfirmed atomic.Int64

func TestCheck(t *testing.T) {
	r := kit.Start(t, "C06")
	defer r.Finish()
	r.Rule("case = PRNG script over 2 contended slots x 2 committees x 3 validators (+2 proposal, 8 aggregate, 8 contribution keys) run by 1 client (sequential, 25%) or 2-8 client goroutines against the real dutydb.MemDB with a harness Deadliner: " +
		"Stores (single/multi entry; canonical, conflicting in one field class, partially conflicting, clashing pubkeys, after expiry), async Await* (30% cancelled, some on never-stored keys), PubKeyByAttestation, non-blocking reads, expiry ticks; then a wake-up phase " +
		"(waiters registered first, then Stores only), an expiry epilogue, final reads and Shutdown. " +
		"Every 8th case runs the second world: MemDB composed with the REAL core.Deadliner on a harness-advanced fake clock: 0..60 stored duties (attester/aggregator/proposer/contribution over up to 60 slots) pass their deadline in 'outages' (clock advances with no Store in between; below, between and above 1x/2x the deadliner's output buffer), then Stores and queries for live and new keys resume; same oracles, expiry instants = clock advances; a call that does not return is judged from a stop-the-world goroutine dump. " +
		"non-trivial = a blocked Await was woken by a later Store AND a conflicting Store was rejected after a completed successful one; distinct = hash of script + outcome vector")
	r.Assume("core.Deadliner contract: Add reports DeadlineExpired from no later than the instant the duty is emitted on C(); a duty is emitted once and only if an Add scheduled it (harness Deadliner marks expired first, then emits)")
	r.Assume("Go select chooses uniformly among ready cases: a key that is present is missed by all 48 cancelled-context Await attempts of a non-blocking read with probability 2^-48")
	r.Assume("duty slot equals the slot of the stored data (the statement's keys); aggregate key = (slot, attestation-data root, committee index): a later aggregate for the same key may replace the stored one, so only data root + committee are required to be identical across answers")
	r.Assume("signed content of a value is identified by its SSZ hash-tree-root")
	r.RacePkgs(false, "core/dutydb")
	r.Require("stores_ok", 2000)
	r.Require("stores_conflict_rejected", 300)
	r.Require("stores_after_expiry_refused", 100)
	r.Require("awaits_answered", 2000)
	r.Require("awaits_woken_by_later_store", 500)
	r.Require("awaits_cancelled", 200)
	r.Require("late_waiters_woken", 500)
	r.Require("probes_absent", 300)
	r.Require("linearizability_keys_checked", 2000)
	r.Require("realdl_cases", 100)
	r.Require("realdl_outage_backlog_gt_2x_buffer", 20)
	r.Require("realdl_outage_backlog_le_buffer", 20)
	r.Require("realdl_resume_awaits_answered", 300)
	r.Assume("second world: clockwork.FakeClock semantics; the fake clock never moves while a Store is in flight (an Advance between the deadliner's clock read and its relative timer arm would only delay trimming)")

	n := r.N(2000, 40000)
	r.Cases(n, 0, func(c *kit.Case) {
		if c.Idx%8 == 7 {
			runRealDeadlinerCase(c) // second world: MemDB composed with the real core.Deadliner
		} else {
			runCase(c)
		}
	})
}

// ---------------------------------------------------------------------------------------------
// script generation (everything random is decided here, single-threaded, from the case PRNG)

type sop struct {
	Kind        string // store await read probe expire yield
	Duty        core.Duty
	Entries     []entry
	Key         key
	CancelAfter int // await: -1 never, k>=0 cancel after k further ops of the same client
	PreCancel   bool
}

func (s sop) String() string {
	switch s.Kind {
	case "store":
		return fmt.Sprintf("store %v %v", s.Duty, s.Entries)
	case "expire":
		return fmt.Sprintf("expire %v", s.Duty)
	case "await":
		return fmt.Sprintf("await %v cancel=%d pre=%v", s.Key, s.CancelAfter, s.PreCancel)
	case "yield":
		return "yield"
	default:
		return s.Kind + " " + s.Key.String()
	}
}

type latePlan struct {
	Kinds     []kind         // duty kinds taking part
	Waiters   []key          // uncancelled waiters (with repeats)
	Cancelled []key          // waiters cancelled before the stores
	Stores    [][]lateStore  // per goroutine
	Unrelated []key          // waiters on never-stored keys (stay blocked until Shutdown)
}

type lateStore struct {
	Duty    core.Duty
	Entries []entry
}

type script struct {
	Clients  [][]sop
	First    lateStore
	Late     latePlan
	Epilogue []core.Duty
}

type gen struct {
	rng *rand.Rand
	u   *universe
	exp map[core.Duty]bool
	nEx int
}

func pick[T any](rng *rand.Rand, xs []T) T { return xs[rng.Intn(len(xs))] }

func dutyOf(k kind, slot uint64) core.Duty { return key{Kind: k, Slot: slot}.duty() }

func (g *gen) attVariant(style int, storeVar string, post bool) string {
	if post && g.rng.Intn(10) < 7 {
		return "px"
	}
	switch style {
	case 0:
		return "canon"
	case 1:
		return storeVar
	default:
		if g.rng.Intn(10) < 6 {
			return "canon"
		}

		return pick(g.rng, attVariants[1:6])
	}
}

// store generates one Store on a contended slot.
func (g *gen) store(slot uint64, k kind) sop {
	rng := g.rng
	duty := dutyOf(k, slot)
	post := g.exp[duty]
	style := []int{0, 0, 0, 0, 0, 1, 1, 2, 2, 2}[rng.Intn(10)] // 0 equal, 1 conflicting, 2 partial
	slow := func() bool { return rng.Intn(5) == 0 }
	var es []entry
	switch k {
	case kAtt:
		n := 1
		if rng.Intn(3) != 0 {
			n = 1 + rng.Intn(4)
		}
		storeVar := pick(rng, attVariants[1:6])
		for i := 0; i < n; i++ {
			e := entry{Kind: kAtt, Slot: slot, VI: rng.Intn(3), Comm: pick(rng, g.u.comms), Slow: slow()}
			if rng.Intn(8) == 0 {
				e.PKVar = 1
			}
			e.Var = g.attVariant(style, storeVar, post)
			es = append(es, e)
		}
	case kPro:
		v := "canon"
		switch {
		case post && rng.Intn(10) < 7:
			v = "px"
		case style != 0:
			v = pick(rng, proVariants[1:3])
		}
		es = append(es, entry{Kind: kPro, Slot: slot, VI: rng.Intn(3), Var: v, Slow: slow()})
	case kAgg:
		n := 1 + rng.Intn(3)
		for i := 0; i < n; i++ {
			e := entry{Kind: kAgg, Slot: slot, VI: i, DataIdx: rng.Intn(2), Comm: pick(rng, g.u.aggComms), Bits: rng.Intn(3), Slow: slow()}
			if post && rng.Intn(10) < 7 {
				e.Bits = aggBitsPX
			}
			es = append(es, e)
		}
	default:
		n := 1 + rng.Intn(2)
		for i := 0; i < n; i++ {
			e := entry{Kind: kCon, Slot: slot, VI: i, Plural: rng.Intn(5) != 0, Slow: slow()}
			m := 1 + rng.Intn(3)
			for j := 0; j < m; j++ {
				it := conItem{Sub: uint64(rng.Intn(2)), RootIdx: rng.Intn(2), Var: "canon"}
				switch {
				case post && rng.Intn(10) < 7:
					it.Var = "px"
				case style == 1, style == 2 && rng.Intn(10) >= 6:
					it.Var = pick(rng, conVariants[1:3])
				}
				e.Cons = append(e.Cons, it)
			}
			es = append(es, e)
		}
	}

	return sop{Kind: "store", Duty: duty, Entries: es}
}

// canonical returns a Store of canonical values only for (slot, kind): every key of that kind.
func (g *gen) canonical(slot uint64, k kind, single bool) lateStore {
	var es []entry
	switch k {
	case kAtt:
		for i, comm := range g.u.comms {
			es = append(es, entry{Kind: kAtt, Slot: slot, VI: i, Comm: comm, Var: "canon"})
		}
		es = append(es, entry{Kind: kAtt, Slot: slot, VI: 2, Comm: g.u.comms[0], Var: "canon"})
	case kPro:
		es = append(es, entry{Kind: kPro, Slot: slot, VI: 0, Var: "canon"})
	case kAgg:
		for i, comm := range g.u.aggComms {
			es = append(es, entry{Kind: kAgg, Slot: slot, VI: i, DataIdx: i % 2, Comm: comm, Bits: 0})
		}
		es = append(es, entry{Kind: kAgg, Slot: slot, VI: 2, DataIdx: 1, Comm: g.u.aggComms[0], Bits: 0})
	default:
		es = append(es,
			entry{Kind: kCon, Slot: slot, VI: 0, Plural: true, Cons: []conItem{{0, 0, "canon"}, {1, 0, "canon"}}},
			entry{Kind: kCon, Slot: slot, VI: 1, Plural: false, Cons: []conItem{{1, 1, "canon"}}})
	}
	if single {
		es = es[:1]
	}

	return lateStore{Duty: dutyOf(k, slot), Entries: es}
}

// awaitKey picks a key for a blocking query / non-blocking read on the contended slots.
func (g *gen) awaitKey(k kind, slots []uint64) key {
	rng := g.rng
	slot := pick(rng, slots)
	unsat := rng.Intn(10) == 0
	switch k {
	case kAtt:
		comm := pick(rng, append([]uint64{0}, g.u.comms...))
		if unsat {
			comm = 63
		}

		return key{Kind: kAtt, Slot: slot, Comm: comm}
	case kPro:
		if unsat {
			slot = g.u.unsat
		}

		return key{Kind: kPro, Slot: slot}
	case kAgg:
		comm := pick(rng, g.u.aggComms)
		if unsat {
			comm = 62
		}

		return key{Kind: kAgg, Slot: slot, Comm: comm, Root: rng.Intn(2)}
	default:
		sub := uint64(rng.Intn(2))
		if unsat {
			sub = 9
		}

		return key{Kind: kCon, Slot: slot, Comm: sub, Root: rng.Intn(2)}
	}
}

var awaitKinds = []kind{kAtt, kAtt, kPro, kAgg, kCon}

func (g *gen) script() script {
	rng, u := g.rng, g.u
	var sc script
	nClients := 1
	if rng.Intn(4) != 0 {
		nClients = 2 + rng.Intn(7)
	}
	sc.Clients = make([][]sop, nClients)
	sc.First = g.canonical(u.slots[0], pick(rng, []kind{kAtt, kPro, kAgg, kCon}), true)

	nOps := 20 + rng.Intn(41)
	var expirable []core.Duty
	for _, s := range u.slots {
		for _, k := range []kind{kAtt, kPro, kAgg, kCon} {
			expirable = append(expirable, dutyOf(k, s))
		}
	}
	for i := 0; i < nOps; i++ {
		cl := rng.Intn(nClients)
		add := func(s sop) { sc.Clients[cl] = append(sc.Clients[cl], s) }
		switch x := rng.Intn(100); {
		case x < 38:
			st := g.store(pick(rng, u.slots), pick(rng, []kind{kAtt, kAtt, kPro, kAgg, kCon}))
			add(st)
			if rng.Intn(10) < 3 { // read back one of the keys this Store carries
				_, ps, _ := u.buildSet(st.Entries, func() {})
				var ks []key
				for _, k := range keysOf(ps) {
					if k.Kind != kPK {
						ks = append(ks, k)
					}
				}
				add(sop{Kind: "probe", Key: pick(rng, ks)})
			}
		case x < 68:
			s := sop{Kind: "await", Key: g.awaitKey(pick(rng, awaitKinds), u.slots), CancelAfter: -1}
			if rng.Intn(10) < 3 {
				s.CancelAfter = rng.Intn(4)
				s.PreCancel = rng.Intn(6) == 0
			}
			add(s)
		case x < 78:
			vidx := pick(rng, u.vds).Idx
			if rng.Intn(8) == 0 {
				vidx = 999
			}
			add(sop{Kind: "read", Key: key{Kind: kPK, Slot: pick(rng, u.slots), Comm: pick(rng, append([]uint64{0}, u.comms...)), VIdx: vidx}})
		case x < 90:
			add(sop{Kind: "probe", Key: g.awaitKey(pick(rng, awaitKinds), u.slots)})
		case x < 94 && g.nEx < 2:
			d := pick(rng, expirable)
			g.exp[d] = true
			g.nEx++
			add(sop{Kind: "expire", Duty: d})
		default:
			add(sop{Kind: "yield"})
		}
	}

	// wake-up phase on the reserved slot
	kinds := []kind{kAtt, kPro, kAgg, kCon}
	rng.Shuffle(len(kinds), func(i, j int) { kinds[i], kinds[j] = kinds[j], kinds[i] })
	kinds = kinds[:1+rng.Intn(4)]
	lp := latePlan{Kinds: kinds}
	nStoreG := 1 + rng.Intn(3)
	lp.Stores = make([][]lateStore, nStoreG)
	for _, k := range kinds {
		canon := g.canonical(u.late, k, false)
		_, ps, _ := u.buildSet(canon.Entries, func() {})
		for _, kk := range keysOf(ps) {
			if kk.Kind == kPK {
				continue
			}
			for w := rng.Intn(4); w > 0; w-- {
				lp.Waiters = append(lp.Waiters, kk)
			}
			if rng.Intn(3) == 0 {
				lp.Cancelled = append(lp.Cancelled, kk)
			}
		}
		if len(lp.Waiters) == 0 {
			lp.Waiters = append(lp.Waiters, keysOfKind(ps, k)[0])
		}
		gi := rng.Intn(nStoreG)
		lp.Stores[gi] = append(lp.Stores[gi], canon)
		if rng.Intn(10) < 3 { // a conflicting Store races with the canonical one
			old := g.exp
			g.exp = map[core.Duty]bool{}
			st := g.store(u.late, k)
			g.exp = old
			gj := rng.Intn(nStoreG)
			lp.Stores[gj] = append(lp.Stores[gj], lateStore{Duty: st.Duty, Entries: st.Entries})
		}
		if rng.Intn(2) == 0 {
			lp.Unrelated = append(lp.Unrelated, g.awaitKey(k, []uint64{u.unsat}))
		}
	}
	sc.Late = lp

	// expiry epilogue: expire duties, let a successful Store trim them, then try to store again
	if rng.Intn(2) == 0 {
		m := 1 + rng.Intn(2)
		for i := 0; i < m; i++ {
			sc.Epilogue = append(sc.Epilogue, pick(rng, expirable))
		}
	}

	return sc
}

func keysOfKind(ps []provide, k kind) []key {
	var out []key
	for _, kk := range keysOf(ps) {
		if kk.Kind == k {
			out = append(out, kk)
		}
	}

	return out
}

// ---------------------------------------------------------------------------------------------

func runCase(c *kit.Case) {
	rng, r := c.Rng, c.R
	commSets := [][]uint64{{1, 2}, {0, 1}, {0, 2}, {3, 5}, {1, 2}}
	aggCommSets := [][]uint64{{1, 2}, {0, 3}, {5, 17}}
	u, err := newUniverse(fmt.Sprintf("c06/%d/%d", r.Seed, c.Idx), 1000+uint64(rng.Intn(100000))*16,
		pick(rng, commSets), pick(rng, aggCommSets),
		pick(rng, []string{"phase0", "phase0", "deneb", "electra-blinded"}), pick(rng, []string{"electra", "electra", "deneb"}))
	if err != nil {
		r.Inconclusive("case %d: cannot build values: %v", c.Idx, err)
		return
	}
	g := &gen{rng: rng, u: u, exp: map[core.Duty]bool{}}
	sc := g.script()

	e := &env{c: c, u: u}
	e.yieldMod = []uint64{0, 6, 6, 12, 40}[rng.Intn(5)]
	e.dl = newDeadliner(e)
	e.db = dutydb.NewMemDB(e.dl)

	// vacuity guard: a canonical single-entry Store into the empty DB
	e.phase.Store("first")
	first := e.store(0, sc.First.Duty, sc.First.Entries)

	// phase 1: concurrent clients
	e.phase.Store("clients")
	var cw sync.WaitGroup
	for ci, ops := range sc.Clients {
		cw.Add(1)
		go func(ci int, ops []sop) {
			defer cw.Done()
			type pend struct {
				w    *waiter
				left int
			}
			var pending []pend
			for _, s := range ops {
				switch s.Kind {
				case "store":
					e.store(ci, s.Duty, s.Entries)
				case "await":
					w := e.await(ci, s.Key, s.PreCancel)
					if s.CancelAfter == 0 {
						w.Cancel()
					} else if s.CancelAfter > 0 {
						pending = append(pending, pend{w, s.CancelAfter})
					}
				case "read":
					e.read(ci, s.Key)
				case "probe":
					e.probe(ci, s.Key)
				case "expire":
					e.expire(ci, s.Duty)
				default:
					e.yield()
				}
				keep := pending[:0]
				for _, p := range pending {
					p.left--
					if p.left <= 0 {
						p.w.Cancel()
					} else {
						keep = append(keep, p)
					}
				}
				pending = keep
			}
			for _, p := range pending {
				p.w.Cancel()
			}
		}(ci, ops)
	}
	cw.Wait()

	// phase 2: waiters first (registration observed), then Stores only — no query is issued while
	// the Stores run, so only the Store itself can wake the waiters.
	e.phase.Store("wake-up")
	var lateWaiters []*waiter
	for _, k := range sc.Late.Waiters {
		lateWaiters = append(lateWaiters, e.await(100, k, false))
	}
	for _, k := range sc.Late.Unrelated {
		lateWaiters = append(lateWaiters, e.await(100, k, false))
	}
	var lateCancelled []*waiter
	for _, k := range sc.Late.Cancelled {
		w := e.await(100, k, false)
		lateWaiters = append(lateWaiters, w)
		lateCancelled = append(lateCancelled, w)
	}
	registered := func() bool {
		e.mu.Lock()
		defer e.mu.Unlock()
		for _, w := range lateWaiters {
			if w.o.Reg == 0 && w.o.Ret == 0 {
				return false
			}
		}

		return true
	}
	if !kit.WaitUntil(settleWait, registered) { // pacing only
		r.Count("late_waiters_not_registered_in_time", 1)
	}
	for _, w := range lateCancelled {
		w.Cancel()
	}
	var sw sync.WaitGroup
	for gi, sts := range sc.Late.Stores {
		sw.Add(1)
		go func(gi int, sts []lateStore) {
			defer sw.Done()
			for _, st := range sts {
				e.store(101+gi, st.Duty, st.Entries)
			}
		}(gi, sts)
	}
	sw.Wait()
	e.settle()

	// expiry epilogue
	e.phase.Store("expiry-epilogue")
	for _, d := range sc.Epilogue {
		e.expire(200, d)
	}
	if len(sc.Epilogue) > 0 {
		// Successful Stores of other duties trim the expired ones (C() is drained inside Store).
		for _, k := range []kind{kPro, kAtt, kCon, kAgg} {
			st := g.canonical(u.late, k, false)
			e.store(200, st.Duty, st.Entries)
		}
		for _, d := range sc.Epilogue {
			var k kind
			switch d.Type {
			case core.DutyAttester:
				k = kAtt
			case core.DutyProposer:
				k = kPro
			case core.DutyAggregator:
				k = kAgg
			default:
				k = kCon
			}
			g.exp[d] = true
			var st sop
			for i := 0; i < 4; i++ { // prefer a Store that carries a value never stored before expiry
				st = g.store(d.Slot, k)
				if hasPX(st.Entries) {
					break
				}
			}
			e.store(200, st.Duty, st.Entries)
			_, ps, _ := u.buildSet(st.Entries, func() {})
			for _, kk := range keysOf(ps) {
				if kk.Kind == kPK {
					e.read(200, kk)
				} else {
					e.probe(200, kk)
				}
			}
		}
	}

	// final non-blocking reads of every key that was touched
	e.phase.Store("final-reads")
	for _, kk := range e.touchedKeys() {
		if kk.Kind == kPK {
			e.read(300, kk)
		} else {
			e.probe(300, kk)
		}
	}
	e.settle()

	// Shutdown releases every query that is still blocked.
	e.phase.Store("shutdown")
	shutdownSeq := e.seq.Add(1)
	e.db.Shutdown()
	done := make(chan struct{})
	go func() { e.wg.Wait(); close(done) }()
	select {
	case <-done:
	case <-time.After(60 * time.Second):
		r.Inconclusive("case %d: blocking queries still running 60s after Shutdown (watchdog)", c.Idx)
		return
	}

	e.judge(sc, first, shutdownSeq)
}

func hasPX(es []entry) bool {
	for _, e := range es {
		if e.Var == "px" || (e.Kind == kAgg && e.Bits == aggBitsPX) {
			return true
		}
		for _, it := range e.Cons {
			if it.Var == "px" {
				return true
			}
		}
	}

	return false
}

// touchedKeys lists every key that appears in a Store or a query of the case.
func (e *env) touchedKeys() []key {
	var ps []provide
	for _, o := range e.snapshot() {
		switch o.Kind {
		case opStore:
			ps = append(ps, o.Provides...)
		case opAwait, opProbe, opRead:
			ps = append(ps, provide{Key: o.Key})
		}
	}

	return keysOf(ps)
}

// settle is the bounded-progress oracle (DESIGN C06 (6)), evaluated at quiescence: no Store or
// other client operation is in flight. Every non-cancelled blocking query whose key was carried
// by a *completed successful* Store of a never-expired duty must have returned data: the
// registration and the Store both ran under the DutyDB mutex, so whichever came second had the
// data and the query in hand. A query still blocked after a generous settle (only needed for its
// goroutine to be scheduled) is reported when a fresh non-blocking read of the same key finds the
// data (lost wake-up) — or does not find it (successful Store left the key unreadable).
func (e *env) settle() {
	stuck := func() []op {
		ops := e.snapshot()
		expired := map[core.Duty]bool{}
		provided := map[key]bool{}
		for _, o := range ops {
			switch {
			case o.Kind == opExpire:
				expired[o.Duty] = true
			case o.Kind == opStore && o.OK && o.Ret != 0:
				for _, p := range o.Provides {
					provided[p.Key] = true
				}
			}
		}
		var out []op
		for _, o := range ops {
			if o.Kind == opAwait && o.Cancel == 0 && provided[o.Key] && !expired[o.Key.duty()] && (o.Ret == 0 || o.Ans == ansNone) {
				out = append(out, o)
			}
		}

		return out
	}
	none := func() bool { return len(stuck()) == 0 }
	if kit.WaitUntil(20*time.Millisecond, none) {
		return
	}
	if lostWakeConfirmed.Load() >= lostWakeBudget {
		if !kit.WaitUntil(200*time.Millisecond, none) {
			e.c.R.Count("blocked_queries_not_examined_after_budget", 1)
		}

		return
	}
	if kit.WaitUntil(settleWait, none) || kit.WaitUntil(settleWait, none) {
		e.c.R.Count("settle_slow", 1)
		return
	}
	// Scheduler evidence: a goroutine that was sent a response is runnable; only queries whose
	// goroutine is parked in the Await select count as blocked (anything else is starvation or a
	// different problem and makes the run inconclusive instead).
	states := goroutineStates()
	var blocked []op
	for _, w := range stuck() {
		if st := states[w.G]; w.ErrKind != "" || strings.HasPrefix(st, "select") {
			blocked = append(blocked, w)
		} else {
			e.c.R.Inconclusive("case %d: query #%d on %v did not return within the settle but its goroutine is %q, not parked", e.c.Idx, w.ID, w.Key, st)
		}
	}
	mark := e.seq.Load()
	seen := map[key]bool{}
	for _, w := range blocked {
		if seen[w.Key] {
			continue
		}
		seen[w.Key] = true
		p := e.probe(400, w.Key)
		var n int
		for _, w2 := range blocked {
			if w2.Key == w.Key {
				n++
			}
		}
		wit := e.witness(fmt.Sprintf("%d queries on %v still blocked at seq %d (DB quiescent, 2x%v settle, goroutines parked in select); fresh non-blocking read then returned %q",
			n, w.Key, mark, settleWait, e.u.label(p.Ans)), w.Key)
		if w.ErrKind != "" {
			e.c.Violation("dutydb/"+w.Key.Kind.String()+"/error-without-cancel-or-shutdown",
				fmt.Sprintf("a non-cancelled %s returned error %q although a successful Store provided its key", w.Key.Kind, w.ErrKind), wit)
			continue
		}
		lostWakeConfirmed.Add(1)
		if p.Ans != ansNone {
			e.c.Violation("dutydb/"+w.Key.Kind.String()+"/lost-wakeup",
				fmt.Sprintf("%s stays blocked although a completed successful Store provided its key and a fresh read of the key returns the data", w.Key.Kind), wit)
		} else {
			e.c.Violation("dutydb/"+w.Key.Kind.String()+"/stored-key-not-readable",
				fmt.Sprintf("%s stays blocked and a fresh read finds nothing although a completed successful Store of a never-expired duty provided its key", w.Key.Kind), wit)
		}
	}
}
