package c06

// Second world of the C06 check: the real dutydb.MemDB composed with the REAL core.Deadliner
// (core.NewDeadlinerForT on a fake clock that only the harness advances), as in production. The
// histories contain "outages": 0..60 stored duties pass their deadline between two consecutive
// Stores (clock advances with no Store in between — the DutyDB reads Deadliner.C() only inside
// Store), then operation resumes with Stores and queries for live and new keys. The oracles are
// the same as in the first world (the expiry instants are the clock advances); a call that does
// not return is judged causally from a stop-the-world goroutine dump, never by elapsed time.

import (
	"context"
	"fmt"
	"sort"
	"strings"
	"sync"
	"sync/atomic"
	"time"

	"github.com/jonboulle/clockwork"

	"github.com/obolnetwork/charon/core"
	"github.com/obolnetwork/charon/core/dutydb"

	"verifharness/kit"
)

const rdOutputBuffer = 10 // buffer of the real deadliner's output channel (core/deadline.go)

var (
	rdT0        = time.Date(2031, 1, 1, 0, 0, 0, 0, time.UTC)
	rdConfirmed atomic.Int64 // confirmed blocked-forever cases (later cases use a shorter first wait)
	rdKindOff   = map[core.DutyType]time.Duration{
		core.DutyAttester: 0, core.DutyProposer: 100 * time.Millisecond,
		core.DutyAggregator: 200 * time.Millisecond, core.DutySyncContribution: 300 * time.Millisecond,
	}
)

type rdDuty struct {
	Slot uint64
	Kind kind
	Duty core.Duty
	DL   time.Time
}

// rdStep is one step of the pre-generated plan (everything random is decided before running).
type rdStep struct {
	Op      string // store (concurrent batch) | await | probe | read | advance | resume
	Stores  []lateStore
	Key     key
	To      time.Time
	Awaits  []key // resume: queries issued after the Store was started
	Refused []lateStore
}

func (s rdStep) String() string {
	switch s.Op {
	case "store":
		var ds []string
		for _, st := range s.Stores {
			ds = append(ds, fmt.Sprintf("%v%v", st.Duty, st.Entries))
		}

		return "store " + strings.Join(ds, " || ")
	case "advance":
		return "advance +" + s.To.Sub(rdT0).String()
	case "resume":
		return fmt.Sprintf("resume store %v then await %v, refused %v", s.Stores, s.Awaits, s.Refused)
	default:
		return s.Op + " " + s.Key.String()
	}
}

type rdWorld struct {
	c      *kit.Case
	e      *env
	u      *universe
	clock  *clockwork.FakeClock
	cancel context.CancelFunc
	caseG  int64
	base   uint64
	all    []rdDuty // every duty with values (old + live), by deadline
	now    time.Time
	live   []key // keys of live duties already stored successfully (guarded by mu)
	mu     sync.Mutex
	stored map[core.Duty]bool // Store attempted (guarded by mu)

	sinceStore int          // stored duties that expired since the last Store call (guarded by mu)
	maxBacklog atomic.Int64 // maximum of sinceStore
}

func (w *rdWorld) deadline(d core.Duty) (time.Time, bool) {
	off, ok := rdKindOff[d.Type]
	if !ok {
		off = 400 * time.Millisecond
	}

	return rdT0.Add(time.Duration(d.Slot-w.base)*time.Second + off), true
}

func nonPKKeys(u *universe, es []entry) []key {
	_, ps, _ := u.buildSet(es, func() {})
	var out []key
	for _, k := range keysOf(ps) {
		if k.Kind != kPK {
			out = append(out, k)
		}
	}

	return out
}

func runRealDeadlinerCase(c *kit.Case) {
	rng, r := c.Rng, c.R
	base := 4096 + uint64(rng.Intn(100000))*4096
	buckets := [][2]int{{0, 5}, {6, 10}, {11, 20}, {21, 24}, {25, 40}, {41, 60}}
	b := pick(rng, buckets)
	nOld := b[0] + rng.Intn(b[1]-b[0]+1)

	commSets := [][]uint64{{1, 2}, {0, 1}, {0, 2}, {3, 5}}
	aggCommSets := [][]uint64{{1, 2}, {0, 3}, {5, 17}}
	u, err := newUniverse(fmt.Sprintf("c06rd/%d/%d", r.Seed, c.Idx), 0, pick(rng, commSets), pick(rng, aggCommSets),
		"phase0", pick(rng, []string{"electra", "deneb"}))
	if err != nil {
		r.Inconclusive("case %d: cannot build values: %v", c.Idx, err)
		return
	}
	live1, live2 := base+1000, base+1001
	u.slots, u.late, u.unsat = []uint64{live1, live2}, live2, base+2000
	w := &rdWorld{c: c, u: u, base: base, now: rdT0, stored: map[core.Duty]bool{}}

	// old duties: slot base+i expires i seconds after t0 (+ a per-type offset)
	var old []rdDuty
	for i := uint64(1); len(old) < nOld; i++ {
		kinds := []kind{kAtt, kAgg, kPro, kCon}
		if rng.Intn(3) == 0 {
			rng.Shuffle(len(kinds), func(a, b int) { kinds[a], kinds[b] = kinds[b], kinds[a] })
		}
		kinds = kinds[:1+rng.Intn(3)]
		if len(old)+len(kinds) > nOld {
			kinds = kinds[:nOld-len(old)]
		}
		if err := u.buildSlot(base+i, kinds...); err != nil {
			r.Inconclusive("case %d: cannot build values: %v", c.Idx, err)
			return
		}
		for _, k := range kinds {
			d := dutyOf(k, base+i)
			dl, _ := w.deadline(d)
			old = append(old, rdDuty{Slot: base + i, Kind: k, Duty: d, DL: dl})
		}
	}
	sort.Slice(old, func(i, j int) bool { return old[i].DL.Before(old[j].DL) })
	for _, s := range []uint64{live1, live2} {
		if err := u.buildSlot(s); err != nil {
			r.Inconclusive("case %d: cannot build values: %v", c.Idx, err)
			return
		}
	}
	w.all = append([]rdDuty(nil), old...)
	for _, s := range []uint64{live1, live2} {
		for _, k := range allKinds {
			d := dutyOf(k, s)
			dl, _ := w.deadline(d)
			w.all = append(w.all, rdDuty{Slot: s, Kind: k, Duty: d, DL: dl})
		}
	}

	// ---- plan ----
	g := &gen{rng: rng, u: u, exp: map[core.Duty]bool{}}
	var normal, outage, tail []rdStep
	liveKinds := append([]kind(nil), allKinds...)
	rng.Shuffle(len(liveKinds), func(a, b int) { liveKinds[a], liveKinds[b] = liveKinds[b], liveKinds[a] })
	liveKinds = liveKinds[:2+rng.Intn(3)]
	if liveKinds[0] != kAtt && rng.Intn(2) == 0 {
		liveKinds[0] = kAtt
	}
	var firstStore lateStore
	if len(old) > 0 {
		firstStore = g.canonical(old[0].Slot, old[0].Kind, true)
	} else {
		firstStore = g.canonical(live1, liveKinds[0], true)
	}
	// some queries are waiting before anything is stored
	for i := 0; i < 1+rng.Intn(4); i++ {
		if len(old) > 0 && rng.Intn(2) == 0 {
			o := pick(rng, old)
			normal = append(normal, rdStep{Op: "await", Key: pick(rng, nonPKKeys(u, g.canonical(o.Slot, o.Kind, false).Entries))})
		} else {
			normal = append(normal, rdStep{Op: "await", Key: pick(rng, nonPKKeys(u, g.canonical(live1, pick(rng, liveKinds), false).Entries))})
		}
	}
	planNow := rdT0
	for i := 0; i < len(old); {
		n := 1 + rng.Intn(3)
		if i+n > len(old) {
			n = len(old) - i
		}
		st := rdStep{Op: "store"}
		for _, o := range old[i : i+n] {
			st.Stores = append(st.Stores, g.canonical(o.Slot, o.Kind, false))
		}
		if rng.Intn(8) == 0 { // a conflicting / partially conflicting Store races with the canonical ones
			o := old[i]
			cs := g.store(o.Slot, o.Kind)
			st.Stores = append(st.Stores, lateStore{Duty: cs.Duty, Entries: cs.Entries})
		}
		normal = append(normal, st)
		i += n
		if rng.Intn(4) == 0 {
			o := old[rng.Intn(i)]
			normal = append(normal, rdStep{Op: pick(rng, []string{"await", "probe"}), Key: pick(rng, nonPKKeys(u, g.canonical(o.Slot, o.Kind, false).Entries))})
		}
		if rng.Intn(7) == 0 { // a few duties expire during normal operation; the next Store trims them
			m := rng.Intn(i)
			if m > 2 {
				m = rng.Intn(3)
			}
			if to := old[m].DL.Add(50 * time.Millisecond); to.After(planNow) {
				normal = append(normal, rdStep{Op: "advance", To: to})
				planNow = to
			}
		}
	}
	for _, k := range liveKinds {
		normal = append(normal, rdStep{Op: "store", Stores: []lateStore{g.canonical(live1, k, false)}})
	}
	var liveKeys []key
	for _, k := range liveKinds {
		liveKeys = append(liveKeys, nonPKKeys(u, g.canonical(live1, k, false).Entries)...)
	}
	normal = append(normal, rdStep{Op: "await", Key: pick(rng, liveKeys)})

	// outage: the clock moves past the deadline of old[:expireN] with no Store in between
	expireN := len(old)
	if rng.Intn(10) < 3 && len(old) > 0 {
		expireN = rng.Intn(len(old) + 1)
	}
	if expireN > 0 {
		target := old[expireN-1].DL.Add(50 * time.Millisecond)
		if expireN == len(old) {
			target = target.Add(time.Duration(1+rng.Intn(20)) * time.Second)
		}
		if rng.Intn(3) == 0 && expireN > 2 { // two advances
			if mid := old[expireN/2].DL.Add(50 * time.Millisecond); mid.After(planNow) && mid.Before(target) {
				outage = append(outage, rdStep{Op: "advance", To: mid}, rdStep{Op: "await", Key: pick(rng, liveKeys)})
				planNow = mid
			}
		}
		if target.After(planNow) {
			outage = append(outage, rdStep{Op: "advance", To: target})
			planNow = target
		}
	}
	outage = append(outage, rdStep{Op: "await", Key: pick(rng, liveKeys)}, rdStep{Op: "probe", Key: pick(rng, liveKeys)})
	if len(old) > 0 {
		o := pick(rng, old)
		outage = append(outage, rdStep{Op: "probe", Key: pick(rng, nonPKKeys(u, g.canonical(o.Slot, o.Kind, false).Entries))})
	}

	// resume: a Store for a new live duty; then queries for live + new keys; a Store for an expired duty
	newKind := pick(rng, allKinds)
	resume := rdStep{Op: "resume", Stores: []lateStore{g.canonical(live2, newKind, false)}}
	resume.Awaits = append(resume.Awaits, pick(rng, liveKeys), pick(rng, liveKeys))
	resume.Awaits = append(resume.Awaits, nonPKKeys(u, resume.Stores[0].Entries)...)
	for _, o := range old[:expireN] {
		if rng.Intn(expireN) < 2 {
			g.exp[o.Duty] = true
			cs := g.store(o.Slot, o.Kind)
			resume.Refused = append(resume.Refused, lateStore{Duty: cs.Duty, Entries: cs.Entries})
		}
	}
	// tail: more Stores (trim the rest of the backlog), conflicts on the new duty, reads
	for i := 0; i < 2+rng.Intn(3); i++ {
		cs := g.store(live2, pick(rng, []kind{newKind, pick(rng, allKinds)}))
		tail = append(tail, rdStep{Op: "store", Stores: []lateStore{{Duty: cs.Duty, Entries: cs.Entries}}})
		tail = append(tail, rdStep{Op: pick(rng, []string{"await", "probe"}), Key: pick(rng, nonPKKeys(u, cs.Entries))})
	}
	for _, o := range old {
		if rng.Intn(len(old)) < 3 {
			tail = append(tail, rdStep{Op: "probe", Key: pick(rng, nonPKKeys(u, g.canonical(o.Slot, o.Kind, false).Entries))})
		}
	}

	// ---- run ----
	ctx, cancel := context.WithCancel(context.Background())
	defer cancel()
	w.cancel = cancel
	w.clock = clockwork.NewFakeClockAt(rdT0)
	w.caseG = goid()
	dl := core.NewDeadlinerForT(ctx, r.T(), w.deadline, w.clock)
	e := &env{c: c, u: u}
	e.yieldMod = []uint64{0, 6, 12, 40}[rng.Intn(4)]
	e.db = dutydb.NewMemDB(dl)
	w.e = e

	var first *op
	ok := w.stage("normal", func() {
		first = e.store(0, firstStore.Duty, firstStore.Entries)
		w.noteStore(first)
		w.run(normal)
	}) && w.stage("outage", func() { w.run(outage) }) &&
		w.stage("resume", func() { w.run([]rdStep{resume}) }) &&
		w.stage("tail", func() {
			w.run(tail)
			e.phase.Store("final-reads")
			for _, kk := range e.touchedKeys() {
				if kk.Kind == kPK {
					e.read(300, kk)
				} else {
					e.probe(300, kk)
				}
			}
			e.settle()
		})
	r.Count("realdl_cases", 1)
	switch mb := int(w.maxBacklog.Load()); {
	case mb > 2*rdOutputBuffer:
		r.Count("realdl_outage_backlog_gt_2x_buffer", 1)
	case mb > rdOutputBuffer:
		r.Count("realdl_outage_backlog_gt_buffer", 1)
	default:
		r.Count("realdl_outage_backlog_le_buffer", 1)
	}
	if !ok {
		r.Count("realdl_cases_aborted", 1)
		return
	}

	e.phase.Store("shutdown")
	shutdownSeq := e.seq.Add(1)
	e.db.Shutdown()
	done := make(chan struct{})
	go func() { e.wg.Wait(); close(done) }()
	select {
	case <-done:
	case <-time.After(60 * time.Second):
		r.Inconclusive("case %d: blocking queries still running 60s after Shutdown (watchdog)", c.Idx)
		return
	}
	cancel()

	sc := script{Clients: make([][]sop, 1)}
	for _, seg := range [][]rdStep{normal, outage, {resume}, tail} {
		for _, s := range seg {
			sc.Clients[0] = append(sc.Clients[0], sop{Kind: s.String()})
		}
	}
	for _, o := range e.snapshot() {
		if o.Kind == opAwait && o.Phase == "resume" && o.Ans != ansNone {
			r.Count("realdl_resume_awaits_answered", 1)
		}
	}
	e.judge(sc, first, shutdownSeq)
}

func (w *rdWorld) noteStore(o *op) {
	w.mu.Lock()
	defer w.mu.Unlock()
	w.stored[o.Duty] = true
	w.sinceStore = 0
	if o.OK && o.Duty.Slot >= w.base+1000 {
		for _, k := range keysOf(o.Provides) {
			if k.Kind != kPK {
				w.live = append(w.live, k)
			}
		}
	}
}

// run executes plan steps. It runs inside a stage goroutine (the case goroutine holds the watchdog).
func (w *rdWorld) run(steps []rdStep) {
	e := w.e
	storeAll := func(client int, sts []lateStore) {
		var wg sync.WaitGroup
		for i, st := range sts {
			wg.Add(1)
			go func(i int, st lateStore) {
				defer wg.Done()
				w.noteStore(e.store(client+i, st.Duty, st.Entries))
			}(i, st)
		}
		wg.Wait()
	}
	for _, s := range steps {
		switch s.Op {
		case "store":
			storeAll(10, s.Stores)
		case "await":
			e.await(1, s.Key, false)
		case "probe":
			e.probe(2, s.Key)
		case "read":
			e.read(2, s.Key)
		case "advance":
			w.advance(s.To)
		case "resume":
			var wg sync.WaitGroup
			var started atomic.Bool
			wg.Add(1)
			go func() {
				defer wg.Done()
				started.Store(true)
				for _, st := range s.Stores {
					w.noteStore(e.store(20, st.Duty, st.Entries))
				}
			}()
			kit.WaitUntil(time.Second, started.Load) // pacing: the Store goes first
			time.Sleep(200 * time.Microsecond)
			var ws []*waiter
			for _, k := range s.Awaits {
				ws = append(ws, e.await(21, k, false))
			}
			wg.Add(1)
			go func() {
				defer wg.Done()
				for _, st := range s.Refused {
					w.noteStore(e.store(22, st.Duty, st.Entries))
				}
			}()
			wg.Wait()
			// every query of the wave is for a key that is now provided: they must all return
			kit.WaitUntil(settleWait, func() bool {
				e.mu.Lock()
				defer e.mu.Unlock()
				for _, x := range ws {
					if x.o.Ret == 0 {
						return false
					}
				}

				return true
			})
		}
	}
}

// advance moves the fake clock (virtual time) to `to`: every duty whose deadline lies before `to`
// is expired from some instant inside the Advance call on (the real deadliner compares deadlines
// with clock.Now()), and is emitted on C() afterwards. Never overlaps a Store.
func (w *rdWorld) advance(to time.Time) {
	e := w.e
	var ops []*op
	backlog := 0
	w.mu.Lock()
	for _, d := range w.all {
		if !d.DL.Before(w.now) && d.DL.Before(to) {
			o := &op{Kind: opExpire, Client: 3, Duty: d.Duty, Ans: ansNone, OK: true}
			ops = append(ops, o)
			if w.stored[d.Duty] {
				backlog++
			}
		}
	}
	w.sinceStore += backlog
	if int64(w.sinceStore) > w.maxBacklog.Load() {
		w.maxBacklog.Store(int64(w.sinceStore))
	}
	w.mu.Unlock()
	for _, o := range ops {
		o.Call = e.seq.Add(1)
		e.add(o)
	}
	w.clock.Advance(to.Sub(w.now))
	ret := e.seq.Add(1)
	e.set(func() {
		for _, o := range ops {
			o.Ret = ret
		}
	})
	w.now = to
	// pacing: wait until the deadliner has handled every due timer and re-armed for a future one
	bctx, bcancel := context.WithTimeout(context.Background(), 20*time.Second)
	if err := w.clock.BlockUntilContext(bctx, 1); err != nil {
		w.c.R.Count("realdl_barrier_timeout", 1)
	}
	bcancel()
	w.c.R.Count("realdl_advances", 1)
	w.c.R.Count("realdl_duties_expired_by_advance", int64(len(ops)))
}

// stage runs f in its own goroutine under a watchdog. The watchdog never decides: when f has not
// finished, diagnose() looks for causal evidence of a permanent block; without such evidence the
// case is inconclusive. Either way the case is unwound and ends.
func (w *rdWorld) stage(name string, f func()) bool {
	w.e.phase.Store(name)
	done := make(chan struct{})
	go func() { defer close(done); f() }()
	first := 3 * time.Second
	if rdConfirmed.Load() >= lostWakeBudget {
		first = 500 * time.Millisecond
	}
	select {
	case <-done:
		return true
	case <-time.After(first):
	}
	if !w.diagnose(name) {
		select {
		case <-done:
			return true
		case <-time.After(20 * time.Second):
		}
		if !w.diagnose(name) {
			select {
			case <-done:
				return true
			default:
				w.c.R.Inconclusive("case %d (real deadliner): stage %q did not finish within the watchdog and the goroutine dump shows no permanent block", w.c.Idx, name)
			}
		}
	}
	// unwind: stopping the deadliner makes a parked Add return, which releases the DutyDB mutex
	w.cancel()
	w.e.db.Shutdown()
	fin := make(chan struct{})
	go func() { <-done; w.e.wg.Wait(); close(fin) }()
	select {
	case <-fin:
	case <-time.After(60 * time.Second):
		w.c.R.Inconclusive("case %d (real deadliner): goroutines still running 60s after unwinding", w.c.Idx)
	}

	return false
}

func trimStack(s string, n int) string {
	lines := strings.Split(s, "\n")
	if len(lines) > n {
		lines = append(lines[:n], "…")
	}

	return strings.Join(lines, "\n")
}

// diagnose decides "blocked forever" causally from one stop-the-world goroutine dump:
//
//   - the deadliner loop goroutine of this case is parked in its select,
//   - a Store goroutine of this case is parked in a select inside deadliner.Add called from
//     MemDB.Store (i.e. with the DutyDB mutex held), and
//   - a query for a live key that a completed successful Store provided (a fresh one is issued
//     first) is parked on the DutyDB mutex.
//
// In one consistent snapshot the first two cannot both hold if the loop still accepted Add calls
// (a parked sender and a parked receiver on the same channel cannot coexist; an answered Add makes
// its caller runnable), the clock only moves when the harness moves it and nothing but Store reads
// C(): no future event can release the Store, and the query waits for it. Returns true if a
// violation was recorded.
func (w *rdWorld) diagnose(stage string) bool {
	e, c := w.e, w.c
	w.mu.Lock()
	live := append([]key(nil), w.live...)
	w.mu.Unlock()
	if len(live) > 0 {
		fresh := e.await(500, live[0], false)
		kit.WaitUntil(time.Second, func() bool {
			e.mu.Lock()
			defer e.mu.Unlock()

			return fresh.o.Ret != 0 || fresh.o.G != 0
		})
		time.Sleep(100 * time.Millisecond) // let the fresh query reach the mutex (pacing only)
	}
	dump := goroutineDump()
	var loop *gInfo
	creator := fmt.Sprintf(" in goroutine %d\n", w.caseG)
	for _, gi := range dump {
		if strings.Contains(gi.Stack, "core.(*deadliner).run") && strings.Contains(gi.Stack+"\n", creator) {
			gi := gi
			loop = &gi
		}
	}
	ops := e.snapshot()
	expired := map[core.Duty]bool{}
	provided := map[key]bool{}
	for _, o := range ops {
		switch {
		case o.Kind == opExpire:
			expired[o.Duty] = true
		case o.Kind == opStore && o.OK && o.Ret != 0:
			for _, p := range o.Provides {
				provided[p.Key] = true
			}
		}
	}
	var storesInAdd, queriesOnMutex []op
	stacks := map[string]string{}
	for _, o := range ops {
		if o.Ret != 0 || o.G == 0 {
			continue
		}
		gi, ok := dump[o.G]
		if !ok {
			continue
		}
		switch o.Kind {
		case opStore:
			if strings.HasPrefix(gi.State, "select") && strings.Contains(gi.Stack, "core.(*deadliner).Add") && strings.Contains(gi.Stack, "dutydb.(*MemDB).Store") {
				storesInAdd = append(storesInAdd, o)
				stacks[fmt.Sprintf("store#%d", o.ID)] = trimStack(gi.Stack, 12)
			}
		case opAwait:
			onMutex := strings.Contains(gi.Stack, "sync.(*Mutex).Lock") && strings.Contains(gi.Stack, "dutydb.(*MemDB).Await") &&
				(strings.HasPrefix(gi.State, "sync.Mutex.Lock") || strings.HasPrefix(gi.State, "semacquire"))
			if onMutex && o.Cancel == 0 && provided[o.Key] && !expired[o.Key.duty()] {
				queriesOnMutex = append(queriesOnMutex, o)
				stacks[fmt.Sprintf("await#%d", o.ID)] = trimStack(gi.Stack, 12)
			}
		}
	}
	if loop == nil || !strings.HasPrefix(loop.State, "select") || len(storesInAdd) == 0 || len(queriesOnMutex) == 0 {
		return false
	}
	stacks["deadliner-loop"] = trimStack(loop.Stack, 10)
	rdConfirmed.Add(1)
	maxBacklog := int(w.maxBacklog.Load())
	class := "backlog-le-2x-buffer"
	if maxBacklog > 2*rdOutputBuffer {
		class = "backlog-gt-2x-buffer"
	}
	seen := map[kind]bool{}
	for _, q := range queriesOnMutex {
		if seen[q.Key.Kind] {
			continue
		}
		seen[q.Key.Kind] = true
		wit := e.witness(fmt.Sprintf("stage %q: Store #%d is parked inside Deadliner.Add (DutyDB mutex held) while the deadliner loop is parked in its select; query #%d for live, successfully stored %v waits on the DutyDB mutex. %d stored duties passed their deadline with no Store in between (deadliner output buffer %d).",
			stage, storesInAdd[0].ID, q.ID, q.Key, maxBacklog, rdOutputBuffer), q.Key)
		wit["goroutines"] = stacks
		wit["pending_store"] = storesInAdd[0].view(e.u)
		wit["stored_duties_expired_without_store_in_between"] = maxBacklog
		c.Violation("dutydb+deadliner/"+q.Key.Kind.String()+"/blocked-on-db-mutex-behind-store-parked-in-deadliner-add/"+class,
			fmt.Sprintf("%s for a live key provided by a completed successful Store can never return: a Store is parked forever in Deadliner.Add holding the DutyDB mutex after %d stored duties expired between two Stores", q.Key.Kind, maxBacklog), wit)
	}

	return true
}
