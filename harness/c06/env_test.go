package c06

import (
	"context"
	"errors"
	"fmt"
	"runtime"
	"strings"
	"sync"
	"sync/atomic"
	"time"

	eth2p0 "github.com/attestantio/go-eth2-client/spec/phase0"

	"github.com/obolnetwork/charon/core"
	"github.com/obolnetwork/charon/core/dutydb"

	"verifharness/kit"
)

// probeAttempts is the number of Await calls with an already-cancelled context that make up one
// non-blocking read. Await selects between the cancelled context and the (buffered) response;
// Go's select picks uniformly among ready cases, so a present key is missed by all attempts with
// probability 2^-probeAttempts (~3.6e-15). "Absent" is therefore decided without any clock.
const probeAttempts = 48

type opKind int

const (
	opStore opKind = iota
	opAwait
	opRead
	opProbe
	opExpire
)

func (k opKind) String() string {
	return [...]string{"store", "await", "pubkey", "probe", "expire"}[k]
}

const (
	ansNone    = -1 // no data returned
	ansUnknown = -2 // data returned that is none of the values of the case
)

// op is one operation at the DutyDB client boundary. Call is taken from the case-wide atomic
// counter before invoking, Ret after returning; Reg when a blocking query is known to have
// registered (its context's Done method is first called, i.e. after the registration critical
// section); Cancel before the harness cancels the query's context.
type op struct {
	ID     int
	Client int
	Kind   opKind
	Phase  string
	Call   int64
	Reg    int64
	Cancel int64
	Ret    int64
	G      int64 // goroutine id of a blocking query (to inspect its scheduler state when it looks stuck)

	// store / expire
	Duty     core.Duty
	Entries  []string
	Provides []provide
	OK       bool
	Err      string

	// await / probe / pubkey
	Key      key
	Ans      int
	ErrKind  string // "", ctx, shutdown, notfound, other:<msg>
	Mismatch string // the returned data does not belong to the queried key
	Attempts int
}

func (o *op) view(u *universe) map[string]any {
	m := map[string]any{"id": o.ID, "client": o.Client, "op": o.Kind.String(), "phase": o.Phase, "call": o.Call, "ret": o.Ret}
	switch o.Kind {
	case opStore:
		m["duty"] = o.Duty.String()
		m["entries"] = o.Entries
		m["ok"] = o.OK
		if o.Err != "" {
			m["err"] = o.Err
		}
	case opExpire:
		m["duty"] = o.Duty.String()
	default:
		m["key"] = o.Key.String()
		if o.Reg != 0 {
			m["registered"] = o.Reg
		}
		if o.Cancel != 0 {
			m["cancel"] = o.Cancel
		}
		if o.Ans != ansNone {
			m["answer"] = u.label(o.Ans)
		}
		if o.ErrKind != "" {
			m["err"] = o.ErrKind
		}
		if o.Mismatch != "" {
			m["mismatch"] = o.Mismatch
		}
	}

	return m
}

// env is the monitored execution of one case.
type env struct {
	c  *kit.Case
	u  *universe
	db *dutydb.MemDB
	dl *vDeadliner

	seq atomic.Int64

	mu  sync.Mutex
	ops []*op

	wg       sync.WaitGroup // blocking queries in flight
	yieldCtr atomic.Uint64
	yieldMod uint64 // 0 = never yield
	phase    atomic.Value
}

func (e *env) add(o *op) {
	e.mu.Lock()
	o.ID = len(e.ops)
	if p, ok := e.phase.Load().(string); ok {
		o.Phase = p
	}
	e.ops = append(e.ops, o)
	e.mu.Unlock()
}

func (e *env) set(f func()) {
	e.mu.Lock()
	f()
	e.mu.Unlock()
}

func (e *env) snapshot() []op {
	e.mu.Lock()
	defer e.mu.Unlock()
	out := make([]op, len(e.ops))
	for i, o := range e.ops {
		out[i] = *o
	}

	return out
}

// yield perturbs the schedule at harness-supplied dependencies (Deadliner.Add, value Clone — both
// run inside the DutyDB mutex) and between client operations.
func (e *env) yield() {
	if e.yieldMod == 0 {
		return
	}
	x := e.yieldCtr.Add(1) * 0x9E3779B97F4A7C15
	x ^= x >> 29
	switch x % e.yieldMod {
	case 0, 1, 2:
		runtime.Gosched()
	case 3:
		time.Sleep(20 * time.Microsecond)
	case 4:
		time.Sleep(150 * time.Microsecond)
	}
}

// vDeadliner is the harness Deadliner: a duty is expired from the moment the harness says so
// (virtual time), Add answers from that state, and C() is fed by the harness — after the duty
// was marked expired, once, and only if some Add scheduled it (the core.Deadliner contract).
type vDeadliner struct {
	e         *env
	mu        sync.Mutex
	expired   map[core.Duty]bool
	scheduled map[core.Duty]bool
	ch        chan core.Duty
	addsSch   atomic.Int64
	addsExp   atomic.Int64
}

func newDeadliner(e *env) *vDeadliner {
	return &vDeadliner{e: e, expired: map[core.Duty]bool{}, scheduled: map[core.Duty]bool{}, ch: make(chan core.Duty, 64)}
}

func (d *vDeadliner) Add(duty core.Duty) core.DeadlineStatus {
	d.e.yield()
	d.mu.Lock()
	defer d.mu.Unlock()
	if d.expired[duty] {
		d.addsExp.Add(1)
		return core.DeadlineExpired
	}
	d.scheduled[duty] = true
	d.addsSch.Add(1)

	return core.DeadlineScheduled
}

func (d *vDeadliner) C() <-chan core.Duty { return d.ch }

// expire moves virtual time past the duty's deadline. Returns false if it already was expired.
func (e *env) expire(client int, duty core.Duty) bool {
	d := e.dl
	d.mu.Lock()
	already := d.expired[duty]
	d.mu.Unlock()
	if already {
		return false
	}
	o := &op{Kind: opExpire, Client: client, Duty: duty, Ans: ansNone}
	o.Call = e.seq.Add(1)
	e.add(o)
	d.mu.Lock()
	already = d.expired[duty]
	d.expired[duty] = true
	sch := d.scheduled[duty]
	d.mu.Unlock()
	ret := e.seq.Add(1)
	e.set(func() { o.Ret = ret; o.OK = !already })
	if !already && sch {
		select {
		case d.ch <- duty:
		default: // cannot happen with <= 64 duties per case; dropping only delays trimming
		}
	}

	return true
}

func (e *env) store(client int, duty core.Duty, entries []entry) *op {
	set, provides, descs := e.u.buildSet(entries, e.yield)
	o := &op{Kind: opStore, Client: client, Duty: duty, Entries: descs, Provides: provides, Ans: ansNone, G: goid()}
	o.Call = e.seq.Add(1)
	e.add(o)
	err := e.db.Store(context.Background(), duty, set)
	ret := e.seq.Add(1)
	e.set(func() {
		o.Ret = ret
		o.OK = err == nil
		if err != nil {
			o.Err = kit.Short(err.Error(), 120)
		}
	})

	return o
}

// regCtx reports the first call of Done: every Await* evaluates ctx.Done() in its select, after it
// has registered the query and released the DutyDB mutex.
type regCtx struct {
	context.Context
	once sync.Once
	f    func()
}

func (c *regCtx) Done() <-chan struct{} {
	c.once.Do(c.f)
	return c.Context.Done()
}

type waiter struct {
	e      *env
	o      *op
	cancel context.CancelFunc
}

// Cancel cancels the blocking query's context (recorded before the cancellation takes effect).
func (w *waiter) Cancel() {
	s := w.e.seq.Add(1)
	w.e.set(func() {
		if w.o.Cancel == 0 {
			w.o.Cancel = s
		}
	})
	w.cancel()
}

// await starts a blocking query in its own goroutine (a validator client request).
func (e *env) await(client int, k key, preCancel bool) *waiter {
	ctx, cancel := context.WithCancel(context.Background())
	o := &op{Kind: opAwait, Client: client, Key: k, Ans: ansNone}
	w := &waiter{e: e, o: o, cancel: cancel}
	if preCancel {
		w.Cancel()
	}
	rc := &regCtx{Context: ctx, f: func() {
		s := e.seq.Add(1)
		e.set(func() { o.Reg = s })
	}}
	o.Call = e.seq.Add(1)
	e.add(o)
	e.wg.Add(1)
	go func() {
		defer e.wg.Done()
		g := goid()
		e.set(func() { o.G = g })
		ans, errKind, mismatch := e.query(rc, k)
		ret := e.seq.Add(1)
		e.set(func() { o.Ret, o.Ans, o.ErrKind, o.Mismatch = ret, ans, errKind, mismatch })
	}()

	return w
}

var cancelledCtx = func() context.Context {
	ctx, cancel := context.WithCancel(context.Background())
	cancel()

	return ctx
}()

// probe is a non-blocking read of an Await key (see probeAttempts).
func (e *env) probe(client int, k key) *op {
	o := &op{Kind: opProbe, Client: client, Key: k, Ans: ansNone}
	o.Call = e.seq.Add(1)
	e.add(o)
	ans, errKind, mismatch, n := ansNone, "", "", 0
	for n < probeAttempts {
		n++
		ans, errKind, mismatch = e.query(cancelledCtx, k)
		if errKind != "ctx" {
			break
		}
	}
	ret := e.seq.Add(1)
	e.set(func() { o.Ret, o.Ans, o.ErrKind, o.Mismatch, o.Attempts = ret, ans, errKind, mismatch, n })

	return o
}

// read is PubKeyByAttestation.
func (e *env) read(client int, k key) *op {
	o := &op{Kind: opRead, Client: client, Key: k, Ans: ansNone}
	o.Call = e.seq.Add(1)
	e.add(o)
	pk, err := e.db.PubKeyByAttestation(context.Background(), k.Slot, k.Comm, k.VIdx)
	ret := e.seq.Add(1)
	ans, errKind := ansNone, ""
	if err != nil {
		errKind = "notfound"
		if !strings.Contains(err.Error(), "not found") {
			errKind = "other:" + kit.Short(err.Error(), 80)
		}
	} else if id, ok := e.u.pkByStr[pk]; ok {
		ans = id
	} else {
		ans = ansUnknown
	}
	e.set(func() { o.Ret, o.Ans, o.ErrKind = ret, ans, errKind })

	return o
}

func errClass(err error) string {
	switch {
	case errors.Is(err, context.Canceled):
		return "ctx"
	case strings.Contains(err.Error(), "shutdown"):
		return "shutdown"
	default:
		return "other:" + kit.Short(err.Error(), 80)
	}
}

// query performs one Await* call and identifies the answer by its SSZ root. It also checks that
// the returned object belongs to the queried key (slot / committee / root fields).
func (e *env) query(ctx context.Context, k key) (ans int, errKind, mismatch string) {
	u := e.u
	switch k.Kind {
	case kAtt:
		d, err := e.db.AwaitAttestation(ctx, k.Slot, k.Comm)
		if err != nil {
			return ansNone, errClass(err), ""
		}
		if d == nil {
			return ansUnknown, "", "nil attestation data"
		}
		root, err := d.HashTreeRoot()
		if err != nil {
			return ansUnknown, "", "unhashable: " + err.Error()
		}
		if uint64(d.Slot) != k.Slot {
			mismatch = fmt.Sprintf("data slot %d for key slot %d", d.Slot, k.Slot)
		}
		if id, ok := u.attByRoot[root]; ok {
			return id, "", mismatch
		}

		return ansUnknown, "", mismatch
	case kPro:
		p, err := e.db.AwaitProposal(ctx, k.Slot)
		if err != nil {
			return ansNone, errClass(err), ""
		}
		if p == nil {
			return ansUnknown, "", "nil proposal"
		}
		root, err := p.Root()
		if err != nil {
			return ansUnknown, "", "unhashable: " + err.Error()
		}
		if slot, err := p.Slot(); err != nil || uint64(slot) != k.Slot {
			mismatch = fmt.Sprintf("proposal slot %d (%v) for key slot %d", slot, err, k.Slot)
		}
		if id, ok := u.proByRoot[root]; ok {
			return id, "", mismatch
		}

		return ansUnknown, "", mismatch
	case kAgg:
		keyRoot, ok := u.aggKeyRoot[k]
		if !ok {
			keyRoot = eth2p0.Root(u.h("never-stored-agg-root", k.String()))
		}
		a, err := e.db.AwaitAggAttestation(ctx, k.Slot, keyRoot, eth2p0.CommitteeIndex(k.Comm))
		if err != nil {
			return ansNone, errClass(err), ""
		}
		if a == nil {
			return ansUnknown, "", "nil aggregate"
		}
		full, err := a.HashTreeRoot()
		if err != nil {
			return ansUnknown, "", "unhashable: " + err.Error()
		}
		data, err := a.Data()
		if err != nil || data == nil {
			return ansUnknown, "", "aggregate without data"
		}
		dataRoot, _ := data.HashTreeRoot()
		ci, cerr := a.CommitteeIndex()
		if dataRoot != keyRoot || cerr != nil || uint64(ci) != k.Comm || uint64(data.Slot) != k.Slot {
			mismatch = fmt.Sprintf("aggregate(data root %x, comm %d, slot %d) for key (root %x, comm %d, slot %d)",
				dataRoot[:4], ci, data.Slot, keyRoot[:4], k.Comm, k.Slot)
		}
		if id, ok := u.aggByRoot[full]; ok {
			return id, "", mismatch
		}

		return ansUnknown, "", mismatch
	default:
		keyRoot, ok := u.conKeyRoot[k]
		if !ok {
			keyRoot = eth2p0.Root(u.h("never-stored-block-root", k.String()))
		}
		c, err := e.db.AwaitSyncContribution(ctx, k.Slot, k.Comm, keyRoot)
		if err != nil {
			return ansNone, errClass(err), ""
		}
		if c == nil {
			return ansUnknown, "", "nil contribution"
		}
		root, err := c.HashTreeRoot()
		if err != nil {
			return ansUnknown, "", "unhashable: " + err.Error()
		}
		if uint64(c.Slot) != k.Slot || c.SubcommitteeIndex != k.Comm || c.BeaconBlockRoot != keyRoot {
			mismatch = fmt.Sprintf("contribution(slot %d, sub %d, root %x) for key (slot %d, sub %d, root %x)",
				c.Slot, c.SubcommitteeIndex, c.BeaconBlockRoot[:4], k.Slot, k.Comm, keyRoot[:4])
		}
		if id, ok := u.conByRoot[root]; ok {
			return id, "", mismatch
		}

		return ansUnknown, "", mismatch
	}
}

// goid returns the id of the calling goroutine ("goroutine 123 [running]:").
func goid() int64 {
	var buf [64]byte
	n := runtime.Stack(buf[:], false)
	var id int64
	for _, ch := range buf[len("goroutine "):n] {
		if ch < '0' || ch > '9' {
			break
		}
		id = id*10 + int64(ch-'0')
	}

	return id
}

// gInfo is one goroutine of a full stack dump.
type gInfo struct {
	State string // scheduler wait state: "select", "runnable", "sync.Mutex.Lock", "chan send", …
	Stack string // header line + frames
}

// goroutineDump parses a full (stop-the-world, hence consistent) stack dump.
func goroutineDump() map[int64]gInfo {
	buf := make([]byte, 16<<20)
	for {
		n := runtime.Stack(buf, true)
		if n < len(buf) {
			buf = buf[:n]
			break
		}
		buf = make([]byte, 2*len(buf))
	}
	out := map[int64]gInfo{}
	for _, block := range strings.Split(string(buf), "\n\n") {
		block = strings.TrimSpace(block)
		if !strings.HasPrefix(block, "goroutine ") {
			continue
		}
		var id int64
		if _, err := fmt.Sscanf(block, "goroutine %d [", &id); err != nil {
			continue
		}
		line := block
		if i := strings.IndexByte(block, '\n'); i >= 0 {
			line = block[:i]
		}
		var state string
		if i := strings.IndexByte(line, '['); i >= 0 {
			state = strings.TrimSuffix(strings.TrimSpace(line[i+1:]), "]:")
		}
		out[id] = gInfo{State: state, Stack: block}
	}

	return out
}

// goroutineStates maps goroutine id -> scheduler wait state ("select", "runnable", "sync.Mutex.Lock", …)
// from a full stack dump. A goroutine to which a channel value was sent is made runnable at once, so
// a query goroutine still in state "select" has demonstrably not been handed a response.
func goroutineStates() map[int64]string {
	out := map[int64]string{}
	for id, g := range goroutineDump() {
		out[id] = g.State
	}

	return out
}
