// Package c13 monitors the DKG reliable broadcast (dkg/bcast, property C13): n real
// bcast.Components run on the in-memory network, their registered callbacks are the monitors, and
// one cluster member is the harness itself — a faulty member with a real key that talks to the
// /sig and /msg protocol handlers directly.
//
// Nothing here re-implements the signed hash. Who signed what is attributed behaviourally (a real
// /sig handler answered a request carrying exactly that payload), and the faulty member's own
// signatures come out of a real bcast.Component that holds its key.
//
// Files: c13_test.go (entry point, world construction, monitor, oracles), adversary_test.go (the
// faulty member: its own protocol handlers, its signing oracle and the playbook).
package c13

import (
	"context"
	"encoding/binary"
	"encoding/hex"
	"fmt"
	"hash/fnv"
	"math/rand"
	"runtime"
	"sort"
	"strings"
	"sync"
	"testing"
	"time"

	k1 "github.com/decred/dcrd/dcrec/secp256k1/v4"
	"github.com/libp2p/go-libp2p/core/peer"
	"github.com/libp2p/go-libp2p/core/protocol"
	"google.golang.org/protobuf/encoding/protowire"
	"google.golang.org/protobuf/proto"
	"google.golang.org/protobuf/types/known/anypb"
	"google.golang.org/protobuf/types/known/durationpb"
	"google.golang.org/protobuf/types/known/timestamppb"

	"github.com/obolnetwork/charon/app/errors"
	"github.com/obolnetwork/charon/app/log"
	"github.com/obolnetwork/charon/dkg/bcast"
	pb "github.com/obolnetwork/charon/dkg/dkgpb/v1"
	"github.com/obolnetwork/charon/p2p"
	"github.com/obolnetwork/charon/testutil"

	"verifharness/fakenet"
	"verifharness/kit"
)

// Protocol ids of dkg/bcast (helpers.go; unexported there). If charon changes them no handler is
// found and the run is inconclusive, never silently "held".
const (
	protoSig = protocol.ID("/charon/dkg/bcast/2.0.0/sig")
	protoMsg = protocol.ID("/charon/dkg/bcast/2.0.0/msg")
)

// Message ids. commonIDs are registered on every honest member; idPartial only on a proper subset;
// idUnknown nowhere. A member signs at most one hash per (requester, id), so the faulty member gets
// one honest-looking shot per id and session: several ids keep the later plays meaningful.
const (
	idPartial = "partial/only-some-members"
	idUnknown = "never/registered"
)

var commonIDs = []string{
	"frost/round1", "frost/round1/shares", "frost/round2", "nodesig/0", "nodesig/1", "nodesig/10", "lockhash",
	"depositdata/1", "depositdata/10", "depositdata/32", "validators", "exchanger/sigs",
}

// prefixPairs are registered ids of the same kind where the first is a prefix of the second.
var prefixPairs = [][2]string{{"frost/round1", "frost/round1/shares"}, {"nodesig/1", "nodesig/10"}, {"depositdata/1", "depositdata/10"}}

// kindOfID: the nodesig ids carry a Duration, all others a Timestamp (checkMessage enforces it).
func kindOfID(id string) string {
	if strings.HasPrefix(id, "nodesig") {
		return "dur"
	}

	return "ts"
}

const keyPoolSize = 48

func TestCheck(t *testing.T) {
	r := kit.Start(t, "C13")
	defer r.Finish()
	r.Rule("case = cluster of n in 3..6 real bcast.Components (1 or 2 ceremony sessions over the same keys) on fakenet, one member is the harness-played faulty member; " +
		"honest members run real Broadcast calls concurrently (about 30% of 12 ids each) while the faulty member executes a PRNG playbook of /sig and /msg injections " +
		"(sequential and concurrent equivocation, equivocation across dropped and re-opened connections, connection flapping, concurrent duplicates, withholding, signature-list permutation/truncation/duplication/substitution from other ids, payloads, members, requesters and sessions, " +
		"unknown ids, re-requests, relaying foreign signed messages, alternative encodings, payload pairs that would collide under weakened hashes); " +
		"non-trivial = at least one honest broadcast reached every honest member AND the faulty member had at least one /msg accepted and one rejected; distinct = hash of the full adversary trace")
	r.Assume("attribution is behavioural, no hash is re-implemented: member m signed payload P for (requester, id, session) iff m's real /sig handler answered a request carrying exactly P with a 65-byte signature; " +
		"for an honest broadcaster the monitor takes its own local signing from the Broadcast(id,P) call and the other honest members' answers from the fact that its real client emitted the /msg (client.go sends it only after every peer answered the same request)")
	r.Assume("the faulty member's signatures come from a real bcast.Component holding its key (a private instance per session, re-created when its own dedup refuses), asked through the real /sig handler; the only signatures it computes itself are further valid signatures of its OWN key over a hash for which it already holds such a production signature (the (r, N-s) twin, and fresh-nonce signatures once its idea of the hash has been confirmed against the production signature)")
	r.Assume("fakenet authenticates the stream peer like libp2p does: the faulty member can only open streams under its own peer id")
	r.Assume("secp256k1 signatures are unforgeable: the faulty member only uses signatures it obtained through protocol responses, messages addressed to it, or its own key")
	r.RacePkgs(false, "dkg/bcast")

	quick := !r.Thorough()
	min := func(q, th int64) int64 {
		if quick {
			return q
		}

		return th
	}
	r.Require("honest_broadcasts_delivered_to_all_honest", min(1000, 20000))
	r.Require("honest_deliveries", min(3000, 60000))
	r.Require("adv_msg_accepted", min(1500, 30000))
	r.Require("adv_msg_rejected", min(3000, 60000))
	r.Require("adv_sigreq_signed", min(3000, 60000))
	r.Require("adv_sigreq_refused", min(1500, 30000))
	r.Require("adv_relay_foreign_attempts", min(600, 12000))
	r.Require("adv_cross_session_attempts", min(100, 2000))
	r.Require("deliveries_checked", min(5000, 100000))
	r.Require("adv_concurrent_sigreq_races", min(800, 16000))
	r.Require("adv_concurrent_duplicate_races", min(150, 3000))
	r.Require("adv_collision_attempts", min(500, 10000))
	r.Require("adv_connections_dropped", min(1500, 30000))
	r.Require("adv_reconnect_equivocations", min(400, 8000))

	lc := &logCounter{counts: map[string]int64{}}
	log.InitJSONForT(t, lc)

	// Keys are generated once, on the test goroutine (GenerateInsecureK1Key uses t.Setenv).
	var pool []member
	for i := 0; i < keyPoolSize; i++ {
		// seed+1 is used as a constant byte stream: 0x00 and 0xff never yield a key (endless loop).
		k := testutil.GenerateInsecureK1Key(t, 1+i)
		id, err := p2p.PeerIDFromKey(k.PubKey())
		if err != nil {
			t.Fatalf("peer id: %v", err)
		}
		pool = append(pool, member{key: k, id: id})
	}

	n := r.N(300, 6000)
	r.Require("deadline_edge_messages_that_arrived_at_the_edge_of_the_read_deadline", int64(edgeCases(r.Thorough())))
	// the first edgeCases cases sleep through the protocol's one-minute receive timeout: widen the pool
	r.Cases(n, runtime.GOMAXPROCS(0)+edgeCases(r.Thorough()), func(c *kit.Case) { runCase(c, pool) })

	for k, v := range lc.snapshot() {
		r.Count("handler_error/"+k, v)
	}
	r.Set("log_lines", lc.lines())
}

// ---------------------------------------------------------------------------------------------
// basic types

type member struct {
	key *k1.PrivateKey
	id  peer.ID
}

// anyKey is the exact wire form of a payload: the Any's type url and value bytes.
type anyKey struct{ url, val string }

func keyOfAny(a *anypb.Any) anyKey { return anyKey{a.GetTypeUrl(), string(a.GetValue())} }

func msgKey(m proto.Message) string {
	b, err := proto.MarshalOptions{Deterministic: true}.Marshal(m)
	if err != nil {
		return "unmarshalable"
	}

	return string(m.ProtoReflect().Descriptor().FullName()) + ":" + hex.EncodeToString(b)
}

// decodedKey is the identity of the application message a callback would receive for a.
func decodedKey(a *anypb.Any) string {
	if a == nil {
		return "nil"
	}
	inner, err := a.UnmarshalNew()
	if err != nil {
		return fmt.Sprintf("undecodable:%s:%x", a.GetTypeUrl(), a.GetValue())
	}

	return msgKey(inner)
}

// payload is one application message together with the wire encodings the harness uses for it.
type payload struct {
	Tag  string
	kind string // ts | dur | junk | crafted
	msg  proto.Message
	key  string
	encs []*anypb.Any // 0 canonical (what anypb.New yields), 1 other type-url prefix, 2 fields in reverse order
}

func typeName(kind string) string {
	if kind == "dur" {
		return "google.protobuf.Duration"
	}

	return "google.protobuf.Timestamp"
}

// secondsField / nanosField are the wire encodings of the two fields Timestamp and Duration share.
func secondsField(secs int64) []byte {
	return protowire.AppendVarint(protowire.AppendTag(nil, 1, protowire.VarintType), uint64(secs))
}

func nanosField(nanos int32) []byte {
	return protowire.AppendVarint(protowire.AppendTag(nil, 2, protowire.VarintType), uint64(nanos))
}

func newPayload(tag, kind string, secs int64, nanos int32, rng *rand.Rand) *payload {
	p := &payload{Tag: tag, kind: kind}
	switch kind {
	case "ts":
		p.msg = &timestamppb.Timestamp{Seconds: secs, Nanos: nanos}
	case "dur":
		p.msg = &durationpb.Duration{Seconds: secs, Nanos: nanos}
	default:
		junk := make([]byte, 8)
		rng.Read(junk)
		p.encs = []*anypb.Any{{TypeUrl: "type.googleapis.com/verif.c13.Unknown", Value: junk}}
		p.key = decodedKey(p.encs[0])

		return p
	}
	p.key = msgKey(p.msg)
	canon, err := anypb.New(p.msg)
	if err != nil {
		panic(err)
	}
	alt := &anypb.Any{TypeUrl: "verif.example/" + typeName(kind), Value: append([]byte(nil), canon.GetValue()...)}
	rev := append(nanosField(nanos), secondsField(secs)...)
	p.encs = []*anypb.Any{canon, alt, {TypeUrl: canon.GetTypeUrl(), Value: rev}}

	return p
}

// world is one ceremony session: its own network, the same members.
type world struct {
	idx     int
	session []byte
	net     *fakenet.Net
	comps   []*bcast.Component // nil at the faulty member's index
	partial map[int]bool       // honest members that registered idPartial
	dups    sync.WaitGroup
}

// spKey identifies "what did member signer sign for requester under id in this session".
type spKey struct {
	w, signer, requester int
	id                   string
}

// answer is one payload a member answered a signature request for.
type answer struct {
	decoded string
	tag     string
}

type delivery struct {
	World    int    `json:"world"`
	Receiver int    `json:"receiver"`
	Sender   int    `json:"sender"` // member index of the peer id the callback was told (-1: not a member)
	ID       string `json:"id"`
	Payload  string `json:"payload"` // tag, or "?" for a payload the harness never created
	Label    string `json:"via"`
	key      string
	exact    *anyKey // the exact wire payload (known for the faulty member's injections)
}

type honestBcast struct {
	World  int    `json:"world"`
	Sender int    `json:"sender"`
	ID     string `json:"id"`
	Pay    string `json:"payload"`
	Result string `json:"result"`
	p      *payload
}

// monitor is the per-case observation state. Everything is guarded by mu.
type monitor struct {
	mu       sync.Mutex
	n, adv   int
	members  []member
	idxOf    map[peer.ID]int
	worlds   []*world
	payloads map[string]*payload     // by decoded key
	owner    map[string]*honestBcast // decoded key -> honest broadcast that carries it
	answered map[spKey]map[anyKey]answer
	dels     []delivery
	advDel   map[[2]int]int
	curLabel string
	curAny   anyKey
	counts   map[string]int64
}

func (m *monitor) count(k string, d int64) {
	m.mu.Lock()
	m.counts[k] += d
	m.mu.Unlock()
}

// recordAnswer notes that `signer` answered a signature request of `requester` under id that carried
// exactly payload a (or, for signer == requester, signed it locally as the broadcaster).
func (m *monitor) recordAnswer(w *world, signer, requester int, id string, a *anypb.Any) {
	ak, dk := keyOfAny(a), decodedKey(a)
	m.mu.Lock()
	k := spKey{w.idx, signer, requester, id}
	if m.answered[k] == nil {
		m.answered[k] = map[anyKey]answer{}
	}
	tag := "?"
	if p := m.payloads[dk]; p != nil {
		tag = p.Tag
	}
	m.answered[k][ak] = answer{decoded: dk, tag: tag}
	m.counts["signature_answers_recorded"]++
	m.mu.Unlock()
}

// observeHonestMsg is called for every /msg envelope an honest member puts on the wire (before it
// is delivered). The real client only gets here after every peer answered its request for exactly
// this payload, so every honest member is recorded as having signed it for this broadcaster. The
// faulty member is recorded by its own handler, and only when it really signed.
func (m *monitor) observeHonestMsg(w *world, from int, msg *pb.BCastMessage) {
	if msg.GetMessage() == nil {
		return
	}
	for i := 0; i < m.n; i++ {
		if i != m.adv {
			m.recordAnswer(w, i, from, msg.GetId(), msg.GetMessage())
		}
	}
	m.count("honest_msg_envelopes_observed", 1)
}

func (m *monitor) deliver(w *world, receiver int, pid peer.ID, id string, msg proto.Message) {
	key := msgKey(msg)
	m.mu.Lock()
	defer m.mu.Unlock()
	sender, ok := m.idxOf[pid]
	if !ok {
		sender = -1
	}
	d := delivery{World: w.idx, Receiver: receiver, Sender: sender, ID: id, key: key, Label: "honest-broadcast", Payload: "?"}
	if p := m.payloads[key]; p != nil {
		d.Payload = p.Tag
	}
	if sender == m.adv {
		d.Label = m.curLabel
		ak := m.curAny
		d.exact = &ak
		m.advDel[[2]int{w.idx, receiver}]++
	}
	m.dels = append(m.dels, d)
}

func (m *monitor) advDelivered(w *world, receiver int) int {
	m.mu.Lock()
	defer m.mu.Unlock()

	return m.advDel[[2]int{w.idx, receiver}]
}

// ---------------------------------------------------------------------------------------------
// case

type caseCfg struct {
	N       int    `json:"n"`
	Adv     int    `json:"faulty_member"`
	Worlds  int    `json:"sessions"`
	Deliver string `json:"delivery_mode"`
	Lossy   bool   `json:"lossy"`
}

func runCase(c *kit.Case, pool []member) {
	rng := c.Rng
	r := c.R
	cfg := caseCfg{N: 3 + rng.Intn(4), Worlds: 1}
	cfg.Adv = rng.Intn(cfg.N)
	if rng.Intn(100) < 35 {
		cfg.Worlds = 2
	}
	cfg.Deliver = []string{"async", "async", "sync", "mixed"}[rng.Intn(4)]
	cfg.Lossy = rng.Intn(10) == 0
	n := cfg.N

	mon := &monitor{
		n: n, adv: cfg.Adv, idxOf: map[peer.ID]int{}, payloads: map[string]*payload{}, owner: map[string]*honestBcast{},
		answered: map[spKey]map[anyKey]answer{}, advDel: map[[2]int]int{}, counts: map[string]int64{},
	}
	for _, pi := range rng.Perm(len(pool))[:n] {
		mon.idxOf[pool[pi].id] = len(mon.members)
		mon.members = append(mon.members, pool[pi])
	}
	peers := make([]peer.ID, n)
	for i, mb := range mon.members {
		peers[i] = mb.id
	}
	salt := rng.Uint64()

	a := newAdversary(c, mon, salt, peers)

	// Worlds (ceremony sessions).
	for wi := 0; wi < cfg.Worlds; wi++ {
		w := &world{idx: wi, session: make([]byte, 32), net: fakenet.New(), comps: make([]*bcast.Component, n), partial: map[int]bool{}}
		rng.Read(w.session)
		mon.worlds = append(mon.worlds, w)
		// idPartial is registered on a non-empty proper subset of the honest members.
		var honest []int
		for i := 0; i < n; i++ {
			if i != cfg.Adv {
				honest = append(honest, i)
			}
		}
		for _, hi := range rng.Perm(len(honest))[:1+rng.Intn(len(honest)-1)] {
			w.partial[honest[hi]] = true
		}
		for i := 0; i < n; i++ {
			host := w.net.Host(peers[i])
			if i == cfg.Adv {
				a.registerHandlers(w, host)
				continue
			}
			comp := bcast.New(host, peers, mon.members[i].key, w.session)
			cb := func(_ context.Context, pid peer.ID, id string, msg proto.Message) error {
				mon.deliver(w, i, pid, id, msg)
				return nil
			}
			for _, id := range commonIDs {
				comp.RegisterMessageIDFuncs(id, cb, checkFunc(mon, kindOfID(id)))
			}
			if w.partial[i] {
				comp.RegisterMessageIDFuncs(idPartial, cb, checkFunc(mon, "ts"))
			}
			w.comps[i] = comp
			a.discoverProtocols(host)
		}
		w.net.SetTap(func(e *fakenet.Envelope) {
			if e.Proto != protoMsg {
				return
			}
			from, ok := mon.idxOf[e.From]
			if !ok || from == cfg.Adv {
				return
			}
			msg := new(pb.BCastMessage)
			if err := fakenet.Unframe(e.Data, msg); err != nil {
				return
			}
			mon.observeHonestMsg(w, from, msg)
		})
		mode, lossy := cfg.Deliver, cfg.Lossy
		w.net.SetPolicy(func(e *fakenet.Envelope) fakenet.Verdict {
			x := mix(salt, uint64(wi), uint64(mon.idxOf[e.From]), uint64(mon.idxOf[e.To]), fnv64(e.Data))
			if e.Proto == protoMsg && !e.Duplex {
				if lossy && x%7 == 0 {
					return fakenet.Drop
				}
				if x%11 == 0 { // duplicate delivery of a one-way message
					w.dups.Add(1)
					dup := e.Clone()
					go func() {
						defer w.dups.Done()
						w.net.Deliver(dup)
					}()
				}
			}
			switch mode {
			case "sync":
				return fakenet.DeliverSync
			case "mixed":
				if (x>>8)%2 == 0 {
					return fakenet.DeliverSync
				}
			}

			return fakenet.DeliverAsync
		})
	}

	// Honest broadcast plan: every honest member broadcasts about 30% of the common ids once.
	var plan []*honestBcast
	pcount := 0
	addPlan := func(w *world, i int, id, kind string) {
		pcount++
		p := newPayload(fmt.Sprintf("H%d", pcount), kind, int64(1_000_000+pcount), int32(1+rng.Intn(1000)), rng)
		mon.payloads[p.key] = p
		hb := &honestBcast{World: w.idx, Sender: i, ID: id, Pay: p.Tag, p: p, Result: "not-run"}
		mon.owner[p.key] = hb
		plan = append(plan, hb)
	}
	for _, w := range mon.worlds {
		for i := 0; i < n; i++ {
			if i == cfg.Adv {
				continue
			}
			for _, id := range commonIDs {
				if rng.Intn(100) < 70 {
					continue
				}
				addPlan(w, i, id, kindOfID(id))
			}
			if w.partial[i] && rng.Intn(2) == 0 {
				addPlan(w, i, idPartial, "ts")
			}
		}
	}
	rng.Shuffle(len(plan), func(i, j int) { plan[i], plan[j] = plan[j], plan[i] })

	ctx, cancel := context.WithTimeout(context.Background(), 10*time.Minute) // generous: its firing only makes the case inconclusive
	defer cancel()
	var hwg sync.WaitGroup
	var hmu sync.Mutex
	launch := func(hbs []*honestBcast) *sync.WaitGroup {
		var wave sync.WaitGroup
		for _, hb := range hbs {
			hwg.Add(1)
			wave.Add(1)
			go func() {
				defer hwg.Done()
				defer wave.Done()
				// The broadcaster signs its own payload locally, first thing in Broadcast.
				mon.recordAnswer(mon.worlds[hb.World], hb.Sender, hb.Sender, hb.ID, hb.p.encs[0])
				err := mon.worlds[hb.World].comps[hb.Sender].Broadcast(ctx, hb.ID, hb.p.msg)
				hmu.Lock()
				if err == nil {
					hb.Result = "ok"
				} else {
					hb.Result = kit.Short(err.Error(), 80)
				}
				hmu.Unlock()
			}()
		}

		return &wave
	}

	// Waves: the first before the playbook (awaited in half of the cases so that the faulty member
	// holds fully signed foreign messages from the start), the others during the playbook.
	steps := 14 + rng.Intn(14)
	if r.Thorough() {
		steps += rng.Intn(12)
	}
	cut1 := len(plan) / 2
	cut2 := cut1 + (len(plan)-cut1)/2
	wave0 := launch(plan[:cut1])
	if rng.Intn(2) == 0 {
		wave0.Wait()
	}
	// deadline-edge play: prepared now (it uses the case PRNG), its messages arrive a minute later
	var edgeWG *sync.WaitGroup
	if c.Idx < edgeCases(r.Thorough()) {
		edgeWG = a.runDeadlineEdge(a.prepareDeadlineEdge(mon.worlds[0]))
	}
	for s := 0; s < steps; s++ {
		if s == steps/3 {
			launch(plan[cut1:cut2])
		}
		if s == 2*steps/3 {
			launch(plan[cut2:])
		}
		a.step()
	}
	hwg.Wait()
	if edgeWG != nil {
		edgeWG.Wait()
	}
	for _, w := range mon.worlds {
		w.net.WaitIdle()
		w.dups.Wait()
		w.net.WaitIdle()
	}
	// A last round of adversary steps on the quiescent system (everything honest is now known to it).
	for s := 0; s < 4; s++ {
		a.step()
	}
	if ctx.Err() != nil {
		r.Inconclusive("case %d: honest broadcasts did not finish within the watchdog", c.Idx)
		return
	}
	if a.noHandler.Load() {
		r.Inconclusive("case %d: no handler for %s or %s (protocol id changed?)", c.Idx, protoSig, protoMsg)
		return
	}

	evaluate(c, cfg, mon, a, plan)
}

func edgeCases(thorough bool) int {
	if thorough {
		return 48
	}

	return 10
}

func checkFunc(mon *monitor, kind string) bcast.CheckMessage {
	return func(_ context.Context, _ peer.ID, a *anypb.Any) error {
		mon.count("check_message_calls", 1)
		var err error
		if kind == "dur" {
			err = a.UnmarshalTo(new(durationpb.Duration))
		} else {
			err = a.UnmarshalTo(new(timestamppb.Timestamp))
		}
		if err != nil {
			return errors.Wrap(err, "anypb error")
		}

		return nil
	}
}

// ---------------------------------------------------------------------------------------------
// oracles (evaluated on the quiescent case; the set of answered requests only grows, so this is the
// most lenient point in time for "never signed")

func evaluate(c *kit.Case, cfg caseCfg, mon *monitor, a *adversary, plan []*honestBcast) {
	r := c.R
	mon.mu.Lock()
	defer mon.mu.Unlock()
	n := mon.n

	witness := func(extra map[string]any) map[string]any {
		w := map[string]any{"config": cfg, "adversary_trace": a.traceCopy(), "deliveries": mon.dels, "honest_broadcasts": plan}
		for k, v := range extra {
			w[k] = v
		}

		return w
	}

	// Index: (session, id) -> exact payload -> members that signed it (for whichever requester).
	type wi struct {
		w  int
		id string
	}
	type signers struct {
		decoded string
		who     map[int]bool
	}
	index := map[wi]map[anyKey]*signers{}
	for k, as := range mon.answered {
		x := wi{k.w, k.id}
		if index[x] == nil {
			index[x] = map[anyKey]*signers{}
		}
		for ak, an := range as {
			s := index[x][ak]
			if s == nil {
				s = &signers{decoded: an.decoded, who: map[int]bool{}}
				index[x][ak] = s
			}
			s.who[k.signer] = true
		}
	}
	missingOf := func(s *signers) []int {
		var miss []int
		for i := 0; i < n; i++ {
			if s == nil || !s.who[i] {
				miss = append(miss, i)
			}
		}

		return miss
	}

	// Oracle 1: every delivered payload was signed by every member for that id in that session.
	for _, d := range mon.dels {
		mon.counts["deliveries_checked"]++
		if d.Sender == mon.adv {
			mon.counts["adv_deliveries"]++
		} else {
			mon.counts["honest_deliveries"]++
		}
		cands := index[wi{d.World, d.ID}]
		if d.exact != nil {
			if len(missingOf(cands[*d.exact])) == 0 {
				continue
			}
		}
		// Any wire form of the same application message that every member signed?
		var best []int
		found := false
		var aks []anyKey
		for ak := range cands {
			aks = append(aks, ak)
		}
		sort.Slice(aks, func(i, j int) bool { return aks[i].url+"\x00"+aks[i].val < aks[j].url+"\x00"+aks[j].val })
		for _, ak := range aks {
			s := cands[ak]
			if s.decoded != d.key {
				continue
			}
			miss := missingOf(s)
			if !found || len(miss) < len(best) {
				best, found = miss, true
			}
		}
		if found && len(best) == 0 {
			if d.exact == nil {
				continue
			}
			// Delivered from the faulty member in a wire form nobody signed, although every member
			// signed another wire form of the same application message.
			c.Violation("bcast/delivered-without-every-members-signature/re-encoded-payload-nobody-signed",
				fmt.Sprintf("n=%d: member %d delivered (sender=%d,id=%s,payload=%s) via %s in a wire encoding that not every member signed; every member did sign another encoding of the same message",
					n, d.Receiver, d.Sender, d.ID, d.Payload, d.Label),
				witness(map[string]any{"delivery": d, "type_url_on_the_wire": d.exact.url}))

			continue
		}
		missing := best
		if d.exact != nil {
			missing = missingOf(cands[*d.exact])
		} else if !found {
			missing = missingOf(nil)
		}
		var cls []string
		other := false
		for _, i := range missing {
			switch i {
			case d.Receiver:
				cls = append(cls, "receiver")
			case d.Sender:
				cls = append(cls, "sender")
			default:
				other = true
			}
		}
		if other {
			cls = append(cls, "third-member")
		}
		sort.Strings(cls)
		class := strings.Join(cls, "+")
		if len(missing) == n {
			class = "no-member-at-all"
		}
		c.Violation("bcast/delivered-without-every-members-signature/missing="+class,
			fmt.Sprintf("n=%d: member %d delivered (sender=%d,id=%s,payload=%s) via %s although members %v never answered a signature request carrying that payload for that id in that session",
				n, d.Receiver, d.Sender, d.ID, d.Payload, d.Label, missing),
			witness(map[string]any{"delivery": d, "members_that_never_signed": missing}))
	}

	// Oracle 1b: an honest member signs at most one payload per (session, requesting sender, id).
	// Once it signed two, which members deliver which payload is only the sender's choice.
	var spKeys []spKey
	for k, as := range mon.answered {
		if k.signer == mon.adv {
			continue
		}
		dec := map[string]bool{}
		for _, an := range as {
			dec[an.decoded] = true
		}
		if len(dec) > 1 {
			spKeys = append(spKeys, k)
		}
	}
	sort.Slice(spKeys, func(i, j int) bool {
		x, y := spKeys[i], spKeys[j]
		if x.w != y.w {
			return x.w < y.w
		}
		if x.id != y.id {
			return x.id < y.id
		}
		if x.requester != y.requester {
			return x.requester < y.requester
		}

		return x.signer < y.signer
	})
	for _, k := range spKeys {
		tagSet := map[string]bool{}
		for _, an := range mon.answered[k] {
			tagSet[an.tag] = true
		}
		var tags []string
		for t := range tagSet {
			tags = append(tags, t)
		}
		sort.Strings(tags)
		mon.counts["member_signed_two_payloads_for_one_sender_and_id"]++
		c.Violation("bcast/member-signed-two-payloads-for-one-sender-and-id",
			fmt.Sprintf("n=%d: member %d signed %d different payloads %v for (sender=%d,id=%s) in session %d", n, k.signer, len(tags), tags, k.requester, k.id, k.w),
			witness(map[string]any{"member": k.signer, "sender": k.requester, "id": k.id, "session": k.w, "payloads_signed": tags}))
	}

	// Oracle 2: one payload per (session, sender, id) across all members.
	type gk struct {
		w, sender int
		id        string
	}
	groups := map[gk][]delivery{}
	var order []gk
	for _, d := range mon.dels {
		k := gk{d.World, d.Sender, d.ID}
		if _, ok := groups[k]; !ok {
			order = append(order, k)
		}
		groups[k] = append(groups[k], d)
	}
	for _, k := range order {
		ds := groups[k]
		first := map[string]delivery{}
		var keys []string
		for _, d := range ds {
			if _, ok := first[d.key]; !ok {
				first[d.key] = d
				keys = append(keys, d.key)
			}
		}
		if len(keys) < 2 {
			continue
		}
		// Classify: is a delivered payload "foreign" (an honest member's broadcast attributed to
		// somebody else), and if so did its receiver itself sign that payload for the claimed sender?
		foreign, foreignNotCosigned := 0, 0
		var conflict []delivery
		receivers := map[int]bool{}
		for _, d := range ds {
			receivers[d.Receiver] = true
			hb := mon.owner[d.key]
			if hb == nil || hb.Sender == d.Sender {
				continue
			}
			foreign++
			cosigned := false
			for _, an := range mon.answered[spKey{d.World, d.Receiver, d.Sender, d.ID}] {
				if an.decoded == d.key {
					cosigned = true
				}
			}
			if !cosigned {
				foreignNotCosigned++
			}
		}
		for _, kk := range keys {
			conflict = append(conflict, first[kk])
		}
		class := "sender-equivocation"
		switch {
		case foreign > 0 && foreignNotCosigned > 0:
			class = "relayed-foreign-message"
		case foreign > 0:
			class = "relayed-foreign-message-receiver-cosigned"
		}
		shape := "different-receivers"
		if len(receivers) == 1 {
			shape = "same-receiver"
		}
		mon.counts["oracle2_conflicts/"+class+"/"+shape]++
		c.Violation("bcast/two-payloads-for-one-sender-and-id/"+class,
			fmt.Sprintf("n=%d: %d different payloads were delivered for (sender=%d,id=%s) in session %d (%s), e.g. member %d got %s via %s and member %d got %s via %s",
				n, len(keys), k.sender, k.id, k.w, shape, conflict[0].Receiver, conflict[0].Payload, conflict[0].Label, conflict[1].Receiver, conflict[1].Payload, conflict[1].Label),
			witness(map[string]any{"conflicting_deliveries": conflict, "sender": k.sender, "id": k.id}))
	}

	// Vacuity guards and coverage.
	for _, hb := range plan {
		mon.counts["honest_broadcasts"]++
		if hb.Result != "ok" {
			mon.counts["honest_broadcasts_failed"]++
			r.Seen("honest_broadcast_errors", stripVolatile(hb.Result))

			continue
		}
		got := map[int]bool{}
		for _, d := range mon.dels {
			if d.World == hb.World && d.Sender == hb.Sender && d.ID == hb.ID && d.key == hb.p.key {
				got[d.Receiver] = true
			}
		}
		if len(got) == n-2 { // every honest member but the broadcaster
			mon.counts["honest_broadcasts_delivered_to_all_honest"]++
		} else {
			mon.counts["honest_broadcasts_delivered_partially"]++
		}
	}
	for _, d := range mon.dels {
		if hb := mon.owner[d.key]; hb != nil && hb.Sender != d.Sender {
			mon.counts["deliveries_attributed_to_other_than_the_broadcaster"]++
		}
		// Evidence only (the statement does not bind the requester): some member signed the payload
		// only on behalf of another requester than the sender the callback was told.
		onlyOther := false
		for i := 0; i < n && !onlyOther; i++ {
			forSender := false
			for _, an := range mon.answered[spKey{d.World, i, d.Sender, d.ID}] {
				if an.decoded == d.key {
					forSender = true
				}
			}
			onlyOther = !forSender
		}
		if onlyOther {
			mon.counts["deliveries_with_a_signature_made_for_another_requester"]++
		}
	}

	accepted, rejected := a.accepted, a.rejected
	if mon.counts["honest_broadcasts_delivered_to_all_honest"] > 0 && accepted > 0 && rejected > 0 {
		c.NonTrivial(kit.Hash(cfg, a.traceHash()))
	}
	for k, v := range mon.counts {
		r.Count(k, v)
	}
	for k, v := range a.counts {
		r.Count(k, v)
	}
	r.Seen("cluster_sizes", fmt.Sprint(n))
	r.Seen("faulty_member_position", fmt.Sprintf("%d/%d", cfg.Adv, n))
	if c.Idx%97 == 3 {
		tr := a.traceCopy()
		if len(tr) > 25 {
			tr = tr[:25]
		}
		r.Sample(map[string]any{"case": c.Idx, "config": cfg, "first_adversary_steps": tr, "deliveries": len(mon.dels), "honest_broadcasts": len(plan)})
	}
}

// ---------------------------------------------------------------------------------------------
// helpers

func stripVolatile(s string) string {
	if i := strings.Index(s, "{"); i > 0 {
		s = s[:i]
	}

	return kit.Short(s, 60)
}

func fnv64(b []byte) uint64 {
	h := fnv.New64a()
	_, _ = h.Write(b)

	return h.Sum64()
}

func mix(xs ...uint64) uint64 {
	h := fnv.New64a()
	var b [8]byte
	for _, x := range xs {
		binary.LittleEndian.PutUint64(b[:], x)
		_, _ = h.Write(b[:])
	}
	v := h.Sum64()
	v ^= v >> 33
	v *= 0xff51afd7ed558ccd
	v ^= v >> 33

	return v
}

// logCounter is the process-wide charon logger sink: it tallies the errors returned by p2p stream
// handlers (charon only logs them) by error text, without keeping the lines.
type logCounter struct {
	mu     sync.Mutex
	counts map[string]int64
	n      int64
}

func (l *logCounter) Write(p []byte) (int, error) {
	s := string(p)
	l.mu.Lock()
	defer l.mu.Unlock()
	for _, line := range strings.Split(s, "\n") {
		if line == "" {
			continue
		}
		l.n++
		if !strings.Contains(line, "P2P stream handler encountered an error") && !strings.Contains(line, "LibP2P received invalid proto") {
			continue
		}
		e := field(line, `"msg":"`)
		if i := strings.Index(e, "could not be processed: "); i >= 0 {
			e = e[i+len("could not be processed: "):]
		}
		if i := strings.Index(e, ": got "); i > 0 {
			e = e[:i]
		}
		l.counts[kit.Short(e, 90)]++
	}

	return len(p), nil
}

func field(line, key string) string {
	i := strings.Index(line, key)
	if i < 0 {
		return ""
	}
	rest := line[i+len(key):]
	if j := strings.Index(rest, `"`); j >= 0 {
		return rest[:j]
	}

	return rest
}

func (*logCounter) Sync() error { return nil }

func (l *logCounter) snapshot() map[string]int64 {
	l.mu.Lock()
	defer l.mu.Unlock()
	out := map[string]int64{}
	for k, v := range l.counts {
		out[k] = v
	}

	return out
}

func (l *logCounter) lines() int64 { l.mu.Lock(); defer l.mu.Unlock(); return l.n }
