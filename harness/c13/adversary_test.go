package c13

import (
	"context"
	"fmt"
	"math/rand"
	"sort"
	"sync"
	"sync/atomic"

	"github.com/libp2p/go-libp2p/core/peer"
	"google.golang.org/protobuf/proto"
	"google.golang.org/protobuf/types/known/anypb"

	"github.com/obolnetwork/charon/app/k1util"
	pb "github.com/obolnetwork/charon/dkg/dkgpb/v1"
	"github.com/obolnetwork/charon/p2p"

	"verifharness/fakenet"
	"verifharness/kit"
)

// step is one wire action of the faulty member (witness / trace).
type step struct {
	Op     string `json:"op"` // sig | msg
	World  int    `json:"session"`
	To     int    `json:"to"`
	ID     string `json:"id"`
	Pay    string `json:"payload"`
	Label  string `json:"play,omitempty"`
	Result string `json:"result"`
}

// fullMsg is a message together with a signature list (complete and valid when it came from an
// honest broadcaster or from a completed own collection).
type fullMsg struct {
	world, sender int
	id            string
	any           *anypb.Any
	sigs          [][]byte
	tag           string
}

type poolSig struct {
	world int
	h     hash32
	sig   []byte
}

// adversary is the faulty cluster member. Its playbook runs on the case goroutine; its protocol
// handlers (serving honest members) run on delivery goroutines, hence the lock.
type adversary struct {
	c    *kit.Case
	rng  *rand.Rand
	mon  *monitor
	salt uint64
	me   int

	mu        sync.Mutex
	sigs      map[signedKey][]byte // valid signatures known to the faulty member
	byMember  map[int][]poolSig
	full      []fullMsg // foreign (honest) fully signed messages addressed to the faulty member
	own       []fullMsg // own messages with a complete valid list
	okSent    []sentMsg // /msg injections that were accepted
	ownSig    map[hash32][]byte
	signedFor map[string]map[hash32]bool
	used      map[string]bool // session|id for which some member already signed for the faulty member
	trace     []step
	counts    map[string]int64
	accepted  int64
	rejected  int64
	noHandler atomic.Bool
	pcount    int
	shape     atomic.Uint32 // packed hashShape the members were found to sign
}

type sentMsg struct {
	world, to int
	m         fullMsg
}

func newAdversary(c *kit.Case, mon *monitor, salt uint64) *adversary {
	a := &adversary{
		c: c, rng: c.Rng, mon: mon, salt: salt, me: mon.adv,
		sigs: map[signedKey][]byte{}, byMember: map[int][]poolSig{}, ownSig: map[hash32][]byte{},
		signedFor: map[string]map[hash32]bool{}, used: map[string]bool{}, counts: map[string]int64{},
	}
	a.shape.Store(plainSpec.pack())

	return a
}

func (a *adversary) count(k string, d int64) {
	a.mu.Lock()
	a.counts[k] += d
	a.mu.Unlock()
}

func (a *adversary) traceCopy() []step {
	a.mu.Lock()
	defer a.mu.Unlock()

	return append([]step(nil), a.trace...)
}

func (a *adversary) traceHash() string {
	a.mu.Lock()
	defer a.mu.Unlock()

	return kit.JSONHash(a.trace)
}

func (a *adversary) addTrace(s step) {
	a.mu.Lock()
	if len(a.trace) < 600 {
		a.trace = append(a.trace, s)
	}
	a.mu.Unlock()
}

// sign signs h with the faulty member's key (a member producing a signature, so it is recorded).
func (a *adversary) sign(h hash32, requester int) []byte {
	a.mu.Lock()
	sig := a.ownSig[h]
	a.mu.Unlock()
	if sig == nil {
		var err error
		sig, err = k1util.Sign(a.mon.members[a.me].key, h[:])
		if err != nil {
			panic(err)
		}
		a.mu.Lock()
		a.ownSig[h] = sig
		a.mu.Unlock()
	}
	if a.conformant() {
		a.mon.recordSig(a.me, requester, h)
	}

	return sig
}

// The faulty member signs what the other members actually sign (it probes them), so that a
// deviation of the implementation's hash from the specified one does not merely break every
// broadcast: the monitor keeps using the specified hash.

func (a *adversary) getShape() hashShape { return unpackShape(a.shape.Load()) }

// conformant: the members sign a hash shape the property accepts.
func (a *adversary) conformant() bool { return a.shape.Load() == a.mon.spec.Load() }

// wireHash is the hash the cluster members sign on the wire for a broadcast by `sender`, as far as
// the faulty member found out.
func (a *adversary) wireHash(w *world, id string, sender int, any *anypb.Any) hash32 {
	return shapedHash(a.getShape(), w.session, id, a.mon.members[sender].id, any)
}

// detectShape finds the hash shape under which sig is member `to`'s signature for (id, any)
// requested by the faulty member.
func (a *adversary) detectShape(w *world, to int, id string, any *anypb.Any, sig []byte) bool {
	try := func(sh hashShape) bool {
		if !a.mon.verify(to, shapedHash(sh, w.session, id, a.mon.members[a.me].id, any), sig) {
			return false
		}
		a.shape.Store(sh.pack())
		if sh == senderSpec || sh == plainSpec {
			a.mon.spec.Store(sh.pack())
		}
		a.count("members_sign_hash_shape/"+sh.String(), 1)

		return true
	}
	if try(plainSpec) || try(senderSpec) {
		return true
	}
	for _, prefixed := range []bool{true, false} {
		for mask := uint8(31); mask >= 1; mask-- {
			if try(hashShape{mask: mask, prefixed: prefixed}) {
				return true
			}
		}
	}

	return false
}

// probe asks one member per session for a signature under a dedicated id before anything else
// happens, to learn the hash shape.
func (a *adversary) probe() {
	for _, w := range a.mon.worlds {
		p := a.newPayload("ts")
		a.sigReq(w, a.honest()[0], idProbe, p.encs[0], p.Tag, "probe-hash-shape")
	}
}

func (a *adversary) learn(w int, signer int, h hash32, sig []byte) {
	a.mu.Lock()
	k := signedKey{signer, h}
	if _, ok := a.sigs[k]; !ok {
		a.sigs[k] = sig
		a.byMember[signer] = append(a.byMember[signer], poolSig{world: w, h: h, sig: sig})
	}
	a.mu.Unlock()
}

// registerHandlers makes the faulty member a protocol participant for honest broadcasters: it
// answers their signature requests (mostly), and collects the fully signed messages they send.
func (a *adversary) registerHandlers(w *world, host *fakenet.Host) {
	p2p.RegisterHandler("c13adv", host, protoSig,
		func() proto.Message { return new(pb.BCastSigRequest) },
		func(_ context.Context, pid peer.ID, m proto.Message) (proto.Message, bool, error) {
			req, ok := m.(*pb.BCastSigRequest)
			from, known := a.mon.idxOf[pid]
			if !ok || !known {
				return nil, false, nil
			}
			h := a.wireHash(w, req.GetId(), from, req.GetMessage())
			switch x := mix(a.salt, 77, uint64(w.idx), uint64(from), fnv64([]byte(req.GetId()))) % 100; {
			case x < 6:
				a.count("adv_withheld_signature_from_honest_broadcaster", 1)
				return nil, false, nil
			case x < 10:
				a.count("adv_garbage_signature_to_honest_broadcaster", 1)
				junk := make([]byte, 65)
				for i := range junk {
					junk[i] = byte(mix(x, uint64(i), a.salt))
				}
				junk[64] &= 1

				return &pb.BCastSigResponse{Id: req.GetId(), Signature: junk}, true, nil
			}

			return &pb.BCastSigResponse{Id: req.GetId(), Signature: a.sign(h, from)}, true, nil
		})
	p2p.RegisterHandler("c13adv", host, protoMsg,
		func() proto.Message { return new(pb.BCastMessage) },
		func(_ context.Context, pid peer.ID, m proto.Message) (proto.Message, bool, error) {
			msg, ok := m.(*pb.BCastMessage)
			from, known := a.mon.idxOf[pid]
			if !ok || !known || len(msg.GetSignatures()) != a.mon.n {
				return nil, false, nil
			}
			h := a.wireHash(w, msg.GetId(), from, msg.GetMessage())
			tag := "?"
			if inner, err := msg.GetMessage().UnmarshalNew(); err == nil {
				a.mon.mu.Lock()
				if p := a.mon.payloads[msgKey(inner)]; p != nil {
					tag = p.Tag
				}
				a.mon.mu.Unlock()
			}
			for i, s := range msg.GetSignatures() {
				a.learn(w.idx, i, h, s)
			}
			a.mu.Lock()
			a.full = append(a.full, fullMsg{world: w.idx, sender: from, id: msg.GetId(), any: msg.GetMessage(), sigs: msg.GetSignatures(), tag: tag})
			a.mu.Unlock()

			return nil, false, nil
		})
}

// ---------------------------------------------------------------------------------------------
// wire primitives

func (a *adversary) honest() []int {
	var out []int
	for i := 0; i < a.mon.n; i++ {
		if i != a.me {
			out = append(out, i)
		}
	}

	return out
}

func (a *adversary) subset(xs []int, nonEmpty bool) []int {
	var out []int
	for _, x := range xs {
		if a.rng.Intn(2) == 0 {
			out = append(out, x)
		}
	}
	if len(out) == 0 && nonEmpty {
		out = append(out, xs[a.rng.Intn(len(xs))])
	}
	a.rng.Shuffle(len(out), func(i, j int) { out[i], out[j] = out[j], out[i] })

	return out
}

// sigReq asks member `to` for a signature as the faulty member itself.
func (a *adversary) sigReq(w *world, to int, id string, any *anypb.Any, tag, label string) bool {
	mon := a.mon
	h := a.wireHash(w, id, a.me, any)
	raw, ok := w.net.Inject(mon.members[a.me].id, mon.members[to].id, protoSig, &pb.BCastSigRequest{Id: id, Message: any})
	if !ok {
		a.noHandler.Store(true)
		return false
	}
	res := "refused"
	if len(raw) > 0 {
		resp := new(pb.BCastSigResponse)
		if err := fakenet.Unframe(raw, resp); err == nil && len(resp.GetSignature()) > 0 {
			sig := resp.GetSignature()
			if !mon.verify(to, h, sig) && a.detectShape(w, to, id, any, sig) {
				h = a.wireHash(w, id, a.me, any) // the members sign another hash shape than the specified one
			}
			if mon.verify(to, h, sig) {
				res = "signed"
				if a.conformant() {
					mon.recordSig(to, a.me, h)
				} else {
					res = "signed-unspecified-hash-shape"
				}
				a.learn(w.idx, to, h, sig)
				mon.recordSignedPayload(w, to, a.me, id, any, tag)
				k := fmt.Sprintf("%d|%d|%s", w.idx, to, id)
				a.mu.Lock()
				if a.signedFor[k] == nil {
					a.signedFor[k] = map[hash32]bool{}
				}
				a.signedFor[k][h] = true
				a.used[fmt.Sprintf("%d|%s", w.idx, id)] = true
				if len(a.signedFor[k]) == 2 {
					a.counts["member_signed_two_hashes_for_one_sender_and_id"]++
				}
				a.mu.Unlock()
			} else {
				res = "signature-over-unknown-hash"
			}
		}
	}
	a.mu.Lock()
	a.counts["adv_sigreq_"+res]++
	a.mu.Unlock()
	a.addTrace(step{Op: "sig", World: w.idx, To: to, ID: id, Pay: tag, Label: label, Result: res})

	return res != "refused" && res != "signature-over-unknown-hash"
}

// sendMsg injects a /msg as the faulty member; the callback (if any) runs synchronously inside.
func (a *adversary) sendMsg(w *world, to int, m fullMsg, label string) bool {
	mon := a.mon
	mon.mu.Lock()
	mon.curLabel = label
	mon.curHash = mon.specHash(w, m.id, a.me, m.any)
	mon.mu.Unlock()
	before := mon.advDelivered(w, to)
	_, ok := w.net.Inject(mon.members[a.me].id, mon.members[to].id, protoMsg, &pb.BCastMessage{Id: m.id, Message: m.any, Signatures: m.sigs})
	if !ok {
		a.noHandler.Store(true)
		return false
	}
	delivered := mon.advDelivered(w, to) > before
	res := "rejected"
	a.mu.Lock()
	if delivered {
		res = "delivered"
		a.accepted++
		a.counts["adv_msg_accepted"]++
		a.counts["adv_msg_accepted/"+label]++
		if len(a.okSent) < 64 {
			a.okSent = append(a.okSent, sentMsg{world: w.idx, to: to, m: m})
		}
	} else {
		a.rejected++
		a.counts["adv_msg_rejected"]++
		a.counts["adv_msg_rejected/"+label]++
	}
	a.mu.Unlock()
	a.addTrace(step{Op: "msg", World: w.idx, To: to, ID: m.id, Pay: m.tag, Label: label, Result: res})

	return delivered
}

func (a *adversary) newPayload(kind string) *payload {
	a.pcount++
	p := newPayload(fmt.Sprintf("Q%d", a.pcount), kind, int64(2_000_000+a.pcount), int32(1+a.rng.Intn(1000)), a.rng)
	a.mon.mu.Lock()
	a.mon.payloads[p.key] = p
	a.mon.mu.Unlock()

	return p
}

func (a *adversary) payloadFor(id string) (*payload, *anypb.Any) {
	kind := kindOfID(id)
	switch x := a.rng.Intn(100); {
	case x < 5:
		kind = "junk"
	case x < 12:
		if kind == "ts" {
			kind = "dur"
		} else {
			kind = "ts"
		}
	}
	p := a.newPayload(kind)
	enc := 0
	if len(p.encs) > 1 && a.rng.Intn(4) == 0 {
		enc = 1 + a.rng.Intn(len(p.encs)-1)
	}

	return p, p.encs[enc]
}

var fillers = []string{"random", "empty", "short64", "adv-over-hash", "same-member-other-hash", "other-member-same-hash", "omit-slot", "omit-slot"}

func (a *adversary) randomSig() []byte {
	b := make([]byte, 65)
	a.rng.Read(b)
	b[64] &= 1

	return b
}

// fill produces something for a slot whose member did not sign h (as far as the faulty member knows).
func (a *adversary) fill(filler string, slot int, h hash32) []byte {
	switch filler {
	case "empty":
		return nil
	case "short64":
		return a.randomSig()[:64]
	case "adv-over-hash":
		return a.sign(h, a.me)
	case "same-member-other-hash":
		if slot == a.me {
			var other hash32
			a.rng.Read(other[:])
			return a.sign(other, a.me)
		}
		a.mu.Lock()
		cands := a.byMember[slot]
		var pick []byte
		if len(cands) > 0 {
			for try := 0; try < 4 && pick == nil; try++ {
				if c := cands[a.rng.Intn(len(cands))]; c.h != h {
					pick = c.sig
				}
			}
		}
		a.mu.Unlock()
		if pick != nil {
			return pick
		}
	case "other-member-same-hash":
		a.mu.Lock()
		var pick []byte
		for _, j := range a.rng.Perm(a.mon.n) {
			if j == slot {
				continue
			}
			if s := a.sigs[signedKey{j, h}]; s != nil {
				pick = s
				break
			}
		}
		a.mu.Unlock()
		if pick != nil {
			return pick
		}
	}

	return a.randomSig()
}

// buildSigs assembles the best signature list the faulty member can make for (id, any) in w.
// altSession, if non-nil, lets missing slots be filled with the same member's signature from
// another ceremony session.
func (a *adversary) buildSigs(w *world, id string, any *anypb.Any, filler string, alt *world) ([][]byte, bool) {
	h := a.wireHash(w, id, a.me, any)
	n := a.mon.n
	sigs := make([][]byte, 0, n)
	complete := true
	withholdOwn := a.rng.Intn(14) == 0
	for i := 0; i < n; i++ {
		var s []byte
		if i == a.me {
			if !withholdOwn {
				s = a.sign(h, a.me)
			}
		} else {
			a.mu.Lock()
			s = a.sigs[signedKey{i, h}]
			a.mu.Unlock()
		}
		if s == nil {
			complete = false
			if alt != nil {
				h2 := a.wireHash(alt, id, a.me, any)
				a.mu.Lock()
				s = a.sigs[signedKey{i, h2}]
				a.mu.Unlock()
				if s == nil && i == a.me {
					s = a.sign(h2, a.me)
				}
			}
			if s == nil && filler == "omit-slot" {
				continue // the list simply gets shorter
			}
			if s == nil {
				s = a.fill(filler, i, h)
			}
		}
		sigs = append(sigs, s)
	}

	return sigs, complete
}

// ---------------------------------------------------------------------------------------------
// playbook

// pickID chooses a message id: mostly a registered one, preferring ids for which no member has
// signed anything for the faulty member yet in this session (its dedup slot is still free).
func (a *adversary) pickID(w *world, commonOnly bool) string {
	if !commonOnly {
		switch x := a.rng.Intn(100); {
		case x < 6:
			return idPartial
		case x < 10:
			return idUnknown
		case x < 12:
			return ""
		}
	}
	if a.rng.Intn(4) != 0 {
		var fresh []string
		a.mu.Lock()
		for _, id := range commonIDs {
			if !a.used[fmt.Sprintf("%d|%s", w.idx, id)] {
				fresh = append(fresh, id)
			}
		}
		a.mu.Unlock()
		if len(fresh) > 0 {
			return fresh[a.rng.Intn(len(fresh))]
		}
	}

	return commonIDs[a.rng.Intn(len(commonIDs))]
}

func (a *adversary) isFresh(w *world, id string) bool {
	a.mu.Lock()
	defer a.mu.Unlock()

	return !a.used[fmt.Sprintf("%d|%s", w.idx, id)]
}

func (a *adversary) step() {
	w := a.mon.worlds[a.rng.Intn(len(a.mon.worlds))]
	x := a.rng.Intn(100)
	switch {
	case x < 11:
		a.playOwnBroadcast(w, a.pickID(w, false), "own-broadcast")
	case x < 22:
		a.playEquivocate(w, a.pickID(w, false))
	case x < 38:
		a.playConcurrentEquivocate(w, a.pickID(w, true))
	case x < 51:
		a.playRelay(w)
	case x < 61:
		a.playRelayCosigned(w)
	case x < 71:
		a.playCrossSession(w)
	case x < 86:
		a.playManip(w)
	case x < 91:
		a.playUnregistered(w)
	case x < 96:
		a.playMalformed(w)
	default:
		a.playReplay(w)
	}
}

// playOwnBroadcast: the faulty member follows the protocol for a fresh payload — except that it may
// skip members when collecting signatures and withhold the message from some members.
func (a *adversary) playOwnBroadcast(w *world, id, label string) {
	p, any := a.payloadFor(id)
	for _, to := range a.honest2(true) {
		a.sigReq(w, to, id, any, p.Tag, label)
	}
	sigs, complete := a.buildSigs(w, id, any, kit.Pick(a.rng, fillers), nil)
	m := fullMsg{world: w.idx, sender: a.me, id: id, any: any, sigs: sigs, tag: p.Tag}
	if complete {
		a.mu.Lock()
		a.own = append(a.own, m)
		a.mu.Unlock()
	} else {
		label += "-incomplete"
	}
	for _, to := range a.subset(a.honest(), true) {
		a.sendMsg(w, to, m, label)
	}
}

// honest2 returns the honest members in PRNG order, optionally dropping a few (withholding).
func (a *adversary) honest2(mayDrop bool) []int {
	hs := a.honest()
	a.rng.Shuffle(len(hs), func(i, j int) { hs[i], hs[j] = hs[j], hs[i] })
	if mayDrop && a.rng.Intn(5) == 0 {
		hs = hs[:len(hs)-1-a.rng.Intn(len(hs)-1)]
	}

	return hs
}

// playEquivocate: several payloads under one id; every member is asked for (some of) them in a
// global PRNG order, re-requests included; then each payload goes to a PRNG subset.
func (a *adversary) playEquivocate(w *world, id string) {
	k := 2 + a.rng.Intn(2)
	type pa struct {
		p   *payload
		any *anypb.Any
	}
	var ps []pa
	for i := 0; i < k; i++ {
		p, any := a.payloadFor(id)
		ps = append(ps, pa{p, any})
		if i == 0 && a.rng.Intn(5) == 0 && len(p.encs) > 1 {
			// second "payload" = the same application message in another encoding
			ps = append(ps, pa{p, p.encs[1+a.rng.Intn(len(p.encs)-1)]})
			i++
		}
	}
	type rq struct{ to, pi int }
	var reqs []rq
	for _, to := range a.honest() {
		for pi := range ps {
			if a.rng.Intn(4) != 0 {
				reqs = append(reqs, rq{to, pi})
			}
		}
	}
	a.rng.Shuffle(len(reqs), func(i, j int) { reqs[i], reqs[j] = reqs[j], reqs[i] })
	for _, q := range reqs {
		a.sigReq(w, q.to, id, ps[q.pi].any, ps[q.pi].p.Tag, "equivocation")
	}
	for _, x := range ps {
		sigs, complete := a.buildSigs(w, id, x.any, kit.Pick(a.rng, fillers), nil)
		label := "equivocation"
		if !complete {
			label += "-incomplete"
		}
		m := fullMsg{world: w.idx, sender: a.me, id: id, any: x.any, sigs: sigs, tag: x.p.Tag}
		for _, to := range a.subset(a.honest(), true) {
			a.sendMsg(w, to, m, label)
		}
	}
}

// playConcurrentEquivocate: 1..4 payloads under one id, and for every honest member all signature
// requests (each possibly duplicated) are issued at the same moment from parallel goroutines
// released by a barrier — per member in turn, or for all members at once. A member must still sign
// at most one of the payloads; duplicates of one payload are fine. Whatever lists became complete
// are then delivered, different payloads to different members.
func (a *adversary) playConcurrentEquivocate(w *world, id string) {
	type pa struct {
		p   *payload
		any *anypb.Any
	}
	k := 1 + a.rng.Intn(4) // 1 = concurrent duplicates of a single payload only
	var ps []pa
	for i := 0; i < k; i++ {
		p := a.newPayload(kindOfID(id)) // well-formed: the request has to get as far as the signing
		enc := 0
		if a.rng.Intn(6) == 0 {
			enc = 1 + a.rng.Intn(len(p.encs)-1)
		}
		ps = append(ps, pa{p, p.encs[enc]})
	}
	type shot struct{ to, pi int }
	var rounds [][]shot
	members := a.honest2(false)
	allAtOnce := a.rng.Intn(2) == 0
	var cur []shot
	for _, to := range members {
		for pi := range ps {
			copies := 1
			if k == 1 || a.rng.Intn(4) == 0 {
				copies = 2 + a.rng.Intn(2)
			}
			for c := 0; c < copies; c++ {
				cur = append(cur, shot{to, pi})
			}
		}
		if !allAtOnce {
			rounds = append(rounds, cur)
			cur = nil
		}
	}
	if allAtOnce {
		rounds = append(rounds, cur)
	}
	label := "concurrent-equivocation"
	if k == 1 {
		label = "concurrent-duplicates"
	}
	for _, round := range rounds {
		a.rng.Shuffle(len(round), func(i, j int) { round[i], round[j] = round[j], round[i] })
		start := make(chan struct{})
		var wg sync.WaitGroup
		for _, sh := range round {
			wg.Add(1)
			go func() {
				defer wg.Done()
				<-start
				a.sigReq(w, sh.to, id, ps[sh.pi].any, ps[sh.pi].p.Tag, label)
			}()
		}
		close(start)
		wg.Wait()
	}
	if k > 1 {
		a.count("adv_concurrent_sigreq_races", int64(len(members)))
	} else {
		a.count("adv_concurrent_duplicate_races", int64(len(members)))
	}
	// Complete what can be completed; hand different payloads to different members.
	var full []fullMsg
	for _, x := range ps {
		sigs, complete := a.buildSigs(w, id, x.any, kit.Pick(a.rng, fillers), nil)
		m := fullMsg{world: w.idx, sender: a.me, id: id, any: x.any, sigs: sigs, tag: x.p.Tag}
		if complete {
			full = append(full, m)
			continue
		}
		a.sendMsg(w, a.honest()[a.rng.Intn(a.mon.n-1)], m, label+"-incomplete")
	}
	if len(full) > 1 {
		a.count("adv_concurrent_equivocation_extra_full_lists", int64(len(full)-1))
	}
	if len(full) == 0 {
		return
	}
	for i, to := range a.honest2(false) {
		a.sendMsg(w, to, full[i%len(full)], label)
		if a.rng.Intn(4) == 0 {
			a.sendMsg(w, to, full[a.rng.Intn(len(full))], label)
		}
	}
	a.mu.Lock()
	a.own = append(a.own, full[0])
	a.mu.Unlock()
}

func (a *adversary) foreignIn(w *world) []fullMsg {
	a.mu.Lock()
	defer a.mu.Unlock()
	var out []fullMsg
	for _, f := range a.full {
		if f.world == w.idx {
			out = append(out, f)
		}
	}

	return out
}

// playRelay: re-send another member's fully signed message, unchanged, under the faulty member's
// own stream; then (often) run an ordinary broadcast of an own payload for the same id.
func (a *adversary) playRelay(w *world) {
	fs := a.foreignIn(w)
	if len(fs) == 0 {
		a.playOwnBroadcast(w, a.pickID(w, true), "own-broadcast")
		return
	}
	f := fs[a.rng.Intn(len(fs))]
	for try := 0; try < 6 && !a.isFresh(w, f.id); try++ {
		f = fs[a.rng.Intn(len(fs))]
	}
	a.count("adv_relay_foreign_attempts", 1)
	for _, to := range a.subset(a.honest(), true) {
		a.sendMsg(w, to, f, "relay-foreign-message")
	}
	if a.rng.Intn(10) < 6 {
		a.playOwnBroadcast(w, f.id, "own-broadcast-after-relay")
	}
}

// playRelayCosigned: like playRelay, but each receiver is first asked — by the faulty member, for
// (faulty member, id) — to sign exactly the foreign payload it is about to get; different
// receivers get different members' payloads.
func (a *adversary) playRelayCosigned(w *world) {
	fs := a.foreignIn(w)
	if len(fs) == 0 {
		a.playOwnBroadcast(w, a.pickID(w, true), "own-broadcast")
		return
	}
	byID := map[string][]fullMsg{}
	for _, f := range fs {
		dup := false
		for _, g := range byID[f.id] {
			if g.sender == f.sender {
				dup = true
			}
		}
		if !dup {
			byID[f.id] = append(byID[f.id], f)
		}
	}
	var ids []string
	best := 0
	for id, l := range byID {
		if len(l) > best {
			best = len(l)
		}
		ids = append(ids, id)
	}
	sort.Strings(ids)
	var cand []string
	for _, id := range ids {
		if len(byID[id]) == best || (len(byID[id]) >= 2 && a.isFresh(w, id)) {
			cand = append(cand, id)
		}
	}
	id := cand[a.rng.Intn(len(cand))]
	msgs := byID[id]
	a.rng.Shuffle(len(msgs), func(i, j int) { msgs[i], msgs[j] = msgs[j], msgs[i] })
	if len(msgs) > 3 {
		msgs = msgs[:3]
	}
	a.count("adv_relay_foreign_attempts", 1)
	for _, to := range a.honest2(false) {
		if a.rng.Intn(5) == 0 {
			continue
		}
		f := msgs[a.rng.Intn(len(msgs))]
		a.sigReq(w, to, id, f.any, f.tag, "relay-foreign-message-cosigned")
		a.sendMsg(w, to, f, "relay-foreign-message-cosigned")
	}
}

// playCrossSession: signatures or whole messages from the other ceremony session.
func (a *adversary) playCrossSession(w *world) {
	if len(a.mon.worlds) < 2 {
		a.playManip(w)
		return
	}
	other := a.mon.worlds[1-w.idx]
	a.count("adv_cross_session_attempts", 1)
	if fs := a.foreignIn(other); len(fs) > 0 && a.rng.Intn(2) == 0 {
		f := fs[a.rng.Intn(len(fs))]
		for _, to := range a.subset(a.honest(), true) {
			a.sendMsg(w, to, f, "cross-session/replay-full-message")
		}

		return
	}
	id := a.pickID(w, true)
	p, any := a.payloadFor(id)
	for _, to := range a.honest2(false) {
		a.sigReq(other, to, id, any, p.Tag, "cross-session/collect-in-other-session")
	}
	// in this session only some members are asked
	for _, to := range a.subset(a.honest(), false) {
		a.sigReq(w, to, id, any, p.Tag, "cross-session/collect-here")
	}
	sigs, complete := a.buildSigs(w, id, any, "random", other)
	label := "cross-session/other-session-signatures"
	if complete {
		label = "own-broadcast"
	}
	m := fullMsg{world: w.idx, sender: a.me, id: id, any: any, sigs: sigs, tag: p.Tag}
	for _, to := range a.subset(a.honest(), true) {
		a.sendMsg(w, to, m, label)
	}
	if a.rng.Intn(2) == 0 {
		// and the honest completion in the other session
		s2, c2 := a.buildSigs(other, id, any, "random", nil)
		l2 := "own-broadcast"
		if !c2 {
			l2 += "-incomplete"
		}
		m2 := fullMsg{world: other.idx, sender: a.me, id: id, any: any, sigs: s2, tag: p.Tag}
		for _, to := range a.subset(a.honest(), true) {
			a.sendMsg(other, to, m2, l2)
		}
	}
}

var manips = []string{
	"permute", "swap2", "truncate-last", "truncate-first", "truncate-random", "append-dup", "dup-slot", "recovery-id-plus-27",
	"empty-list", "flip-bit", "slot:random", "slot:empty", "slot:short64", "slot:adv-over-hash", "slot:same-member-other-hash",
	"slot:other-member-same-hash", "other-id", "other-payload", "other-encoding", "drop-receivers-slot", "receivers-slot:random",
}

// playManip: take a message with a complete, valid signature list (own or foreign) and damage
// exactly one thing.
func (a *adversary) playManip(w *world) {
	a.mu.Lock()
	var base []fullMsg
	for _, m := range a.own {
		if m.world == w.idx {
			base = append(base, m)
		}
	}
	nOwn := len(base)
	for _, m := range a.full {
		if m.world == w.idx {
			base = append(base, m)
		}
	}
	a.mu.Unlock()
	if len(base) == 0 {
		a.playOwnBroadcast(w, a.pickID(w, true), "own-broadcast")
		return
	}
	bi := a.rng.Intn(len(base))
	if nOwn > 0 && a.rng.Intn(3) != 0 {
		bi = a.rng.Intn(nOwn)
	}
	b := base[bi]
	foreign := bi >= nOwn
	name := manips[a.rng.Intn(len(manips))]
	n := a.mon.n
	h := a.wireHash(w, b.id, a.me, b.any)
	to := a.honest()[a.rng.Intn(n-1)]
	m := b
	m.sigs = append([][]byte(nil), b.sigs...)
	slot := a.rng.Intn(n)
	switch name {
	case "permute":
		perm := a.rng.Perm(n)
		if sort.IntsAreSorted(perm) {
			perm[0], perm[1] = perm[1], perm[0]
		}
		for i, pi := range perm {
			m.sigs[i] = b.sigs[pi]
		}
	case "swap2":
		j := (slot + 1 + a.rng.Intn(n-1)) % n
		m.sigs[slot], m.sigs[j] = m.sigs[j], m.sigs[slot]
	case "truncate-last":
		m.sigs = m.sigs[:n-1]
	case "truncate-first":
		m.sigs = m.sigs[1:]
	case "truncate-random":
		m.sigs = append(m.sigs[:slot:slot], m.sigs[slot+1:]...)
	case "drop-receivers-slot":
		m.sigs = append(m.sigs[:to:to], m.sigs[to+1:]...)
	case "append-dup":
		m.sigs = append(m.sigs, m.sigs[slot])
	case "dup-slot":
		m.sigs[slot] = b.sigs[(slot+1+a.rng.Intn(n-1))%n]
	case "recovery-id-plus-27":
		s := append([]byte(nil), b.sigs[slot]...)
		if len(s) == 65 {
			s[64] += 27
		}
		m.sigs[slot] = s
	case "empty-list":
		m.sigs = nil
	case "flip-bit":
		s := append([]byte(nil), b.sigs[slot]...)
		if len(s) > 0 {
			s[a.rng.Intn(len(s)-1)] ^= 1 << uint(a.rng.Intn(8))
		}
		m.sigs[slot] = s
	case "receivers-slot:random":
		m.sigs[to] = a.randomSig()
	case "other-id":
		ids := append([]string{idPartial, idUnknown}, commonIDs...)
		m.id = ids[a.rng.Intn(len(ids))]
		if m.id == b.id {
			m.id = b.id + "x"
		}
	case "other-payload":
		p, any := a.payloadFor(b.id)
		m.any, m.tag = any, p.Tag
	case "other-encoding":
		var p *payload
		if inner, err := b.any.UnmarshalNew(); err == nil {
			a.mon.mu.Lock()
			p = a.mon.payloads[msgKey(inner)]
			a.mon.mu.Unlock()
		}
		if p == nil || len(p.encs) < 2 {
			name = "slot:random"
			m.sigs[slot] = a.randomSig()
			break
		}
		for _, e := range p.encs {
			if !proto.Equal(e, b.any) {
				m.any = e
				if a.rng.Intn(2) == 0 {
					break
				}
			}
		}
	default: // slot:<filler>
		m.sigs[slot] = a.fill(name[len("slot:"):], slot, h)
	}
	label := "manip/" + name
	if foreign {
		label += "/foreign-base"
		a.count("adv_relay_foreign_attempts", 1)
	}
	a.sendMsg(w, to, m, label)
	if a.rng.Intn(3) == 0 {
		a.sendMsg(w, a.honest()[a.rng.Intn(n-1)], m, label)
	}
}

// playUnregistered: ids that no member, or only some members, registered.
func (a *adversary) playUnregistered(w *world) {
	id := []string{idUnknown, idPartial, idPartial, ""}[a.rng.Intn(4)]
	label := "unregistered-id"
	if id == idPartial {
		label = "partially-registered-id"
	}
	a.playOwnBroadcast(w, id, label)
}

// playMalformed: structurally odd requests.
func (a *adversary) playMalformed(w *world) {
	id := commonIDs[a.rng.Intn(len(commonIDs))]
	n := a.mon.n
	to := a.honest()[a.rng.Intn(n-1)]
	switch v := a.rng.Intn(5); v {
	case 0: // nil payload
		a.sigReq(w, to, id, nil, "nil", "malformed/nil-message")
		a.sendMsg(w, to, fullMsg{id: id, tag: "nil", sigs: make([][]byte, n)}, "malformed/nil-message")
	case 1: // every slot signed by the faulty member
		p, any := a.payloadFor(id)
		h := a.wireHash(w, id, a.me, any)
		sigs := make([][]byte, n)
		for i := range sigs {
			sigs[i] = a.sign(h, a.me)
		}
		a.sendMsg(w, to, fullMsg{id: id, any: any, tag: p.Tag, sigs: sigs}, "malformed/all-slots-signed-by-faulty-member")
	case 2: // list twice as long
		p, any := a.payloadFor(id)
		for _, t := range a.honest() {
			a.sigReq(w, t, id, any, p.Tag, "malformed/double-length-list")
		}
		sigs, _ := a.buildSigs(w, id, any, "random", nil)
		a.sendMsg(w, to, fullMsg{id: id, any: any, tag: p.Tag, sigs: append(sigs, sigs...)}, "malformed/double-length-list")
	case 3: // a type the receivers cannot decode
		p := a.newPayload("junk")
		for _, t := range a.honest() {
			a.sigReq(w, t, id, p.encs[0], p.Tag, "malformed/undecodable-type")
		}
		sigs, _ := a.buildSigs(w, id, p.encs[0], "adv-over-hash", nil)
		a.sendMsg(w, to, fullMsg{id: id, any: p.encs[0], tag: p.Tag, sigs: sigs}, "malformed/undecodable-type")
	default: // empty Any
		empty := &anypb.Any{}
		a.sigReq(w, to, id, empty, "empty-any", "malformed/empty-any")
		sigs, _ := a.buildSigs(w, id, empty, "adv-over-hash", nil)
		a.sendMsg(w, to, fullMsg{id: id, any: empty, tag: "empty-any", sigs: sigs}, "malformed/empty-any")
	}
}

// playReplay: send an accepted message again, to the same and to another member.
func (a *adversary) playReplay(w *world) {
	a.mu.Lock()
	var cands []sentMsg
	for _, s := range a.okSent {
		if s.world == w.idx {
			cands = append(cands, s)
		}
	}
	a.mu.Unlock()
	if len(cands) == 0 {
		a.playOwnBroadcast(w, a.pickID(w, true), "own-broadcast")
		return
	}
	s := cands[a.rng.Intn(len(cands))]
	a.sendMsg(w, s.to, s.m, "replay-of-accepted-message")
	a.sendMsg(w, a.honest()[a.rng.Intn(a.mon.n-1)], s.m, "replay-of-accepted-message")
}
