package c13

import (
	"context"
	"fmt"
	"github.com/libp2p/go-libp2p/core/protocol"
	"math/rand"
	"runtime"
	"sort"
	"strings"
	"sync"
	"sync/atomic"
	"time"

	"github.com/libp2p/go-libp2p/core/peer"
	"google.golang.org/protobuf/proto"
	"google.golang.org/protobuf/types/known/anypb"

	"github.com/obolnetwork/charon/dkg/bcast"
	pb "github.com/obolnetwork/charon/dkg/dkgpb/v1"
	"github.com/obolnetwork/charon/p2p"

	"verifharness/fakenet"
	"verifharness/kit"
)

// step is one wire action of the faulty member (witness / trace).
type step struct {
	Op     string `json:"op"` // sig | msg
	World  int    `json:"session"`
	To     int    `json:"to"`
	ID     string `json:"id"`
	Pay    string `json:"payload"`
	Label  string `json:"play,omitempty"`
	Result string `json:"result"`
}

// fullMsg is a message together with a signature list (complete and valid when it came from an
// honest broadcaster or from a completed own collection).
type fullMsg struct {
	world, sender int
	id            string
	any           *anypb.Any
	sigs          [][]byte
	tag           string
}

// poolKey says what a signature in the faulty member's pool was given for: member `member`
// answered `requester`'s request under id carrying exactly payload ak in session world.
type poolKey struct {
	world, member, requester int
	id                       string
	ak                       anyKey
}

type poolEntry struct {
	k   poolKey
	sig []byte
}

// signOracle is a real bcast.Component holding the faulty member's key on a private network: the
// only place where the faulty member's signatures are made (production hashing and signing).
type signOracle struct {
	net  *fakenet.Net
	comp *bcast.Component
}

// adversary is the faulty cluster member. Its playbook runs on the case goroutine (some plays fan
// out into goroutines); its protocol handlers (serving honest members) run on delivery goroutines,
// hence the lock.
type adversary struct {
	// protocol ids the faulty member uses for its own requests: the current ones, or another
	// version's pair it discovered on the honest members' hosts (altProto)
	sigProto, msgProto protocol.ID
	altProto           bool

	c     *kit.Case
	rng   *rand.Rand
	mon   *monitor
	salt  uint64
	me    int
	peers []peer.ID

	distinctSeq int // slots filled with distinct own signatures so far (guarded by mu)

	mu        sync.Mutex
	sigs      map[poolKey][]byte // signatures known to the faulty member
	byMember  map[int][]poolEntry
	full      []fullMsg // foreign (honest) fully signed messages addressed to the faulty member
	own       []fullMsg // own messages with a complete valid list
	okSent    []sentMsg // /msg injections that were accepted
	oracles   map[int]*signOracle
	signedFor map[string]map[anyKey]bool
	used      map[string]bool // session|id for which some member already signed for the faulty member
	trace     []step
	counts    map[string]int64
	accepted  int64
	rejected  int64
	noHandler atomic.Bool
	pcount    int
}

type sentMsg struct {
	world, to int
	m         fullMsg
}

func newAdversary(c *kit.Case, mon *monitor, salt uint64, peers []peer.ID) *adversary {
	return &adversary{
		sigProto: protoSig, msgProto: protoMsg,
		c: c, rng: c.Rng, mon: mon, salt: salt, me: mon.adv, peers: peers,
		sigs: map[poolKey][]byte{}, byMember: map[int][]poolEntry{}, oracles: map[int]*signOracle{},
		signedFor: map[string]map[anyKey]bool{}, used: map[string]bool{}, counts: map[string]int64{},
	}
}

func (a *adversary) count(k string, d int64) {
	a.mu.Lock()
	a.counts[k] += d
	a.mu.Unlock()
}

func (a *adversary) traceCopy() []step {
	a.mu.Lock()
	defer a.mu.Unlock()

	return append([]step(nil), a.trace...)
}

func (a *adversary) traceHash() string {
	a.mu.Lock()
	defer a.mu.Unlock()

	return kit.JSONHash(a.trace)
}

func (a *adversary) addTrace(s step) {
	a.mu.Lock()
	if len(a.trace) < 600 {
		a.trace = append(a.trace, s)
	}
	a.mu.Unlock()
}

func (a *adversary) newOracle(w *world) *signOracle {
	o := &signOracle{net: fakenet.New()}
	o.comp = bcast.New(o.net.Host(a.peers[a.me]), a.peers, a.mon.members[a.me].key, w.session)

	return o
}

// signVia returns the faulty member's signature over (id, any) for a broadcast by `requester` in
// session w, produced by a real bcast.Component with the faulty member's key: the request goes
// through its real /sig handler (production hash, dedup and signer). The faulty member wants to be
// able to sign anything, so every id is registered on demand with a check that accepts all, and a
// fresh component replaces one whose own dedup refuses. Recorded as "the faulty member signed".
func (a *adversary) signVia(w *world, requester int, id string, any *anypb.Any) []byte {
	if any == nil {
		return nil
	}
	k := poolKey{w.idx, a.me, requester, id, keyOfAny(any)}
	a.mu.Lock()
	sig := a.sigs[k]
	a.mu.Unlock()
	if sig == nil {
		for try := 0; try < 2 && sig == nil; try++ {
			a.mu.Lock()
			o := a.oracles[w.idx]
			if o == nil {
				o = a.newOracle(w)
				a.oracles[w.idx] = o
				a.counts["adv_sign_oracle_instances"]++
			}
			a.mu.Unlock()
			o.comp.RegisterMessageIDFuncs(id,
				func(context.Context, peer.ID, string, proto.Message) error { return nil },
				func(context.Context, peer.ID, *anypb.Any) error { return nil })
			sp := protoSig
			if requester == a.me { // its own slot in its own messages: the version it speaks itself
				sp = a.sigProto
			}
			raw, _ := o.net.Inject(a.peers[requester], a.peers[a.me], sp, &pb.BCastSigRequest{Id: id, Message: any})
			resp := new(pb.BCastSigResponse)
			if len(raw) > 0 && fakenet.Unframe(raw, resp) == nil && len(resp.GetSignature()) == 65 {
				sig = resp.GetSignature()
				break
			}
			a.mu.Lock()
			if a.oracles[w.idx] == o {
				delete(a.oracles, w.idx) // its dedup holds another payload for (requester, id)
			}
			a.mu.Unlock()
		}
		if sig == nil {
			a.count("adv_sign_oracle_gave_no_signature", 1)
			return nil
		}
		a.learn(k, sig)
	}
	a.mon.recordAnswer(w, a.me, requester, id, any)

	return sig
}

func (a *adversary) learn(k poolKey, sig []byte) {
	a.mu.Lock()
	if _, ok := a.sigs[k]; !ok {
		a.sigs[k] = sig
		a.byMember[k.member] = append(a.byMember[k.member], poolEntry{k: k, sig: sig})
	}
	a.mu.Unlock()
}

func (a *adversary) known(k poolKey) []byte {
	a.mu.Lock()
	defer a.mu.Unlock()

	return a.sigs[k]
}

// tagOf finds the witness tag of a payload on the wire.
func (a *adversary) tagOf(any *anypb.Any) string {
	dk := decodedKey(any)
	a.mon.mu.Lock()
	defer a.mon.mu.Unlock()
	if p := a.mon.payloads[dk]; p != nil {
		return p.Tag
	}

	return "?"
}

// registerHandlers makes the faulty member a protocol participant for honest broadcasters: it
// answers their signature requests (mostly), and collects the fully signed messages they send.
func (a *adversary) registerHandlers(w *world, host *fakenet.Host) {
	p2p.RegisterHandler("c13adv", host, protoSig,
		func() proto.Message { return new(pb.BCastSigRequest) },
		func(_ context.Context, pid peer.ID, m proto.Message) (proto.Message, bool, error) {
			req, ok := m.(*pb.BCastSigRequest)
			from, known := a.mon.idxOf[pid]
			if !ok || !known {
				return nil, false, nil
			}
			switch x := mix(a.salt, 77, uint64(w.idx), uint64(from), fnv64([]byte(req.GetId()))) % 100; {
			case x < 6:
				a.count("adv_withheld_signature_from_honest_broadcaster", 1)
				return nil, false, nil
			case x < 10:
				a.count("adv_garbage_signature_to_honest_broadcaster", 1)
				junk := make([]byte, 65)
				for i := range junk {
					junk[i] = byte(mix(x, uint64(i), a.salt))
				}
				junk[64] &= 1

				return &pb.BCastSigResponse{Id: req.GetId(), Signature: junk}, true, nil
			}
			sig := a.signVia(w, from, req.GetId(), req.GetMessage())
			if sig == nil {
				return nil, false, nil
			}

			return &pb.BCastSigResponse{Id: req.GetId(), Signature: sig}, true, nil
		})
	p2p.RegisterHandler("c13adv", host, protoMsg,
		func() proto.Message { return new(pb.BCastMessage) },
		func(_ context.Context, pid peer.ID, m proto.Message) (proto.Message, bool, error) {
			msg, ok := m.(*pb.BCastMessage)
			from, known := a.mon.idxOf[pid]
			if !ok || !known || len(msg.GetSignatures()) != a.mon.n {
				return nil, false, nil
			}
			ak := keyOfAny(msg.GetMessage())
			for i, s := range msg.GetSignatures() {
				a.learn(poolKey{w.idx, i, from, msg.GetId(), ak}, s)
			}
			tag := a.tagOf(msg.GetMessage())
			a.mu.Lock()
			a.full = append(a.full, fullMsg{world: w.idx, sender: from, id: msg.GetId(), any: msg.GetMessage(), sigs: msg.GetSignatures(), tag: tag})
			a.mu.Unlock()

			return nil, false, nil
		})
}

// ---------------------------------------------------------------------------------------------
// wire primitives

func (a *adversary) honest() []int {
	var out []int
	for i := 0; i < a.mon.n; i++ {
		if i != a.me {
			out = append(out, i)
		}
	}

	return out
}

func (a *adversary) subset(xs []int, nonEmpty bool) []int {
	var out []int
	for _, x := range xs {
		if a.rng.Intn(2) == 0 {
			out = append(out, x)
		}
	}
	if len(out) == 0 && nonEmpty {
		out = append(out, xs[a.rng.Intn(len(xs))])
	}
	a.rng.Shuffle(len(out), func(i, j int) { out[i], out[j] = out[j], out[i] })

	return out
}

// sigReq asks member `to` for a signature as the faulty member itself. Safe for concurrent use.
// A 65-byte answer means the member signed the payload the request carried — that is what the
// monitor records; no hash is computed here.
func (a *adversary) sigReq(w *world, to int, id string, any *anypb.Any, tag, label string) bool {
	mon := a.mon
	raw, ok := w.net.Inject(mon.members[a.me].id, mon.members[to].id, a.sigProto, &pb.BCastSigRequest{Id: id, Message: any})
	if !ok {
		a.noHandler.Store(true)
		return false
	}
	res := "refused"
	if len(raw) > 0 {
		resp := new(pb.BCastSigResponse)
		if err := fakenet.Unframe(raw, resp); err == nil && len(resp.GetSignature()) > 0 {
			res = "odd-response"
			if sig := resp.GetSignature(); len(sig) == 65 && any != nil {
				res = "signed"
				mon.recordAnswer(w, to, a.me, id, any)
				ak := keyOfAny(any)
				a.learn(poolKey{w.idx, to, a.me, id, ak}, sig)
				k := fmt.Sprintf("%d|%d|%s", w.idx, to, id)
				a.mu.Lock()
				if a.signedFor[k] == nil {
					a.signedFor[k] = map[anyKey]bool{}
				}
				a.signedFor[k][ak] = true
				a.used[fmt.Sprintf("%d|%s", w.idx, id)] = true
				if len(a.signedFor[k]) == 2 {
					a.counts["member_signed_two_wire_payloads_for_one_sender_and_id"]++
				}
				a.mu.Unlock()
			}
		}
	}
	a.mu.Lock()
	a.counts["adv_sigreq_"+res]++
	a.mu.Unlock()
	a.addTrace(step{Op: "sig", World: w.idx, To: to, ID: id, Pay: tag, Label: label, Result: res})

	return res == "signed"
}

// sendMsg injects a /msg as the faulty member; the callback (if any) runs synchronously inside.
func (a *adversary) sendMsg(w *world, to int, m fullMsg, label string) bool {
	mon := a.mon
	mon.mu.Lock()
	mon.curLabel = label
	mon.curAny = keyOfAny(m.any)
	mon.mu.Unlock()
	before := mon.advDelivered(w, to)
	_, ok := w.net.Inject(mon.members[a.me].id, mon.members[to].id, a.msgProto, &pb.BCastMessage{Id: m.id, Message: m.any, Signatures: m.sigs})
	if !ok {
		a.noHandler.Store(true)
		return false
	}
	delivered := mon.advDelivered(w, to) > before
	res := "rejected"
	a.mu.Lock()
	if delivered {
		res = "delivered"
		a.accepted++
		a.counts["adv_msg_accepted"]++
		a.counts["adv_msg_accepted/"+label]++
		if len(a.okSent) < 64 {
			a.okSent = append(a.okSent, sentMsg{world: w.idx, to: to, m: m})
		}
	} else {
		a.rejected++
		a.counts["adv_msg_rejected"]++
		a.counts["adv_msg_rejected/"+label]++
	}
	a.mu.Unlock()
	a.addTrace(step{Op: "msg", World: w.idx, To: to, ID: m.id, Pay: m.tag, Label: label, Result: res})

	return delivered
}

func (a *adversary) newPayload(kind string) *payload {
	a.pcount++
	p := newPayload(fmt.Sprintf("Q%d", a.pcount), kind, int64(2_000_000+a.pcount), int32(1+a.rng.Intn(1000)), a.rng)
	a.mon.mu.Lock()
	a.mon.payloads[p.key] = p
	a.mon.mu.Unlock()

	return p
}

// registerCrafted gives a hand-made wire payload a witness tag (by the message it decodes to).
func (a *adversary) registerCrafted(tag string, any *anypb.Any) {
	dk := decodedKey(any)
	a.mon.mu.Lock()
	if a.mon.payloads[dk] == nil {
		a.mon.payloads[dk] = &payload{Tag: tag, kind: "crafted", key: dk, encs: []*anypb.Any{any}}
	}
	a.mon.mu.Unlock()
}

func (a *adversary) payloadFor(id string) (*payload, *anypb.Any) {
	kind := kindOfID(id)
	switch x := a.rng.Intn(100); {
	case x < 5:
		kind = "junk"
	case x < 12:
		if kind == "ts" {
			kind = "dur"
		} else {
			kind = "ts"
		}
	}
	p := a.newPayload(kind)
	enc := 0
	if len(p.encs) > 1 && a.rng.Intn(4) == 0 {
		enc = 1 + a.rng.Intn(len(p.encs)-1)
	}

	return p, p.encs[enc]
}

var fillers = []string{
	"random", "empty", "short64", "adv-over-payload", "same-member-other-payload", "other-member-same-payload",
	"same-payload-other-requester", "omit-slot", "omit-slot", "adv-distinct-own-signatures", "adv-distinct-own-signatures",
}

func (a *adversary) randomSig() []byte {
	b := make([]byte, 65)
	a.rng.Read(b)
	b[64] &= 1

	return b
}

// fill produces something for a slot whose member did not sign (id, any) for the faulty member in
// session w (as far as the faulty member knows).
func (a *adversary) fill(filler string, w *world, id string, any *anypb.Any, slot int) []byte {
	want := poolKey{w.idx, slot, a.me, id, keyOfAny(any)}
	switch filler {
	case "empty":
		return nil
	case "short64":
		return a.randomSig()[:64]
	case "adv-over-payload":
		if s := a.signVia(w, a.me, id, any); s != nil {
			return s
		}
	case "adv-distinct-own-signatures":
		// a valid signature by the faulty member itself, different in every slot
		a.mu.Lock()
		k := a.distinctSeq
		a.distinctSeq++
		a.mu.Unlock()
		if s := a.distinctOwnSig(w, id, any, k%3); s != nil {
			return s
		}
	case "same-member-other-payload":
		if slot == a.me {
			if s := a.signVia(w, a.me, id, a.newPayload(kindOfID(id)).encs[0]); s != nil {
				return s
			}

			break
		}
		a.mu.Lock()
		cands := a.byMember[slot]
		var pick []byte
		for try := 0; try < 4 && pick == nil && len(cands) > 0; try++ {
			if c := cands[a.rng.Intn(len(cands))]; c.k != want {
				pick = c.sig
			}
		}
		a.mu.Unlock()
		if pick != nil {
			return pick
		}
	case "other-member-same-payload":
		for _, j := range a.rng.Perm(a.mon.n) {
			if j == slot {
				continue
			}
			k := want
			k.member = j
			if s := a.known(k); s != nil {
				return s
			}
		}
	case "same-payload-other-requester":
		// the slot's member did sign exactly this payload under this id — but for another broadcaster
		a.mu.Lock()
		var pick []byte
		for _, c := range a.byMember[slot] {
			if c.k.world == want.world && c.k.id == want.id && c.k.ak == want.ak && c.k.requester != a.me {
				pick = c.sig
				break
			}
		}
		a.mu.Unlock()
		if pick != nil {
			return pick
		}
	}

	return a.randomSig()
}

// buildSigs assembles the best signature list the faulty member can make for its own broadcast of
// (id, any) in w. alt, if non-nil, lets missing slots be filled with the same member's signature
// from another ceremony session.
func (a *adversary) buildSigs(w *world, id string, any *anypb.Any, filler string, alt *world) ([][]byte, bool) {
	n := a.mon.n
	ak := keyOfAny(any)
	sigs := make([][]byte, 0, n)
	complete := true
	withholdOwn := a.rng.Intn(14) == 0
	for i := 0; i < n; i++ {
		var s []byte
		if i == a.me {
			if !withholdOwn {
				s = a.signVia(w, a.me, id, any)
			}
		} else {
			s = a.known(poolKey{w.idx, i, a.me, id, ak})
		}
		if s == nil {
			complete = false
			if alt != nil {
				if i == a.me {
					s = a.signVia(alt, a.me, id, any)
				} else {
					s = a.known(poolKey{alt.idx, i, a.me, id, ak})
				}
			}
			if s == nil && filler == "omit-slot" {
				continue // the list simply gets shorter
			}
			if s == nil {
				s = a.fill(filler, w, id, any, i)
			}
		}
		sigs = append(sigs, s)
	}

	return sigs, complete
}

// ---------------------------------------------------------------------------------------------
// playbook

// pickID chooses a message id: mostly a registered one, preferring ids for which no member has
// signed anything for the faulty member yet in this session (its dedup slot is still free).
func (a *adversary) pickID(w *world, commonOnly bool) string {
	if !commonOnly {
		switch x := a.rng.Intn(100); {
		case x < 6:
			return idPartial
		case x < 10:
			return idUnknown
		case x < 12:
			return ""
		}
	}
	if a.rng.Intn(4) != 0 {
		var fresh []string
		a.mu.Lock()
		for _, id := range commonIDs {
			if !a.used[fmt.Sprintf("%d|%s", w.idx, id)] {
				fresh = append(fresh, id)
			}
		}
		a.mu.Unlock()
		if len(fresh) > 0 {
			return fresh[a.rng.Intn(len(fresh))]
		}
	}

	return commonIDs[a.rng.Intn(len(commonIDs))]
}

func (a *adversary) isFresh(w *world, id string) bool {
	a.mu.Lock()
	defer a.mu.Unlock()

	return !a.used[fmt.Sprintf("%d|%s", w.idx, id)]
}

func (a *adversary) step() {
	w := a.mon.worlds[a.rng.Intn(len(a.mon.worlds))]
	// Connection churn between the plays: the faulty member drops (and maybe re-opens) its
	// connections to some members; now and then a pair of other members loses its connection too.
	switch y := a.rng.Intn(100); {
	case y < 12:
		a.dropConns(w, a.subset(a.honest(), true), a.rng.Intn(2) == 0)
	case y < 16:
		hs := a.honest2(false)
		if w.net.Disconnect(a.peers[hs[0]], a.peers[hs[1]]) > 0 {
			a.count("honest_pair_disconnects", 1)
		}
	}
	x := a.rng.Intn(100)
	switch {
	case x < 8:
		a.playOwnBroadcast(w, a.pickID(w, false), "own-broadcast")
	case x < 16:
		a.playEquivocate(w, a.pickID(w, false))
	case x < 28:
		a.playConcurrentEquivocate(w, a.pickID(w, true))
	case x < 40:
		a.playReconnectEquivocate(w, a.pickID(w, true))
	case x < 52:
		a.playCollision(w)
	case x < 63:
		a.playRelay(w)
	case x < 71:
		a.playRelayCosigned(w)
	case x < 79:
		a.playCrossSession(w)
	case x < 90:
		a.playManip(w)
	case x < 94:
		a.playUnregistered(w)
	case x < 97:
		a.playMalformed(w)
	default:
		a.playReplay(w)
	}
}

// playOwnBroadcast: the faulty member follows the protocol for a fresh payload — except that it may
// skip members when collecting signatures and withhold the message from some members.
func (a *adversary) playOwnBroadcast(w *world, id, label string) {
	p, any := a.payloadFor(id)
	filler := kit.Pick(a.rng, fillers)
	if a.rng.Intn(5) == 0 {
		// asks nobody: every slot but its own gets a distinct signature made with its own key
		filler, label = "adv-distinct-own-signatures", label+"/asked-nobody"
	} else {
		for _, to := range a.honest2(true) {
			a.sigReq(w, to, id, any, p.Tag, label)
		}
	}
	sigs, complete := a.buildSigs(w, id, any, filler, nil)
	m := fullMsg{world: w.idx, sender: a.me, id: id, any: any, sigs: sigs, tag: p.Tag}
	if complete {
		a.mu.Lock()
		a.own = append(a.own, m)
		a.mu.Unlock()
	} else {
		label += "-incomplete"
	}
	for _, to := range a.subset(a.honest(), true) {
		a.sendMsg(w, to, m, label)
	}
}

// honest2 returns the honest members in PRNG order, optionally dropping a few (withholding).
func (a *adversary) honest2(mayDrop bool) []int {
	hs := a.honest()
	a.rng.Shuffle(len(hs), func(i, j int) { hs[i], hs[j] = hs[j], hs[i] })
	if mayDrop && a.rng.Intn(5) == 0 {
		hs = hs[:len(hs)-1-a.rng.Intn(len(hs)-1)]
	}

	return hs
}

// playEquivocate: several payloads under one id; every member is asked for (some of) them in a
// global PRNG order, re-requests included; then each payload goes to a PRNG subset.
func (a *adversary) playEquivocate(w *world, id string) {
	k := 2 + a.rng.Intn(2)
	type pa struct {
		p   *payload
		any *anypb.Any
	}
	var ps []pa
	for i := 0; i < k; i++ {
		p, any := a.payloadFor(id)
		ps = append(ps, pa{p, any})
		if i == 0 && a.rng.Intn(5) == 0 && len(p.encs) > 1 {
			// second "payload" = the same application message in another encoding
			ps = append(ps, pa{p, p.encs[1+a.rng.Intn(len(p.encs)-1)]})
			i++
		}
	}
	type rq struct{ to, pi int }
	var reqs []rq
	for _, to := range a.honest() {
		for pi := range ps {
			if a.rng.Intn(4) != 0 {
				reqs = append(reqs, rq{to, pi})
			}
		}
	}
	a.rng.Shuffle(len(reqs), func(i, j int) { reqs[i], reqs[j] = reqs[j], reqs[i] })
	// In a third of the plays every payload but the first travels under ANOTHER SPELLING of the
	// message id (trailing or doubled slash, "./" prefix, other case, trailing blank): to a member
	// that normalises ids somewhere but not everywhere these are the same id for delivery and
	// different ids for its sign-once record.
	wireID := make([]string, len(ps))
	for i := range ps {
		wireID[i] = id
	}
	spell := ""
	if a.rng.Intn(3) == 0 {
		spell = "/other-spelling-of-the-id"
		for i := 1; i < len(ps); i++ {
			wireID[i] = idSpelling(id, a.rng.Intn(6)+i)
		}
		a.count("equivocation_plays_with_other_spellings_of_the_id", 1)
	}
	for _, q := range reqs {
		a.sigReq(w, q.to, wireID[q.pi], ps[q.pi].any, ps[q.pi].p.Tag, "equivocation"+spell)
	}
	for xi, x := range ps {
		id := wireID[xi]
		sigs, complete := a.buildSigs(w, id, x.any, kit.Pick(a.rng, fillers), nil)
		label := "equivocation" + spell
		if !complete {
			label += "-incomplete"
		}
		m := fullMsg{world: w.idx, sender: a.me, id: id, any: x.any, sigs: sigs, tag: x.p.Tag}
		for _, to := range a.subset(a.honest(), true) {
			a.sendMsg(w, to, m, label)
		}
	}
}

// idSpelling returns another string that a normalising reader could take for id.
func idSpelling(id string, k int) string {
	if id == "" {
		return "/"
	}
	switch k % 6 {
	case 0:
		return id + "/"
	case 1:
		return strings.Replace(id, "/", "//", 1)
	case 2:
		return "./" + id
	case 3:
		return id + " "
	case 4:
		return strings.ToUpper(id[:1]) + id[1:]
	default:
		return id + "/."
	}
}

// playConcurrentEquivocate: 1..4 payloads under one id, and for every honest member all signature
// requests (each possibly duplicated) are issued at the same moment from parallel goroutines
// released by a barrier — per member in turn, or for all members at once. A member must still sign
// at most one of the payloads; duplicates of one payload are fine. Whatever lists became complete
// are then delivered, different payloads to different members.
func (a *adversary) playConcurrentEquivocate(w *world, id string) {
	type pa struct {
		p   *payload
		any *anypb.Any
	}
	k := 1 + a.rng.Intn(4) // 1 = concurrent duplicates of a single payload only
	var ps []pa
	for i := 0; i < k; i++ {
		p := a.newPayload(kindOfID(id)) // well-formed: the request has to get as far as the signing
		enc := 0
		if a.rng.Intn(6) == 0 {
			enc = 1 + a.rng.Intn(len(p.encs)-1)
		}
		ps = append(ps, pa{p, p.encs[enc]})
	}
	type shot struct{ to, pi int }
	var rounds [][]shot
	members := a.honest2(false)
	allAtOnce := a.rng.Intn(2) == 0
	var cur []shot
	for _, to := range members {
		for pi := range ps {
			copies := 1
			if k == 1 || a.rng.Intn(4) == 0 {
				copies = 2 + a.rng.Intn(2)
			}
			for c := 0; c < copies; c++ {
				cur = append(cur, shot{to, pi})
			}
		}
		if !allAtOnce {
			rounds = append(rounds, cur)
			cur = nil
		}
	}
	if allAtOnce {
		rounds = append(rounds, cur)
	}
	label := "concurrent-equivocation"
	if k == 1 {
		label = "concurrent-duplicates"
	}
	for _, round := range rounds {
		a.rng.Shuffle(len(round), func(i, j int) { round[i], round[j] = round[j], round[i] })
		start := make(chan struct{})
		var wg sync.WaitGroup
		for _, sh := range round {
			wg.Add(1)
			go func() {
				defer wg.Done()
				<-start
				a.sigReq(w, sh.to, id, ps[sh.pi].any, ps[sh.pi].p.Tag, label)
			}()
		}
		close(start)
		wg.Wait()
	}
	if k > 1 {
		a.count("adv_concurrent_sigreq_races", int64(len(members)))
	} else {
		a.count("adv_concurrent_duplicate_races", int64(len(members)))
	}
	// Complete what can be completed; hand different payloads to different members.
	var full []fullMsg
	for _, x := range ps {
		sigs, complete := a.buildSigs(w, id, x.any, kit.Pick(a.rng, fillers), nil)
		m := fullMsg{world: w.idx, sender: a.me, id: id, any: x.any, sigs: sigs, tag: x.p.Tag}
		if complete {
			full = append(full, m)
			continue
		}
		a.sendMsg(w, a.honest()[a.rng.Intn(a.mon.n-1)], m, label+"-incomplete")
	}
	if len(full) > 1 {
		a.count("adv_concurrent_equivocation_extra_full_lists", int64(len(full)-1))
	}
	if len(full) == 0 {
		return
	}
	for i, to := range a.honest2(false) {
		a.sendMsg(w, to, full[i%len(full)], label)
		if a.rng.Intn(4) == 0 {
			a.sendMsg(w, to, full[a.rng.Intn(len(full))], label)
		}
	}
	a.mu.Lock()
	a.own = append(a.own, full[0])
	a.mu.Unlock()
}

var collisionKinds = []string{
	"url-value-boundary", "url-value-boundary", "id-url-boundary", "type-swap", "trailing-unknown-field", "leading-unknown-field",
	"url-host-prefix", "reordered-fields", "value-only-other-url-path",
}

// playCollision: two different wire payloads X and Y that would hash identically if the signed hash
// were weakened in a plausible way (a field boundary not committed to, a field left out, bytes that
// the protobuf decoder skips, the url host ignored). Every member is asked to sign X — an ordinary,
// sequential, honest-looking broadcast — then X goes to some members and Y, with X's signature
// list, to the others. With a sound hash every Y is rejected.
func (a *adversary) playCollision(w *world) {
	kind := collisionKinds[a.rng.Intn(len(collisionKinds))]
	idX := a.pickID(w, true)
	idY := idX
	if kind == "id-url-boundary" {
		pair := prefixPairs[a.rng.Intn(len(prefixPairs))]
		for try := 0; try < 4 && !a.isFresh(w, pair[0]) && !a.isFresh(w, pair[1]); try++ {
			pair = prefixPairs[a.rng.Intn(len(prefixPairs))]
		}
		idX, idY = pair[1], pair[0] // long id signed, short id delivered (swapped below at random)
	}
	k := kindOfID(idX)
	name := typeName(k)
	a.pcount++
	secs, nanos := int64(3_000_000+a.pcount), int32(1+a.rng.Intn(1000))
	u := "type.googleapis.com/" + name
	first, rest := secondsField(secs), nanosField(nanos)
	v := append(append([]byte(nil), first...), rest...)
	unknown := []byte{0x78, 0x07} // field 15, varint 7: skipped by the decoder, kept as unknown field
	x := &anypb.Any{TypeUrl: u, Value: v}
	var y *anypb.Any
	switch kind {
	case "url-value-boundary":
		// X.value starts with an unknown length-delimited field (tag 0x7a) that swallows "/<name>"
		// and the seconds field, so X.type_url||X.value == Y.type_url||Y.value.
		inner := append([]byte("/"+name), first...)
		g := []byte{0x7a, byte(len(inner))}
		x = &anypb.Any{TypeUrl: u, Value: append(append(append([]byte(nil), g...), inner...), rest...)}
		y = &anypb.Any{TypeUrl: u + string(g) + "/" + name, Value: v}
	case "id-url-boundary":
		// idX||X.type_url == idY||Y.type_url
		y = &anypb.Any{TypeUrl: idX[len(idY):] + u, Value: v}
	case "type-swap":
		other := "dur"
		if k == "dur" {
			other = "ts"
		}
		y = &anypb.Any{TypeUrl: "type.googleapis.com/" + typeName(other), Value: v}
	case "trailing-unknown-field":
		y = &anypb.Any{TypeUrl: u, Value: append(append([]byte(nil), v...), unknown...)}
	case "leading-unknown-field":
		y = &anypb.Any{TypeUrl: u, Value: append(append([]byte(nil), unknown...), v...)}
	case "url-host-prefix":
		y = &anypb.Any{TypeUrl: "verif.example/" + name, Value: v}
	case "reordered-fields":
		y = &anypb.Any{TypeUrl: u, Value: append(append([]byte(nil), rest...), first...)}
	default: // value-only-other-url-path: same value, the url has an extra path segment
		y = &anypb.Any{TypeUrl: "type.googleapis.com/extra/" + name, Value: v}
	}
	if a.rng.Intn(2) == 0 {
		x, y = y, x
		idX, idY = idY, idX
	}
	tagX, tagY := fmt.Sprintf("X%d", a.pcount), fmt.Sprintf("Y%d", a.pcount)
	a.registerCrafted(tagX, x)
	a.registerCrafted(tagY, y)
	label := "collision/" + kind
	a.count("adv_collision_attempts", 1)
	for _, to := range a.honest2(false) {
		a.sigReq(w, to, idX, x, tagX, label)
	}
	sigs, complete := a.buildSigs(w, idX, x, "random", nil)
	if !complete {
		label += "-incomplete"
	} else {
		a.count("adv_collision_attempts_with_full_list", 1)
		a.mu.Lock()
		a.own = append(a.own, fullMsg{world: w.idx, sender: a.me, id: idX, any: x, sigs: sigs, tag: tagX})
		a.mu.Unlock()
	}
	hs := a.honest2(false)
	for i, to := range hs {
		if i == 0 || (i > 1 && a.rng.Intn(3) == 0) {
			a.sendMsg(w, to, fullMsg{world: w.idx, sender: a.me, id: idX, any: x, sigs: sigs, tag: tagX}, label+"/signed-payload")
			if a.rng.Intn(3) != 0 {
				continue
			}
		}
		a.sendMsg(w, to, fullMsg{world: w.idx, sender: a.me, id: idY, any: y, sigs: sigs, tag: tagY}, label)
	}
}

// dropConns closes every connection between the faulty member and the given members (their
// network notifees fire) and, if reopen, opens a new one right away; otherwise the next stream dials.
func (a *adversary) dropConns(w *world, members []int, reopen bool) {
	for _, m := range members {
		closed := w.net.Disconnect(a.peers[a.me], a.peers[m])
		if closed > 0 {
			a.count("adv_connections_dropped", int64(closed))
		}
		res := "dial-on-next-stream"
		if reopen {
			w.net.Connect(a.peers[a.me], a.peers[m])
			res = "reconnected"
		}
		a.addTrace(step{Op: "disconnect", World: w.idx, To: m, Result: res})
	}
}

// playReconnectEquivocate: equivocation across connection lifetimes. The faulty member controls
// when its connections close; whatever a member signed for (faulty member, id) before must still
// bind it afterwards.
//   - all-then-all: payload after payload, every member is asked, all connections dropped in between
//   - per-member: per member: ask for X, drop the connection, ask for Y (…)
//   - one-of-two-connections: a second connection is opened first and only one of them is dropped
//   - flapping: a goroutine keeps dropping and re-opening the connections while the requests run
//
// Whatever lists became complete are delivered, different payloads to different members, with
// further disconnects between the deliveries.
func (a *adversary) playReconnectEquivocate(w *world, id string) {
	variant := []string{"all-then-all", "all-then-all", "per-member", "one-of-two-connections", "flapping"}[a.rng.Intn(5)]
	label := "reconnect-equivocation/" + variant
	k := 2 + a.rng.Intn(2)
	var ps []*payload
	for i := 0; i < k; i++ {
		ps = append(ps, a.newPayload(kindOfID(id)))
	}
	a.count("adv_reconnect_equivocations", 1)
	me := a.peers[a.me]
	early := a.rng.Intn(3) == 0 // deliver the first payload before the connections drop
	deliverFirst := func() {
		if sigs, complete := a.buildSigs(w, id, ps[0].encs[0], "random", nil); complete {
			a.sendMsg(w, a.honest()[a.rng.Intn(a.mon.n-1)], fullMsg{world: w.idx, sender: a.me, id: id, any: ps[0].encs[0], sigs: sigs, tag: ps[0].Tag}, label)
		}
	}
	switch variant {
	case "all-then-all":
		for i, p := range ps {
			for _, to := range a.honest2(false) {
				a.sigReq(w, to, id, p.encs[0], p.Tag, label)
			}
			if i == 0 && early {
				deliverFirst()
			}
			if i < len(ps)-1 {
				a.dropConns(w, a.honest2(a.rng.Intn(4) == 0), a.rng.Intn(2) == 0)
			}
		}
	case "per-member":
		for _, to := range a.honest2(false) {
			for i, p := range ps {
				a.sigReq(w, to, id, p.encs[0], p.Tag, label)
				if i < len(ps)-1 {
					a.dropConns(w, []int{to}, a.rng.Intn(2) == 0)
				}
			}
		}
	case "one-of-two-connections":
		for _, to := range a.honest() {
			w.net.Connect(me, a.peers[to])
			if w.net.Connections(me, a.peers[to]) < 2 {
				w.net.Connect(me, a.peers[to])
			}
		}
		for i, p := range ps {
			for _, to := range a.honest2(false) {
				a.sigReq(w, to, id, p.encs[0], p.Tag, label)
			}
			if i == 0 {
				for _, to := range a.honest() {
					for w.net.Connections(me, a.peers[to]) > 1 {
						w.net.DisconnectOne(me, a.peers[to])
						a.count("adv_connections_dropped_while_another_stays", 1)
					}
				}
			}
		}
	default: // flapping
		stop := make(chan struct{})
		var wg sync.WaitGroup
		wg.Add(1)
		hs := a.honest()
		go func() {
			defer wg.Done()
			for i := 0; ; i++ {
				select {
				case <-stop:
					return
				default:
				}
				m := hs[i%len(hs)]
				if w.net.Disconnect(me, a.peers[m]) > 0 {
					a.count("adv_connections_dropped", 1)
				}
				if i%2 == 0 {
					w.net.Connect(me, a.peers[m])
				}
				runtime.Gosched()
			}
		}()
		for _, p := range ps {
			for _, to := range a.honest2(false) {
				a.sigReq(w, to, id, p.encs[0], p.Tag, label)
			}
		}
		close(stop)
		wg.Wait()
	}
	var full []fullMsg
	for _, p := range ps {
		sigs, complete := a.buildSigs(w, id, p.encs[0], kit.Pick(a.rng, fillers), nil)
		m := fullMsg{world: w.idx, sender: a.me, id: id, any: p.encs[0], sigs: sigs, tag: p.Tag}
		if complete {
			full = append(full, m)
			continue
		}
		a.sendMsg(w, a.honest()[a.rng.Intn(a.mon.n-1)], m, label+"-incomplete")
	}
	if len(full) > 1 {
		a.count("adv_reconnect_equivocation_extra_full_lists", int64(len(full)-1))
	}
	for i, to := range a.honest2(false) {
		if len(full) == 0 {
			break
		}
		if a.rng.Intn(3) == 0 {
			a.dropConns(w, []int{to}, a.rng.Intn(2) == 0)
		}
		a.sendMsg(w, to, full[(i+len(full)-1)%len(full)], label)
	}
	if len(full) > 0 {
		a.mu.Lock()
		a.own = append(a.own, full[0])
		a.mu.Unlock()
	}
}

func (a *adversary) foreignIn(w *world) []fullMsg {
	a.mu.Lock()
	defer a.mu.Unlock()
	var out []fullMsg
	for _, f := range a.full {
		if f.world == w.idx {
			out = append(out, f)
		}
	}

	return out
}

// playRelay: re-send another member's fully signed message, unchanged, under the faulty member's
// own stream; then (often) run an ordinary broadcast of an own payload for the same id.
func (a *adversary) playRelay(w *world) {
	fs := a.foreignIn(w)
	if len(fs) == 0 {
		a.playOwnBroadcast(w, a.pickID(w, true), "own-broadcast")
		return
	}
	f := fs[a.rng.Intn(len(fs))]
	for try := 0; try < 6 && !a.isFresh(w, f.id); try++ {
		f = fs[a.rng.Intn(len(fs))]
	}
	a.count("adv_relay_foreign_attempts", 1)
	for _, to := range a.subset(a.honest(), true) {
		a.sendMsg(w, to, f, "relay-foreign-message")
	}
	if a.rng.Intn(10) < 6 {
		a.playOwnBroadcast(w, f.id, "own-broadcast-after-relay")
	}
}

// playRelayCosigned: like playRelay, but each receiver is first asked — by the faulty member, for
// (faulty member, id) — to sign exactly the foreign payload it is about to get; different
// receivers get different members' payloads.
func (a *adversary) playRelayCosigned(w *world) {
	fs := a.foreignIn(w)
	if len(fs) == 0 {
		a.playOwnBroadcast(w, a.pickID(w, true), "own-broadcast")
		return
	}
	byID := map[string][]fullMsg{}
	for _, f := range fs {
		dup := false
		for _, g := range byID[f.id] {
			if g.sender == f.sender {
				dup = true
			}
		}
		if !dup {
			byID[f.id] = append(byID[f.id], f)
		}
	}
	var ids []string
	best := 0
	for id, l := range byID {
		if len(l) > best {
			best = len(l)
		}
		ids = append(ids, id)
	}
	sort.Strings(ids)
	var cand []string
	for _, id := range ids {
		if len(byID[id]) == best || (len(byID[id]) >= 2 && a.isFresh(w, id)) {
			cand = append(cand, id)
		}
	}
	id := cand[a.rng.Intn(len(cand))]
	msgs := byID[id]
	a.rng.Shuffle(len(msgs), func(i, j int) { msgs[i], msgs[j] = msgs[j], msgs[i] })
	if len(msgs) > 3 {
		msgs = msgs[:3]
	}
	a.count("adv_relay_foreign_attempts", 1)
	for _, to := range a.honest2(false) {
		if a.rng.Intn(5) == 0 {
			continue
		}
		f := msgs[a.rng.Intn(len(msgs))]
		a.sigReq(w, to, id, f.any, f.tag, "relay-foreign-message-cosigned")
		a.sendMsg(w, to, f, "relay-foreign-message-cosigned")
	}
}

// playCrossSession: signatures or whole messages from the other ceremony session.
func (a *adversary) playCrossSession(w *world) {
	if len(a.mon.worlds) < 2 {
		a.playManip(w)
		return
	}
	other := a.mon.worlds[1-w.idx]
	a.count("adv_cross_session_attempts", 1)
	if fs := a.foreignIn(other); len(fs) > 0 && a.rng.Intn(2) == 0 {
		f := fs[a.rng.Intn(len(fs))]
		for _, to := range a.subset(a.honest(), true) {
			a.sendMsg(w, to, f, "cross-session/replay-full-message")
		}

		return
	}
	id := a.pickID(w, true)
	p, any := a.payloadFor(id)
	for _, to := range a.honest2(false) {
		a.sigReq(other, to, id, any, p.Tag, "cross-session/collect-in-other-session")
	}
	// in this session only some members are asked
	for _, to := range a.subset(a.honest(), false) {
		a.sigReq(w, to, id, any, p.Tag, "cross-session/collect-here")
	}
	sigs, complete := a.buildSigs(w, id, any, "random", other)
	label := "cross-session/other-session-signatures"
	if complete {
		label = "own-broadcast"
	}
	m := fullMsg{world: w.idx, sender: a.me, id: id, any: any, sigs: sigs, tag: p.Tag}
	for _, to := range a.subset(a.honest(), true) {
		a.sendMsg(w, to, m, label)
	}
	if a.rng.Intn(2) == 0 {
		// and the honest completion in the other session
		s2, c2 := a.buildSigs(other, id, any, "random", nil)
		l2 := "own-broadcast"
		if !c2 {
			l2 += "-incomplete"
		}
		m2 := fullMsg{world: other.idx, sender: a.me, id: id, any: any, sigs: s2, tag: p.Tag}
		for _, to := range a.subset(a.honest(), true) {
			a.sendMsg(other, to, m2, l2)
		}
	}
}

var manips = []string{
	"permute", "swap2", "truncate-last", "truncate-first", "truncate-random", "append-dup", "dup-slot", "recovery-id-plus-27",
	"empty-list", "flip-bit", "slot:random", "slot:empty", "slot:short64", "slot:adv-over-payload", "slot:same-member-other-payload",
	"slot:other-member-same-payload", "slot:same-payload-other-requester", "other-id", "other-payload", "other-encoding", "drop-receivers-slot", "receivers-slot:random",
}

// playManip: take a message with a complete, valid signature list (own or foreign) and damage
// exactly one thing.
func (a *adversary) playManip(w *world) {
	a.mu.Lock()
	var base []fullMsg
	for _, m := range a.own {
		if m.world == w.idx {
			base = append(base, m)
		}
	}
	nOwn := len(base)
	for _, m := range a.full {
		if m.world == w.idx {
			base = append(base, m)
		}
	}
	a.mu.Unlock()
	if len(base) == 0 {
		a.playOwnBroadcast(w, a.pickID(w, true), "own-broadcast")
		return
	}
	bi := a.rng.Intn(len(base))
	if nOwn > 0 && a.rng.Intn(3) != 0 {
		bi = a.rng.Intn(nOwn)
	}
	b := base[bi]
	foreign := bi >= nOwn
	name := manips[a.rng.Intn(len(manips))]
	n := a.mon.n
	to := a.honest()[a.rng.Intn(n-1)]
	m := b
	m.sigs = append([][]byte(nil), b.sigs...)
	slot := a.rng.Intn(n)
	switch name {
	case "permute":
		perm := a.rng.Perm(n)
		if sort.IntsAreSorted(perm) {
			perm[0], perm[1] = perm[1], perm[0]
		}
		for i, pi := range perm {
			m.sigs[i] = b.sigs[pi]
		}
	case "swap2":
		j := (slot + 1 + a.rng.Intn(n-1)) % n
		m.sigs[slot], m.sigs[j] = m.sigs[j], m.sigs[slot]
	case "truncate-last":
		m.sigs = m.sigs[:n-1]
	case "truncate-first":
		m.sigs = m.sigs[1:]
	case "truncate-random":
		m.sigs = append(m.sigs[:slot:slot], m.sigs[slot+1:]...)
	case "drop-receivers-slot":
		m.sigs = append(m.sigs[:to:to], m.sigs[to+1:]...)
	case "append-dup":
		m.sigs = append(m.sigs, m.sigs[slot])
	case "dup-slot":
		m.sigs[slot] = b.sigs[(slot+1+a.rng.Intn(n-1))%n]
	case "recovery-id-plus-27":
		s := append([]byte(nil), b.sigs[slot]...)
		if len(s) == 65 {
			s[64] += 27
		}
		m.sigs[slot] = s
	case "empty-list":
		m.sigs = nil
	case "flip-bit":
		s := append([]byte(nil), b.sigs[slot]...)
		if len(s) > 0 {
			s[a.rng.Intn(len(s)-1)] ^= 1 << uint(a.rng.Intn(8))
		}
		m.sigs[slot] = s
	case "receivers-slot:random":
		m.sigs[to] = a.randomSig()
	case "other-id":
		ids := append([]string{idPartial, idUnknown}, commonIDs...)
		m.id = ids[a.rng.Intn(len(ids))]
		if m.id == b.id {
			m.id = b.id + "x"
		}
	case "other-payload":
		p, any := a.payloadFor(b.id)
		m.any, m.tag = any, p.Tag
	case "other-encoding":
		a.mon.mu.Lock()
		p := a.mon.payloads[decodedKey(b.any)]
		a.mon.mu.Unlock()
		if p == nil || len(p.encs) < 2 {
			name = "slot:random"
			m.sigs[slot] = a.randomSig()
			break
		}
		for _, e := range p.encs {
			if !proto.Equal(e, b.any) {
				m.any = e
				if a.rng.Intn(2) == 0 {
					break
				}
			}
		}
	default: // slot:<filler>
		m.sigs[slot] = a.fill(name[len("slot:"):], w, b.id, b.any, slot)
	}
	label := "manip/" + name
	if foreign {
		label += "/foreign-base"
		a.count("adv_relay_foreign_attempts", 1)
	}
	a.sendMsg(w, to, m, label)
	if a.rng.Intn(3) == 0 {
		a.sendMsg(w, a.honest()[a.rng.Intn(n-1)], m, label)
	}
}

// playUnregistered: ids that no member, or only some members, registered.
func (a *adversary) playUnregistered(w *world) {
	id := []string{idUnknown, idPartial, idPartial, ""}[a.rng.Intn(4)]
	label := "unregistered-id"
	if id == idPartial {
		label = "partially-registered-id"
	}
	a.playOwnBroadcast(w, id, label)
}

// playMalformed: structurally odd requests.
func (a *adversary) playMalformed(w *world) {
	id := commonIDs[a.rng.Intn(len(commonIDs))]
	n := a.mon.n
	to := a.honest()[a.rng.Intn(n-1)]
	switch v := a.rng.Intn(5); v {
	case 0: // nil payload
		a.sigReq(w, to, id, nil, "nil", "malformed/nil-message")
		a.sendMsg(w, to, fullMsg{id: id, tag: "nil", sigs: make([][]byte, n)}, "malformed/nil-message")
	case 1: // every slot signed by the faulty member
		p, any := a.payloadFor(id)
		sigs := make([][]byte, n)
		for i := range sigs {
			sigs[i] = a.signVia(w, a.me, id, any)
		}
		a.sendMsg(w, to, fullMsg{id: id, any: any, tag: p.Tag, sigs: sigs}, "malformed/all-slots-signed-by-faulty-member")
	case 2: // list twice as long
		p, any := a.payloadFor(id)
		for _, t := range a.honest() {
			a.sigReq(w, t, id, any, p.Tag, "malformed/double-length-list")
		}
		sigs, _ := a.buildSigs(w, id, any, "random", nil)
		a.sendMsg(w, to, fullMsg{id: id, any: any, tag: p.Tag, sigs: append(sigs, sigs...)}, "malformed/double-length-list")
	case 3: // a type the receivers cannot decode
		p := a.newPayload("junk")
		for _, t := range a.honest() {
			a.sigReq(w, t, id, p.encs[0], p.Tag, "malformed/undecodable-type")
		}
		sigs, _ := a.buildSigs(w, id, p.encs[0], "adv-over-payload", nil)
		a.sendMsg(w, to, fullMsg{id: id, any: p.encs[0], tag: p.Tag, sigs: sigs}, "malformed/undecodable-type")
	default: // empty Any
		empty := &anypb.Any{}
		a.sigReq(w, to, id, empty, "empty-any", "malformed/empty-any")
		sigs, _ := a.buildSigs(w, id, empty, "adv-over-payload", nil)
		a.sendMsg(w, to, fullMsg{id: id, any: empty, tag: "empty-any", sigs: sigs}, "malformed/empty-any")
	}
}

// playReplay: send an accepted message again, to the same and to another member.
func (a *adversary) playReplay(w *world) {
	a.mu.Lock()
	var cands []sentMsg
	for _, s := range a.okSent {
		if s.world == w.idx {
			cands = append(cands, s)
		}
	}
	a.mu.Unlock()
	if len(cands) == 0 {
		a.playOwnBroadcast(w, a.pickID(w, true), "own-broadcast")
		return
	}
	s := cands[a.rng.Intn(len(cands))]
	a.sendMsg(w, s.to, s.m, "replay-of-accepted-message")
	a.sendMsg(w, a.honest()[a.rng.Intn(a.mon.n-1)], s.m, "replay-of-accepted-message")
}

// discoverProtocols looks at the stream protocols an honest member's host serves (a remote peer
// learns them through identify). Any further "<prefix>/sig" + "<prefix>/msg" pair next to the
// current one is another version of the broadcast protocol that the member accepts; in every second
// case that has one, the faulty member runs its whole playbook through that version instead
// (seeded change C13-r7: a still-accepted legacy version whose signatures bind neither message id
// nor session).
func (a *adversary) discoverProtocols(host *fakenet.Host) {
	have := map[protocol.ID]bool{}
	for _, p := range host.Protocols() {
		have[p] = true
	}
	var alts []protocol.ID
	for p := range have {
		s := string(p)
		if !strings.HasSuffix(s, "/sig") || p == protoSig {
			continue
		}
		prefix := strings.TrimSuffix(s, "/sig")
		if have[protocol.ID(prefix+"/msg")] {
			alts = append(alts, protocol.ID(prefix))
		}
	}
	sort.Slice(alts, func(i, j int) bool { return alts[i] < alts[j] })
	a.c.R.Count("info_alternative_protocol_versions_served_by_members", int64(len(alts)))
	for _, p := range alts {
		a.c.R.Seen("alternative_protocol_versions", string(p))
	}
	if len(alts) == 0 || a.altProto || a.c.Idx%2 == 0 {
		return
	}
	pick := alts[a.c.Idx/2%len(alts)]
	a.sigProto, a.msgProto, a.altProto = protocol.ID(string(pick)+"/sig"), protocol.ID(string(pick)+"/msg"), true
	a.c.R.Count("cases_adversary_used_alternative_protocol_version", 1)
}

// ---------------------------------------------------------------------------------------------
// Deadline-edge play (seeded change C13-r8).
//
// The stream handler's context starts when the stream is opened and lasts exactly as long as the read
// deadline of the stream (bcast: one minute). A sender decides how long the receiver's read takes,
// so it can make its message arrive at the very edge of that deadline: the handler then runs with a
// context that expires within microseconds - before, while or after the signatures are verified. The
// faulty member first obtains every member's signature for payload X under an id and delivers X to one
// member; then it sends Y under the same id WITH THE SIGNATURES OVER X to the other members, each
// message trickled so that it arrives eps before the read deadline. Nobody signed Y: whatever the
// state of the handler's context, Y must not be delivered. The minute of real waiting only places
// the message (the goroutines sleep while the rest of the case runs); the verdict is the ordinary
// one over the recorded deliveries.

type edgePlay struct {
	w   *world
	to  []int
	m   fullMsg
	eps []time.Duration
}

var edgeEps = []time.Duration{20 * time.Microsecond, 100 * time.Microsecond, 300 * time.Microsecond, time.Millisecond, 3 * time.Millisecond}

func (a *adversary) prepareDeadlineEdge(w *world) *edgePlay {
	for try := 0; try < 4; try++ {
		id := a.pickID(w, true)
		px, anyX := a.payloadFor(id)
		py, anyY := a.payloadFor(id)
		if px.kind != kindOfID(id) || py.kind != kindOfID(id) || keyOfAny(anyX) == keyOfAny(anyY) {
			continue
		}
		for _, to := range a.honest() {
			a.sigReq(w, to, id, anyX, px.Tag, "deadline-edge")
		}
		sigs, complete := a.buildSigs(w, id, anyX, "random", nil)
		hs := a.honest()
		if !complete || len(hs) < 2 {
			continue
		}
		a.sendMsg(w, hs[0], fullMsg{world: w.idx, sender: a.me, id: id, any: anyX, sigs: sigs, tag: px.Tag}, "deadline-edge-genuine")
		e := &edgePlay{w: w, to: hs[1:], m: fullMsg{world: w.idx, sender: a.me, id: id, any: anyY, sigs: sigs, tag: py.Tag}}
		for range e.to {
			e.eps = append(e.eps, edgeEps[a.rng.Intn(len(edgeEps))])
		}

		return e
	}
	a.count("deadline_edge_plays_not_prepared", 1)

	return nil
}

// runDeadlineEdge sends the prepared messages from goroutines of their own; wait on the result
// before the case is evaluated.
func (a *adversary) runDeadlineEdge(e *edgePlay) *sync.WaitGroup {
	var wg sync.WaitGroup
	if e == nil {
		return &wg
	}
	for i, to := range e.to {
		wg.Add(1)
		go func(to int, eps time.Duration) {
			defer wg.Done()
			mon := a.mon
			before := mon.advDelivered(e.w, to)
			t0 := time.Now()
			_, ok := e.w.net.InjectTrickle(mon.members[a.me].id, mon.members[to].id, a.msgProto, &pb.BCastMessage{Id: e.m.id, Message: e.m.any, Signatures: e.m.sigs}, eps)
			res := "rejected"
			if ok && mon.advDelivered(e.w, to) > before {
				res = "delivered"
			}
			a.count("deadline_edge_messages_sent", 1)
			if time.Since(t0) > 30*time.Second {
				a.count("deadline_edge_messages_that_arrived_at_the_edge_of_the_read_deadline", 1)
			}
			a.addTrace(step{Op: "msg", World: e.w.idx, To: to, ID: e.m.id, Pay: e.m.tag, Label: fmt.Sprintf("deadline-edge-other-payload-with-foreign-signatures(eps=%v)", eps), Result: res})
		}(to, e.eps[i])
	}

	return &wg
}
