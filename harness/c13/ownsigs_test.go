package c13

// Distinct signatures by ONE key over one hash. ECDSA lets the holder of a key sign the same hash
// as often as it likes (one signature per nonce) and lets anybody turn (r, s) into (r, N-s): "n
// different valid signatures by cluster members" is therefore not "one signature by each of the n
// members". The faulty member fills slots of members that did not sign with such signatures of its own.

import (
	"crypto/sha256"
	"encoding/binary"

	k1 "github.com/decred/dcrd/dcrec/secp256k1/v4"
	"google.golang.org/protobuf/types/known/anypb"

	"github.com/obolnetwork/charon/app/k1util"
)

// malleate returns the second encoding (r, N-s, v^1) of a 65-byte [R || S || V] signature.
func malleate(sig []byte) []byte {
	if len(sig) != 65 {
		return nil
	}
	var s k1.ModNScalar
	if s.SetByteSlice(sig[32:64]) || s.IsZero() {
		return nil
	}
	s.Negate()
	out := append([]byte(nil), sig...)
	sb := s.Bytes()
	copy(out[32:64], sb[:])
	out[64] ^= 1

	return out
}

// advHash is the faulty member's own idea of the signed hash; it is only ever used after a signature
// made by production code with the member's key has been found to verify against it.
func advHash(session []byte, id string, any *anypb.Any) []byte {
	h := sha256.New()
	for _, f := range [][]byte{session, []byte(id), []byte(any.GetTypeUrl()), any.GetValue()} {
		_ = binary.Write(h, binary.BigEndian, uint64(len(f)))
		_, _ = h.Write(f)
	}

	return h.Sum(nil)
}

// signWithNonce is textbook ECDSA over secp256k1 with a caller-chosen nonce, in charon's [R || S || V] form.
func signWithNonce(key *k1.PrivateKey, hash []byte, nonce [32]byte) []byte {
	var k k1.ModNScalar
	if k.SetBytes(&nonce) != 0 || k.IsZero() {
		return nil
	}
	var R k1.JacobianPoint
	k1.ScalarBaseMultNonConst(&k, &R)
	R.ToAffine()
	var r k1.ModNScalar
	xb := R.X.Bytes()
	rec := byte(0)
	if r.SetBytes(xb) != 0 {
		rec |= 2
	}
	if R.Y.IsOdd() {
		rec |= 1
	}
	if r.IsZero() || rec&2 != 0 {
		return nil
	}
	var e k1.ModNScalar
	e.SetByteSlice(hash)
	s := new(k1.ModNScalar).Mul2(&key.Key, &r).Add(&e)
	s.Mul(new(k1.ModNScalar).InverseValNonConst(&k))
	if s.IsZero() {
		return nil
	}
	if s.IsOverHalfOrder() {
		s.Negate()
		rec ^= 1
	}
	out := make([]byte, 65)
	rb, sb := r.Bytes(), s.Bytes()
	copy(out[:32], rb[:])
	copy(out[32:64], sb[:])
	out[64] = rec

	return out
}

// distinctOwnSig returns the k-th (k >= 0) distinct valid signature of the faulty member over (id, any)
// in session w, all different from the one production code makes: k = 0 is the malleated production
// signature, k >= 1 use fresh nonces (only if the member's idea of the hash checks out). nil if none.
func (a *adversary) distinctOwnSig(w *world, id string, any *anypb.Any, k int) []byte {
	prod := a.signVia(w, a.me, id, any)
	if prod == nil {
		return nil
	}
	if k == 0 {
		if m := malleate(prod); m != nil {
			a.count("adv_distinct_own_signatures/malleated", 1)
			return m
		}
	}
	key := a.mon.members[a.me].key
	hash := advHash(w.session, id, any)
	if ok, err := k1util.Verify65(key.PubKey(), hash, prod); err != nil || !ok {
		a.count("adv_distinct_own_signatures/hash-not-reproduced", 1)
		return nil
	}
	for try := 0; try < 4; try++ {
		var nonce [32]byte
		a.rng.Read(nonce[:])
		sig := signWithNonce(key, hash, nonce)
		if sig == nil {
			continue
		}
		if ok, err := k1util.Verify65(key.PubKey(), hash, sig); err == nil && ok {
			a.count("adv_distinct_own_signatures/fresh-nonce", 1)
			return sig
		}
	}

	return nil
}
