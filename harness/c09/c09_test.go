// Package c09 monitors core/sigagg (property C09): the real Aggregator with the real
// NewVerifier over a beaconmock; subscribers are monitors that re-verify every published object
// against the lock's group key with a signing root the harness computes itself.
package c09

import (
	"context"
	"encoding/hex"
	"fmt"
	"math/rand"
	"sort"
	"strings"
	"sync"
	"sync/atomic"
	"testing"
	"time"

	eth2api "github.com/attestantio/go-eth2-client/api"
	eth2p0 "github.com/attestantio/go-eth2-client/spec/phase0"

	eth2http "github.com/attestantio/go-eth2-client/http"
	"github.com/rs/zerolog"

	"github.com/obolnetwork/charon/app/eth2wrap"
	"github.com/obolnetwork/charon/cluster"
	"github.com/obolnetwork/charon/core"
	"github.com/obolnetwork/charon/core/sigagg"
	"github.com/obolnetwork/charon/tbls"
	"github.com/obolnetwork/charon/testutil/beaconmock"

	"verifharness/kit"
)

// ---------------------------------------------------------------------------------------------
// chain: the harness' own domain / signing-root computation from the beacon node's raw data.

type chain struct {
	spe            uint64
	gvr            eth2p0.Root
	genesisFork    eth2p0.Version
	forks          []*eth2p0.Fork
	domainTypes    map[string]eth2p0.DomainType
	domainNames    []string         // sorted keys of domainTypes (deterministic PRNG choices)
	versions       []eth2p0.Version // distinct fork versions of the schedule in activation order (genesis first)
	bounds         []uint64         // fork activation epochs > 0, ascending
	capellaVersion eth2p0.Version   // CAPELLA_FORK_VERSION / CAPELLA_FORK_EPOCH of the beacon node's spec (EIP-7044)
	capellaEpoch   uint64
}

func loadChain(ctx context.Context, bmock beaconmock.Mock) (*chain, error) {
	spec, err := bmock.Spec(ctx, &eth2api.SpecOpts{})
	if err != nil {
		return nil, err
	}
	gen, err := bmock.Genesis(ctx, &eth2api.GenesisOpts{})
	if err != nil {
		return nil, err
	}
	fs, err := bmock.ForkSchedule(ctx, &eth2api.ForkScheduleOpts{})
	if err != nil {
		return nil, err
	}
	ch := &chain{gvr: gen.Data.GenesisValidatorsRoot, genesisFork: gen.Data.GenesisForkVersion, forks: fs.Data, domainTypes: map[string]eth2p0.DomainType{}}
	spe, ok := spec.Data["SLOTS_PER_EPOCH"].(uint64)
	if !ok || spe == 0 {
		return nil, fmt.Errorf("spec without SLOTS_PER_EPOCH")
	}
	ch.spe = spe
	for _, name := range []string{domProposer, domAttester, domRandao, domExit, domSelection, domAggProof, domSyncComm, domSyncSel, domContribution} {
		dt, ok := spec.Data[name].(eth2p0.DomainType)
		if !ok {
			return nil, fmt.Errorf("spec without %s", name)
		}
		ch.domainTypes[name] = dt
	}
	// builder-specs: DOMAIN_APPLICATION_BUILDER = 0x00000001 (not served by every node)
	ch.domainTypes[domBuilder] = eth2p0.DomainType{0x00, 0x00, 0x00, 0x01}
	for name := range ch.domainTypes {
		ch.domainNames = append(ch.domainNames, name)
	}
	sort.Strings(ch.domainNames)
	sort.SliceStable(ch.forks, func(i, j int) bool { return ch.forks[i].Epoch < ch.forks[j].Epoch })
	ch.versions = []eth2p0.Version{ch.genesisFork}
	for _, f := range ch.forks {
		if f.CurrentVersion != ch.versions[len(ch.versions)-1] {
			ch.versions = append(ch.versions, f.CurrentVersion)
		}
		if f.Epoch > 0 && (len(ch.bounds) == 0 || ch.bounds[len(ch.bounds)-1] != uint64(f.Epoch)) {
			ch.bounds = append(ch.bounds, uint64(f.Epoch))
		}
	}
	if ch.capellaVersion, ok = spec.Data["CAPELLA_FORK_VERSION"].(eth2p0.Version); !ok {
		return nil, fmt.Errorf("spec without CAPELLA_FORK_VERSION")
	}
	if ch.capellaEpoch, ok = spec.Data["CAPELLA_FORK_EPOCH"].(uint64); !ok {
		return nil, fmt.Errorf("spec without CAPELLA_FORK_EPOCH")
	}

	return ch, nil
}

// forkVersion: the version of the last scheduled fork whose epoch is <= epoch.
func (ch *chain) forkVersion(epoch uint64) eth2p0.Version {
	v := ch.genesisFork
	for _, f := range ch.forks {
		if uint64(f.Epoch) <= epoch {
			v = f.CurrentVersion
		}
	}

	return v
}

// domSpec names one signing domain: domain type, fork version and whether the fork data carries
// the chain's genesis validators root (the builder domain carries a zero root).
type domSpec struct {
	Name    string
	Version eth2p0.Version
	ZeroGVR bool
	Zero    bool // the all-zero domain (what an unfilled domain value looks like)
}

func (d domSpec) String() string {
	if d.Zero {
		return "the all-zero domain"
	}
	s := fmt.Sprintf("%s/fork-version-%x", d.Name, d.Version[:])
	if d.ZeroGVR {
		s += "/zero-genesis-validators-root"
	}

	return s
}

// ownSpec: the domain the consensus / builder specs prescribe for a message of domain type `name`
// whose own epoch is `epoch`:
//   - builder registrations: genesis fork version, zero genesis validators root (builder-specs);
//   - voluntary exits: EIP-7044 (deneb process_voluntary_exit) pins the domain to
//     CAPELLA_FORK_VERSION once the chain is past capella; charon documents and implements this in
//     its beacon-node http adapter (app/eth2wrap/httpwrap.go Domain), which is the client the
//     verifier under test runs on in this harness;
//   - everything else: the version of the fork active at the message's epoch.
func (ch *chain) ownSpec(name string, epoch uint64) domSpec {
	switch {
	case name == domBuilder:
		return domSpec{Name: name, Version: ch.genesisFork, ZeroGVR: true}
	case name == domExit && epoch >= ch.capellaEpoch:
		return domSpec{Name: name, Version: ch.capellaVersion}
	default:
		return domSpec{Name: name, Version: ch.forkVersion(epoch)}
	}
}

// domainOf: domain = domain_type ++ hash_tree_root(ForkData{version, genesis_validators_root})[:28].
func (ch *chain) domainOf(ds domSpec) (eth2p0.Domain, error) {
	if ds.Zero {
		return eth2p0.Domain{}, nil
	}
	dt, ok := ch.domainTypes[ds.Name]
	if !ok {
		return eth2p0.Domain{}, fmt.Errorf("unknown domain %s", ds.Name)
	}
	fd := &eth2p0.ForkData{CurrentVersion: ds.Version, GenesisValidatorsRoot: ch.gvr}
	if ds.ZeroGVR {
		fd.GenesisValidatorsRoot = eth2p0.Root{}
	}
	root, err := fd.HashTreeRoot()
	if err != nil {
		return eth2p0.Domain{}, err
	}
	var d eth2p0.Domain
	copy(d[:4], dt[:])
	copy(d[4:], root[:28])

	return d, nil
}

func (ch *chain) domain(name string, epoch uint64) (eth2p0.Domain, error) {
	return ch.domainOf(ch.ownSpec(name, epoch))
}

// signingRootUnder wraps the object root of `in` with an arbitrary domain.
func (ch *chain) signingRootUnder(in info, ds domSpec) ([32]byte, error) {
	d, err := ch.domainOf(ds)
	if err != nil {
		return [32]byte{}, err
	}

	return (&eth2p0.SigningData{ObjectRoot: in.Root, Domain: d}).HashTreeRoot()
}

// signingRoot: the object's own signing root (own root, own domain type, own epoch).
func (ch *chain) signingRoot(in info) ([32]byte, error) {
	return ch.signingRootUnder(in, ch.ownSpec(in.Domain, in.Epoch))
}

// otherSideOfNearestFork: an epoch in the fork adjacent to epoch's fork, across the activation
// epoch nearest to epoch (ok=false when the schedule has no fork after genesis).
func (ch *chain) otherSideOfNearestFork(epoch uint64) (uint64, bool) {
	if len(ch.bounds) == 0 {
		return 0, false
	}
	best, bestDist := ch.bounds[0], ^uint64(0)
	for _, b := range ch.bounds {
		d := epoch - b
		if epoch < b {
			d = b - epoch - 1
		}
		if d < bestDist {
			best, bestDist = b, d
		}
	}
	if epoch >= best {
		return best - 1, true
	}

	return best, true
}

// ---------------------------------------------------------------------------------------------
// clusters and monitors

type clusterEnv struct {
	n, t   int
	lock   cluster.Lock
	shares [][]tbls.PrivateKey // [validator][share idx-1]
	groups []tbls.PublicKey
	pubs   []core.PubKey
	agg    *sigagg.Aggregator
}

type partialMeta struct {
	Label      int    `json:"label"`
	SignedBy   string `json:"signed_by"` // "share k of validator v" / "unrelated key" / "none"
	SignedRoot string `json:"signed_signing_root"`
	Under      string `json:"signed_under_domain,omitempty"` // set when signed under a domain other than the object's own
	ObjRoot    string `json:"object_root"`
	Sig        string `json:"signature"`

	signed    [32]byte // signing root the signature was genuinely made over by share `Label` of the right validator (zero otherwise)
	signedSR  [32]byte // signing root the signature was made over, whoever signed (zero for fabricated bytes)
	realShare int      // k when the signature was made by share k of the validator the partial is filed under, else 0
}

type valPlan struct {
	vi       int
	pub      core.PubKey
	partials []core.ParSignedData
	meta     []partialMeta
	class    string
	note     string
	// straddles: an attestation whose source and target checkpoints lie in different forks
	straddles bool
	objDesc   string // own domain / epoch and the other epochs the object carries

	obj core.SignedData // the (unsigned) object the validator's genuine partials are made over
	ids []int           // share indices of the genuine partials, in list order (valid plans)
}

type published struct {
	sub int
	set core.SignedDataSet
}

type callRec struct {
	mu   sync.Mutex
	pubs []published
}

type monitor struct {
	calls sync.Map // duty slot (call id) -> *callRec
}

func (m *monitor) subscriber(idx int) func(context.Context, core.Duty, core.SignedDataSet) error {
	return func(_ context.Context, duty core.Duty, set core.SignedDataSet) error {
		v, ok := m.calls.Load(duty.Slot)
		if !ok {
			return nil
		}
		rec := v.(*callRec)
		rec.mu.Lock()
		rec.pubs = append(rec.pubs, published{sub: idx, set: set})
		rec.mu.Unlock()

		return nil
	}
}

var callSeq atomic.Uint64

func hx(b []byte) string { return hex.EncodeToString(b) }

// ---------------------------------------------------------------------------------------------

var mustErrorClasses = []string{
	"wrong-share-key/other-share-same-validator", "wrong-share-key/same-index-other-validator", "wrong-share-key/unrelated-key",
	"wrong-index-label", "other-message", "mixed-two-messages",
	"zero-signature", "zeroed-tail-signature", "garbage-signature", "bit-flipped-signature",
	"too-few", "repeated-share-in-threshold-size-set", "foreign-validator-set",
	// signed under another domain: every partial (mixed: 1..len-1 of them) is a genuine share
	// signature over the object's own root wrapped with a domain that is not the object's own.
	"other-domain/previous-fork-version", "other-domain/next-fork-version", "other-domain/other-domain-type", "other-domain/other-epoch", "other-domain/mixed",
}

// classZeroDomain is a must-error class too, built only by the concurrent first-use trial below.
const classZeroDomain = "other-domain/zero-domain"

// crossValidatorClasses: corruptions spread over SEVERAL validators of one call that all sign the
// same object (same signing root, different group keys) with the same share indices: every
// involved validator's list contains partials made by another validator's share of the same
// index, so each of them "contains an invalid share" and nothing at all may be published. Unlike
// two corruptions inside ONE validator's list these cannot cancel in a per-validator check: the
// recovered signature is G_A + sum_j lambda_j (s_Bj - s_Aj) H(m), which is G_A only with
// negligible probability. (They do cancel in the SUM over the validators of the call.)
var crossValidatorClasses = []string{
	"cross-validator/swap-one-index", "cross-validator/swap-several-indices", "cross-validator/swap-all-indices",
	"cross-validator/exchange-whole-sets", "cross-validator/rotate-three", "cross-validator/swap-with-unrelated-third",
}

// mustErrorPick: the PRNG draws the must-error class from this list (other-domain-type three times:
// 12 object types x 9 other domain types is the largest input space among the classes).
var mustErrorPick = append(append([]string{}, mustErrorClasses...), "other-domain/other-domain-type", "other-domain/other-domain-type")

var universalOnlyClasses = []string{
	"unsigned-content-varies", "content-swapped-signature-over-common-content", "duplicate-label-conflict", "repeated-share-above-threshold",
	// two independent corruptions of one validator's partials can cancel out algebraically (e.g. t=2:
	// share 2's signature filed under labels 3 and 4 next to genuine share 1 interpolates to the true
	// group signature), so only the universal oracle applies.
	"two-corruptions", "two-corruptions", "two-corruptions",
}

func TestCheck(t *testing.T) {
	r := kit.Start(t, "C09")
	defer r.Finish()

	ctx, cancel := context.WithCancel(context.Background())
	defer cancel()

	maxN := 5
	if r.Thorough() {
		maxN = 7
	}
	kinds := allKinds()
	r.Rule(fmt.Sprintf("case = one Aggregate call on the real sigagg.Aggregator (real NewVerifier over beaconmock; one Aggregator per cluster shared by all concurrent cases); "+
		"object kind cycles through all 12 core.Eth2SignedData types x every fork version (7 attestation, 5+5 blinded proposal (bellatrix..fulu; charon refuses phase0/altair proposals as unsupported), 7 versioned aggregate-and-proof versions; %d kinds), content from charon's testutil generators (not seed-reproducible) with PRNG slots/epochs around the mock's fork boundaries; "+
		"cluster from cluster.NewForT with real key shares, n in 3..%d, t=ceil(2n/3), 4 validators; 1..4 validators per call; "+
		"45%% of the multi-validator calls are shared-object calls: all 2..4 validators sign the SAME object (same signing root and domain, different group keys), in 80%% of them with the same share-index subset; a shared-object call is valid, carries one of the single-validator classes below, or (45%%) a cross-validator class: the partials of share index i of validators A and B carry each other's signature for one index / several indices / all indices of the used subset, whole partial lists exchanged (also with different subsets), a rotation among three validators, a swap next to a correctly signing third validator with an object of its own; bystanders sign the shared object or one of their own; "+
		"attestations: 40%% straddle a fork activation epoch F of the node's schedule (target F or F+1, source F-1 or F-2), else target from the epoch mix with the source right behind / a few epochs behind / anywhere; "+
		"call class PRNG: valid (threshold subsets walked round-robin so that every subset of size >= t is used for n<=5; PRNG subsets above, partial order shuffled) / one of %d must-error corruption classes applied to exactly one validator of the call / one of %d cross-validator classes (must-error too) / one of %d universal-only classes; "+
		"the other-domain/* classes sign the object's own root with genuine shares under a domain that is not the object's own (previous / next fork version of the schedule, another domain type, the schedule's domain at another epoch: attestation source epoch or slot epoch, own epoch +-1, the other side of the nearest fork activation, for exits and builder registrations the plain schedule domain; all partials, or 1..len-1 of them in the mixed class; other-domain-type is drawn with triple weight and walks the other domain types round-robin per object kind); "+
		"30%% of the valid calls are followed by a replay that keeps one validator's first partial byte-identical and re-signs another of its partials with an unrelated key (must be refused although the same head was verified a moment before); "+
		"35%% of all calls (valid and corrupted alike) run under a per-call beacon-node fault plan carried in the context: 1-2 rules over the verifier's lookups (Spec, Domain, GenesisDomain, Genesis, ForkSchedule, SlotsPerEpoch, or 'k-th lookup of the call whichever it is'), each failing with an error or a context-deadline error always / only the k-th time / from the k-th time on; "+
		"AGED PROCESS epilogue: the process verifies against 4600 (thorough: 20000) fresh public keys in a fixed order, then every later key's signature is tried under 10 (40) of the earliest keys and under one validator key per cluster; an accepted pair is replayed as an Aggregate call for that validator with partials made by shares of the other key; "+
		"non-trivial = the call carried at least one validator with >= t partials or a corruption; distinct = hash(kind, n, class, labels, corrupted position, validators)",
		len(kinds), maxN, len(mustErrorClasses), len(crossValidatorClasses), len(universalOnlyClasses)))
	r.Assume("herumi BLS (tbls.Verify / tbls.Sign) is correct (C08); the harness verifies published signatures with tbls.Verify directly against a signing root it computes itself (object hash-tree-root via go-eth2-client types, domain from the mock's raw spec / genesis / fork schedule)")
	r.Assume("the verifier's beacon-node client is charon's production http adapter (eth2wrap.AdaptEth2HTTP, fork version set) over the beaconmock's HTTP server; a voluntary exit's own domain is DOMAIN_VOLUNTARY_EXIT under CAPELLA_FORK_VERSION of the node's spec from CAPELLA_FORK_EPOCH on (EIP-7044, which the adapter's Domain implements), computed by the harness from the raw spec values")
	r.Assume("an object's own epoch is read from the object per the consensus specs by the harness (attestation: data.target.epoch; block / aggregate / selection / sync messages: epoch of the slot; exit: message epoch; randao: the signed epoch; builder registration: none), never through charon's Epoch()/DomainName()/MessageRoot() methods")
	r.Assume("attestations with Data.Slot = 20 (mod 2^32) are not generated: without ValidatorIndex they cannot be SSZ-cloned by charon (encoding defect outside this property, reported separately)")
	r.Assume("beacon-node faults are injected in a wrapper around beaconmock at the eth2wrap.Client methods the verifier uses; a timeout is an immediate context.DeadlineExceeded error (no real waiting); under a served fault a valid call may be refused or published, a corrupted call must still be refused")
	r.Assume("monitor subscribers always return nil, so an error from Aggregate is never a subscriber's own error")
	r.RacePkgs(false, "core/sigagg")
	r.Require("published_objects_verified", 2000)
	r.Require("calls_valid_published", 1000)
	r.Require("calls_must_error_rejected", 2000)
	r.Require("calls_universal_only", 500)
	r.Require("replay_followup_calls", 300)
	r.Require("fault_served_calls", 1000)
	r.Require("fault_served_calls_with_corruption", 500)
	r.Require("calls_other_domain_rejected", 800)
	r.Require("calls_cross_validator_rejected", 500)
	r.Require("shared_object_valid_calls_published", 150)
	r.Require("concurrent_first_use_trials", 50)
	r.Require("aged_process_foreign_signature_probes", 40000)
	r.Require("raw_signature_calls/trailing-bytes", 10)
	r.Require("other_domain_attestation_sets_under_source_epoch_domain", 20)
	r.Require("valid_published_attestations_source_and_target_in_different_forks", 50)

	bmock, err := beaconmock.New(ctx)
	if err != nil {
		r.Inconclusive("beaconmock: %v", err)
		return
	}
	defer func() { _ = bmock.Close() }()

	ch, err := loadChain(ctx, bmock)
	if err != nil {
		r.Inconclusive("chain data: %v", err)
		return
	}
	// Trusted-base cross check (not a verdict about charon): the harness' domain computation and
	// go-eth2-client's agree on every domain type at epochs around every fork. The voluntary-exit
	// domain is not compared: go-eth2-client follows the fork schedule, the harness follows EIP-7044.
	xepochs := []uint64{0, 1, 2047, 2048, 2049, 50687, 50688, 50689, 1 << 40}
	for _, b := range ch.bounds {
		xepochs = append(xepochs, b-1, b, b+1)
	}
	for name, dt := range ch.domainTypes {
		if name == domExit {
			continue
		}
		for _, ep := range xepochs {
			var want eth2p0.Domain
			if name == domBuilder {
				want, err = bmock.GenesisDomain(ctx, dt)
			} else {
				want, err = bmock.Domain(ctx, dt, eth2p0.Epoch(ep))
			}
			got, err2 := ch.domain(name, ep)
			if err != nil || err2 != nil || got != want {
				r.Inconclusive("harness domain computation disagrees with the beacon client for %s at epoch %d: %x vs %x (%v %v)", name, ep, got, want, err, err2)
				return
			}
		}
	}
	if len(ch.bounds) == 0 || len(ch.versions) < 3 {
		r.Inconclusive("the beacon node's fork schedule has no fork after genesis (%d versions): wrong-fork-domain cases cannot be built", len(ch.versions))
		return
	}
	r.Set("fork_versions", fmt.Sprintf("%x", ch.versions))
	r.Set("fork_activation_epochs_after_genesis", ch.bounds)

	// The beacon-node client the verifier runs on: charon's production http adapter
	// (eth2wrap.AdaptEth2HTTP over go-eth2-client's http service, as eth2wrap.newBeaconClient builds
	// it, fork version set as app.Run does) talking to the beaconmock's HTTP server. go-eth2-client
	// caches spec, genesis and fork schedule after the first request, so lookups are in-memory.
	svc, err := eth2http.New(ctx, eth2http.WithLogLevel(zerolog.Disabled), eth2http.WithAddress(bmock.Address()), eth2http.WithTimeout(2*time.Minute))
	if err != nil {
		r.Inconclusive("eth2http.New: %v", err)
		return
	}
	httpSvc, ok := svc.(*eth2http.Service)
	if !ok {
		r.Inconclusive("eth2http.New returned %T", svc)
		return
	}
	bnClient := eth2wrap.AdaptEth2HTTP(httpSvc, nil, 2*time.Minute)
	bnClient.SetForkVersion(ch.genesisFork)
	r.Set("slots_per_epoch", ch.spe)

	mon := &monitor{}
	var clusters []*clusterEnv
	for n := 3; n <= maxN; n++ {
		th := (2*n + 2) / 3 // ceil(2n/3)
		const dv = 4
		// low byte fixed at 16: testutil.GenerateInsecureK1Key(seed+i) feeds ecdsa.GenerateKey a constant
		// byte (seed+i+1) and never returns when that byte is 0x00 or 0xff (e.g. VERIF_SEED=23, n=3).
		seed := (int(r.Seed%(1<<40))*16+n)*256 + 16
		lock, _, shares := cluster.NewForT(t, dv, th, n, seed, rand.New(rand.NewSource(int64(seed)))) //nolint:gosec // reproducible
		env := &clusterEnv{n: n, t: th, lock: lock, shares: shares}
		for _, v := range lock.Validators {
			var g tbls.PublicKey
			copy(g[:], v.PubKey)
			env.groups = append(env.groups, g)
			env.pubs = append(env.pubs, core.PubKeyFrom48Bytes(g))
		}
		agg, err := sigagg.New(th, sigagg.NewVerifier(faultClient{Client: bnClient}))
		if err != nil {
			r.Inconclusive("sigagg.New: %v", err)
			return
		}
		agg.Subscribe(mon.subscriber(0))
		agg.Subscribe(mon.subscriber(1))
		env.agg = agg
		clusters = append(clusters, env)
	}

	r.Set("kinds", len(kinds))
	var validCursor [16]atomic.Uint64 // per n: round-robin over threshold subsets for valid calls
	dtCursors := make([]atomic.Uint64, len(kinds))

	n := r.N(12000, 100000)
	r.Cases(n, 0, func(c *kit.Case) {
		k := kinds[c.Idx%len(kinds)]
		env := clusters[(c.Idx/len(kinds))%len(clusters)]
		runCase(ctx, c, ch, mon, env, k, &validCursor[env.n], &dtCursors[c.Idx%len(kinds)])
	})

	if !r.Replaying() {
		runRawSignatures(ctx, r)
	}
	if !r.Replaying() {
		runAgedProcess(ctx, r, ch, mon, clusters, func(t int) (*sigagg.Aggregator, error) {
			return sigagg.New(t, sigagg.NewVerifier(faultClient{Client: bnClient}))
		})
	}

	// every threshold subset of the small clusters used by a valid call?
	if !r.Replaying() {
		for _, env := range clusters {
			if env.n > 5 {
				continue
			}
			want := len(subsetsGE(env.n, env.t))
			got := 0
			for _, m := range subsetsGE(env.n, env.t) {
				if r.Counter(fmt.Sprintf("valid_subset/n%d/%s", env.n, maskString(m, env.n))) > 0 {
					got++
				}
			}
			r.Set(fmt.Sprintf("valid_threshold_subsets_covered_n%d", env.n), fmt.Sprintf("%d/%d", got, want))
			if got != want {
				r.Inconclusive("not every threshold subset of n=%d was used by a valid call (%d/%d)", env.n, got, want)
			}
		}
	}
}

func subsetsGE(n, t int) []uint32 {
	var out []uint32
	for m := uint32(1); m < 1<<n; m++ {
		c := 0
		for i := 0; i < n; i++ {
			if m&(1<<i) != 0 {
				c++
			}
		}
		if c >= t {
			out = append(out, m)
		}
	}

	return out
}

func maskString(m uint32, n int) string {
	var ids []string
	for i := 0; i < n; i++ {
		if m&(1<<i) != 0 {
			ids = append(ids, fmt.Sprint(i+1))
		}
	}

	return strings.Join(ids, ".")
}

func maskIDs(m uint32, n int) []int {
	var ids []int
	for i := 0; i < n; i++ {
		if m&(1<<i) != 0 {
			ids = append(ids, i+1)
		}
	}

	return ids
}

func randSubset(rng *rand.Rand, n, k int) []int {
	ids := rng.Perm(n)[:k]
	for i := range ids {
		ids[i]++
	}

	return ids
}

// builder assembles the partials of one validator.
type builder struct {
	c   *kit.Case
	ch  *chain
	env *clusterEnv
	rng *rand.Rand
	// dtCursor: per object kind, round-robin over the other domain types for the pure
	// other-domain-type class, so that every (kind, other type) pair is met several times per run.
	dtCursor *atomic.Uint64
}

// partial signs obj with key and labels it; genuine tells whether key is share `label` of validator vi.
func (b *builder) partial(obj core.SignedData, key tbls.PrivateKey, label int, signedBy string, genuine bool, realShare int) (core.ParSignedData, partialMeta, error) {
	return b.partialUnder(obj, key, label, signedBy, genuine, realShare, nil)
}

// partialUnder is partial with the signing domain chosen by the caller: under == nil is the
// object's own domain; otherwise the object's own root is wrapped with *under (a signature over
// ANOTHER message than the object's signing root unless the two domains happen to be equal).
func (b *builder) partialUnder(obj core.SignedData, key tbls.PrivateKey, label int, signedBy string, genuine bool, realShare int, under *domSpec) (core.ParSignedData, partialMeta, error) {
	in, err := inspect(obj, b.ch.spe)
	if err != nil {
		return core.ParSignedData{}, partialMeta{}, err
	}
	ownSR, err := b.ch.signingRoot(in)
	if err != nil {
		return core.ParSignedData{}, partialMeta{}, err
	}
	sr, underDesc := ownSR, ""
	if under != nil {
		if sr, err = b.ch.signingRootUnder(in, *under); err != nil {
			return core.ParSignedData{}, partialMeta{}, err
		}
		if sr != ownSR {
			underDesc = fmt.Sprintf("%s (own domain: %s at own epoch %d)", *under, b.ch.ownSpec(in.Domain, in.Epoch), in.Epoch)
		}
	}
	sig, err := tbls.Sign(key, sr[:])
	if err != nil {
		return core.ParSignedData{}, partialMeta{}, err
	}
	signed, err := obj.SetSignature(core.Signature(sig[:]))
	if err != nil {
		return core.ParSignedData{}, partialMeta{}, err
	}
	m := partialMeta{Label: label, SignedBy: signedBy, SignedRoot: hx(sr[:]), Under: underDesc, ObjRoot: hx(in.Root[:]), Sig: hx(sig[:]), signedSR: sr, realShare: realShare}
	if genuine && sr == ownSR {
		m.signed = sr
	}

	return core.ParSignedData{SignedData: signed, ShareIdx: label}, m, nil
}

// Wrong-domain variants. Each returns a domain that differs from the object's own domain (ok=false:
// no such domain exists for this object), plus a short description.
var otherDomainVariants = []string{"previous-fork-version", "next-fork-version", "other-domain-type", "other-epoch"}

// siblingDomains: for each domain type, the types of the messages handled right next to it.
var siblingDomains = map[string][]string{
	domProposer:     {domRandao, domAttester},
	domAttester:     {domProposer, domAggProof, domSelection},
	domRandao:       {domProposer},
	domExit:         {domAttester, domBuilder},
	domBuilder:      {domExit, domProposer},
	domSelection:    {domAggProof, domSyncSel},
	domAggProof:     {domSelection, domAttester, domContribution},
	domSyncComm:     {domSyncSel, domContribution, domAttester},
	domSyncSel:      {domSelection, domSyncComm, domContribution},
	domContribution: {domSyncSel, domAggProof, domSyncComm},
}

func (b *builder) otherDomain(in info, variant string, mayCancel bool) (domSpec, string, bool) {
	ch, rng := b.ch, b.rng
	own := ch.ownSpec(in.Domain, in.Epoch)
	ownDom, err := ch.domainOf(own)
	if err != nil {
		return domSpec{}, "", false
	}
	differs := func(ds domSpec) bool {
		d, err := ch.domainOf(ds)
		return err == nil && d != ownDom
	}
	switch variant {
	case "previous-fork-version", "next-fork-version":
		idx := -1
		for i, v := range ch.versions {
			if v == own.Version {
				idx = i
			}
		}
		o := idx + 1
		if variant == "previous-fork-version" {
			o = idx - 1
		}
		if idx < 0 || o < 0 || o >= len(ch.versions) {
			return domSpec{}, "", false
		}
		ds := own
		ds.Version = ch.versions[o]
		if ds.ZeroGVR && rng.Intn(3) == 0 { // builder domain: also with the chain's genesis validators root
			ds.ZeroGVR = false
		}

		return ds, fmt.Sprintf("%s of the fork schedule (%x instead of %x)", variant, ds.Version[:], own.Version[:]), differs(ds)
	case "other-domain-type":
		var cand []string
		for _, n := range ch.domainNames {
			if n != in.Domain {
				cand = append(cand, n)
			}
		}
		ds := own
		ds.Name = cand[rng.Intn(len(cand))]
		if mayCancel && b.dtCursor != nil { // pure class: walk all other types
			ds.Name = cand[int(b.dtCursor.Add(1))%len(cand)]
		} else if sib := siblingDomains[in.Domain]; len(sib) > 0 && rng.Intn(2) == 0 {
			ds.Name = sib[rng.Intn(len(sib))] // the domain types most easily confused with the own one
		}

		return ds, fmt.Sprintf("%s instead of %s (same fork version)", ds.Name, in.Domain), differs(ds)
	case "other-epoch":
		// the domain the fork schedule gives this domain type at another epoch: an epoch the object
		// carries but that does not define its domain (attestation source epoch / slot epoch), a
		// neighbouring epoch, the other side of the nearest fork activation epoch; for exits and
		// builder registrations (whose own domain does not follow the schedule) the schedule's
		// domain at the object's own epoch as well.
		type cnd struct {
			why string
			ds  domSpec
		}
		var cands []cnd
		at := func(why string, e uint64) {
			cands = append(cands, cnd{fmt.Sprintf("%s at %s %d", in.Domain, why, e), domSpec{Name: in.Domain, Version: ch.forkVersion(e)}})
		}
		for _, a := range in.alt {
			at(a.why, a.epoch)
		}
		if in.Epoch > 0 {
			at("own epoch - 1 =", in.Epoch-1)
		}
		at("own epoch + 1 =", in.Epoch+1)
		if e, ok := ch.otherSideOfNearestFork(in.Epoch); ok {
			at("the other side of the nearest fork activation, epoch", e)
		}
		if in.Domain == domExit || in.Domain == domBuilder {
			at("own epoch (plain fork schedule) =", in.Epoch)
			at("epoch", uint64(rng.Intn(60000)))
		}
		var diff []cnd
		for _, c := range cands {
			if differs(c.ds) {
				diff = append(diff, c)
			}
		}
		switch {
		case len(diff) > 0 && len(in.alt) > 0 && differs(cands[0].ds) && rng.Intn(2) == 0:
			return cands[0].ds, cands[0].why, true // attestation: the source epoch's domain
		case mayCancel && rng.Intn(4) == 0:
			c := cands[rng.Intn(len(cands))] // may be the very same domain (neighbour epoch, same fork)
			return c.ds, c.why, true
		case len(diff) > 0:
			c := diff[rng.Intn(len(diff))]
			return c.ds, c.why, true
		}

		return domSpec{}, "", false
	}

	return domSpec{}, "", false
}

func (b *builder) genuine(vi int, obj core.SignedData, id int) (core.ParSignedData, partialMeta, error) {
	return b.partial(obj, b.env.shares[vi][id-1], id, fmt.Sprintf("share %d of validator %d", id, vi), true, id)
}

// withSig replaces the signature of a partial by raw bytes (no longer genuine).
func withSig(p core.ParSignedData, m partialMeta, sig [96]byte, how string) (core.ParSignedData, partialMeta, error) {
	signed, err := p.SignedData.SetSignature(core.Signature(sig[:]))
	if err != nil {
		return p, m, err
	}
	m.SignedBy, m.Sig, m.signed, m.signedSR, m.realShare = how, hx(sig[:]), [32]byte{}, [32]byte{}, 0

	return core.ParSignedData{SignedData: signed, ShareIdx: p.ShareIdx}, m, nil
}

// plan builds the partial list of validator vi for the given class ("valid" or a corruption).
// shared != nil: the validator signs this very object (the same one as other validators of the call).
func (b *builder) plan(vi int, k kind, g *genCtx, class string, ids []int, shared core.SignedData) (*valPlan, error) {
	env, rng := b.env, b.rng
	obj := shared
	if obj == nil {
		var err error
		if obj, err = k.gen(g); err != nil {
			return nil, err
		}
	}
	p := &valPlan{vi: vi, pub: env.pubs[vi], class: class, obj: obj}
	add := func(par core.ParSignedData, m partialMeta, err error) error {
		if err != nil {
			return err
		}
		p.partials = append(p.partials, par)
		p.meta = append(p.meta, m)

		return nil
	}
	baseIn, err := inspect(obj, b.ch.spe)
	if err != nil {
		return nil, err
	}
	baseSR, err := b.ch.signingRoot(baseIn)
	if err != nil {
		return nil, err
	}
	p.objDesc = fmt.Sprintf("%s %s: own domain %s, own epoch %d", baseIn.Type, baseIn.Version, b.ch.ownSpec(baseIn.Domain, baseIn.Epoch), baseIn.Epoch)
	for _, a := range baseIn.alt {
		p.objDesc += fmt.Sprintf(", %s %d (fork version %x)", a.why, a.epoch, b.ch.forkVersion(a.epoch))
	}
	if baseIn.Domain == domAttester && len(baseIn.alt) > 0 {
		p.straddles = b.ch.forkVersion(baseIn.alt[0].epoch) != b.ch.forkVersion(baseIn.Epoch)
		b.c.R.Count("attestation_sets", 1)
		if p.straddles {
			b.c.R.Count("attestation_sets_source_and_target_in_different_forks", 1)
		}
	}
	// other: an object of the same kind whose signing root differs (fresh content or a one-field
	// tweak of the signed content; fresh small objects such as selections can collide, so check).
	other := func() (core.SignedData, error) {
		for attempt := 0; attempt < 20; attempt++ {
			var (
				o   core.SignedData
				err error
			)
			if rng.Intn(2) == 0 {
				o, err = k.gen(g)
			} else {
				o, err = tweak(obj, rng, b.ch.spe)
			}
			if err != nil {
				return nil, err
			}
			in, err := inspect(o, b.ch.spe)
			if err != nil {
				return nil, err
			}
			sr, err := b.ch.signingRoot(in)
			if err != nil {
				return nil, err
			}
			if sr != baseSR {
				return o, nil
			}
		}

		return nil, fmt.Errorf("no object with a different signing root after 20 attempts")
	}

	if class == "too-few" {
		cnt := env.t - 1
		if rng.Intn(4) == 0 {
			cnt = rng.Intn(env.t)
		}
		ids = randSubset(rng, env.n, cnt)
	}
	if class == "repeated-share-in-threshold-size-set" {
		ids = randSubset(rng, env.n, env.t-1)
	}
	for _, id := range ids {
		if err := add(b.genuine(vi, obj, id)); err != nil {
			return nil, err
		}
	}
	p.ids = append([]int(nil), ids...)
	j := 0
	if len(ids) > 0 {
		j = rng.Intn(len(ids))
	}
	used := map[int]bool{}
	for _, id := range ids {
		used[id] = true
	}

	corruptOne := func(class string, j int) error {
		id := ids[j]
		switch class {
		case "wrong-share-key/other-share-same-validator":
			o := 1 + rng.Intn(env.n-1)
			if o >= id {
				o++
			}
			par, m, err := b.partial(obj, env.shares[vi][o-1], id, fmt.Sprintf("share %d of validator %d (labelled %d)", o, vi, id), false, o)
			p.partials[j], p.meta[j] = par, m
			p.note = fmt.Sprintf("position %d signed by share %d", j, o)

			return err
		case "wrong-share-key/same-index-other-validator":
			ov := (vi + 1 + rng.Intn(len(env.pubs)-1)) % len(env.pubs)
			par, m, err := b.partial(obj, env.shares[ov][id-1], id, fmt.Sprintf("share %d of validator %d", id, ov), false, 0)
			p.partials[j], p.meta[j] = par, m
			p.note = fmt.Sprintf("position %d signed by validator %d's share", j, ov)

			return err
		case "wrong-share-key/unrelated-key":
			key, err := tbls.GenerateInsecureKey(b.c.R.T(), rng)
			if err != nil {
				return err
			}
			par, m, err := b.partial(obj, key, id, "unrelated key", false, 0)
			p.partials[j], p.meta[j] = par, m
			p.note = fmt.Sprintf("position %d signed by an unrelated key", j)

			return err
		case "wrong-index-label":
			var cand []int
			for i := 1; i <= env.n; i++ {
				if !used[i] {
					cand = append(cand, i)
				}
			}
			cand = append(cand, env.n+1)
			if rng.Intn(5) == 0 {
				cand = []int{0, -1, 1 << 20, env.n + 2}
			}
			nl := cand[rng.Intn(len(cand))]
			p.partials[j].ShareIdx = nl
			p.meta[j].Label, p.meta[j].signed = nl, [32]byte{}
			p.meta[j].SignedBy += fmt.Sprintf(" (relabelled %d)", nl)
			p.note = fmt.Sprintf("position %d (share %d) relabelled %d", j, id, nl)

			return nil
		case "other-message":
			o, err := other()
			if err != nil {
				return err
			}
			par, m, err := b.genuine(vi, o, id)
			p.partials[j], p.meta[j] = par, m
			p.note = fmt.Sprintf("position %d consistently signs another message", j)

			return err
		case "zero-signature", "zeroed-tail-signature", "garbage-signature", "bit-flipped-signature":
			var sig [96]byte
			copy(sig[:], p.partials[j].Signature())
			switch class {
			case "zero-signature":
				sig = [96]byte{}
			case "zeroed-tail-signature":
				for i := 48 + rng.Intn(40); i < 96; i++ {
					sig[i] = 0
				}
			case "garbage-signature":
				rng.Read(sig[:])
			default:
				sig[rng.Intn(96)] ^= 1 << rng.Intn(8)
			}
			par, m, err := withSig(p.partials[j], p.meta[j], sig, class)
			p.partials[j], p.meta[j] = par, m
			p.note = fmt.Sprintf("position %d carries a %s", j, class)

			return err
		}

		return fmt.Errorf("unknown corruption %s", class)
	}

	switch class {
	case "valid", "too-few":
	case "repeated-share-in-threshold-size-set", "repeated-share-above-threshold":
		p.partials = append(p.partials, p.partials[j])
		p.meta = append(p.meta, p.meta[j])
		p.note = fmt.Sprintf("share %d listed twice", ids[j])
	case "mixed-two-messages":
		o, err := other()
		if err != nil {
			return nil, err
		}
		cnt := 1 + rng.Intn(len(ids)-1) // 1..len-1 partials over the other message
		for _, pos := range rng.Perm(len(ids))[:cnt] {
			par, m, err := b.genuine(vi, o, ids[pos])
			if err != nil {
				return nil, err
			}
			p.partials[pos], p.meta[pos] = par, m
		}
		p.note = fmt.Sprintf("%d of %d partials consistently sign another message", cnt, len(ids))
	case "foreign-validator-set":
		ov := (vi + 1 + rng.Intn(len(env.pubs)-1)) % len(env.pubs)
		for pos, id := range ids {
			par, m, err := b.partial(obj, env.shares[ov][id-1], id, fmt.Sprintf("share %d of validator %d", id, ov), false, 0)
			if err != nil {
				return nil, err
			}
			p.partials[pos], p.meta[pos] = par, m
		}
		p.note = fmt.Sprintf("a fully valid threshold set of validator %d filed under validator %d", ov, vi)
	case "other-domain/previous-fork-version", "other-domain/next-fork-version", "other-domain/other-domain-type", "other-domain/other-epoch", "other-domain/mixed":
		variant := strings.TrimPrefix(class, "other-domain/")
		mixed := variant == "mixed"
		if mixed {
			variant = otherDomainVariants[rng.Intn(len(otherDomainVariants))]
		}
		ds, why, ok := b.otherDomain(baseIn, variant, !mixed)
		if !ok { // e.g. no fork version before the first one: any variant that yields a different domain
			for _, oi := range rng.Perm(len(otherDomainVariants)) {
				if ds, why, ok = b.otherDomain(baseIn, otherDomainVariants[oi], false); ok {
					variant = otherDomainVariants[oi]
					break
				}
			}
		}
		if !ok {
			return nil, fmt.Errorf("no other domain for %s", baseIn.Type)
		}
		positions := rng.Perm(len(ids))
		if mixed {
			positions = positions[:1+rng.Intn(len(ids)-1)] // 1..len-1 partials under the other domain
		} else {
			p.class = "other-domain/" + variant
		}
		for _, pos := range positions {
			id := ids[pos]
			par, m, err := b.partialUnder(obj, env.shares[vi][id-1], id, fmt.Sprintf("share %d of validator %d", id, vi), true, id, &ds)
			if err != nil {
				return nil, err
			}
			p.partials[pos], p.meta[pos] = par, m
		}
		p.note = fmt.Sprintf("%d of %d partials sign the object's own root under another domain: %s", len(positions), len(ids), why)
		b.c.R.Count("other_domain_sets/"+variant, 1)
		b.c.R.Seen("other_domain_variant_by_type", variant+" / "+baseIn.Type)
		if variant == "other-domain-type" {
			b.c.R.Seen("other_domain_type_pairs", baseIn.Type+": "+ds.Name+" instead of "+baseIn.Domain)
		}
		if wd, err := b.ch.domainOf(ds); err == nil && !mixed && baseIn.Domain == domAttester && len(baseIn.alt) > 0 {
			// the decisive shape for a verifier that picks the domain by the wrong checkpoint
			if sd, err := b.ch.domain(domAttester, baseIn.alt[0].epoch); err == nil && sd == wd && p.meta[0].Under != "" {
				b.c.R.Count("other_domain_attestation_sets_under_source_epoch_domain", 1)
			}
		}
	case "two-corruptions":
		simple := []string{"wrong-share-key/other-share-same-validator", "wrong-index-label", "other-message", "zero-signature", "bit-flipped-signature", "wrong-share-key/unrelated-key"}
		perm := rng.Perm(len(ids))
		a, bb := simple[rng.Intn(len(simple))], simple[rng.Intn(len(simple))]
		if err := corruptOne(a, perm[0]); err != nil {
			return nil, err
		}
		n1 := p.note
		if err := corruptOne(bb, perm[1]); err != nil {
			return nil, err
		}
		p.note = a + " + " + bb + ": " + n1 + "; " + p.note
	case "unsigned-content-varies":
		varied := 0
		for pos, id := range ids {
			if rng.Intn(2) == 0 && pos != j {
				continue
			}
			o, ok, err := varyUnsigned(obj, rng)
			if err != nil {
				return nil, err
			}
			if !ok {
				break
			}
			par, m, err := b.genuine(vi, o, id)
			if err != nil {
				return nil, err
			}
			p.partials[pos], p.meta[pos] = par, m
			varied++
		}
		if varied == 0 {
			p.class = "valid"
		}
		p.note = fmt.Sprintf("%d partials differ in content the signature does not cover", varied)
	case "content-swapped-signature-over-common-content":
		switch rng.Intn(3) { // the first and the last partial are the interesting positions
		case 0:
			j = 0
		case 1:
			j = len(ids) - 1
		}
		o, err := other()
		if err != nil {
			return nil, err
		}
		var sig [96]byte
		copy(sig[:], p.partials[j].Signature())
		signed, err := o.SetSignature(core.Signature(sig[:]))
		if err != nil {
			return nil, err
		}
		oin, err := inspect(o, b.ch.spe)
		if err != nil {
			return nil, err
		}
		p.partials[j].SignedData = signed
		p.meta[j].ObjRoot = hx(oin.Root[:]) // the signature still covers the common content
		p.note = fmt.Sprintf("position %d carries other content under a signature over the common content", j)
	case "duplicate-label-conflict":
		var sig [96]byte
		rng.Read(sig[:])
		par, m, err := withSig(p.partials[j], p.meta[j], sig, "garbage-signature")
		if err != nil {
			return nil, err
		}
		pos := rng.Intn(len(p.partials) + 1)
		p.partials = append(p.partials[:pos], append([]core.ParSignedData{par}, p.partials[pos:]...)...)
		p.meta = append(p.meta[:pos], append([]partialMeta{m}, p.meta[pos:]...)...)
		p.note = fmt.Sprintf("label %d appears twice: genuine and garbage (garbage at position %d)", ids[j], pos)
	default:
		if err := corruptOne(class, j); err != nil {
			return nil, err
		}
	}
	// Two corruptions can cancel out (e.g. every partial of a 2-of-3 set tweaked to the same other
	// message is simply a valid set over that message): classify by what was actually built.
	if (isMustError(p.class) || p.class == "two-corruptions") && p.consistentGenuine(env.t) {
		p.note = "reclassified valid (corruptions cancelled out): " + p.note
		p.class = "valid"
		b.c.R.Count("reclassified_valid", 1)
	}

	return p, nil
}

// crossCorrupt applies a cross-validator class to already built valid plans: involved = positions
// of the validators whose lists receive partials made by another involved validator's share of
// the same index over the same object.
func (b *builder) crossCorrupt(plans []*valPlan, involved []int, class string) error {
	rng := b.rng
	// give: dst's partial labelled id now carries the signature src's share id makes over dst's object
	give := func(dst, src *valPlan, id int) error {
		for pos, have := range dst.ids {
			if have != id {
				continue
			}
			par, m, err := b.partial(dst.obj, b.env.shares[src.vi][id-1], id, fmt.Sprintf("share %d of validator %d (filed under validator %d)", id, src.vi, dst.vi), false, 0)
			if err != nil {
				return err
			}
			dst.partials[pos], dst.meta[pos] = par, m

			return nil
		}

		return fmt.Errorf("validator %d has no partial labelled %d", dst.vi, id)
	}
	a := plans[involved[0]]
	ids := append([]int(nil), a.ids...)
	rng.Shuffle(len(ids), func(i, j int) { ids[i], ids[j] = ids[j], ids[i] })
	var idx []int // the share indices whose signatures move
	switch class {
	case "cross-validator/swap-one-index":
		idx = ids[:1]
	case "cross-validator/swap-several-indices":
		if len(ids) < 3 {
			return fmt.Errorf("subset of %d indices is too small for 'several'", len(ids))
		}
		idx = ids[:2+rng.Intn(len(ids)-2)] // 2..len-1
	case "cross-validator/swap-all-indices", "cross-validator/exchange-whole-sets":
		idx = ids
	default: // rotate-three, swap-with-unrelated-third: one, several or all
		idx = ids[:1+rng.Intn(len(ids))]
	}
	sort.Ints(idx)
	for i, pos := range involved {
		dst, src := plans[pos], plans[involved[(i+1)%len(involved)]]
		moved := idx
		if class == "cross-validator/exchange-whole-sets" {
			moved = dst.ids // every partial of dst (its own index subset) is made by src's shares
		}
		for _, id := range moved {
			if err := give(dst, src, id); err != nil {
				return err
			}
		}
		dst.class = class
		dst.note = fmt.Sprintf("partials labelled %v carry the signatures validator %d's shares of the same indices made over the same object", moved, src.vi)
	}
	b.c.R.Count("cross_validator_sets/"+class, 1)

	return nil
}

// consistentGenuine: >= t partials, all signed by the share they are labelled with, over one and
// the same signing root and carrying one and the same signed content, >= t distinct labels.
func (p *valPlan) consistentGenuine(t int) bool {
	if len(p.meta) < t {
		return false
	}
	labels := map[int]bool{}
	for _, m := range p.meta {
		if m.signed == ([32]byte{}) || m.signed != p.meta[0].signed || m.ObjRoot != p.meta[0].ObjRoot {
			return false
		}
		labels[m.Label] = true
	}

	return len(labels) >= t
}

func isMustError(class string) bool {
	if strings.HasPrefix(class, "replayed-first-partial/") || strings.HasPrefix(class, "cross-validator/") {
		return true
	}
	for _, c := range mustErrorClasses {
		if c == class {
			return true
		}
	}

	return class == classZeroDomain
}

func runCase(ctx context.Context, c *kit.Case, ch *chain, mon *monitor, env *clusterEnv, k kind, cursor, dtCursor *atomic.Uint64) {
	r, rng := c.R, c.Rng
	g := &genCtx{t: r.T(), rng: rng, spe: ch.spe, bounds: ch.bounds}
	b := &builder{c: c, ch: ch, env: env, rng: rng, dtCursor: dtCursor}

	// which validators, which class
	nv := 1
	if rng.Intn(2) == 0 {
		nv = 2 + rng.Intn(len(env.pubs)-1)
	}
	// sharedCall: all validators of a multi-validator call sign the SAME object (same signing root
	// and domain, different group keys) - same-slot sync messages, randao of one epoch, selection
	// proofs of one slot, attestations with identical data - mostly with the same share indices.
	sharedCall := nv >= 2 && rng.Intn(100) < 45
	class := "valid"
	switch x := rng.Intn(100); {
	case sharedCall && x < 45:
		class = crossValidatorClasses[rng.Intn(len(crossValidatorClasses))]
	case sharedCall && x < 60:
	case sharedCall && x < 88:
		class = mustErrorPick[rng.Intn(len(mustErrorPick))]
	case sharedCall:
		class = universalOnlyClasses[rng.Intn(len(universalOnlyClasses))]
	case x < 22:
	case x < 78:
		class = mustErrorPick[rng.Intn(len(mustErrorPick))]
	default:
		class = universalOnlyClasses[rng.Intn(len(universalOnlyClasses))]
	}
	cross := strings.HasPrefix(class, "cross-validator/")
	if (class == "cross-validator/rotate-three" || class == "cross-validator/swap-with-unrelated-third") && nv < 3 {
		nv = 3 + rng.Intn(len(env.pubs)-2)
	}
	vis := rng.Perm(len(env.pubs))[:nv]
	victim := rng.Intn(nv)

	// pickIDs: threshold subset of share indices for one validator
	pickIDs := func(cls string) []int {
		var ids []int
		if cls == "valid" && class == "valid" && env.n <= 5 {
			all := subsetsGE(env.n, env.t)
			m := all[int(cursor.Add(1))%len(all)]
			ids = maskIDs(m, env.n)
			rng.Shuffle(len(ids), func(i, j int) { ids[i], ids[j] = ids[j], ids[i] })

			return ids
		}
		size := env.t
		if rng.Intn(2) == 0 {
			size = env.t + rng.Intn(env.n-env.t+1)
		}
		if cls == "repeated-share-above-threshold" || cls == "duplicate-label-conflict" {
			size = env.t + rng.Intn(env.n-env.t+1)
		}
		if cls == "mixed-two-messages" && size < 2 {
			size = 2
		}
		if class == "cross-validator/swap-several-indices" && size < 3 {
			size = 3 // n >= 3 in every cluster
		}

		return randSubset(rng, env.n, size)
	}

	var (
		sharedObj core.SignedData
		sharedIDs []int
		involved  []int // positions (in vis/plans) of the validators a cross-validator class corrupts
		ownObject = map[int]bool{}
	)
	if sharedCall {
		var err error
		if sharedObj, err = k.gen(g); err != nil {
			r.Inconclusive("case %d: generating %s failed: %v", c.Idx, k.name, err)
			return
		}
		// same share-index subset for all validators; exchanged whole sets (and 20% of the other
		// non-cross shared calls) also come with different subsets per validator
		if cross && class != "cross-validator/exchange-whole-sets" || rng.Intn(5) != 0 {
			sharedIDs = pickIDs("valid")
		}
		if cross {
			perm := rng.Perm(nv)
			involved = perm[:2]
			if class == "cross-validator/rotate-three" {
				involved = perm[:3]
			}
			victim = involved[0]
			for _, pos := range perm[len(involved):] { // bystanders: valid, same object or one of their own
				ownObject[pos] = rng.Intn(2) == 0
			}
			if class == "cross-validator/swap-with-unrelated-third" {
				ownObject[perm[2]] = true
			}
		}
	}

	var plans []*valPlan
	var hashParts []any
	for pos, vi := range vis {
		cls := "valid"
		if pos == victim && !cross {
			cls = class
		}
		ids := sharedIDs
		if ids == nil || ownObject[pos] {
			ids = pickIDs(cls)
		} else {
			ids = append([]int(nil), ids...)
			rng.Shuffle(len(ids), func(i, j int) { ids[i], ids[j] = ids[j], ids[i] }) // list order differs per validator
		}
		obj := sharedObj
		if ownObject[pos] {
			obj = nil
		}
		p, err := b.plan(vi, k, g, cls, ids, obj)
		if err != nil {
			r.Inconclusive("case %d: building %s/%s failed: %v", c.Idx, k.name, cls, err)
			return
		}
		if pos == victim && !cross {
			class = p.class // may have fallen back to valid
		}
		plans = append(plans, p)
		if p.class == "valid" && class == "valid" && env.n <= 5 {
			var m uint32
			for _, id := range ids {
				m |= 1 << (id - 1)
			}
			r.Count(fmt.Sprintf("valid_subset/n%d/%s", env.n, maskString(m, env.n)), 1)
		}
	}
	if cross {
		if err := b.crossCorrupt(plans, involved, class); err != nil {
			r.Inconclusive("case %d: building %s/%s failed: %v", c.Idx, k.name, class, err)
			return
		}
		for pos, own := range ownObject {
			if own {
				plans[pos].note = "bystander: correctly signed set over an object of its own (another signing root)"
				r.Count("cross_validator_calls_with_unrelated_bystander", 1)
			} else {
				plans[pos].note = "bystander: correctly signed set over the shared object"
			}
		}
	}
	if sharedCall {
		r.Count("shared_object_calls", 1)
		r.Count(fmt.Sprintf("shared_object_calls/%d-validators", nv), 1)
		r.Seen("shared_object_kinds", k.name)
	}
	set := map[core.PubKey][]core.ParSignedData{}
	for _, p := range plans {
		if len(p.partials) == 0 && rng.Intn(2) == 0 {
			set[p.pub] = nil
		} else {
			set[p.pub] = p.partials
		}
		var labels []int
		for _, m := range p.meta {
			labels = append(labels, m.Label)
		}
		hashParts = append(hashParts, p.vi, p.class, labels, p.note)
	}
	hashParts = append(hashParts, sharedCall)

	// newPlan: beacon-node fault plan of a call (travels in the context; see faults_test.go).
	newPlan := func() *faultPlan {
		if rng.Intn(100) >= 35 {
			return nil
		}
		fp := newFaultPlan(rng)
		hashParts = append(hashParts, fp.String())

		return fp
	}

	// execute performs one Aggregate call and judges it.
	execute := func(set map[core.PubKey][]core.ParSignedData, plans []*valPlan, class string, victim int, fplan *faultPlan) error {
		id := callSeq.Add(1)
		rec := &callRec{}
		mon.calls.Store(id, rec)
		defer mon.calls.Delete(id)
		duty := core.Duty{Slot: id, Type: k.duty}

		callCtx := ctx
		if fplan != nil {
			callCtx = withFaultPlan(ctx, fplan)
		}

		err := env.agg.Aggregate(callCtx, duty, set)
		fired, lookups, lookupOrder := fplan.snapshot()
		faultServed := len(fired) > 0

		rec.mu.Lock()
		pubs := append([]published(nil), rec.pubs...)
		rec.mu.Unlock()

		witness := func(extra map[string]any) map[string]any {
			w := map[string]any{"kind": k.name, "n": env.n, "t": env.t, "class": class, "validators_in_call": len(plans), "corrupted_validator_position": victim, "aggregate_error": fmt.Sprint(err)}
			var vs []map[string]any
			for _, p := range plans {
				vs = append(vs, map[string]any{"validator": p.vi, "group_pubkey": string(p.pub), "class": p.class, "note": p.note, "object": p.objDesc, "partials": p.meta})
			}
			w["validators"] = vs
			if fplan != nil {
				w["beacon_node_faults"] = map[string]any{"rules": fplan.Rules, "lookups_in_order": lookupOrder, "faults_served": fired}
			}
			for k, v := range extra {
				w[k] = v
			}

			return w
		}

		r.Count("calls", 1)
		r.Count("calls/"+class, 1)
		r.Seen("kinds_seen", k.name)
		r.Seen("classes_seen", class)
		r.Seen("cluster_sizes", fmt.Sprintf("n=%d,t=%d", env.n, env.t))

		// Rule 1: an error means nothing at all was published for this call.
		if err != nil && len(pubs) > 0 {
			c.Violation("sigagg/Aggregate/error-but-subscriber-called", fmt.Sprintf("Aggregate returned an error (%s) but subscribers were called %d times for this call", kit.Short(err.Error(), 80), len(pubs)), witness(nil))
		}
		// Rule 2: the listed corruption classes must be refused.
		if isMustError(class) {
			if err == nil {
				c.Violation("sigagg/Aggregate/accepts-corrupt-partials/"+class, "Aggregate returned nil although one validator's partials were corrupted ("+class+")", witness(nil))
			} else {
				r.Count("calls_must_error_rejected", 1)
				if strings.HasPrefix(class, "other-domain/") {
					r.Count("calls_other_domain_rejected", 1)
				}
				if strings.HasPrefix(class, "cross-validator/") {
					r.Count("calls_cross_validator_rejected", 1)
				}
				r.Seen("reject_reasons", class+" => "+reason(err))
			}
		}
		// Rule 3 (universal): whatever was published verifies under the group key for its own signing
		// root and was signed by at least t shares over exactly that root.
		byPub := map[core.PubKey]*valPlan{}
		for _, p := range plans {
			byPub[p.pub] = p
		}
		for _, pb := range pubs {
			for pk, obj := range pb.set {
				p, ok := byPub[pk]
				if !ok {
					c.Violation("sigagg/publish/unknown-validator", "subscriber received an object for a public key that was not part of the call", witness(map[string]any{"pubkey": string(pk)}))
					continue
				}
				in, ierr := inspect(obj, ch.spe)
				if ierr != nil {
					c.Violation("sigagg/publish/unreadable-object", "published object cannot be read: "+ierr.Error(), witness(nil))
					continue
				}
				sr, serr := ch.signingRoot(in)
				if serr != nil {
					r.Inconclusive("case %d: signing root: %v", c.Idx, serr)
					continue
				}
				pw := map[string]any{"published_for": string(pk), "published_type": in.Type, "published_version": in.Version, "published_object_root": hx(in.Root[:]),
					"published_domain": in.Domain, "published_epoch": in.Epoch, "published_signing_root": hx(sr[:]), "published_signature": hx(in.Sig[:]), "subscriber": pb.sub}
				if verr := tbls.Verify(env.groups[p.vi], sr[:], tbls.Signature(in.Sig)); verr != nil {
					c.Violation("sigagg/publish/signature-invalid-under-group-key/"+class, fmt.Sprintf("published %s does not verify under the validator's group public key for its own signing root/domain/epoch: %v", in.Type, verr), witness(pw))
				}
				signers := map[int]bool{}
				for _, m := range p.meta {
					if m.realShare != 0 && m.signedSR == sr {
						signers[m.realShare] = true
					}
				}
				if len(signers) < env.t {
					c.Violation("sigagg/publish/content-not-signed-by-threshold/"+class, fmt.Sprintf("published %s has a content/signing root that only %d < t=%d of the validator's shares signed among the supplied partials", in.Type, len(signers), env.t), witness(pw))
				}
				r.Count("published_objects_verified", 1)
				r.Count("published/"+in.Type, 1)
			}
		}
		allValid := true
		for _, p := range plans {
			allValid = allValid && p.class == "valid"
		}
		// fault accounting: by endpoint/mode and outcome
		if fplan != nil {
			outcome := "published"
			if err != nil {
				outcome = "error"
			}
			group := "universal-only"
			switch {
			case allValid:
				group = "valid"
			case isMustError(class):
				group = "must-error"
			}
			r.Count("fault_plan_calls", 1)
			for ep, n := range lookups {
				if ep != epAny {
					r.Count("verifier_lookups_under_plan/"+ep, int64(n))
				}
			}
			if faultServed {
				r.Count("fault_served_calls", 1)
				r.Count("fault_served_calls/"+group+"/"+outcome, 1)
				if !allValid {
					r.Count("fault_served_calls_with_corruption", 1)
				}
				for key, n := range fired {
					r.Count("faults_served/"+key, int64(n))
					r.Count("fault_outcome/"+key+"/"+group+"/"+outcome, 1)
				}
			} else {
				r.Count("fault_plan_never_triggered_calls", 1)
			}
		}
		switch {
		case allValid && err == nil && len(pubs) > 0:
			r.Count("calls_valid_published", 1)
			if sharedCall {
				r.Count("shared_object_valid_calls_published", 1)
			}
			for _, p := range plans {
				if p.straddles {
					r.Count("valid_published_attestations_source_and_target_in_different_forks", 1)
				}
			}
		case allValid && err != nil && faultServed:
			// a valid call may fail when a lookup it needs was refused: either outcome is fine
			r.Count("calls_valid_rejected_by_injected_fault", 1)
		case allValid && err != nil:
			r.Count("calls_valid_rejected", 1)
			r.Inconclusive("case %d: a correctly signed threshold set (%s, n=%d) was rejected: %v", c.Idx, k.name, env.n, err)
		case !isMustError(class) && !allValid:
			r.Count("calls_universal_only", 1)
			if err == nil {
				r.Count("universal_only_published/"+class, 1)
				if class == "two-corruptions" {
					r.Seen("two_corruptions_published", plans[victim].note)
				}
			} else {
				r.Count("universal_only_rejected/"+class, 1)
			}
		}

		if c.Idx == 3 || c.Idx == 45 || c.Idx == 101 {
			r.Sample(witness(map[string]any{"published_calls": len(pubs)}))
		}

		return err
	}

	// Concurrent first use of a signing domain. One Aggregator serves all validators and duties of
	// a node, so calls overlap; the first verification for a (domain type, epoch) is the one that has
	// to ask the beacon node. Here that first, correctly signed call is held inside its beacon-node
	// Domain query (gate in the harness' beacon client), and while it waits a second call for ANOTHER
	// validator arrives whose partials are genuine share signatures over the same object wrapped with
	// the all-zero domain - what an announced-but-not-yet-filled domain value looks like. Whatever the
	// overlap, it must be refused and nothing of it published; the first call must still succeed
	// (seeded change C09-r8: a verifier-side domain cache handing out its zero placeholder).
	if class == "valid" && len(env.pubs) > len(plans) && plans[0].obj != nil && rng.Intn(100) < 40 {
		used := map[int]bool{}
		for _, p := range plans {
			used[p.vi] = true
		}
		vB := -1
		for _, vi := range rng.Perm(len(env.pubs)) {
			if !used[vi] {
				vB = vi
				break
			}
		}
		idsB := randSubset(rng, env.n, env.t)
		pB := &valPlan{vi: vB, pub: env.pubs[vB], class: classZeroDomain, obj: plans[0].obj, ids: idsB,
			note: "genuine threshold shares of this validator over the first call's object wrapped with the all-zero domain, submitted while the first call waits for the beacon node's Domain answer"}
		okB := true
		for _, id := range idsB {
			par, m, err := b.partialUnder(plans[0].obj, env.shares[vB][id-1], id, fmt.Sprintf("share %d of validator %d", id, vB), true, id, &domSpec{Zero: true})
			if err != nil {
				okB = false
				break
			}
			pB.partials, pB.meta = append(pB.partials, par), append(pB.meta, m)
		}
		if okB {
			gp := newGatePlan()
			doneA := make(chan error, 1)
			go func() { doneA <- execute(set, plans, class, victim, gp) }()
			inWindow := false
			select {
			case <-gp.entered:
				inWindow = true
			case err := <-doneA: // no beacon-node domain query in this call: nothing to overlap with
				doneA <- err
			}
			if inWindow {
				_ = execute(map[core.PubKey][]core.ParSignedData{pB.pub: pB.partials}, []*valPlan{pB}, classZeroDomain, 0, nil)
				r.Count("concurrent_first_use_trials", 1)
				r.Seen("concurrent_first_use_kinds", k.name)
			} else {
				r.Count("concurrent_first_use_trials_without_domain_query", 1)
			}
			close(gp.release)
			firstErrA := <-doneA
			if inWindow && firstErrA != nil {
				r.Count("concurrent_first_use_first_call_failed", 1)
			}
			c.NonTrivial(kit.Hash(k.name, env.n, "concurrent-first-use", victim, hashParts))

			return
		}
	}

	firstErr := execute(set, plans, class, victim, newPlan())

	// History: a verified aggregate must not vouch for a later one. Replay the call with the very
	// same first partial (object, label and signature) for one validator but another partial now
	// signed by an unrelated key: must be refused although an identical head was verified a moment ago.
	if class == "valid" && firstErr == nil && rng.Intn(100) < 30 {
		vp := rng.Intn(len(plans))
		var plans2 []*valPlan
		set2 := map[core.PubKey][]core.ParSignedData{}
		for i, p := range plans {
			q := *p
			q.partials = append([]core.ParSignedData(nil), p.partials...)
			q.meta = append([]partialMeta(nil), p.meta...)
			if i == vp {
				pos := 1 + rng.Intn(len(q.partials)-1)
				key, kerr := tbls.GenerateInsecureKey(r.T(), rng)
				if kerr != nil {
					r.Inconclusive("case %d: %v", c.Idx, kerr)
					return
				}
				par, m, perr := b.partial(q.partials[pos].SignedData, key, q.partials[pos].ShareIdx, "unrelated key", false, 0)
				if perr != nil {
					r.Inconclusive("case %d: %v", c.Idx, perr)
					return
				}
				q.partials[pos], q.meta[pos] = par, m
				q.class = "replayed-first-partial/wrong-share-key"
				q.note = fmt.Sprintf("same first partial as the call verified just before; position %d now signed by an unrelated key", pos)
			}
			plans2 = append(plans2, &q)
			set2[q.pub] = q.partials
		}
		_ = execute(set2, plans2, "replayed-first-partial/wrong-share-key", vp, newPlan())
		r.Count("replay_followup_calls", 1)
	}

	c.NonTrivial(kit.Hash(k.name, env.n, class, victim, hashParts))
}

// reason reduces an error to its stable leading part (no keys, no hex).
func reason(err error) string {
	s := err.Error()
	for _, cut := range []string{" 0x", "err bls"} {
		if i := strings.Index(s, cut); i > 0 {
			s = s[:i]
		}
	}
	// drop trailing hex blobs of herumi errors
	f := strings.Fields(s)
	var out []string
	for _, w := range f {
		if len(w) > 24 {
			continue
		}
		out = append(out, w)
	}

	return kit.Short(strings.Join(out, " "), 90)
}
