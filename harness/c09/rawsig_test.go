package c09

// Raw signatures. Every typed duty object carries a fixed 96-byte signature, so "a truncated
// partial" can only reach the aggregator as a bare core.Signature value (the signature-only data
// type; its length is whatever the sender put on the wire). The aggregator accepts any verification
// function; this world gives it one that checks the aggregate under the group key for a known
// message, and feeds threshold sets in which exactly one partial has the wrong LENGTH: a genuine
// share signature with bytes appended, or one cut short (also where the dropped tail is all zero
// bytes, which a zero-padding conversion would silently repair).

import (
	"context"
	"fmt"
	"sync"

	"github.com/obolnetwork/charon/core"
	"github.com/obolnetwork/charon/core/sigagg"
	"github.com/obolnetwork/charon/tbls"

	"verifharness/kit"
)

func runRawSignatures(ctx context.Context, r *kit.Run) {
	rng := r.Rand(-1, 91)
	rounds := 12
	if r.Thorough() {
		rounds = 120
	}
	for round := 0; round < rounds; round++ {
		n := 3 + rng.Intn(4)
		t := (2*n + 2) / 3
		secret, err := tbls.GenerateSecretKey()
		if err != nil {
			r.Inconclusive("raw signatures: key: %v", err)
			return
		}
		group, _ := tbls.SecretToPublicKey(secret)
		shares, err := tbls.ThresholdSplit(secret, uint(n), uint(t))
		if err != nil {
			r.Inconclusive("raw signatures: split: %v", err)
			return
		}
		// a message for which some share's signature ends in a zero byte (1 in 256 per share): search a few hundred
		var msg []byte
		zeroTail := 0
		sigs := map[int]tbls.Signature{}
		for try := 0; try < 400; try++ {
			m := make([]byte, 32)
			rng.Read(m)
			cur := map[int]tbls.Signature{}
			zt := 0
			for id, sh := range shares {
				s, err := tbls.Sign(sh, m)
				if err != nil {
					r.Inconclusive("raw signatures: sign: %v", err)
					return
				}
				cur[id] = s
				if s[95] == 0 {
					zt = id
				}
			}
			if msg == nil || zt != 0 {
				msg, sigs, zeroTail = m, cur, zt
			}
			if zt != 0 {
				break
			}
		}
		var mu sync.Mutex
		published := 0
		agg, err := sigagg.New(t, func(_ context.Context, pk core.PubKey, data core.SignedData) error {
			g, err := pk.Bytes()
			if err != nil {
				return err
			}
			var gp tbls.PublicKey
			copy(gp[:], g)
			var s tbls.Signature
			if len(data.Signature()) != len(s) {
				return fmt.Errorf("aggregate of %d bytes", len(data.Signature()))
			}
			copy(s[:], data.Signature())

			return tbls.Verify(gp, msg, s)
		})
		if err != nil {
			r.Inconclusive("raw signatures: sigagg.New: %v", err)
			return
		}
		agg.Subscribe(func(context.Context, core.Duty, core.SignedDataSet) error {
			mu.Lock()
			published++
			mu.Unlock()

			return nil
		})
		pk := core.PubKeyFrom48Bytes(group)
		ids := rng.Perm(n)[:t]
		build := func(bad int, mut func([]byte) []byte) []core.ParSignedData {
			var out []core.ParSignedData
			for k, i := range ids {
				s := sigs[i+1]
				b := append([]byte(nil), s[:]...)
				if k == bad {
					b = mut(b)
				}
				out = append(out, core.NewPartialSignature(core.Signature(b), i+1))
			}

			return out
		}
		call := func(class string, pars []core.ParSignedData, mustFail bool) {
			mu.Lock()
			before := published
			mu.Unlock()
			err := agg.Aggregate(ctx, core.NewSignatureDuty(uint64(1000+round)), map[core.PubKey][]core.ParSignedData{pk: pars})
			mu.Lock()
			pub := published - before
			mu.Unlock()
			r.Count("raw_signature_calls/"+class, 1)
			switch {
			case !mustFail && (err != nil || pub != 1):
				r.Inconclusive("raw signatures: a genuine threshold set of bare signatures was not published (err=%v, published=%d): the world is vacuous", err, pub)
			case mustFail && (err == nil || pub != 0):
				r.Violation(-1, "sigagg/Aggregate/accepts-corrupt-partials/partial-of-wrong-length/"+class,
					fmt.Sprintf("a threshold set in which one partial signature is not 96 bytes long (%s) was aggregated: err=%v, subscriber calls=%d (n=%d t=%d)", class, err, pub, n, t),
					map[string]any{"class": class, "n": n, "threshold": t, "error": fmt.Sprint(err), "subscriber_calls": pub})
			}
		}
		call("genuine", build(-1, nil), false)
		bad := rng.Intn(t)
		call("trailing-bytes", build(bad, func(b []byte) []byte { return append(b, byte(1+rng.Intn(255)), byte(rng.Intn(256))) }), true)
		call("trailing-zero-bytes", build(bad, func(b []byte) []byte { return append(b, 0, 0, 0) }), true)
		call("truncated", build(bad, func(b []byte) []byte { return b[:95-rng.Intn(40)] }), true)
		call("empty", build(bad, func([]byte) []byte { return nil }), true)
		if zeroTail != 0 {
			for k, i := range ids {
				if i+1 == zeroTail {
					call("truncated-where-the-dropped-tail-is-zero", build(k, func(b []byte) []byte { return b[:95] }), true)
				}
			}
			r.Count("raw_signature_rounds_with_a_share_signature_ending_in_zero", 1)
		}
	}
}
