package c09

// Aged process: whatever the verification path remembers between calls (decoded keys, domains,
// verified heads) is bounded, so a long-running node has seen more distinct public keys than any
// such memory holds. The phase runs after the ordinary cases: it makes the process verify against
// K fresh public keys in a fixed order, then asks, for early keys A (and the clusters' validator
// keys, which the cases above used), whether a signature made by ANY later key B is now accepted
// under A. Every accepted pair is turned into the property's own event: an Aggregate call for
// validator A whose partials were all made by shares of B.

import (
	"context"
	"fmt"
	"sync"
	"sync/atomic"

	eth2p0 "github.com/attestantio/go-eth2-client/spec/phase0"

	"github.com/obolnetwork/charon/core"
	"github.com/obolnetwork/charon/core/sigagg"
	"github.com/obolnetwork/charon/eth2util"
	"github.com/obolnetwork/charon/tbls"

	"verifharness/kit"
)

type agedKey struct {
	sk  tbls.PrivateKey
	pk  tbls.PublicKey
	sig tbls.Signature
}

func runAgedProcess(ctx context.Context, r *kit.Run, ch *chain, mon *monitor, clusters []*clusterEnv, newAgg func(t int) (*sigagg.Aggregator, error)) {
	K, early := 4600, 10
	if r.Thorough() {
		K, early = 20000, 40
	}
	msg := []byte("verif C09 aged process message..")
	keys := make([]agedKey, K)
	var wg sync.WaitGroup
	var genErr atomic.Value
	// secret keys on one goroutine: herumi's random source is not safe for concurrent use
	for i := range keys {
		sk, err := tbls.GenerateSecretKey()
		if err != nil {
			r.Inconclusive("aged process: key generation: %v", err)
			return
		}
		keys[i].sk = sk
	}
	for w := 0; w < 16; w++ {
		wg.Add(1)
		go func(w int) {
			defer wg.Done()
			for i := w; i < K; i += 16 {
				sk := keys[i].sk
				pk, err := tbls.SecretToPublicKey(sk)
				if err != nil {
					genErr.Store(err)
					return
				}
				sig, err := tbls.Sign(sk, msg)
				if err != nil {
					genErr.Store(err)
					return
				}
				keys[i] = agedKey{sk, pk, sig}
			}
		}(w)
	}
	wg.Wait()
	if err, _ := genErr.Load().(error); err != nil {
		r.Inconclusive("aged process: key generation: %v", err)
		return
	}
	// ageing, in a fixed order on one goroutine
	for i := range keys {
		if err := tbls.Verify(keys[i].pk, msg, keys[i].sig); err != nil {
			r.Inconclusive("aged process: a fresh key's own signature does not verify: %v", err)
			return
		}
	}
	r.Count("aged_process_distinct_public_keys_verified", int64(K))

	// victims: the earliest fresh keys and the validators' group keys used by the cases above
	type victim struct {
		name string
		pk   tbls.PublicKey
		from int // later keys to try start here
	}
	var victims []victim
	for j := 0; j < early; j++ {
		victims = append(victims, victim{fmt.Sprintf("fresh-key-%d", j), keys[j].pk, j + 1})
	}
	for _, env := range clusters {
		for vi, g := range env.groups[:1] {
			victims = append(victims, victim{fmt.Sprintf("cluster-n%d-validator-%d", env.n, vi), g, 0})
		}
	}
	type hit struct {
		v victim
		b int
	}
	var hits []hit
	var hmu sync.Mutex
	var probes atomic.Int64
	for _, v := range victims {
		for w := 0; w < 16; w++ {
			wg.Add(1)
			go func(v victim, w int) {
				defer wg.Done()
				for i := v.from + w; i < K; i += 16 {
					probes.Add(1)
					if tbls.Verify(v.pk, msg, keys[i].sig) == nil {
						hmu.Lock()
						hits = append(hits, hit{v, i})
						hmu.Unlock()
					}
				}
			}(v, w)
		}
		wg.Wait()
	}
	r.Count("aged_process_foreign_signature_probes", probes.Load())
	r.Count("aged_process_victim_keys", int64(len(victims)))

	// every accepted pair becomes an Aggregate call: validator A, partials by shares of B
	for k, h := range hits {
		if k >= 3 {
			break
		}
		const n, t = 4, 3
		agg, err := newAgg(t)
		if err != nil {
			r.Inconclusive("aged process: sigagg.New: %v", err)
			return
		}
		shares, err := tbls.ThresholdSplit(keys[h.b].sk, n, t)
		if err != nil {
			r.Inconclusive("aged process: split: %v", err)
			return
		}
		epoch := eth2p0.Epoch(3)
		obj := core.SignedRandao{SignedEpoch: eth2util.SignedEpoch{Epoch: epoch}}
		in, err := inspect(obj, ch.spe)
		if err != nil {
			r.Inconclusive("aged process: inspect: %v", err)
			return
		}
		root, err := ch.signingRoot(in)
		if err != nil {
			r.Inconclusive("aged process: signing root: %v", err)
			return
		}
		var pars []core.ParSignedData
		for id := 1; id <= t; id++ {
			sig, err := tbls.Sign(shares[id], root[:])
			if err != nil {
				r.Inconclusive("aged process: sign: %v", err)
				return
			}
			pars = append(pars, core.NewPartialSignedRandao(epoch, eth2p0.BLSSignature(sig), id))
		}
		slot := 1<<40 + callSeq.Add(1)
		rec := &callRec{}
		mon.calls.Store(slot, rec)
		agg.Subscribe(mon.subscriber(0))
		pubA := core.PubKeyFrom48Bytes(h.v.pk)
		aerr := agg.Aggregate(ctx, core.NewRandaoDuty(slot), map[core.PubKey][]core.ParSignedData{pubA: pars})
		rec.mu.Lock()
		npub := len(rec.pubs)
		rec.mu.Unlock()
		w := map[string]any{"validator": h.v.name, "group_public_key": hx(h.v.pk[:]), "partials_signed_by_shares_of": fmt.Sprintf("fresh key #%d %s", h.b, hx(keys[h.b].pk[:])),
			"distinct_public_keys_verified_before": K, "aggregate_error": fmt.Sprint(aerr), "subscriber_calls": npub}
		if aerr == nil || npub > 0 {
			r.Violation(-1, "sigagg/publish/signature-invalid-under-group-key/wrong-share-key/process-that-verified-many-distinct-public-keys",
				fmt.Sprintf("after the process had verified against %d distinct public keys, Aggregate for %s accepted and published a randao reveal whose %d partials were all made by shares of ANOTHER key (fresh key #%d): err=%v, subscriber calls=%d", K, h.v.name, t, h.b, aerr, npub), w)
		} else {
			r.Violation(-1, "sigagg/verifier/group-key-check-accepts-foreign-signature/process-that-verified-many-distinct-public-keys",
				fmt.Sprintf("after %d distinct public keys, the check sigagg's verifier relies on (tbls.Verify) accepts a signature by fresh key #%d under the group key of %s (the Aggregate call built from the pair was refused: %v)", K, h.b, h.v.name, aerr), w)
		}
	}
}
