package c09

import (
	"encoding/binary"
	"fmt"
	"math/rand"
	"testing"

	eth2api "github.com/attestantio/go-eth2-client/api"
	eth2v1 "github.com/attestantio/go-eth2-client/api/v1"
	eth2bellatrix "github.com/attestantio/go-eth2-client/api/v1/bellatrix"
	eth2capella "github.com/attestantio/go-eth2-client/api/v1/capella"
	eth2deneb "github.com/attestantio/go-eth2-client/api/v1/deneb"
	eth2electra "github.com/attestantio/go-eth2-client/api/v1/electra"
	eth2fulu "github.com/attestantio/go-eth2-client/api/v1/fulu"
	eth2spec "github.com/attestantio/go-eth2-client/spec"
	"github.com/attestantio/go-eth2-client/spec/altair"
	"github.com/attestantio/go-eth2-client/spec/bellatrix"
	"github.com/attestantio/go-eth2-client/spec/capella"
	"github.com/attestantio/go-eth2-client/spec/deneb"
	"github.com/attestantio/go-eth2-client/spec/electra"
	eth2p0 "github.com/attestantio/go-eth2-client/spec/phase0"

	"github.com/obolnetwork/charon/core"
	"github.com/obolnetwork/charon/testutil"
)

// Domain names as the consensus / builder specs spell them (keys of the beacon node's spec map).
const (
	domProposer     = "DOMAIN_BEACON_PROPOSER"
	domAttester     = "DOMAIN_BEACON_ATTESTER"
	domRandao       = "DOMAIN_RANDAO"
	domExit         = "DOMAIN_VOLUNTARY_EXIT"
	domBuilder      = "DOMAIN_APPLICATION_BUILDER"
	domSelection    = "DOMAIN_SELECTION_PROOF"
	domAggProof     = "DOMAIN_AGGREGATE_AND_PROOF"
	domSyncComm     = "DOMAIN_SYNC_COMMITTEE"
	domSyncSel      = "DOMAIN_SYNC_COMMITTEE_SELECTION_PROOF"
	domContribution = "DOMAIN_CONTRIBUTION_AND_PROOF"
)

type hasher interface{ HashTreeRoot() ([32]byte, error) }

// info is the harness' own reading of a signed object: what is signed (object root), under which
// domain and epoch, and the signature it carries. Nothing here calls the object's own
// MessageRoot/DomainName/Epoch methods (those are what the aggregator's verifier uses).
type info struct {
	Type    string
	Version string
	Root    [32]byte
	Domain  string
	Epoch   uint64
	Sig     [96]byte

	// alt: other epochs the object carries that do NOT define its signing domain (attestation:
	// source checkpoint epoch, epoch of data.slot). Used only to build wrong-domain partials.
	alt []altEpoch
}

type altEpoch struct {
	why   string
	epoch uint64
}

func uint64Root(v uint64) [32]byte { // hash_tree_root(uint64)
	var r [32]byte
	binary.LittleEndian.PutUint64(r[:8], v)

	return r
}

// propView gives access to the signed message of a versioned proposal.
type propView struct {
	msg  hasher
	slot *eth2p0.Slot
	sig  *eth2p0.BLSSignature
	ver  string
}

func viewProposal(p *eth2api.VersionedSignedProposal) (propView, error) {
	nilErr := fmt.Errorf("proposal %v blinded=%v without payload", p.Version, p.Blinded)
	ver := p.Version.String()
	if p.Blinded {
		ver += "-blinded"
	}
	switch p.Version {
	case eth2spec.DataVersionPhase0:
		if p.Phase0 == nil || p.Phase0.Message == nil {
			return propView{}, nilErr
		}

		return propView{p.Phase0.Message, &p.Phase0.Message.Slot, &p.Phase0.Signature, ver}, nil
	case eth2spec.DataVersionAltair:
		if p.Altair == nil || p.Altair.Message == nil {
			return propView{}, nilErr
		}

		return propView{p.Altair.Message, &p.Altair.Message.Slot, &p.Altair.Signature, ver}, nil
	case eth2spec.DataVersionBellatrix:
		if p.Blinded {
			if p.BellatrixBlinded == nil || p.BellatrixBlinded.Message == nil {
				return propView{}, nilErr
			}

			return propView{p.BellatrixBlinded.Message, &p.BellatrixBlinded.Message.Slot, &p.BellatrixBlinded.Signature, ver}, nil
		}
		if p.Bellatrix == nil || p.Bellatrix.Message == nil {
			return propView{}, nilErr
		}

		return propView{p.Bellatrix.Message, &p.Bellatrix.Message.Slot, &p.Bellatrix.Signature, ver}, nil
	case eth2spec.DataVersionCapella:
		if p.Blinded {
			if p.CapellaBlinded == nil || p.CapellaBlinded.Message == nil {
				return propView{}, nilErr
			}

			return propView{p.CapellaBlinded.Message, &p.CapellaBlinded.Message.Slot, &p.CapellaBlinded.Signature, ver}, nil
		}
		if p.Capella == nil || p.Capella.Message == nil {
			return propView{}, nilErr
		}

		return propView{p.Capella.Message, &p.Capella.Message.Slot, &p.Capella.Signature, ver}, nil
	case eth2spec.DataVersionDeneb:
		if p.Blinded {
			if p.DenebBlinded == nil || p.DenebBlinded.Message == nil {
				return propView{}, nilErr
			}

			return propView{p.DenebBlinded.Message, &p.DenebBlinded.Message.Slot, &p.DenebBlinded.Signature, ver}, nil
		}
		if p.Deneb == nil || p.Deneb.SignedBlock == nil || p.Deneb.SignedBlock.Message == nil {
			return propView{}, nilErr
		}

		return propView{p.Deneb.SignedBlock.Message, &p.Deneb.SignedBlock.Message.Slot, &p.Deneb.SignedBlock.Signature, ver}, nil
	case eth2spec.DataVersionElectra:
		if p.Blinded {
			if p.ElectraBlinded == nil || p.ElectraBlinded.Message == nil {
				return propView{}, nilErr
			}

			return propView{p.ElectraBlinded.Message, &p.ElectraBlinded.Message.Slot, &p.ElectraBlinded.Signature, ver}, nil
		}
		if p.Electra == nil || p.Electra.SignedBlock == nil || p.Electra.SignedBlock.Message == nil {
			return propView{}, nilErr
		}

		return propView{p.Electra.SignedBlock.Message, &p.Electra.SignedBlock.Message.Slot, &p.Electra.SignedBlock.Signature, ver}, nil
	case eth2spec.DataVersionFulu:
		if p.Blinded {
			if p.FuluBlinded == nil || p.FuluBlinded.Message == nil {
				return propView{}, nilErr
			}

			return propView{p.FuluBlinded.Message, &p.FuluBlinded.Message.Slot, &p.FuluBlinded.Signature, ver}, nil
		}
		if p.Fulu == nil || p.Fulu.SignedBlock == nil || p.Fulu.SignedBlock.Message == nil {
			return propView{}, nilErr
		}

		return propView{p.Fulu.SignedBlock.Message, &p.Fulu.SignedBlock.Message.Slot, &p.Fulu.SignedBlock.Signature, ver}, nil
	default:
		return propView{}, fmt.Errorf("unknown proposal version %v", p.Version)
	}
}

// attView gives access to the attestation data and signature of a versioned attestation.
type attView struct {
	data *eth2p0.AttestationData
	sig  *eth2p0.BLSSignature
	p0   *eth2p0.Attestation
	el   *electra.Attestation
}

func viewAttestation(a *eth2spec.VersionedAttestation) (attView, error) {
	var p0 *eth2p0.Attestation
	var el *electra.Attestation
	switch a.Version {
	case eth2spec.DataVersionPhase0:
		p0 = a.Phase0
	case eth2spec.DataVersionAltair:
		p0 = a.Altair
	case eth2spec.DataVersionBellatrix:
		p0 = a.Bellatrix
	case eth2spec.DataVersionCapella:
		p0 = a.Capella
	case eth2spec.DataVersionDeneb:
		p0 = a.Deneb
	case eth2spec.DataVersionElectra:
		el = a.Electra
	case eth2spec.DataVersionFulu:
		el = a.Fulu
	default:
		return attView{}, fmt.Errorf("unknown attestation version %v", a.Version)
	}
	switch {
	case p0 != nil && p0.Data != nil && p0.Data.Target != nil:
		return attView{p0.Data, &p0.Signature, p0, nil}, nil
	case el != nil && el.Data != nil && el.Data.Target != nil:
		return attView{el.Data, &el.Signature, nil, el}, nil
	default:
		return attView{}, fmt.Errorf("attestation %v without payload", a.Version)
	}
}

// aggView gives access to the message of a versioned signed aggregate-and-proof.
type aggView struct {
	msg    hasher
	slot   eth2p0.Slot
	aggIdx *eth2p0.ValidatorIndex
	sig    *eth2p0.BLSSignature
}

func viewAggregate(a *eth2spec.VersionedSignedAggregateAndProof) (aggView, error) {
	var p0 *eth2p0.SignedAggregateAndProof
	var el *electra.SignedAggregateAndProof
	switch a.Version {
	case eth2spec.DataVersionPhase0:
		p0 = a.Phase0
	case eth2spec.DataVersionAltair:
		p0 = a.Altair
	case eth2spec.DataVersionBellatrix:
		p0 = a.Bellatrix
	case eth2spec.DataVersionCapella:
		p0 = a.Capella
	case eth2spec.DataVersionDeneb:
		p0 = a.Deneb
	case eth2spec.DataVersionElectra:
		el = a.Electra
	case eth2spec.DataVersionFulu:
		el = a.Fulu
	default:
		return aggView{}, fmt.Errorf("unknown aggregate version %v", a.Version)
	}
	switch {
	case p0 != nil && p0.Message != nil && p0.Message.Aggregate != nil && p0.Message.Aggregate.Data != nil:
		return aggView{p0.Message, p0.Message.Aggregate.Data.Slot, &p0.Message.AggregatorIndex, &p0.Signature}, nil
	case el != nil && el.Message != nil && el.Message.Aggregate != nil && el.Message.Aggregate.Data != nil:
		return aggView{el.Message, el.Message.Aggregate.Data.Slot, &el.Message.AggregatorIndex, &el.Signature}, nil
	default:
		return aggView{}, fmt.Errorf("aggregate %v without payload", a.Version)
	}
}

// inspect reads a signed object the way the consensus specs define its signing: object root,
// domain name, epoch, signature. spe = SLOTS_PER_EPOCH of the chain.
func inspect(obj core.SignedData, spe uint64) (info, error) {
	var (
		in  info
		err error
	)
	switch o := obj.(type) {
	case core.VersionedSignedProposal:
		v, verr := viewProposal(&o.VersionedSignedProposal)
		if verr != nil {
			return in, verr
		}
		in.Type, in.Version, in.Domain = "VersionedSignedProposal", v.ver, domProposer
		in.Root, err = v.msg.HashTreeRoot()
		in.Epoch = uint64(*v.slot) / spe
		in.Sig = *v.sig
	case core.VersionedAttestation:
		v, verr := viewAttestation(&o.VersionedAttestation)
		if verr != nil {
			return in, verr
		}
		in.Type, in.Version, in.Domain = "VersionedAttestation", o.Version.String(), domAttester
		in.Root, err = v.data.HashTreeRoot()
		in.Epoch = uint64(v.data.Target.Epoch) // phase0 spec: get_domain(state, DOMAIN_BEACON_ATTESTER, data.target.epoch)
		in.Sig = *v.sig
		if v.data.Source != nil {
			in.alt = append(in.alt, altEpoch{"source checkpoint epoch", uint64(v.data.Source.Epoch)})
		}
		in.alt = append(in.alt, altEpoch{"epoch of data.slot", uint64(v.data.Slot) / spe})
	case core.SignedVoluntaryExit:
		if o.Message == nil {
			return in, fmt.Errorf("exit without message")
		}
		in.Type, in.Domain = "SignedVoluntaryExit", domExit
		in.Root, err = o.Message.HashTreeRoot()
		in.Epoch = uint64(o.Message.Epoch)
		in.Sig = o.SignedVoluntaryExit.Signature
	case core.VersionedSignedValidatorRegistration:
		if o.Version != eth2spec.BuilderVersionV1 || o.V1 == nil || o.V1.Message == nil {
			return in, fmt.Errorf("registration without v1 payload")
		}
		in.Type, in.Version, in.Domain = "VersionedSignedValidatorRegistration", "v1", domBuilder
		in.Root, err = o.V1.Message.HashTreeRoot()
		in.Epoch = 0
		in.Sig = o.V1.Signature
	case core.SignedRandao:
		in.Type, in.Domain = "SignedRandao", domRandao
		in.Root = uint64Root(uint64(o.SignedEpoch.Epoch))
		in.Epoch = uint64(o.SignedEpoch.Epoch)
		in.Sig = o.SignedEpoch.Signature
	case core.BeaconCommitteeSelection:
		in.Type, in.Domain = "BeaconCommitteeSelection", domSelection
		in.Root = uint64Root(uint64(o.Slot))
		in.Epoch = uint64(o.Slot) / spe
		in.Sig = o.SelectionProof
	case core.SyncCommitteeSelection:
		in.Type, in.Domain = "SyncCommitteeSelection", domSyncSel
		in.Root, err = (&altair.SyncAggregatorSelectionData{Slot: o.Slot, SubcommitteeIndex: o.SubcommitteeIndex}).HashTreeRoot()
		in.Epoch = uint64(o.Slot) / spe
		in.Sig = o.SelectionProof
	case core.SignedAggregateAndProof:
		if o.Message == nil || o.Message.Aggregate == nil || o.Message.Aggregate.Data == nil {
			return in, fmt.Errorf("aggregate and proof without payload")
		}
		in.Type, in.Domain = "SignedAggregateAndProof", domAggProof
		in.Root, err = o.Message.HashTreeRoot()
		in.Epoch = uint64(o.Message.Aggregate.Data.Slot) / spe
		in.Sig = o.SignedAggregateAndProof.Signature
	case core.VersionedSignedAggregateAndProof:
		v, verr := viewAggregate(&o.VersionedSignedAggregateAndProof)
		if verr != nil {
			return in, verr
		}
		in.Type, in.Version, in.Domain = "VersionedSignedAggregateAndProof", o.Version.String(), domAggProof
		in.Root, err = v.msg.HashTreeRoot()
		in.Epoch = uint64(v.slot) / spe
		in.Sig = *v.sig
	case core.SignedSyncMessage:
		in.Type, in.Domain = "SignedSyncMessage", domSyncComm
		in.Root = o.BeaconBlockRoot
		in.Epoch = uint64(o.Slot) / spe
		in.Sig = o.SyncCommitteeMessage.Signature
	case core.SignedSyncContributionAndProof:
		if o.Message == nil || o.Message.Contribution == nil {
			return in, fmt.Errorf("contribution and proof without payload")
		}
		in.Type, in.Domain = "SignedSyncContributionAndProof", domContribution
		in.Root, err = o.Message.HashTreeRoot()
		in.Epoch = uint64(o.Message.Contribution.Slot) / spe
		in.Sig = o.SignedContributionAndProof.Signature
	case core.SyncContributionAndProof:
		if o.Contribution == nil {
			return in, fmt.Errorf("contribution and proof without contribution")
		}
		in.Type, in.Domain = "SyncContributionAndProof", domSyncSel
		in.Root, err = (&altair.SyncAggregatorSelectionData{Slot: o.Contribution.Slot, SubcommitteeIndex: o.Contribution.SubcommitteeIndex}).HashTreeRoot()
		in.Epoch = uint64(o.Contribution.Slot) / spe
		in.Sig = o.SelectionProof
	default:
		return in, fmt.Errorf("unsupported signed data type %T", obj)
	}

	return in, err
}

// ---- generators ----

type genCtx struct {
	t      *testing.T
	rng    *rand.Rand
	spe    uint64
	bounds []uint64 // fork activation epochs > 0 of the beacon node's fork schedule
}

// epoch picks an epoch around the interesting places of the beacon node's fork schedule
// (the mock: deneb < 2048 <= electra < 50688 <= fulu): the two epochs on either side of every
// fork activation epoch, genesis, or far away.
func (g *genCtx) epoch() uint64 {
	x := g.rng.Intn(6)
	if (x == 1 || x == 2) && len(g.bounds) > 0 {
		b := g.bounds[g.rng.Intn(len(g.bounds))]

		return b - min(b, 2) + uint64(g.rng.Intn(4))
	}
	switch x {
	case 0:
		return uint64(g.rng.Intn(4))
	case 3:
		return uint64(g.rng.Intn(60000))
	case 4:
		return uint64(g.rng.Int63n(1 << 40))
	default:
		return 1 + uint64(g.rng.Intn(2000))
	}
}

// slot: 15% the first slot of a fork activation epoch or the last slot before it, else a slot of
// an epoch from the epoch mix (first / last slot of the epoch in half of the cases).
func (g *genCtx) slot() eth2p0.Slot {
	if len(g.bounds) > 0 && g.rng.Intn(100) < 15 {
		first := g.bounds[g.rng.Intn(len(g.bounds))] * g.spe

		return eth2p0.Slot(first - uint64(g.rng.Intn(2)))
	}
	off := uint64(g.rng.Intn(int(g.spe)))
	switch g.rng.Intn(4) {
	case 0:
		off = 0
	case 1:
		off = g.spe - 1
	}

	return eth2p0.Slot(g.epoch()*g.spe + off)
}

type kind struct {
	name string
	duty core.DutyType
	gen  func(g *genCtx) (core.SignedData, error)
}

var p0Versions = []eth2spec.DataVersion{eth2spec.DataVersionPhase0, eth2spec.DataVersionAltair, eth2spec.DataVersionBellatrix, eth2spec.DataVersionCapella, eth2spec.DataVersionDeneb}

func genProposal(ver eth2spec.DataVersion, blinded bool) func(g *genCtx) (core.SignedData, error) {
	return func(g *genCtx) (core.SignedData, error) {
		p := &eth2api.VersionedSignedProposal{Version: ver, Blinded: blinded}
		switch {
		case ver == eth2spec.DataVersionPhase0:
			p.Phase0 = &eth2p0.SignedBeaconBlock{Message: testutil.RandomPhase0BeaconBlock()}
		case ver == eth2spec.DataVersionAltair:
			p.Altair = &altair.SignedBeaconBlock{Message: testutil.RandomAltairBeaconBlock()}
		case ver == eth2spec.DataVersionBellatrix && !blinded:
			p.Bellatrix = &bellatrix.SignedBeaconBlock{Message: testutil.RandomBellatrixBeaconBlock()}
		case ver == eth2spec.DataVersionBellatrix:
			p.BellatrixBlinded = &eth2bellatrix.SignedBlindedBeaconBlock{Message: testutil.RandomBellatrixBlindedBeaconBlock()}
		case ver == eth2spec.DataVersionCapella && !blinded:
			p.Capella = &capella.SignedBeaconBlock{Message: testutil.RandomCapellaBeaconBlock()}
		case ver == eth2spec.DataVersionCapella:
			p.CapellaBlinded = &eth2capella.SignedBlindedBeaconBlock{Message: testutil.RandomCapellaBlindedBeaconBlock()}
		case ver == eth2spec.DataVersionDeneb && !blinded:
			p.Deneb = &eth2deneb.SignedBlockContents{SignedBlock: &deneb.SignedBeaconBlock{Message: testutil.RandomDenebBeaconBlock()}, KZGProofs: []deneb.KZGProof{}, Blobs: []deneb.Blob{}}
		case ver == eth2spec.DataVersionDeneb:
			p.DenebBlinded = &eth2deneb.SignedBlindedBeaconBlock{Message: testutil.RandomDenebBlindedBeaconBlock()}
		case ver == eth2spec.DataVersionElectra && !blinded:
			p.Electra = &eth2electra.SignedBlockContents{SignedBlock: &electra.SignedBeaconBlock{Message: testutil.RandomElectraBeaconBlock()}, KZGProofs: []deneb.KZGProof{}, Blobs: []deneb.Blob{}}
		case ver == eth2spec.DataVersionElectra:
			p.ElectraBlinded = &eth2electra.SignedBlindedBeaconBlock{Message: testutil.RandomElectraBlindedBeaconBlock()}
		case ver == eth2spec.DataVersionFulu && !blinded:
			p.Fulu = &eth2fulu.SignedBlockContents{SignedBlock: &electra.SignedBeaconBlock{Message: testutil.RandomElectraBeaconBlock()}, KZGProofs: []deneb.KZGProof{}, Blobs: []deneb.Blob{}}
		case ver == eth2spec.DataVersionFulu:
			p.FuluBlinded = &eth2electra.SignedBlindedBeaconBlock{Message: testutil.RandomElectraBlindedBeaconBlock()}
		}
		v, err := viewProposal(p)
		if err != nil {
			return nil, err
		}
		*v.slot = g.slot()

		return core.NewVersionedSignedProposal(p)
	}
}

func genAttestation(ver eth2spec.DataVersion) func(g *genCtx) (core.SignedData, error) {
	return func(g *genCtx) (core.SignedData, error) {
		a := &eth2spec.VersionedAttestation{Version: ver}
		p0 := testutil.RandomPhase0Attestation()
		el := testutil.RandomElectraAttestation()
		p0.Signature, el.Signature = eth2p0.BLSSignature{}, eth2p0.BLSSignature{}
		switch ver {
		case eth2spec.DataVersionPhase0:
			a.Phase0 = p0
		case eth2spec.DataVersionAltair:
			a.Altair = p0
		case eth2spec.DataVersionBellatrix:
			a.Bellatrix = p0
		case eth2spec.DataVersionCapella:
			a.Capella = p0
		case eth2spec.DataVersionDeneb:
			a.Deneb = p0
		case eth2spec.DataVersionElectra:
			a.Electra = el
		case eth2spec.DataVersionFulu:
			a.Fulu = el
		}
		v, err := viewAttestation(a)
		if err != nil {
			return nil, err
		}
		v.data.Slot = g.slot()
		if uint32(v.data.Slot) == 20 {
			// core.VersionedAttestation without ValidatorIndex cannot be SSZ-decoded (hence not cloned,
			// not SetSignature'd) when the low 32 bits of Data.Slot equal 20: UnmarshalSSZ mistakes it
			// for the validator-index layout. Encoding defect outside C09 (reported); steer around it.
			v.data.Slot++
		}
		// Checkpoints. 40%: the attestation straddles a fork activation epoch F (source before F,
		// target at or after it: every attestation of the first epochs after a hard fork; only the
		// TARGET epoch defines the signing domain). Otherwise target from the epoch mix with the
		// source right behind it, a few epochs behind, anywhere, or testutil's random 2^53 value.
		if g.rng.Intn(100) < 40 && len(g.bounds) > 0 {
			f := g.bounds[g.rng.Intn(len(g.bounds))]
			v.data.Target.Epoch = eth2p0.Epoch(f + uint64(g.rng.Intn(2)))
			v.data.Source.Epoch = eth2p0.Epoch(f - 1 - min(f-1, uint64(g.rng.Intn(2))))
		} else {
			te := g.epoch()
			v.data.Target.Epoch = eth2p0.Epoch(te)
			switch x := g.rng.Intn(10); {
			case x < 5 && te > 0:
				v.data.Source.Epoch = eth2p0.Epoch(te - 1)
			case x < 7:
				v.data.Source.Epoch = eth2p0.Epoch(te - min(te, uint64(g.rng.Intn(5))))
			case x < 9:
				v.data.Source.Epoch = eth2p0.Epoch(g.epoch())
			}
		}
		if g.rng.Intn(2) == 0 { // slot inside the target epoch (else unrelated: only the target epoch matters)
			v.data.Slot = eth2p0.Slot(uint64(v.data.Target.Epoch)*g.spe + uint64(g.rng.Intn(int(g.spe))))
			if uint32(v.data.Slot) == 20 {
				v.data.Slot++
			}
		}
		if g.rng.Intn(2) == 0 { // as set by the local validator client
			idx := eth2p0.ValidatorIndex(g.rng.Intn(1 << 20))
			a.ValidatorIndex = &idx
		}

		return core.NewVersionedAttestation(a)
	}
}

func genVersionedAggregate(ver eth2spec.DataVersion) func(g *genCtx) (core.SignedData, error) {
	return func(g *genCtx) (core.SignedData, error) {
		a := &eth2spec.VersionedSignedAggregateAndProof{Version: ver}
		p0 := &eth2p0.SignedAggregateAndProof{Message: testutil.RandomAggregateAndProof()}
		p0.Message.Aggregate.Data.Slot = g.slot()
		el := &electra.SignedAggregateAndProof{Message: &electra.AggregateAndProof{
			AggregatorIndex: testutil.RandomVIdx(), Aggregate: testutil.RandomElectraAttestation(), SelectionProof: testutil.RandomEth2Signature(),
		}}
		el.Message.Aggregate.Data.Slot = g.slot()
		switch ver {
		case eth2spec.DataVersionPhase0:
			a.Phase0 = p0
		case eth2spec.DataVersionAltair:
			a.Altair = p0
		case eth2spec.DataVersionBellatrix:
			a.Bellatrix = p0
		case eth2spec.DataVersionCapella:
			a.Capella = p0
		case eth2spec.DataVersionDeneb:
			a.Deneb = p0
		case eth2spec.DataVersionElectra:
			a.Electra = el
		case eth2spec.DataVersionFulu:
			a.Fulu = el
		}

		return core.NewVersionedSignedAggregateAndProof(a), nil
	}
}

func allKinds() []kind {
	var ks []kind
	for _, v := range append(append([]eth2spec.DataVersion{}, p0Versions...), eth2spec.DataVersionElectra, eth2spec.DataVersionFulu) {
		// phase0/altair proposals are not supported by charon (VersionedSignedProposal.Slot() answers
		// "unsupported version", so even a correct aggregate is refused): nothing can be published.
		if v >= eth2spec.DataVersionBellatrix {
			ks = append(ks, kind{"proposal/" + v.String(), core.DutyProposer, genProposal(v, false)})
			ks = append(ks, kind{"proposal/" + v.String() + "-blinded", core.DutyProposer, genProposal(v, true)})
		}
		ks = append(ks, kind{"attestation/" + v.String(), core.DutyAttester, genAttestation(v)})
		ks = append(ks, kind{"versioned-aggregate-and-proof/" + v.String(), core.DutyAggregator, genVersionedAggregate(v)})
	}
	ks = append(ks,
		kind{"exit", core.DutyExit, func(g *genCtx) (core.SignedData, error) {
			e := testutil.RandomExit()
			e.Message.Epoch = eth2p0.Epoch(g.epoch())
			e.Signature = eth2p0.BLSSignature{}

			return core.NewSignedVoluntaryExit(e), nil
		}},
		kind{"builder-registration/v1", core.DutyBuilderRegistration, func(g *genCtx) (core.SignedData, error) {
			reg := testutil.RandomVersionedSignedValidatorRegistration(g.t)
			reg.V1.Signature = eth2p0.BLSSignature{}

			return core.NewVersionedSignedValidatorRegistration(reg)
		}},
		kind{"randao", core.DutyRandao, func(g *genCtx) (core.SignedData, error) {
			return core.NewSignedRandao(eth2p0.Epoch(g.epoch()), eth2p0.BLSSignature{}), nil
		}},
		kind{"beacon-committee-selection", core.DutyPrepareAggregator, func(g *genCtx) (core.SignedData, error) {
			return core.NewBeaconCommitteeSelection(&eth2v1.BeaconCommitteeSelection{ValidatorIndex: testutil.RandomVIdx(), Slot: g.slot()}), nil
		}},
		kind{"sync-committee-selection", core.DutyPrepareSyncContribution, func(g *genCtx) (core.SignedData, error) {
			return core.NewSyncCommitteeSelection(&eth2v1.SyncCommitteeSelection{ValidatorIndex: testutil.RandomVIdx(), Slot: g.slot(), SubcommitteeIndex: uint64(g.rng.Intn(4))}), nil
		}},
		kind{"aggregate-and-proof", core.DutyAggregator, func(g *genCtx) (core.SignedData, error) {
			a := &eth2p0.SignedAggregateAndProof{Message: testutil.RandomAggregateAndProof()}
			a.Message.Aggregate.Data.Slot = g.slot()

			return core.NewSignedAggregateAndProof(a), nil
		}},
		kind{"sync-message", core.DutySyncMessage, func(g *genCtx) (core.SignedData, error) {
			m := testutil.RandomSyncCommitteeMessage()
			m.Slot = g.slot()
			m.Signature = eth2p0.BLSSignature{}

			return core.NewSignedSyncMessage(m), nil
		}},
		kind{"signed-sync-contribution-and-proof", core.DutySyncContribution, func(g *genCtx) (core.SignedData, error) {
			c := &altair.SignedContributionAndProof{Message: testutil.RandomSyncContributionAndProof()}
			c.Message.Contribution.Slot = g.slot()
			c.Message.Contribution.SubcommitteeIndex = uint64(g.rng.Intn(4))

			return core.NewSignedSyncContributionAndProof(c), nil
		}},
		kind{"sync-contribution-and-proof(selection)", core.DutyPrepareSyncContribution, func(g *genCtx) (core.SignedData, error) {
			c := testutil.RandomSyncContributionAndProof()
			c.Contribution.Slot = g.slot()
			c.Contribution.SubcommitteeIndex = uint64(g.rng.Intn(4))
			c.SelectionProof = eth2p0.BLSSignature{}

			return core.NewSyncContributionAndProof(c), nil
		}},
	)

	return ks
}

// tweak returns a deep copy of obj whose *signed* content differs in one small field.
func tweak(obj core.SignedData, rng *rand.Rand, spe uint64) (core.SignedData, error) {
	cl, err := obj.Clone()
	if err != nil {
		return nil, err
	}
	bump := func(s *eth2p0.Slot) {
		if rng.Intn(2) == 0 {
			*s ^= 1 // same epoch
		} else {
			*s += eth2p0.Slot(spe) // next epoch, possibly another fork
		}
	}
	switch o := cl.(type) {
	case core.VersionedSignedProposal:
		v, err := viewProposal(&o.VersionedSignedProposal)
		if err != nil {
			return nil, err
		}
		bump(v.slot)
	case core.VersionedAttestation:
		v, err := viewAttestation(&o.VersionedAttestation)
		if err != nil {
			return nil, err
		}
		switch rng.Intn(4) {
		case 0:
			v.data.Index++
		case 1:
			v.data.BeaconBlockRoot[rng.Intn(32)] ^= 1 << rng.Intn(8)
		case 2:
			v.data.Source.Epoch++
		default:
			v.data.Target.Epoch++
		}
	case core.SignedVoluntaryExit:
		if rng.Intn(2) == 0 {
			o.Message.ValidatorIndex++
		} else {
			o.Message.Epoch++
		}
	case core.VersionedSignedValidatorRegistration:
		o.V1.Message.GasLimit++
	case core.SignedRandao:
		o.SignedEpoch.Epoch++

		return o, nil
	case core.BeaconCommitteeSelection:
		bump(&o.Slot)

		return o, nil
	case core.SyncCommitteeSelection:
		if rng.Intn(2) == 0 {
			bump(&o.Slot)
		} else {
			o.SubcommitteeIndex++
		}

		return o, nil
	case core.SignedAggregateAndProof:
		o.Message.AggregatorIndex++
	case core.VersionedSignedAggregateAndProof:
		v, err := viewAggregate(&o.VersionedSignedAggregateAndProof)
		if err != nil {
			return nil, err
		}
		*v.aggIdx++
	case core.SignedSyncMessage:
		o.BeaconBlockRoot[rng.Intn(32)] ^= 1 << rng.Intn(8)

		return o, nil
	case core.SignedSyncContributionAndProof:
		o.Message.AggregatorIndex++
	case core.SyncContributionAndProof:
		if rng.Intn(2) == 0 {
			bump(&o.Contribution.Slot)
		} else {
			o.Contribution.SubcommitteeIndex++
		}
	default:
		return nil, fmt.Errorf("tweak: unsupported %T", cl)
	}

	return cl, nil
}

// varyUnsigned returns a deep copy of obj that differs only in content the signature does NOT
// cover (ok=false when the type has no such content).
func varyUnsigned(obj core.SignedData, rng *rand.Rand) (core.SignedData, bool, error) {
	cl, err := obj.Clone()
	if err != nil {
		return nil, false, err
	}
	switch o := cl.(type) {
	case core.VersionedAttestation:
		v, err := viewAttestation(&o.VersionedAttestation)
		if err != nil {
			return nil, false, err
		}
		switch rng.Intn(3) {
		case 0:
			if o.ValidatorIndex == nil {
				idx := eth2p0.ValidatorIndex(rng.Intn(1 << 20))
				o.ValidatorIndex = &idx
			} else {
				o.ValidatorIndex = nil
			}
		case 1:
			idx := eth2p0.ValidatorIndex(rng.Intn(1 << 20))
			o.ValidatorIndex = &idx
		default:
			if v.p0 != nil {
				v.p0.AggregationBits = testutil.RandomBitList(1 + rng.Intn(8))
			} else {
				v.el.AggregationBits = testutil.RandomBitList(1 + rng.Intn(64))
				v.el.CommitteeBits = testutil.RandomBitVec64()
			}
		}

		return o, true, nil
	case core.BeaconCommitteeSelection:
		o.ValidatorIndex++

		return o, true, nil
	case core.SyncCommitteeSelection:
		o.ValidatorIndex++

		return o, true, nil
	case core.SignedSyncMessage:
		if rng.Intn(2) == 0 {
			o.ValidatorIndex++
		} else {
			o.Slot ^= 1 // same epoch, same domain; the signed root is the block root only
		}

		return o, true, nil
	case core.SyncContributionAndProof:
		switch rng.Intn(3) {
		case 0:
			o.AggregatorIndex++
		case 1:
			o.Contribution.BeaconBlockRoot[0] ^= 1
		default:
			o.Contribution.AggregationBits = testutil.RandomBitVec128()
		}

		return o, true, nil
	case core.VersionedSignedProposal:
		var proofs *[]deneb.KZGProof
		switch {
		case o.Blinded:
		case o.Version == eth2spec.DataVersionDeneb && o.Deneb != nil:
			proofs = &o.Deneb.KZGProofs
		case o.Version == eth2spec.DataVersionElectra && o.Electra != nil:
			proofs = &o.Electra.KZGProofs
		case o.Version == eth2spec.DataVersionFulu && o.Fulu != nil:
			proofs = &o.Fulu.KZGProofs
		}
		if proofs == nil {
			return nil, false, nil
		}
		var p deneb.KZGProof
		rng.Read(p[:])
		*proofs = append(*proofs, p)

		return o, true, nil
	default:
		return nil, false, nil
	}
}
