package c09

import (
	"context"
	"fmt"
	"math/rand"
	"sync"
	"time"

	eth2api "github.com/attestantio/go-eth2-client/api"
	eth2v1 "github.com/attestantio/go-eth2-client/api/v1"
	eth2p0 "github.com/attestantio/go-eth2-client/spec/phase0"

	"github.com/obolnetwork/charon/app/errors"
	"github.com/obolnetwork/charon/app/eth2wrap"
	"github.com/obolnetwork/charon/app/z"
)

// Beacon-node fault injection. The eth2 client handed to sigagg.NewVerifier is the beaconmock
// wrapped by faultClient. Every lookup the verifier can use to learn epoch and domain
// (core.VerifyEth2SignedData -> Epoch() -> eth2util.EpochFromSlot -> Spec;
// signing.GetDomain -> Spec, then GenesisDomain or Domain; a real http client's Domain in turn
// looks up ForkSchedule and Genesis; SlotsPerEpoch / Fork are guarded too in case an
// implementation uses them) first consults the fault plan of the *call*, which travels in the
// context given to Aggregate, so concurrent cases sharing one Aggregator/verifier do not disturb
// each other. A fault is an immediate error or an immediate context-deadline error (no real
// waiting: verdicts never depend on wall-clock).

const (
	epSpec          = "Spec"
	epDomain        = "Domain"
	epGenesisDomain = "GenesisDomain"
	epGenesis       = "Genesis"
	epForkSchedule  = "ForkSchedule"
	epSlotsPerEpoch = "SlotsPerEpoch"
	epFork          = "Fork"
	epAny           = "any" // rule on the k-th lookup of the call, whichever endpoint it is
)

// SlotsPerEpoch / Fork are guarded but not chosen: the verifier never asks for them (measured).
var faultEndpoints = []string{epSpec, epSpec, epDomain, epDomain, epGenesisDomain, epGenesis, epForkSchedule, epAny, epAny}

type faultRule struct {
	Endpoint string `json:"endpoint"`
	Mode     string `json:"mode"` // "error" | "timeout"
	Kth      int    `json:"kth"`  // 0: every lookup of that endpoint fails; k>0: only the k-th one (1-based)
	From     bool   `json:"from"` // with Kth>0: the k-th and every later one
}

type faultPlan struct {
	Rules []faultRule `json:"rules"`

	// gate: the call's first Domain / GenesisDomain lookup blocks (after announcing itself on
	// entered) until the harness closes release: a beacon node that is slow to answer, with the
	// harness deciding what else happens meanwhile. No verdict depends on the waiting itself.
	gate     bool
	gateOnce sync.Once
	entered  chan struct{}
	release  chan struct{}

	mu      sync.Mutex
	lookups map[string]int // per endpoint (and epAny for all)
	fired   map[string]int // "endpoint/mode" -> faults served
	order   []string       // lookups in order, with outcome
}

type faultPlanKey struct{}

func withFaultPlan(ctx context.Context, p *faultPlan) context.Context {
	return context.WithValue(ctx, faultPlanKey{}, p)
}

func newFaultPlan(rng *rand.Rand) *faultPlan {
	p := &faultPlan{lookups: map[string]int{}, fired: map[string]int{}}
	nr := 1
	if rng.Intn(4) == 0 {
		nr = 2
	}
	for i := 0; i < nr; i++ {
		r := faultRule{Endpoint: faultEndpoints[rng.Intn(len(faultEndpoints))], Mode: "error"}
		if rng.Intn(2) == 0 {
			r.Mode = "timeout"
		}
		switch rng.Intn(3) {
		case 0: // always
		case 1:
			r.Kth = 1 + rng.Intn(3)
		default:
			r.Kth = 1 + rng.Intn(4)
			r.From = true
		}
		if r.Endpoint == epAny && r.Kth == 0 {
			r.Kth = 1 + rng.Intn(6)
		}
		p.Rules = append(p.Rules, r)
	}

	return p
}

func newGatePlan() *faultPlan {
	return &faultPlan{lookups: map[string]int{}, fired: map[string]int{}, gate: true, entered: make(chan struct{}), release: make(chan struct{})}
}

// check is called at the start of every guarded lookup; a non-nil error is the injected fault.
func (p *faultPlan) check(ctx context.Context, endpoint string) error {
	if p == nil {
		return nil
	}
	if p.gate && (endpoint == epDomain || endpoint == epGenesisDomain) {
		p.gateOnce.Do(func() {
			close(p.entered)
			select {
			case <-p.release:
			case <-ctx.Done():
			}
		})
	}
	p.mu.Lock()
	defer p.mu.Unlock()
	p.lookups[endpoint]++
	p.lookups[epAny]++
	for _, r := range p.Rules {
		n := p.lookups[r.Endpoint]
		if r.Endpoint != endpoint && r.Endpoint != epAny {
			continue
		}
		hit := r.Kth == 0 || n == r.Kth || (r.From && n >= r.Kth)
		if !hit {
			continue
		}
		p.fired[endpoint+"/"+r.Mode]++
		p.order = append(p.order, endpoint+":"+r.Mode)
		if r.Mode == "timeout" {
			dctx, cancel := context.WithDeadline(ctx, time.Unix(0, 0))
			err := dctx.Err() // context.DeadlineExceeded
			cancel()

			return errors.Wrap(err, "beacon node request timed out (injected)", z.Str("endpoint", endpoint))
		}

		return errors.New("beacon node request failed (injected)", z.Str("endpoint", endpoint))
	}
	p.order = append(p.order, endpoint+":ok")

	return nil
}

func (p *faultPlan) snapshot() (fired map[string]int, lookups map[string]int, order []string) {
	if p == nil {
		return nil, nil, nil
	}
	p.mu.Lock()
	defer p.mu.Unlock()
	fired, lookups = map[string]int{}, map[string]int{}
	for k, v := range p.fired {
		fired[k] = v
	}
	for k, v := range p.lookups {
		lookups[k] = v
	}

	return fired, lookups, append([]string(nil), p.order...)
}

// faultClient wraps an eth2wrap.Client; all other methods go straight to the wrapped client.
type faultClient struct {
	eth2wrap.Client
}

func planOf(ctx context.Context) *faultPlan {
	p, _ := ctx.Value(faultPlanKey{}).(*faultPlan)
	return p
}

func (f faultClient) Spec(ctx context.Context, opts *eth2api.SpecOpts) (*eth2api.Response[map[string]any], error) {
	if err := planOf(ctx).check(ctx, epSpec); err != nil {
		return nil, err
	}

	return f.Client.Spec(ctx, opts)
}

func (f faultClient) Genesis(ctx context.Context, opts *eth2api.GenesisOpts) (*eth2api.Response[*eth2v1.Genesis], error) {
	if err := planOf(ctx).check(ctx, epGenesis); err != nil {
		return nil, err
	}

	return f.Client.Genesis(ctx, opts)
}

func (f faultClient) ForkSchedule(ctx context.Context, opts *eth2api.ForkScheduleOpts) (*eth2api.Response[[]*eth2p0.Fork], error) {
	if err := planOf(ctx).check(ctx, epForkSchedule); err != nil {
		return nil, err
	}

	return f.Client.ForkSchedule(ctx, opts)
}

func (f faultClient) Fork(ctx context.Context, opts *eth2api.ForkOpts) (*eth2api.Response[*eth2p0.Fork], error) {
	if err := planOf(ctx).check(ctx, epFork); err != nil {
		return nil, err
	}

	return f.Client.Fork(ctx, opts)
}

func (f faultClient) SlotsPerEpoch(ctx context.Context) (uint64, error) {
	if err := planOf(ctx).check(ctx, epSlotsPerEpoch); err != nil {
		return 0, err
	}

	return f.Client.SlotsPerEpoch(ctx)
}

// Domain: like a real beacon-node http client, computing a domain needs the fork schedule and the
// genesis data; each of those sub-lookups is a fault point of its own.
func (f faultClient) Domain(ctx context.Context, domainType eth2p0.DomainType, epoch eth2p0.Epoch) (eth2p0.Domain, error) {
	p := planOf(ctx)
	for _, ep := range []string{epDomain, epForkSchedule, epGenesis} {
		if err := p.check(ctx, ep); err != nil {
			return eth2p0.Domain{}, err
		}
	}

	return f.Client.Domain(ctx, domainType, epoch)
}

func (f faultClient) GenesisDomain(ctx context.Context, domainType eth2p0.DomainType) (eth2p0.Domain, error) {
	p := planOf(ctx)
	for _, ep := range []string{epGenesisDomain, epForkSchedule} {
		if err := p.check(ctx, ep); err != nil {
			return eth2p0.Domain{}, err
		}
	}

	return f.Client.GenesisDomain(ctx, domainType)
}

func (p *faultPlan) String() string { return fmt.Sprintf("%+v", p.Rules) }
