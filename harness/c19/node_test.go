package c19

import (
	"context"
	"fmt"
	"net"
	"net/http"
	"net/url"
	"os"
	"sync"
	"syscall"
	"time"

	eth2api "github.com/attestantio/go-eth2-client/api"
	eth2v1 "github.com/attestantio/go-eth2-client/api/v1"
	eth2spec "github.com/attestantio/go-eth2-client/spec"
	"github.com/attestantio/go-eth2-client/spec/electra"
	eth2p0 "github.com/attestantio/go-eth2-client/spec/phase0"

	"github.com/obolnetwork/charon/app/eth2wrap"
	"github.com/obolnetwork/charon/testutil/beaconmock"
)

// ---------------------------------------------------------------------------------------------
// Outcome classes of a scripted node.

type class int

const (
	clOK   class = iota // answers successfully with a node-unique payload
	clNOK               // answers without error but "not ok" (is_syncing / nil aggregate)
	clHang              // never answers (gate is never opened); returns only when its context ends
	// unavailability (statement: timeout, syncing, unreachable; anchors: bad-gateway class)
	clTimeoutText // error text "http request timeout"
	clDeadline    // wraps context.DeadlineExceeded
	clSyncing     // error text contains "syncing"
	cl502         // *api.Error 502
	cl503         // *api.Error 503
	cl504         // *api.Error 504
	clConnRefused // url.Error{net.OpError{ECONNREFUSED}}
	// ambiguous: the implementation treats it as unavailability, the statement does not decide
	clNetGeneric // some net.Error that is neither a timeout nor an errno
	// not unavailability
	cl400
	cl404
	clPlain
	numCoreClasses // classes above are enumerated exhaustively for <= 3 nodes

	// extra classes: only sampled
	clHostUnreach     class = iota - 1 // EHOSTUNREACH (unavailability)
	clNetTimeout                       // net.Error with Timeout()==true (unavailability)
	clConnReset                        // ECONNRESET (ambiguous)
	clNotActive                        // "client is not active" (ambiguous)
	cl500                              // *api.Error 500 (ambiguous)
	clAbortHandler                     // http.ErrAbortHandler (ambiguous)
	clSelfCanceled                     // node returns context.Canceled although nobody cancelled (ambiguous)
	clHeadNotVerified                  // "HeadBlockNotFullyVerified" (ambiguous)
	cl503Syncing                       // *api.Error 503 whose body says syncing (unavailability)
	numClasses
)

var classNames = map[class]string{
	clOK: "ok", clNOK: "not-ok", clHang: "hang",
	clTimeoutText: "timeout-text", clDeadline: "ctx-deadline", clSyncing: "syncing", cl502: "502", cl503: "503", cl504: "504",
	clConnRefused: "econnrefused", clNetGeneric: "net-error-generic", cl400: "400", cl404: "404", clPlain: "plain",
	clHostUnreach: "ehostunreach", clNetTimeout: "net-timeout", clConnReset: "econnreset", clNotActive: "client-not-active",
	cl500: "500", clAbortHandler: "abort-handler", clSelfCanceled: "spurious-canceled", clHeadNotVerified: "head-not-verified",
	cl503Syncing: "503-syncing-body",
}

func (c class) String() string { return classNames[c] }

// category of an error class with respect to the statement's "unavailability (timeout, syncing, unreachable)".
type errCat int

const (
	catNone        errCat = iota // not an error class
	catUnavailable               // the statement says fallbacks are consulted
	catOther                     // clearly not unavailability: fallbacks must not be consulted
	catAmbiguous                 // statement does not decide; never judged
)

func (c class) cat() errCat {
	switch c {
	case clOK, clNOK, clHang:
		return catNone
	case clTimeoutText, clDeadline, clSyncing, cl502, cl503, cl504, clConnRefused, clHostUnreach, clNetTimeout, cl503Syncing:
		return catUnavailable
	case cl400, cl404, clPlain:
		return catOther
	default:
		return catAmbiguous
	}
}

func (c class) isErr() bool { return c.cat() != catNone }

// ---------------------------------------------------------------------------------------------
// Scripted errors. Every error carries a node-unique sentinel that survives eth2wrap.wrapError
// (which keeps only url.Error.Err / net.OpError.Err), so the returned error can be attributed.

type tagErr struct {
	msg   string
	inner error
}

func (e *tagErr) Error() string {
	if e.inner != nil {
		return e.msg + ": " + e.inner.Error()
	}

	return e.msg
}

func (e *tagErr) Unwrap() error { return e.inner }

type netErr struct {
	msg     string
	timeout bool
}

func (e *netErr) Error() string   { return e.msg }
func (e *netErr) Timeout() bool   { return e.timeout }
func (e *netErr) Temporary() bool { return false }

var _ net.Error = (*netErr)(nil)

func errnoErr(tok, op string, errno syscall.Errno) (error, error) {
	s := &tagErr{msg: tok, inner: &os.SyscallError{Syscall: "connect", Err: errno}}
	e := &url.Error{Op: "Get", URL: "http://" + tok + ".invalid/eth/v1/x", Err: &net.OpError{Op: op, Net: "tcp", Err: s}}

	return e, s
}

// buildErr returns the error a node of class cl returns and its sentinel.
func buildErr(cl class, tok string) (error, error) {
	apiErr := func(code int, body string) (error, error) {
		e := &eth2api.Error{Method: http.MethodGet, Endpoint: "/eth/v1/c19", StatusCode: code, Data: []byte(body)}
		return e, e
	}
	tag := func(msg string, inner error) (error, error) {
		e := &tagErr{msg: msg, inner: inner}
		return e, e
	}
	switch cl {
	case clTimeoutText:
		return tag("http request timeout ("+tok+")", nil)
	case clDeadline:
		return tag(tok, context.DeadlineExceeded)
	case clSyncing:
		return tag(tok+": beacon node is syncing", nil)
	case cl502:
		return apiErr(http.StatusBadGateway, tok)
	case cl503:
		return apiErr(http.StatusServiceUnavailable, tok)
	case cl504:
		return apiErr(http.StatusGatewayTimeout, tok)
	case cl503Syncing:
		return apiErr(http.StatusServiceUnavailable, tok+" Beacon node is currently syncing and not serving request on that endpoint")
	case clConnRefused:
		return errnoErr(tok, "dial", syscall.ECONNREFUSED)
	case clHostUnreach:
		return errnoErr(tok, "dial", syscall.EHOSTUNREACH)
	case clConnReset:
		return errnoErr(tok, "read", syscall.ECONNRESET)
	case clNetGeneric:
		e := &netErr{msg: tok + ": lookup failed: no such host"}
		return e, e
	case clNetTimeout:
		e := &netErr{msg: tok + ": i/o timeout", timeout: true}
		return e, e
	case clNotActive:
		return tag(tok+": client is not active", nil)
	case cl400:
		return apiErr(http.StatusBadRequest, tok)
	case cl404:
		return apiErr(http.StatusNotFound, tok)
	case cl500:
		return apiErr(http.StatusInternalServerError, tok)
	case clAbortHandler:
		return tag(tok, http.ErrAbortHandler)
	case clSelfCanceled:
		return tag(tok, context.Canceled)
	case clHeadNotVerified:
		return tag(tok+": HeadBlockNotFullyVerified", nil)
	case clPlain:
		return tag(tok+": invalid request body", nil)
	default:
		return nil, nil
	}
}

// ---------------------------------------------------------------------------------------------
// Node-unique payloads. Built deterministically from the node uid so the oracle can rebuild the
// expected answer independently of the object the node handed to the multi client.

func root(uid uint64, salt byte) (r eth2p0.Root) {
	for i := range r {
		r[i] = byte(uid>>(8*(uint(i)%8))) ^ salt ^ byte(i)
	}

	return r
}

func meta(uid uint64) map[string]any {
	return map[string]any{"c19_node": uid, "dependent_root": root(uid, 0x5a)}
}

func payAttesterDuties(uid uint64) *eth2api.Response[[]*eth2v1.AttesterDuty] {
	var pk eth2p0.BLSPubKey
	for i := range pk {
		pk[i] = byte(uid>>(8*(uint(i)%8))) ^ byte(i*7)
	}

	return &eth2api.Response[[]*eth2v1.AttesterDuty]{
		Data: []*eth2v1.AttesterDuty{
			{PubKey: pk, Slot: eth2p0.Slot(uid), ValidatorIndex: eth2p0.ValidatorIndex(uid + 1), CommitteeIndex: 3, CommitteeLength: 128, CommitteesAtSlot: 4, ValidatorCommitteeIndex: uid % 128},
			{PubKey: pk, Slot: eth2p0.Slot(uid + 1), ValidatorIndex: eth2p0.ValidatorIndex(uid + 2), CommitteeIndex: 1, CommitteeLength: 128, CommitteesAtSlot: 4, ValidatorCommitteeIndex: (uid + 1) % 128},
		},
		Metadata: meta(uid),
	}
}

func attData(uid uint64) *eth2p0.AttestationData {
	return &eth2p0.AttestationData{
		Slot: eth2p0.Slot(uid), Index: 2, BeaconBlockRoot: root(uid, 1),
		Source: &eth2p0.Checkpoint{Epoch: eth2p0.Epoch(uid / 32), Root: root(uid, 2)},
		Target: &eth2p0.Checkpoint{Epoch: eth2p0.Epoch(uid/32 + 1), Root: root(uid, 3)},
	}
}

func payAttestationData(uid uint64) *eth2api.Response[*eth2p0.AttestationData] {
	return &eth2api.Response[*eth2p0.AttestationData]{Data: attData(uid), Metadata: meta(uid)}
}

// mix derives the per-node answer variant from the node uid (splitmix64): the fields a success
// predicate could look at vary from node to node, reproducibly.
func mix(uid uint64) uint64 {
	z := uid + 0x9e3779b97f4a7c15
	z = (z ^ (z >> 30)) * 0xbf58476d1ce4e5b9
	z = (z ^ (z >> 27)) * 0x94d049bb133111eb

	return z ^ (z >> 31)
}

// syncVariant: is_syncing is the class (ok: false, not-ok: true); is_optimistic, sync_distance and
// head_slot vary independently of it.
func syncVariant(uid uint64, nok bool) eth2v1.SyncState {
	v := mix(uid)
	st := eth2v1.SyncState{IsSyncing: nok, IsOptimistic: v&1 == 1}
	if nok {
		st.SyncDistance = []eth2p0.Slot{0, 1, 1000, 250000}[(v>>1)%4]
	} else {
		st.SyncDistance = []eth2p0.Slot{0, 0, 1, 37}[(v>>1)%4]
	}
	if (v>>3)%4 == 0 {
		st.HeadSlot = 0
	} else {
		st.HeadSlot = eth2p0.Slot(uid)
	}

	return st
}

func describeSync(uid uint64, nok bool) string {
	st := syncVariant(uid, nok)
	dist := "0"
	switch {
	case st.SyncDistance == 1:
		dist = "1"
	case st.SyncDistance > 1:
		dist = ">1"
	}

	return fmt.Sprintf("is_syncing=%v is_optimistic=%v sync_distance=%s head_slot_zero=%v", st.IsSyncing, st.IsOptimistic, dist, st.HeadSlot == 0)
}

func payNodeSyncing(uid uint64, nok bool) *eth2api.Response[*eth2v1.SyncState] {
	st := syncVariant(uid, nok)

	return &eth2api.Response[*eth2v1.SyncState]{Data: &st, Metadata: meta(uid)}
}

var aggVersions = []eth2spec.DataVersion{eth2spec.DataVersionPhase0, eth2spec.DataVersionAltair, eth2spec.DataVersionBellatrix, eth2spec.DataVersionCapella, eth2spec.DataVersionDeneb, eth2spec.DataVersionElectra}

// aggVariant: a not-ok answer has no aggregate (Data nil); an ok answer carries one, of any fork
// version, with or without set aggregation bits, with or without validator index.
func aggVariant(uid uint64) (version eth2spec.DataVersion, emptyBits bool, withIndex bool) {
	v := mix(uid)

	return aggVersions[v%uint64(len(aggVersions))], (v>>8)&1 == 1, (v>>9)&1 == 1
}

func describeAgg(uid uint64, nok bool) string {
	if nok {
		return "aggregate=nil"
	}
	ver, empty, idx := aggVariant(uid)

	return fmt.Sprintf("aggregate version=%s aggregation_bits_empty=%v validator_index=%v", ver, empty, idx)
}

func nodeSig(uid uint64) (sig eth2p0.BLSSignature) {
	for i := range sig {
		sig[i] = byte(uid>>(8*(uint(i)%8))) ^ byte(i*3)
	}

	return sig
}

func payAggregate(uid uint64, nok bool) *eth2api.Response[*eth2spec.VersionedAttestation] {
	if nok {
		return &eth2api.Response[*eth2spec.VersionedAttestation]{Data: nil, Metadata: meta(uid)}
	}
	ver, empty, withIdx := aggVariant(uid)
	bits := []byte{byte(uid) | 1, 0x01}
	if empty {
		bits = []byte{0x00, 0x01}
	}
	va := &eth2spec.VersionedAttestation{Version: ver}
	if withIdx {
		idx := eth2p0.ValidatorIndex(uid % 1000)
		va.ValidatorIndex = &idx
	}
	att := &eth2p0.Attestation{AggregationBits: bits, Data: attData(uid), Signature: nodeSig(uid)}
	switch ver {
	case eth2spec.DataVersionPhase0:
		va.Phase0 = att
	case eth2spec.DataVersionAltair:
		va.Altair = att
	case eth2spec.DataVersionBellatrix:
		va.Bellatrix = att
	case eth2spec.DataVersionCapella:
		va.Capella = att
	case eth2spec.DataVersionDeneb:
		va.Deneb = att
	default:
		cb := make([]byte, 8)
		cb[0] = 1 << (uid % 8)
		va.Electra = &electra.Attestation{AggregationBits: bits, Data: attData(uid), Signature: nodeSig(uid), CommitteeBits: cb}
	}

	return &eth2api.Response[*eth2spec.VersionedAttestation]{Data: va, Metadata: meta(uid)}
}

// submittedAttestation is the (fixed) attestation the submit-style calls send.
func submittedAttestation() *eth2spec.VersionedAttestation {
	return &eth2spec.VersionedAttestation{
		Version: eth2spec.DataVersionDeneb,
		Deneb:   &eth2p0.Attestation{AggregationBits: []byte{0x63, 0x01}, Data: attData(99), Signature: nodeSig(99)},
	}
}

// ---------------------------------------------------------------------------------------------
// Methods under test.

type method struct {
	Name     string
	Style    string // provide | submit
	SigStyle string // style used in violation signatures (defaults to Style)
	HasNOK   bool
	call     func(ctx context.Context, cl eth2wrap.Client) (any, error)
	expect   func(uid uint64, nok bool) any
	describe func(uid uint64, nok bool) string // methods with their own success predicate: the fields of this node's answer
	// cell-dependent variants (Proxy: the request and the expected answer depend on the cell)
	callCell   func(ctx context.Context, cl eth2wrap.Client, c *cellRun) (any, error)
	expectCell func(c *cellRun, n *node) any
}

func (m *method) sigStyle() string {
	if m.SigStyle != "" {
		return m.SigStyle
	}

	return m.Style
}

var methods = []*method{
	{
		Name: "AttesterDuties", Style: "provide",
		call: func(ctx context.Context, cl eth2wrap.Client) (any, error) {
			r, err := cl.AttesterDuties(ctx, &eth2api.AttesterDutiesOpts{Epoch: 3, Indices: []eth2p0.ValidatorIndex{1, 2}})
			return r, err
		},
		expect: func(uid uint64, _ bool) any { return payAttesterDuties(uid) },
	},
	{
		Name: "AttestationData", Style: "provide",
		call: func(ctx context.Context, cl eth2wrap.Client) (any, error) {
			r, err := cl.AttestationData(ctx, &eth2api.AttestationDataOpts{Slot: 7, CommitteeIndex: 2})
			return r, err
		},
		expect: func(uid uint64, _ bool) any { return payAttestationData(uid) },
	},
	{
		Name: "NodeSyncing", Style: "provide", HasNOK: true,
		call: func(ctx context.Context, cl eth2wrap.Client) (any, error) {
			r, err := cl.NodeSyncing(ctx, &eth2api.NodeSyncingOpts{})
			return r, err
		},
		expect:   func(uid uint64, nok bool) any { return payNodeSyncing(uid, nok) },
		describe: describeSync,
	},
	{
		Name: "AggregateAttestation", Style: "provide", HasNOK: true,
		call: func(ctx context.Context, cl eth2wrap.Client) (any, error) {
			r, err := cl.AggregateAttestation(ctx, &eth2api.AggregateAttestationOpts{Slot: 7, AttestationDataRoot: root(7, 9), CommitteeIndex: 2})
			return r, err
		},
		expect:   func(uid uint64, nok bool) any { return payAggregate(uid, nok) },
		describe: describeAgg,
	},
	{
		Name: "SubmitAttestations", Style: "submit",
		call: func(ctx context.Context, cl eth2wrap.Client) (any, error) {
			return nil, cl.SubmitAttestations(ctx, &eth2api.SubmitAttestationsOpts{Attestations: []*eth2spec.VersionedAttestation{submittedAttestation()}})
		},
	},
}

func methodByName(name string) *method {
	for _, m := range methods {
		if m.Name == name {
			return m
		}
	}

	return methods[0]
}

// ---------------------------------------------------------------------------------------------
// The scripted node.

var (
	baseOnce sync.Once
	baseMock beaconmock.Mock
	baseErr  error
)

// base returns the shared beaconmock every node embeds for the endpoints the workload does not script.
func base() (beaconmock.Mock, error) {
	baseOnce.Do(func() {
		baseMock, baseErr = beaconmock.New(context.Background())
	})

	return baseMock, baseErr
}

type nodeSpec struct {
	Class   class  `json:"-"`
	ClassS  string `json:"class"`
	Deaf    bool   `json:"ignores_ctx,omitempty"` // waits for its gate without watching its context
	PreOpen bool   `json:"answers_immediately,omitempty"`
}

type node struct {
	beaconmock.Mock

	run      *cellRun
	idx      int
	bit      uint32
	fallback bool
	spec     nodeSpec
	uid      uint64
	gate     chan struct{}
	err      error // scripted error (nil for ok / not-ok / hang)
	sentinel error
}

func (n *node) Name() string    { return fmt.Sprintf("c19-node-%d", n.idx) }
func (n *node) Address() string { return fmt.Sprintf("http://c19-node-%d.invalid", n.idx) }

// answerDesc describes the predicate-relevant fields of this node's answer (trace / evidence).
func (n *node) answerDesc() string {
	m := n.run.meth
	if m.describe == nil || (n.spec.Class != clOK && n.spec.Class != clNOK) {
		return ""
	}

	return " {" + m.describe(n.uid, n.spec.Class == clNOK) + "}"
}

func (n *node) label() string {
	if n.fallback {
		return fmt.Sprintf("f%d", n.idx-n.run.nP)
	}

	return fmt.Sprintf("p%d", n.idx)
}

// serve blocks on the node's gate (and, unless the node ignores it, on its context) and then
// returns the scripted error; nil means "answer with the payload".
func (n *node) serve(ctx context.Context) error { return n.serveH(ctx, nil, nil) }

// serveH is serve with two hooks: pre runs as soon as the node is called (before it blocks on its
// gate), post after the gate opened and before the node is reported as having answered; a non-nil
// error from post replaces the scripted outcome of a healthy node.
func (n *node) serveH(ctx context.Context, pre func(), post func() error) error {
	c := n.run
	c.mu.Lock()
	first := c.entered&n.bit == 0
	c.entered |= n.bit
	c.enterCount[n.idx]++
	if n.fallback && first {
		c.noteFallbackEntry(n)
	}
	c.tracef("enter %s", n.label())
	c.mu.Unlock()
	c.bump()
	if pre != nil {
		pre()
	}

	var ctxDone <-chan struct{}
	if !n.spec.Deaf {
		ctxDone = ctx.Done()
	}
	select {
	case <-n.gate:
	case <-ctxDone:
		c.mu.Lock()
		c.ctxExited |= n.bit
		c.tracef("exit %s by-context", n.label())
		c.mu.Unlock()
		c.bump()

		return ctx.Err()
	}

	var err error
	if n.spec.Class == clHang { // only released by the harness during clean-up / release
		err = ctx.Err()
		if err == nil {
			err = &tagErr{msg: "c19 hung node released by the harness"}
		}
	} else {
		err = n.err
		if post != nil {
			if perr := post(); perr != nil && err == nil {
				err = perr
			}
		}
	}
	c.mu.Lock()
	if n.spec.Class == clHang {
		c.ctxExited |= n.bit
	} else {
		c.answered |= n.bit
	}
	c.tracef("exit %s scripted(%s)%s", n.label(), n.spec.Class, n.answerDesc())
	c.mu.Unlock()
	c.bump()

	return err
}

func (n *node) AttesterDuties(ctx context.Context, _ *eth2api.AttesterDutiesOpts) (*eth2api.Response[[]*eth2v1.AttesterDuty], error) {
	if err := n.serve(ctx); err != nil {
		return nil, err
	}

	return payAttesterDuties(n.uid), nil
}

func (n *node) AttestationData(ctx context.Context, _ *eth2api.AttestationDataOpts) (*eth2api.Response[*eth2p0.AttestationData], error) {
	if err := n.serve(ctx); err != nil {
		return nil, err
	}

	return payAttestationData(n.uid), nil
}

func (n *node) NodeSyncing(ctx context.Context, _ *eth2api.NodeSyncingOpts) (*eth2api.Response[*eth2v1.SyncState], error) {
	if err := n.serve(ctx); err != nil {
		return nil, err
	}

	return payNodeSyncing(n.uid, n.spec.Class == clNOK), nil
}

func (n *node) AggregateAttestation(ctx context.Context, _ *eth2api.AggregateAttestationOpts) (*eth2api.Response[*eth2spec.VersionedAttestation], error) {
	if err := n.serve(ctx); err != nil {
		return nil, err
	}

	return payAggregate(n.uid, n.spec.Class == clNOK), nil
}

func (n *node) SubmitAttestations(ctx context.Context, _ *eth2api.SubmitAttestationsOpts) error {
	return n.serve(ctx)
}

var _ eth2wrap.Client = (*node)(nil)

// ---------------------------------------------------------------------------------------------
// Caller context whose end (cancel or deadline) is fired by the harness, never by a timer.

type callerCtx struct {
	done chan struct{}
	mu   sync.Mutex
	err  error
}

func newCallerCtx() *callerCtx { return &callerCtx{done: make(chan struct{})} }

func (c *callerCtx) Deadline() (time.Time, bool) { return time.Time{}, false }
func (c *callerCtx) Done() <-chan struct{}       { return c.done }
func (c *callerCtx) Value(any) any               { return nil }

func (c *callerCtx) Err() error {
	c.mu.Lock()
	defer c.mu.Unlock()

	return c.err
}

func (c *callerCtx) fire(err error) {
	c.mu.Lock()
	defer c.mu.Unlock()
	if c.err == nil {
		c.err = err
		close(c.done)
	}
}
