// Package c19 monitors the eth2wrap multi-node beacon client (property C19): scripted, gated beacon
// nodes under the REAL eth2wrap.NewMultiForT client; causal oracles for "first success wins without
// waiting", the fallback decision per error class, caller cancellation, and the race detector.
package c19

import (
	"math/rand"
	"runtime"
	"testing"

	"verifharness/kit"
)

// ---------------------------------------------------------------------------------------------
// Enumerated sub-space: every (primaries, fallbacks) shape with at most 3 nodes x every vector of
// core outcome classes x every gate-opening order (per tier).

type shape struct {
	P, F   int
	vecs   int // numCoreClasses^(P+F)
	orders int // P! * F!
	size   int
}

var perms = map[int][][]int{
	0: {{}},
	1: {{0}},
	2: {{0, 1}, {1, 0}},
	3: {{0, 1, 2}, {0, 2, 1}, {1, 0, 2}, {1, 2, 0}, {2, 0, 1}, {2, 1, 0}},
}

func enumShapes() ([]shape, int) {
	var out []shape
	total := 0
	for _, pf := range [][2]int{{1, 0}, {1, 1}, {1, 2}, {2, 0}, {2, 1}, {3, 0}} {
		s := shape{P: pf[0], F: pf[1], vecs: 1}
		for i := 0; i < s.P+s.F; i++ {
			s.vecs *= int(numCoreClasses)
		}
		s.orders = len(perms[s.P]) * len(perms[s.F])
		s.size = s.vecs * s.orders
		total += s.size
		out = append(out, s)
	}

	return out, total
}

// enumCell decodes index e (0 <= e < total) into a cell without method.
func enumCell(shapes []shape, e int) *cellSpec {
	for _, s := range shapes {
		if e >= s.size {
			e -= s.size
			continue
		}
		vec, ord := e/s.orders, e%s.orders
		spec := &cellSpec{Kind: "enum"}
		for i := 0; i < s.P+s.F; i++ {
			ns := nodeSpec{Class: class(vec % int(numCoreClasses))}
			vec /= int(numCoreClasses)
			if i < s.P {
				spec.Prim = append(spec.Prim, ns)
			} else {
				spec.Fall = append(spec.Fall, ns)
			}
		}
		spec.PrimOrder = perms[s.P][ord%len(perms[s.P])]
		spec.FallOrder = perms[s.F][ord/len(perms[s.P])]

		return spec
	}

	return nil
}

// enumCancelCells: for the shapes with at most 2 nodes, every class vector x gate order x caller
// cancellation point (before the call; after k gate openings of either tier) x {cancel, deadline}.
func enumCancelCells() []*cellSpec {
	var out []*cellSpec
	small := []shape{}
	all, _ := enumShapes()
	for _, s := range all {
		if s.P+s.F <= 2 {
			small = append(small, s)
		}
	}
	for _, s := range small {
		for e := 0; e < s.size; e++ {
			type point struct {
				mode  cancelMode
				after int
			}
			pts := []point{{cancelPre, 0}}
			for k := 0; k <= s.P; k++ {
				pts = append(pts, point{cancelPrimary, k})
			}
			for k := 0; k <= s.F && s.F > 0; k++ {
				pts = append(pts, point{cancelFallback, k})
			}
			for _, pt := range pts {
				for _, dl := range []bool{false, true} {
					spec := enumCell([]shape{s}, e)
					spec.Kind = "enum-cancel"
					spec.Cancel, spec.CancelAfter, spec.Deadline = pt.mode, pt.after, dl
					out = append(out, spec)
				}
			}
		}
	}

	return out
}

func hasNOK(spec *cellSpec) bool {
	for _, n := range spec.Prim {
		if n.Class == clNOK {
			return true
		}
	}
	for _, n := range spec.Fall {
		if n.Class == clNOK {
			return true
		}
	}

	return false
}

// ---------------------------------------------------------------------------------------------
// Sampled cells: up to 4 primaries x 3 fallbacks, all classes, nodes that answer immediately,
// nodes that ignore their context, caller cancellation / deadline at every phase.

func pickClass(rng *rand.Rand, m *method) class {
	switch k := rng.Intn(100); {
	case k < 18:
		return clOK
	case k < 28:
		if m.HasNOK {
			return clNOK
		}

		return clOK
	case k < 38:
		return clHang
	default:
		return clTimeoutText + class(rng.Intn(int(numClasses-clTimeoutText)))
	}
}

func sampleCell(rng *rand.Rand) *cellSpec {
	m := kit.Pick(rng, methods)
	spec := &cellSpec{Kind: "sample", Method: m.Name}
	P, F := 1+rng.Intn(4), rng.Intn(4)
	if P+F <= 3 && rng.Intn(4) != 0 { // the small shapes are enumerated; prefer the large ones here
		P, F = 2+rng.Intn(3), 1+rng.Intn(3)
	}
	preOpen := rng.Intn(4) == 0
	deaf := rng.Intn(3) == 0
	// bias: make "all primaries fail" reasonably frequent so the fallback phase is reached
	failing := rng.Intn(2) == 0
	for i := 0; i < P+F; i++ {
		ns := nodeSpec{Class: pickClass(rng, m)}
		if i < P && failing && (ns.Class == clOK || ns.Class == clHang) {
			ns.Class = clTimeoutText + class(rng.Intn(int(numClasses-clTimeoutText)))
		}
		if preOpen && rng.Intn(3) == 0 {
			ns.PreOpen = true
		}
		if deaf && rng.Intn(3) == 0 {
			ns.Deaf = true
		}
		if i < P {
			spec.Prim = append(spec.Prim, ns)
		} else {
			spec.Fall = append(spec.Fall, ns)
		}
	}
	spec.PrimOrder = rng.Perm(P)
	spec.FallOrder = rng.Perm(F)

	// number of gate openings of a tier before its first successful node
	prefix := func(ns []nodeSpec, order []int) int {
		k := 0
		for _, i := range order {
			if ns[i].Class == clHang || ns[i].PreOpen {
				continue
			}
			if ns[i].Class == clOK {
				break
			}
			k++
		}

		return k
	}
	switch rng.Intn(8) {
	case 0:
		spec.Cancel = cancelPre
	case 1, 2:
		spec.Cancel = cancelPrimary
		spec.CancelAfter = rng.Intn(prefix(spec.Prim, spec.PrimOrder) + 1)
	case 3:
		spec.Cancel = cancelFallback
		spec.CancelAfter = rng.Intn(prefix(spec.Fall, spec.FallOrder) + 1)
	}
	spec.Deadline = spec.Cancel != cancelNone && rng.Intn(3) == 0

	return spec
}

func burstCell(rng *rand.Rand) *cellSpec {
	m := kit.Pick(rng, methods)
	spec := &cellSpec{Kind: "burst", Method: m.Name, Calls: 3 + rng.Intn(6)}
	P, F := 1+rng.Intn(4), rng.Intn(4)
	for i := 0; i < P+F; i++ {
		ns := nodeSpec{Class: pickClass(rng, m), PreOpen: true}
		for ns.Class == clHang {
			ns.Class = pickClass(rng, m)
		}
		if i < P {
			spec.Prim = append(spec.Prim, ns)
		} else {
			spec.Fall = append(spec.Fall, ns)
		}
	}

	return spec
}

func gcd(a, b int) int {
	for b != 0 {
		a, b = b, a%b
	}

	return a
}

func TestCheck(t *testing.T) {
	r := kit.Start(t, "C19")
	defer r.Finish()

	shapes, enumTotal := enumShapes()
	r.Rule("cell = (method, outcome class per primary/fallback node, gate-opening order per tier, caller-cancel point) run against a fresh real eth2wrap.NewMultiForT client whose nodes block on harness gates. " +
		"Part 1 enumerates EVERY vector of the 14 core classes (ok, not-ok, hang, 8 unavailability/ambiguous, 3 other errors) x every gate order for all shapes with <= 3 nodes " +
		"(quick: one PRNG-chosen applicable method per cell; thorough: every applicable method) and, for shapes with <= 2 nodes, additionally every caller-cancellation point x {cancel, deadline}; part 2 samples up to 4 primaries x 3 fallbacks with 23 classes, nodes answering immediately, nodes ignoring their context, " +
		"cancel/deadline before the call, during primaries, during fallbacks; part 3 runs concurrent calls through one client; " +
		"part 5 (aged clients): sampled cells run through a client that was built, made one successful call, and is then older than the best-node selector period (one minute, real time; pacing only) so that the first success of the new period runs the selector reset while the call is in flight; part 4 (HTTP world) runs the production client eth2wrap.NewMultiHTTP (multi -> lazy first-use initialisation -> go-eth2-client) with a 60 s per-node timeout against 1-3 primary and 0-2 fallback loopback HTTP nodes " +
		"that answer with node-unique payloads, refuse connections, answer 503 to everything, answer 400/404/503 on the endpoint only, report syncing, and block their handlers on harness gates during the client's first-use initialisation or on the endpoint afterwards; " +
		"provide-style (NodePeerCount, AttestationData), submit-style (SubmitAttestations, SubmitProposalPreparations) and Proxy (GET / POST) calls; the caller cancels / hits its deadline while nodes hang. " +
		"The two calls with their own success predicate (NodeSyncing: isSyncStateOk, AggregateAttestation: isAggregateAttestationOk) run in all parts with per-node answers that vary in every field such a predicate could read " +
		"(is_syncing = the class; is_optimistic, el_offline, sync_distance, head_slot vary independently / aggregate nil = the class; fork version, empty aggregation bits, validator index vary): an answer with is_syncing=false, resp. a non-nil aggregate, is a successful answer whatever the other fields say. " +
		"Proxy() is a sixth method of parts 1-3 and two methods of part 4: GET and POST requests with 0 B, small and 64 KiB+ bodies; every scripted node reads its copy of the body fully / partially / not at all, when called or only after its gate opened " +
		"(so the gate order decides who reads first), and a healthy node answers 200 (node id + body hash) only for exactly the request that was sent, else 400. " +
		"non-trivial = at least 2 nodes were called and an ordering decision mattered (a gate still closed at return, fallbacks consulted, or caller cancelled); distinct = hash of the cell script")
	r.Assume("scripted nodes honour their context unless flagged ignores_ctx; caller cancellation with a pending node that ignores its context is observed, not judged (forkjoin's join loop cannot return before such a node does)")
	r.Assume("unavailability per statement = timeout text, context deadline exceeded, syncing text, 502/503/504, ECONNREFUSED, EHOSTUNREACH, net.Error timeouts; 400/404/plain errors are not; " +
		"generic net.Error, ECONNRESET, 'client is not active', 500, ErrAbortHandler, spurious context.Canceled, HeadBlockNotFullyVerified are ambiguous and never judged")
	r.Assume("cells whose primaries fail with mixed classes, or answer without error but not-ok, are unspecified by the statement: only the universal rules apply (exactly one open node's answer, or an error)")
	r.Assume("HTTP world: verdicts are causal on server-side evidence (handlers still blocked, requests received by fallback nodes); the 60 s per-node timeout is never reached in a run that is judged; " +
		"a node that reports is_syncing (go-eth2-client then fails duty endpoints locally with 'client is not synced') and a node lost after successful initialisation (connection refused / 'client is not active') are unavailability: when every primary fails with an unavailability class and a fallback with a live server exists, a fallback must receive a request")
	r.RacePkgs(false, "app/eth2wrap", "app/forkjoin")

	methodsPerCell := 1
	if r.Thorough() {
		methodsPerCell = len(methods)
	}
	cancelCells := enumCancelCells()
	nEnum := enumTotal * methodsPerCell
	nEnumCancel := len(cancelCells)
	nSample, nBurst := 20000, 500
	if r.Thorough() {
		nSample, nBurst = 600000, 20000
	}
	nHTTP := 1500
	if r.Thorough() {
		nHTTP = 12000
	}
	nAged := agedCount(r.Thorough())
	total := nAged + nEnum + nEnumCancel + nSample + nBurst + nHTTP
	n := r.N(total, total)
	complete := n >= total
	r.Set("enumerated_subspace_cells", enumTotal)
	r.Set("enumerated_subspace", "(a) shapes (P,F) in {(1,0),(1,1),(1,2),(2,0),(2,1),(3,0)} x 14 core classes per node x all per-tier gate orders, no caller cancellation; "+
		"(b) shapes with <= 2 nodes x classes x orders x every cancellation point x {cancel, deadline}. Methods: thorough runs (a) with every applicable method, quick (and (b)) with one PRNG-chosen applicable method per cell")
	r.Set("enumerated_cancel_cells", nEnumCancel)

	r.Require("cells/primary-success", 100)
	r.Require("cells/must-fall-back", 100)
	r.Require("cells/must-not-fall-back", 50)
	r.Require("cells/primary-hung-no-success", 50)
	r.Require("cells/cancel", 50)
	r.Require("first_success_returned_with_other_gates_closed", 100)
	r.Require("fallback_consulted_on_unavailability", 100)
	r.Require("fallback_not_consulted_on_other_error", 30)
	r.Require("http/cancel_returned_with_handlers_still_blocked", 100)
	r.Require("http/first_success_returned_with_other_handlers_blocked", 50)
	r.Require("http/fallback_consulted_on_unavailability", 30)
	r.Require("predicate/NodeSyncing/acceptable-optimistic-answer-returned", 200)
	r.Require("predicate/AggregateAttestation/acceptable-answer-returned", 200)
	r.Require("http/predicate/NodeSyncing/acceptable-optimistic-answer-returned", 10)
	r.Require("proxy/cells_with_body_and_two_or_more_primaries", 1000)
	r.Require("proxy/healthy_nodes_that_received_the_intact_request", 500)
	r.Require("http/proxy/healthy_nodes_that_received_the_intact_request", 50)
	r.Require("http/cells_all_unavailable_with_syncing_primary_and_live_fallback", 30)
	r.Require("http/cells_all_unavailable_with_primary_lost_after_initialisation_and_live_fallback", 20)

	stride := 7919
	for gcd(stride, nEnum) != 1 {
		stride += 2
	}

	r.Require("aged/calls_returned_success_in_second_selector_period", int64(nAged)/2)
	// the aged cells are the first indices: the first nAged workers pick them up at once and sleep
	// through the selector period while the other workers run everything else
	r.Cases(n, runtime.GOMAXPROCS(0)+nAged, func(c *kit.Case) {
		idx := c.Idx
		if !complete { // scaled-down run (mutant self-test): spread over the whole space
			idx = int(int64(c.Idx) * int64(total) / int64(n))
		}
		if idx < nAged {
			spec := sampleCell(c.Rng)
			// a call cancelled before it starts never reaches the selector; the selector is touched by
			// the first successful answer, so the aged cells have at least one successful primary
			okPrim := func(s *cellSpec) bool {
				for _, n := range s.Prim {
					if n.Class == clOK {
						return true
					}
				}

				return false
			}
			for tries := 0; tries < 200 && (spec.Cancel != cancelNone || !okPrim(spec)); tries++ {
				spec = sampleCell(c.Rng)
			}
			runAgedCell(c, spec)
			return
		}
		idx -= nAged
		// a broken tree: stop once a world has produced plenty of violations (each world on its own,
		// so a defect visible through both clients is reported for both)
		isHTTP := idx >= nEnum+nEnumCancel+nSample+nBurst
		if (isHTTP && violSeenHTTP.Load() >= 40) || (!isHTTP && violSeen.Load()-violSeenHTTP.Load() >= 40) {
			r.Count("cells_skipped_after_many_violations", 1)
			return
		}
		switch {
		case idx < nEnum:
			idx = int(int64(idx) * int64(stride) % int64(nEnum)) // bijection: interleaves the shapes
			spec := enumCell(shapes, idx/methodsPerCell)
			var m *method
			if methodsPerCell == 1 {
				cands := methods
				if hasNOK(spec) {
					cands = []*method{methods[2], methods[3]}
				}
				m = kit.Pick(c.Rng, cands)
			} else {
				m = methods[idx%methodsPerCell]
				if hasNOK(spec) && !m.HasNOK {
					r.Count("enum_cells_not_applicable(not-ok class for a method without ok-check)", 1)
					return
				}
			}
			spec.Method = m.Name
			r.Count("enum_cells_run", 1)
			runCell(c, spec)
		case idx < nEnum+nEnumCancel:
			spec := cancelCells[idx-nEnum]
			cands := methods
			if hasNOK(spec) {
				cands = []*method{methods[2], methods[3]}
			}
			spec.Method = kit.Pick(c.Rng, cands).Name
			r.Count("enum_cancel_cells_run", 1)
			runCell(c, spec)
		case idx < nEnum+nEnumCancel+nSample:
			r.Count("sampled_cells_run", 1)
			runCell(c, sampleCell(c.Rng))
		case idx < nEnum+nEnumCancel+nSample+nBurst:
			runBurst(c, burstCell(c.Rng))
		default:
			r.Count("http_cells_run", 1)
			runHTTPCell(c, sampleHTTPCell(c.Rng))
		}
	})
	r.Set("cells_table", sortedTable())
	r.Exhaustive(complete && !r.Replaying() && r.Counter("cells_skipped_after_many_violations") == 0)
}
