package c19

import (
	"context"
	"errors"
	"fmt"
	"reflect"
	"sort"
	"strings"
	"sync"
	"sync/atomic"
	"time"

	"github.com/obolnetwork/charon/app/eth2wrap"
	"github.com/obolnetwork/charon/testutil/beaconmock"

	"verifharness/kit"
)

// Real-time waits. None of them decides a verdict on its own: `pace` only gives a wrong early
// return the chance to be observed with the exact gate state; `settleLong` is the generous wait
// before the harness *releases* what the call was forbidden to wait for — the violation is the
// causal fact "returned only after the release".
const (
	pace       = 300 * time.Microsecond
	settleLong = 10 * time.Second
	entryLong  = 10 * time.Second
)

// violSeen counts violations recorded in this process. Once a few exist the verdict is already
// "violated"; the waits shrink so a broken tree does not take hours to finish.
var violSeen atomic.Int64

func settle() time.Duration {
	if violSeen.Load() >= 3 {
		return 300 * time.Millisecond
	}

	return settleLong
}

func entryWait() time.Duration {
	if violSeen.Load() >= 3 {
		return 100 * time.Millisecond
	}

	return entryLong
}

type cancelMode int

const (
	cancelNone     cancelMode = iota
	cancelPre                 // context already ended when the call starts
	cancelPrimary             // after CancelAfter gate openings of the primary phase (0 = right after all primaries were called)
	cancelFallback            // after CancelAfter gate openings of the fallback phase
)

var cancelNames = map[cancelMode]string{cancelNone: "none", cancelPre: "before-call", cancelPrimary: "during-primaries", cancelFallback: "during-fallbacks"}

type cellSpec struct {
	Kind        string     `json:"kind"` // enum | sample | burst
	Method      string     `json:"method"`
	Prim        []nodeSpec `json:"primaries"`
	Fall        []nodeSpec `json:"fallbacks"`
	PrimOrder   []int      `json:"primary_gate_order"`
	FallOrder   []int      `json:"fallback_gate_order"`
	Cancel      cancelMode `json:"-"`
	CancelS     string     `json:"cancel"`
	CancelAfter int        `json:"cancel_after_openings"`
	Deadline    bool       `json:"cancel_is_deadline,omitempty"`
	Calls       int        `json:"concurrent_calls,omitempty"`
	Proxy       *proxySpec `json:"proxy_request,omitempty"`
	// Scoped: the client under test is obtained with ClientForAddress(<the single primary>) from a
	// client configured with further primaries before / after it (what the fetcher does to pin one
	// duty's queries to one beacon node): the cell's primary plus the configured fallbacks.
	Scoped *scopedSpec `json:"scoped_via_client_for_address,omitempty"`
}

type scopedSpec struct {
	Before int `json:"other_primaries_before"`
	After  int `json:"other_primaries_after"`
}

// bystander is a configured primary the scoped client must not need: a plain beacon mock with its own address.
type bystander struct {
	beaconmock.Mock
	addr string
}

func (b bystander) Address() string { return b.addr }

func (s *cellSpec) fill() {
	for i := range s.Prim {
		s.Prim[i].ClassS = s.Prim[i].Class.String()
	}
	for i := range s.Fall {
		s.Fall[i].ClassS = s.Fall[i].Class.String()
	}
	s.CancelS = cancelNames[s.Cancel]
}

func (s *cellSpec) hash() string {
	return kit.Hash(s.Kind, s.Method, fmt.Sprint(s.Prim), fmt.Sprint(s.Fall), s.PrimOrder, s.FallOrder, s.Cancel, s.CancelAfter, s.Deadline, s.Calls)
}

// tier category derived from the script alone.
const (
	tierSuccess  = "success"
	tierBlocked  = "hung-no-success"
	tierFailU    = "all-unavailable"
	tierFailN    = "all-other-errors"
	tierFailMix  = "mixed-error-classes"
	tierFailNOK  = "not-ok-answers"
	tierFailAmbi = "ambiguous-error-class"
)

func tierCat(ns []nodeSpec) string {
	var ok, hang, nok, u, n, a int
	for _, s := range ns {
		switch {
		case s.Class == clOK:
			ok++
		case s.Class == clHang:
			hang++
		case s.Class == clNOK:
			nok++
		case s.Class.cat() == catUnavailable:
			u++
		case s.Class.cat() == catOther:
			n++
		default:
			a++
		}
	}
	switch {
	case ok > 0:
		return tierSuccess
	case hang > 0:
		return tierBlocked
	case nok > 0:
		return tierFailNOK
	case a > 0:
		return tierFailAmbi
	case u > 0 && n > 0:
		return tierFailMix
	case u > 0:
		return tierFailU
	default:
		return tierFailN
	}
}

func classSet(ns []nodeSpec) string {
	set := map[string]bool{}
	for _, s := range ns {
		set[s.Class.String()] = true
	}
	if len(set) == 1 {
		for k := range set {
			return k
		}
	}

	return "several-classes"
}

type callResult struct {
	res                         any
	err                         error
	open, answered, entered     uint32
	cancelled                   bool
	fallbackEnteredBeforeReturn bool
}

// cellRun is one execution of one call (or, in burst mode, several calls) against fresh nodes.
type cellRun struct {
	kc    *kit.Case
	spec  *cellSpec
	meth  *method
	nodes []*node
	nP    int
	pMask uint32
	fMask uint32

	cctx *callerCtx

	mu                      sync.Mutex
	notify                  chan struct{}
	open                    uint32
	entered                 uint32
	answered                uint32 // exited with the scripted outcome
	ctxExited               uint32 // exited because its context ended (or hang released)
	enterCount              []int
	cancelled               bool
	cancelByHarnessToFinish bool
	trace                   []string

	fbEntered        bool
	fbEntryCancelled bool
	fbEntryBad       string // non-empty: a fallback was called before every primary had failed

	done    int // number of calls that returned
	results []callResult

	proxyBody    []byte // Proxy cells: the request body every node has to receive
	proxySha     string
	bodyBad      string // first healthy node that received something else
	bodyBadCount int
	bodyOKCount  int

	// driver observations
	stallAt    string // what the call was expected to return on
	stallKind  string // returned-after-release | returned-after-cancel | never
	released   []string
	cancelObs  string // prompt | moot | blocked-by-ctx-ignoring-node | returned-after-release | never
	blockedObs bool   // the call was (correctly) still pending while a primary/fallback hung without any success

	aged eth2wrap.Client // part 5: a client built (and used once) more than a selector period ago
}

func (c *cellRun) tracef(format string, a ...any) { // c.mu held
	if len(c.trace) < 200 {
		c.trace = append(c.trace, fmt.Sprintf(format, a...))
	}
}

func (c *cellRun) bump() {
	select {
	case c.notify <- struct{}{}:
	default:
	}
}

// await waits until pred (evaluated under c.mu) holds or d elapsed.
func (c *cellRun) await(d time.Duration, pred func() bool) bool {
	timer := time.NewTimer(d)
	defer timer.Stop()
	for {
		c.mu.Lock()
		ok := pred()
		c.mu.Unlock()
		if ok {
			return true
		}
		select {
		case <-c.notify:
		case <-timer.C:
			c.mu.Lock()
			ok = pred()
			c.mu.Unlock()

			return ok
		}
	}
}

// awaitSettle is the generous wait, re-checked twice (DESIGN 3.2).
func (c *cellRun) awaitSettle(pred func() bool) bool {
	if c.await(settle(), pred) {
		return true
	}

	return c.await(settle(), pred)
}

func (c *cellRun) isDone() bool { return c.done > 0 } // c.mu held (used as predicate)

func (c *cellRun) doneNow() bool {
	c.mu.Lock()
	defer c.mu.Unlock()

	return c.done > 0
}

func (c *cellRun) noteFallbackEntry(n *node) { // c.mu held
	if c.fbEntered {
		return
	}
	c.fbEntered = true
	c.fbEntryCancelled = c.cancelled
	if c.cancelled {
		return
	}
	var bad []string
	for _, p := range c.nodes[:c.nP] {
		switch {
		case c.answered&p.bit == 0:
			bad = append(bad, p.label()+" had not answered")
		case p.spec.Class == clOK:
			bad = append(bad, p.label()+" had answered successfully")
		}
	}
	if len(bad) > 0 {
		c.fbEntryBad = fmt.Sprintf("%s called while %s", n.label(), strings.Join(bad, ", "))
	}
}

func (c *cellRun) openGate(i int) {
	n := c.nodes[i]
	c.mu.Lock()
	if c.open&n.bit != 0 {
		c.mu.Unlock()
		return
	}
	c.open |= n.bit
	c.tracef("open %s", n.label())
	c.mu.Unlock()
	close(n.gate)
}

func (c *cellRun) doCancel(toFinish bool) {
	c.mu.Lock()
	if c.cancelled {
		c.mu.Unlock()
		return
	}
	c.cancelled = true
	c.cancelByHarnessToFinish = toFinish
	c.tracef("caller-context-ends deadline=%v to-finish=%v", c.spec.Deadline, toFinish)
	c.mu.Unlock()
	if c.spec.Deadline {
		c.cctx.fire(context.DeadlineExceeded)
	} else {
		c.cctx.fire(context.Canceled)
	}
}

func newCellRun(kc *kit.Case, spec *cellSpec) (*cellRun, error) {
	bm, err := base()
	if err != nil {
		return nil, err
	}
	c := &cellRun{kc: kc, spec: spec, meth: methodByName(spec.Method), nP: len(spec.Prim), notify: make(chan struct{}, 1), cctx: newCallerCtx()}
	all := append(append([]nodeSpec(nil), spec.Prim...), spec.Fall...)
	c.enterCount = make([]int, len(all))
	if c.meth.Name == "Proxy" {
		if spec.Proxy == nil { // drawn from its own PRNG stream of the case: reproducible
			var cls []class
			for _, ns := range all {
				cls = append(cls, ns.Class)
			}
			spec.Proxy = proxySpecFor(kc.R.Rand(kc.Idx, 7), cls)
		}
		if spec.Proxy.HTTPMethod == "POST" {
			c.proxyBody = proxyBody(int64(kc.Idx)+1, spec.Proxy.BodySize)
		}
		c.proxySha = shaHex(c.proxyBody)
	}
	if c.nP == 1 && spec.Scoped == nil && spec.Kind != "burst" {
		if rng := kc.R.Rand(kc.Idx, 9); rng.Intn(2) == 0 { // own PRNG stream of the case: reproducible
			spec.Scoped = &scopedSpec{Before: rng.Intn(4), After: rng.Intn(3)}
		}
	}
	for i, ns := range all {
		uid := uint64(kc.Idx)*16 + uint64(i) + 1
		n := &node{Mock: bm, run: c, idx: i, bit: 1 << uint(i), fallback: i >= c.nP, spec: ns, uid: uid, gate: make(chan struct{})}
		n.err, n.sentinel = buildErr(ns.Class, fmt.Sprintf("c19n%d", uid))
		if n.fallback {
			c.fMask |= n.bit
		} else {
			c.pMask |= n.bit
		}
		c.nodes = append(c.nodes, n)
	}

	return c, nil
}

// freshProbeReturns calls the cell's method through a brand-new client over the same nodes (used
// only after clean-up released every gate) and reports whether that call returned.
func (c *cellRun) freshProbeReturns() bool {
	var prim, fall []eth2wrap.Client
	for _, n := range c.nodes[:c.nP] {
		prim = append(prim, n)
	}
	for _, n := range c.nodes[c.nP:] {
		fall = append(fall, n)
	}
	m := eth2wrap.NewMultiForT(prim, fall)
	ctx, cancel := context.WithTimeout(context.Background(), 20*time.Second)
	defer cancel()
	done := make(chan struct{})
	go func() {
		defer close(done)
		if c.meth.callCell != nil {
			_, _ = c.meth.callCell(ctx, m, c)
		} else {
			_, _ = c.meth.call(ctx, m)
		}
	}()
	select {
	case <-done:
		return ctx.Err() == nil
	case <-time.After(25 * time.Second):
		return false
	}
}

func (c *cellRun) multi() eth2wrap.Client {
	if c.aged != nil {
		return c.aged
	}
	var prim, fall []eth2wrap.Client
	for _, n := range c.nodes[:c.nP] {
		prim = append(prim, n)
	}
	for _, n := range c.nodes[c.nP:] {
		fall = append(fall, n)
	}

	if sc := c.spec.Scoped; sc != nil && c.nP == 1 {
		var all []eth2wrap.Client
		for i := 0; i < sc.Before; i++ {
			all = append(all, bystander{Mock: c.nodes[0].Mock, addr: fmt.Sprintf("http://c19-bystander-b%d.invalid", i)})
		}
		all = append(all, prim...)
		for i := 0; i < sc.After; i++ {
			all = append(all, bystander{Mock: c.nodes[0].Mock, addr: fmt.Sprintf("http://c19-bystander-a%d.invalid", i)})
		}
		c.kc.R.Count("cells_scoped_via_client_for_address", 1)
		c.kc.R.Count(fmt.Sprintf("cells_scoped/primary-position-%d-of-%d/fallbacks-%d", sc.Before, sc.Before+1+sc.After, len(fall)), 1)

		return eth2wrap.NewMultiForT(all, fall).ClientForAddress(c.nodes[0].Address())
	}

	return eth2wrap.NewMultiForT(prim, fall) // fresh client per cell: no best-selector state carried over
}

func (c *cellRun) call(m eth2wrap.Client) {
	var (
		res any
		err error
	)
	if c.meth.callCell != nil {
		res, err = c.meth.callCell(c.cctx, m, c)
	} else {
		res, err = c.meth.call(c.cctx, m)
	}
	c.mu.Lock()
	c.results = append(c.results, callResult{res: res, err: err, open: c.open, answered: c.answered, entered: c.entered, cancelled: c.cancelled, fallbackEnteredBeforeReturn: c.fbEntered})
	c.done++
	if err != nil {
		c.tracef("return error: %s", kit.Short(err.Error(), 160))
	} else {
		c.tracef("return success")
	}
	c.mu.Unlock()
	c.bump()
}

// drive runs the gate schedule of a single-call cell.
func (c *cellRun) drive() {
	for i, n := range c.nodes {
		if n.spec.PreOpen && n.spec.Class != clHang {
			c.openGate(i)
		}
	}
	m := c.multi()
	if c.spec.Cancel == cancelPre {
		c.doCancel(false)
	}
	go c.call(m)
	if c.spec.Cancel == cancelPre {
		c.afterCancel()
		return
	}
	if !c.tier(0, c.nP, c.spec.PrimOrder, true) {
		return
	}
	c.tier(c.nP, len(c.nodes), c.spec.FallOrder, false)
}

// tier drives nodes[lo:hi]; it returns true when the fallback phase has begun.
func (c *cellRun) tier(lo, hi int, order []int, isPrim bool) bool {
	var mask uint32
	for _, n := range c.nodes[lo:hi] {
		mask |= n.bit
	}
	tname := "primary"
	if !isPrim {
		tname = "fallback"
	}
	c.await(entryWait(), func() bool { return c.isDone() || c.entered&mask == mask })
	if c.doneNow() {
		return false
	}
	cancelAt := -1
	if (isPrim && c.spec.Cancel == cancelPrimary) || (!isPrim && c.spec.Cancel == cancelFallback) {
		cancelAt = c.spec.CancelAfter
	}
	hasHang := false
	for _, n := range c.nodes[lo:hi] {
		if n.spec.Class == clHang {
			hasHang = true
		}
		if n.spec.PreOpen && n.spec.Class == clOK {
			// a successful node of this tier answered on its own: the call must return without any gate being opened
			c.mustReturn(fmt.Sprintf("%s %s answered successfully (immediately)", tname, n.label()), tname)
			return false
		}
	}
	if cancelAt == 0 {
		c.doCancel(false)
		c.afterCancel()

		return false
	}
	steps := 0
	for _, k := range order {
		i := lo + k
		n := c.nodes[i]
		if n.spec.Class == clHang || n.spec.PreOpen {
			continue
		}
		c.openGate(i)
		c.await(entryWait(), func() bool {
			return c.isDone() || c.entered&n.bit == 0 || (c.answered|c.ctxExited)&n.bit != 0
		})
		if n.spec.Class == clOK {
			c.mustReturn(fmt.Sprintf("%s %s answered successfully", tname, n.label()), tname)
			return false
		}
		if c.await(pace, c.isDone) {
			return false
		}
		steps++
		if steps == cancelAt {
			c.doCancel(false)
			c.afterCancel()

			return false
		}
	}
	// every answering node of the tier has answered, none successfully
	if hasHang {
		if c.await(3*pace, c.isDone) {
			return false // evaluation decides (an error now is "failed before all ... failed")
		}
		c.mu.Lock()
		c.blockedObs = true
		c.mu.Unlock()
		c.doCancel(c.spec.Cancel == cancelNone || cancelAt < 0)
		c.afterCancel()

		return false
	}
	if isPrim && hi < len(c.nodes) {
		if !c.awaitSettle(func() bool { return c.isDone() || c.entered&c.fMask != 0 }) {
			c.stallAllAnswered(tname)
			return false
		}
		c.mu.Lock()
		toFallback := c.done == 0 && c.entered&c.fMask != 0
		c.mu.Unlock()

		return toFallback
	}
	if !c.awaitSettle(c.isDone) {
		c.stallAllAnswered(tname)
	}

	return false
}

// mustReturn: a successful node of the consulted tier has answered, every other gate is still
// closed. The call has to return now. If it does not within the settle wait the harness releases
// the remaining gates (then ends the caller context) and records what made it return.
func (c *cellRun) mustReturn(why, tname string) {
	if c.awaitSettle(func() bool { return c.isDone() || c.bodyBad != "" }) {
		if !c.doneNow() {
			// Proxy: the node whose success had to be returned was handed an altered request and refused it
			c.mu.Lock()
			c.stallAt = why
			c.mu.Unlock()
			c.stallKind = "request-altered"
		}

		return
	}
	c.mu.Lock()
	c.stallAt = why
	c.tracef("STALL: %s but the call has not returned; releasing the other gates", why)
	c.mu.Unlock()
	for i, n := range c.nodes {
		if n.spec.Class == clHang {
			continue
		}
		c.mu.Lock()
		closed := c.open&n.bit == 0
		c.mu.Unlock()
		if closed {
			c.released = append(c.released, n.label())
			c.openGate(i)
		}
	}
	if len(c.released) > 0 && c.awaitSettle(c.isDone) {
		c.stallKind = "returned-after-release"
		return
	}
	c.doCancel(true)
	if c.awaitSettle(c.isDone) {
		c.stallKind = "returned-after-cancel"
		return
	}
	c.stallKind = "never"
}

// stallAllAnswered: every consulted node has answered and the call still has not returned.
func (c *cellRun) stallAllAnswered(tname string) {
	c.mu.Lock()
	c.stallAt = "every " + tname + " node had answered"
	c.tracef("STALL: all %s nodes answered but the call has not returned", tname)
	c.mu.Unlock()
	c.doCancel(true)
	if c.awaitSettle(c.isDone) {
		c.stallKind = "returned-after-cancel"
		return
	}
	c.stallKind = "never"
}

// afterCancel: the caller context has ended while gates are still closed.
func (c *cellRun) afterCancel() {
	if c.await(5*time.Millisecond, c.isDone) {
		c.cancelObs = "prompt"
		return
	}
	deafPending := func() bool {
		c.mu.Lock()
		defer c.mu.Unlock()
		for _, n := range c.nodes {
			if n.spec.Deaf && (c.answered|c.ctxExited)&n.bit == 0 {
				return true
			}
		}

		return false
	}
	if deafPending() {
		// a node that ignores its context keeps the call pending: outside the statement (see Assume)
		c.cancelObs = "blocked-by-ctx-ignoring-node"
		c.releaseAll()
		if !c.awaitSettle(c.isDone) {
			c.stallKind = "never"
		}

		return
	}
	if c.awaitSettle(c.isDone) {
		c.cancelObs = "prompt"
		return
	}
	c.mu.Lock()
	c.tracef("STALL: caller context ended but the call has not returned; releasing all gates")
	c.mu.Unlock()
	c.releaseAll()
	if c.awaitSettle(c.isDone) {
		c.cancelObs = "returned-after-release"
		return
	}
	c.cancelObs = "never"
	c.stallKind = "never"
}

func (c *cellRun) releaseAll() {
	for i := range c.nodes {
		c.openGate(i)
	}
}

// cleanup ends everything that may still be running and waits for the node goroutines.
func (c *cellRun) cleanup(calls int) bool {
	c.mu.Lock()
	c.tracef("cleanup")
	c.mu.Unlock()
	c.cctx.fire(context.Canceled)
	c.releaseAll()

	return c.await(30*time.Second, func() bool {
		if c.done < calls {
			return false
		}
		for _, n := range c.nodes {
			if c.entered&n.bit != 0 && (c.answered|c.ctxExited)&n.bit == 0 {
				return false
			}
		}

		return true
	})
}

// ---------------------------------------------------------------------------------------------
// Evaluation.

type verdicts struct {
	c     *cellRun
	fired []string
}

func (v *verdicts) violation(rule, what string) {
	c := v.c
	sig := fmt.Sprintf("eth2wrap.multi/%s/%s", c.meth.sigStyle(), rule)
	if c.aged != nil {
		sig += "/client-older-than-selector-period"
	}
	if c.spec.Scoped != nil {
		sig += "/client-scoped-to-one-primary-via-ClientForAddress"
	}
	violSeen.Add(1)
	v.fired = append(v.fired, sig)
	c.mu.Lock()
	trace := append([]string(nil), c.trace...)
	c.mu.Unlock()
	var results []string
	c.mu.Lock()
	rs := append([]callResult(nil), c.results...)
	c.mu.Unlock()
	for _, r := range rs {
		if r.err != nil {
			results = append(results, "error: "+kit.Short(r.err.Error(), 240))
		} else {
			results = append(results, "success: "+kit.Short(fmt.Sprintf("%+v", describe(r.res)), 240))
		}
	}
	c.kc.Violation(sig, what, map[string]any{
		"cell": c.spec, "method": c.meth.Name, "trace": trace, "results": results,
		"stall_at": c.stallAt, "stall_kind": c.stallKind, "released": c.released, "cancel_observation": c.cancelObs,
	})
}

func describe(v any) any {
	rv := reflect.ValueOf(v)
	if !rv.IsValid() || (rv.Kind() == reflect.Pointer && rv.IsNil()) {
		return "<nil>"
	}
	if rv.Kind() == reflect.Pointer {
		if f := rv.Elem().FieldByName("Metadata"); f.IsValid() {
			return fmt.Sprintf("metadata=%v", f.Interface())
		}
	}

	return v
}

// matchNodes returns the nodes whose scripted answer equals res exactly.
func (c *cellRun) matchNodes(res any) []*node {
	var out []*node
	if c.meth.expect == nil && c.meth.expectCell == nil {
		return nil
	}
	for _, n := range c.nodes {
		if n.spec.Class != clOK && n.spec.Class != clNOK {
			continue
		}
		var want any
		if c.meth.expectCell != nil {
			want = c.meth.expectCell(c, n)
		} else {
			want = c.meth.expect(n.uid, n.spec.Class == clNOK)
		}
		if reflect.DeepEqual(res, want) {
			out = append(out, n)
		}
	}

	return out
}

// bodyNote explains a Proxy failure caused by an altered request at a healthy node.
func (c *cellRun) bodyNote() string {
	c.mu.Lock()
	defer c.mu.Unlock()
	if c.bodyBad == "" {
		return ""
	}

	return " — " + c.bodyBad + " and answered 400"
}

func sizeClass(n int) string {
	switch {
	case n == 0:
		return "0B"
	case n < 1024:
		return "small"
	default:
		return "64KiB+"
	}
}

func (c *cellRun) tierOf(n *node) []*node {
	if n.fallback {
		return c.nodes[c.nP:]
	}

	return c.nodes[:c.nP]
}

// judgeResult applies the order-independent rules to one returned call.
func (c *cellRun) judgeResult(v *verdicts, r callResult, primCat string, burst bool) {
	R := c.kc.R
	prims, falls := c.nodes[:c.nP], c.nodes[c.nP:]
	fbEntered := r.entered&c.fMask != 0 // single call: exact. burst: union over the concurrent calls (see below)

	if r.err == nil {
		R.Count("returns/success", 1)
		if c.meth.Style == "provide" {
			ms := c.matchNodes(r.res)
			switch {
			case len(ms) != 1:
				v.violation("result-is-not-exactly-one-nodes-answer", fmt.Sprintf("%s returned a payload equal to the scripted answer of %d nodes (must be exactly one)", c.meth.Name, len(ms)))
			case r.answered&ms[0].bit == 0:
				v.violation("result-from-node-that-had-not-answered", fmt.Sprintf("%s returned the answer of %s whose gate was closed", c.meth.Name, ms[0].label()))
			default:
				x := ms[0]
				if x.fallback {
					R.Count("returns/success-from-fallback", 1)
				} else {
					R.Count("returns/success-from-primary", 1)
				}
				if c.meth.describe != nil {
					d := c.meth.describe(x.uid, x.spec.Class == clNOK)
					R.Seen("returned_answer_variants/"+c.meth.Name, d)
					if x.spec.Class == clOK && !r.cancelled && c.stallAt == "" {
						R.Count("predicate/"+c.meth.Name+"/acceptable-answer-returned", 1)
						if c.meth.Name == "NodeSyncing" && strings.Contains(d, "is_optimistic=true") {
							R.Count("predicate/NodeSyncing/acceptable-optimistic-answer-returned", 1)
						}
					}
				}
				if x.spec.Class == clNOK {
					R.Count("returns/not-ok-answer", 1)
					if !r.cancelled {
						for _, o := range c.tierOf(x) {
							if o.spec.Class == clOK {
								v.violation("not-ok-answer-preempted-success", fmt.Sprintf("%s returned the not-ok answer of %s although %s answers successfully", c.meth.Name, x.label(), o.label()))
								break
							}
						}
					}
				}
			}
		} else {
			okAnswered := false
			for _, n := range c.nodes {
				if n.spec.Class == clOK && r.answered&n.bit != 0 {
					okAnswered = true
				}
			}
			if !okAnswered {
				v.violation("success-without-any-successful-node", fmt.Sprintf("%s returned nil although no node had answered successfully", c.meth.Name))
			}
		}

		return
	}

	// error result
	R.Count("returns/error", 1)
	attributed := 0
	for _, n := range c.nodes {
		if n.sentinel != nil && errors.Is(r.err, n.sentinel) {
			attributed++
			R.Seen("returned_error_classes", n.spec.Class.String())
		}
	}
	switch {
	case attributed == 1:
		R.Count("returns/error-of-one-node", 1)
	case errors.Is(r.err, context.Canceled) || errors.Is(r.err, context.DeadlineExceeded):
		R.Count("returns/error-context", 1)
	default:
		R.Count("returns/error-other", 1)
	}
	if r.cancelled {
		return // the caller's context had ended: any error is fine, promptness is judged by the driver
	}
	for _, p := range prims {
		if p.spec.Class == clOK && r.open&p.bit != 0 {
			v.violation("failed-although-a-primary-answered-successfully", fmt.Sprintf("%s returned an error although primary %s answers successfully and its gate was open%s", c.meth.Name, p.label(), c.bodyNote()))
			return
		}
	}
	for _, p := range prims {
		if r.answered&p.bit == 0 {
			v.violation("failed-before-all-primaries-failed", fmt.Sprintf("%s returned an error while primary %s (%s) had not answered yet", c.meth.Name, p.label(), p.spec.Class))
			return
		}
	}
	// all primaries failed
	if burst {
		// the entered-mask is shared by the concurrent calls: "no fallback called at all" stays a sound
		// witness, but "this call consulted the fallbacks" is only known when it returned a fallback's error
		if len(falls) > 0 && primCat == tierFailU && !fbEntered {
			v.violation("fallback-not-consulted-on-unavailability/"+classSet(c.spec.Prim), fmt.Sprintf("%s: every primary failed with an unavailability error (%s) but no fallback was called", c.meth.Name, classSet(c.spec.Prim)))
			return
		}
		fbEntered = false
		for _, f := range falls {
			if f.sentinel != nil && errors.Is(r.err, f.sentinel) {
				fbEntered = true
			}
		}
	}
	if len(falls) > 0 && primCat == tierFailU && !fbEntered && !burst {
		v.violation("fallback-not-consulted-on-unavailability/"+classSet(c.spec.Prim), fmt.Sprintf("%s: every primary failed with an unavailability error (%s) but no fallback was called", c.meth.Name, classSet(c.spec.Prim)))
		return
	}
	if fbEntered {
		for _, f := range falls {
			if f.spec.Class == clOK && r.open&f.bit != 0 {
				v.violation("failed-although-a-fallback-answered-successfully", fmt.Sprintf("%s returned an error although consulted fallback %s answers successfully and its gate was open%s", c.meth.Name, f.label(), c.bodyNote()))
				return
			}
		}
		for _, f := range falls {
			if f.spec.Class == clOK && r.answered&f.bit == 0 {
				v.violation("failed-before-fallback-success", fmt.Sprintf("%s returned an error while consulted fallback %s (ok) had not answered yet", c.meth.Name, f.label()))
				return
			}
		}
	}
}

func bump(table map[string]int64, mu *sync.Mutex, key string) {
	mu.Lock()
	table[key]++
	mu.Unlock()
}

var (
	cellsMu    sync.Mutex
	cellsTable = map[string]int64{}
)

// evaluate judges a finished single-call cell.
func (c *cellRun) evaluate(cleanOK bool) {
	R := c.kc.R
	v := &verdicts{c: c}
	spec := c.spec
	primCat, fallCat := tierCat(spec.Prim), "none"
	if len(spec.Fall) > 0 {
		fallCat = tierCat(spec.Fall)
	}

	// nodes may still be entered late by forkjoin workers of a call that already returned: snapshot
	c.mu.Lock()
	results := append([]callResult(nil), c.results...)
	enterCount := append([]int(nil), c.enterCount...)
	fbEntered, fbEntryCancelled, fbEntryBad, toFinish := c.fbEntered, c.fbEntryCancelled, c.fbEntryBad, c.cancelByHarnessToFinish
	c.mu.Unlock()

	if len(results) == 0 && c.freshProbeReturns() {
		// Causal, not timed: every scripted node has been released and the caller's context has ended,
		// so nothing the environment controls is still withheld; a FRESH client over the very same
		// (released) nodes answers the same call while the original call is still stuck.
		c.mu.Lock()
		still := c.done == 0
		c.mu.Unlock()
		if still {
			v.violation("call-never-returns/fresh-call-over-the-same-released-nodes-returns",
				fmt.Sprintf("%s: %s, yet the call has not returned after every node was released and the caller's context was cancelled, while a fresh client over the same nodes answers the same call at once", c.meth.Name, c.stallAt))
			return
		}
	}
	if c.stallKind == "never" || !cleanOK || len(results) == 0 {
		R.Inconclusive("case %d: the call or a node goroutine did not finish within the watchdog (stall=%q kind=%q)", c.kc.Idx, c.stallAt, c.stallKind)
		return
	}
	r := results[0]

	// cell category (what the statement decides here)
	cat := ""
	switch {
	case r.cancelled && !toFinish:
		cat = "cancel/" + cancelNames[spec.Cancel]
	case spec.Cancel != cancelNone && !r.cancelled && c.cancelObs == "":
		cat = "cancel-moot/" // call had returned before the cancellation point was reached
		fallthrough
	default:
		switch primCat {
		case tierSuccess:
			cat += "primary-success"
		case tierBlocked:
			cat += "primary-hung-no-success"
		case tierFailU:
			if len(spec.Fall) == 0 {
				cat += "all-primaries-failed/no-fallbacks"
			} else {
				cat += "must-fall-back/fallbacks-" + fallCat
			}
		case tierFailN:
			if len(spec.Fall) == 0 {
				cat += "all-primaries-failed/no-fallbacks"
			} else {
				cat += "must-not-fall-back/fallbacks-" + fallCat
			}
		default:
			cat += "unspecified/" + primCat
		}
	}
	first := "none"
	if len(spec.PrimOrder) > 0 {
		cl := spec.Prim[spec.PrimOrder[0]].Class
		switch {
		case cl == clOK, cl == clNOK, cl == clHang:
			first = cl.String()
		default:
			first = "error"
		}
	}
	bump(cellsTable, &cellsMu, fmt.Sprintf("P%dF%d | %s | first-gate=%s", len(spec.Prim), len(spec.Fall), cat, first))
	R.Count("cells/"+strings.SplitN(cat, "/", 2)[0], 1)
	R.Seen("methods", c.meth.Name)
	for _, ns := range append(append([]nodeSpec(nil), spec.Prim...), spec.Fall...) {
		R.Seen("outcome_classes", ns.Class.String())
	}

	c.mu.Lock()
	bodyBad, bodyBadCount, bodyOKCount := c.bodyBad, c.bodyBadCount, c.bodyOKCount
	c.mu.Unlock()
	if spec.Proxy != nil {
		R.Count("proxy/cells", 1)
		R.Count("proxy/healthy_nodes_that_received_the_intact_request", int64(bodyOKCount))
		R.Seen("proxy_requests", fmt.Sprintf("%s/%s", spec.Proxy.HTTPMethod, sizeClass(spec.Proxy.BodySize)))
		if len(spec.Prim) >= 2 && spec.Proxy.BodySize > 0 {
			R.Count("proxy/cells_with_body_and_two_or_more_primaries", 1)
		}
	}
	if c.stallKind == "request-altered" {
		v.violation("healthy-node-received-altered-request", fmt.Sprintf("%s: %s while the other gates were closed, but it had been handed an altered request and answered 400: %s (%s %d-byte body; a node of the same stage had read its copy before)", c.meth.Name, c.stallAt, bodyBad, spec.Proxy.HTTPMethod, spec.Proxy.BodySize))
		return
	}
	if bodyBadCount > 0 && r.err == nil {
		R.Count("observation/proxy-healthy-node-received-altered-request-but-call-succeeded", 1)
	}

	// (1) does not wait for slower / hung nodes
	if c.stallAt != "" {
		tier := "primary"
		if strings.HasPrefix(c.stallAt, "fallback") || strings.Contains(c.stallAt, "every fallback") {
			tier = "fallback"
		}
		switch {
		case strings.HasPrefix(c.stallAt, "every "):
			v.violation("no-return-after-all-"+tier+"-nodes-answered", fmt.Sprintf("%s: %s, nothing was left to wait for, yet the call returned only after the harness ended the caller context", c.meth.Name, c.stallAt))
		case c.stallKind == "returned-after-release":
			v.violation("waited-for-slower-node/"+tier, fmt.Sprintf("%s: %s while every other gate was closed, but the call returned only after the harness released %v", c.meth.Name, c.stallAt, c.released))
		default:
			v.violation("waited-for-hung-node/"+tier, fmt.Sprintf("%s: %s, but the call returned only after the harness ended the caller context (released %v before)", c.meth.Name, c.stallAt, c.released))
		}
	} else if primCat == tierSuccess && !r.cancelled {
		R.Count("first_success_returned_with_other_gates_closed", 1)
	}
	if c.blockedObs {
		R.Count("call_pending_while_node_hung_without_success", 1)
	}

	// (3) cancellation
	switch c.cancelObs {
	case "prompt":
		if r.err == nil {
			// success after the context ended is only acceptable when judged by the result rules below
			R.Count(fmt.Sprintf("cancel/returned-success(context-ended-before-return=%v)", r.cancelled), 1)
		}
		if r.cancelled {
			R.Count("cancel/returned-with-gates-closed", 1)
		}
	case "returned-after-release":
		v.violation("cancel-waited-for-nodes", fmt.Sprintf("%s: the caller context ended while gates were closed, the call returned only after the harness released them", c.meth.Name))
	case "blocked-by-ctx-ignoring-node":
		R.Count("observation/cancel-blocked-by-node-that-ignores-its-context", 1)
	}

	// (2) fallback discipline
	if fbEntryBad != "" {
		v.violation("fallback-consulted-before-all-primaries-failed", fmt.Sprintf("%s: fallback %s", c.meth.Name, fbEntryBad))
	} else if fbEntered && !fbEntryCancelled {
		R.Count("fallback_consulted", 1)
		if primCat == tierFailN {
			v.violation("fallback-consulted-on-non-availability-error/"+classSet(spec.Prim), fmt.Sprintf("%s: every primary failed with a non-availability error (%s) yet a fallback was called", c.meth.Name, classSet(spec.Prim)))
		}
		if primCat == tierFailU {
			R.Count("fallback_consulted_on_unavailability", 1)
			R.Seen("unavailability_classes_that_fell_back", classSet(spec.Prim))
		}
	} else if !fbEntered && primCat == tierFailN && len(spec.Fall) > 0 && !r.cancelled {
		R.Count("fallback_not_consulted_on_other_error", 1)
		R.Seen("other_classes_that_did_not_fall_back", classSet(spec.Prim))
	}
	if strings.HasPrefix(cat, "unspecified/") {
		if fbEntered {
			R.Count("unspecified_cells/fell-back", 1)
		} else {
			R.Count("unspecified_cells/did-not-fall-back", 1)
		}
	}

	// result rules
	c.judgeResult(v, r, primCat, false)

	// fallback success must be the first fallback success
	if primCat == tierFailU && fallCat == tierSuccess && r.err == nil && !r.cancelled && c.stallAt == "" {
		R.Count("first_fallback_success_returned", 1)
	}

	// non-trivial: >= 2 nodes were called and an ordering decision mattered
	closedAtReturn := 0
	for _, n := range c.nodes {
		if r.open&n.bit == 0 {
			closedAtReturn++
		}
	}
	called := 0
	for _, k := range enterCount {
		if k > 0 {
			called++
		}
	}
	if called >= 2 && (closedAtReturn > 0 || fbEntered || r.cancelled) {
		c.kc.NonTrivial(spec.hash())
	}
	if len(v.fired) == 0 && c.kc.Idx%9973 == 1 {
		c.mu.Lock()
		R.Sample(map[string]any{"cell": spec, "category": cat, "trace": append([]string(nil), c.trace...)})
		c.mu.Unlock()
	}
}

// runCell executes one single-call cell.
func runCell(kc *kit.Case, spec *cellSpec) {
	spec.fill()
	c, err := newCellRun(kc, spec)
	if err != nil {
		kc.R.Inconclusive("beaconmock base could not be built: %v", err)
		return
	}
	c.drive()
	ok := c.cleanup(1)
	c.evaluate(ok)
}

// runBurst: several concurrent calls through ONE multi client whose nodes all answer immediately
// (shared best-selector state, natural completion races). Only the order-independent rules apply.
func runBurst(kc *kit.Case, spec *cellSpec) {
	spec.fill()
	c, err := newCellRun(kc, spec)
	if err != nil {
		kc.R.Inconclusive("beaconmock base could not be built: %v", err)
		return
	}
	c.releaseAll()
	m := c.multi()
	for i := 0; i < spec.Calls; i++ {
		go c.call(m)
	}
	if !c.await(60*time.Second, func() bool { return c.done >= spec.Calls }) || !c.cleanup(spec.Calls) {
		kc.R.Inconclusive("case %d: burst calls did not finish within the watchdog", kc.Idx)
		return
	}
	_ = m.Address() // best-selector read racing nothing now; exercised for the race detector
	v := &verdicts{c: c}
	primCat := tierCat(spec.Prim)
	c.mu.Lock()
	results := append([]callResult(nil), c.results...)
	fbBad := c.fbEntryBad
	fbEntered := c.fbEntered
	c.mu.Unlock()
	for _, r := range results {
		c.judgeResult(v, r, primCat, true)
	}
	if fbBad != "" {
		v.violation("fallback-consulted-before-all-primaries-failed", fmt.Sprintf("%s: fallback %s", c.meth.Name, fbBad))
	} else if fbEntered && primCat == tierFailN {
		v.violation("fallback-consulted-on-non-availability-error/"+classSet(spec.Prim), fmt.Sprintf("%s: every primary failed with a non-availability error (%s) yet a fallback was called", c.meth.Name, classSet(spec.Prim)))
	}
	kc.R.Count("burst_calls", int64(len(results)))
	kc.R.Count("cells/burst", 1)
	if len(c.nodes) >= 2 {
		kc.NonTrivial(spec.hash())
	}
}

func sortedTable() map[string]int64 {
	cellsMu.Lock()
	defer cellsMu.Unlock()
	keys := make([]string, 0, len(cellsTable))
	for k := range cellsTable {
		keys = append(keys, k)
	}
	sort.Strings(keys)
	out := make(map[string]int64, len(keys))
	for _, k := range keys {
		out[k] = cellsTable[k]
	}

	return out
}
