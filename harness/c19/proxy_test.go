package c19

// Proxy(): the third kind of "beacon API call through the multi-node client" (besides the typed
// provide / submit calls). multi.Proxy fans one *http.Request out to every node of a stage, so
// each node has to receive the complete request body no matter what its siblings do with theirs
// and in which order they read. Scripted nodes read the body fully / partially / not at all,
// either as soon as they are called or only after their gate opened; a healthy node answers 200
// (node-unique id + hash of the body it received) only for the exact request, else 400.

import (
	"bytes"
	"context"
	"crypto/sha256"
	"encoding/hex"
	"fmt"
	"io"
	"math/rand"
	"net/http"
	"strings"

	eth2api "github.com/attestantio/go-eth2-client/api"

	"github.com/obolnetwork/charon/app/eth2wrap"
)

const (
	proxyPath  = "/eth/v1/c19/proxy"
	proxyQuery = "slot=7&id=head"
)

type readSpec struct {
	How string `json:"reads"` // full | half | none
	At  string `json:"when"`  // when-called | after-gate
}

type proxySpec struct {
	HTTPMethod string     `json:"http_method"`
	BodySize   int        `json:"body_bytes"`
	Reads      []readSpec `json:"body_reads_per_node"`
}

// proxySpecFor draws the request and the per-node body handling of a Proxy cell.
func proxySpecFor(rng *rand.Rand, classes []class) *proxySpec {
	ps := &proxySpec{HTTPMethod: http.MethodPost}
	if rng.Intn(6) == 0 {
		ps.HTTPMethod = http.MethodGet
	}
	switch rng.Intn(6) {
	case 0:
		ps.BodySize = 0
	case 1, 2, 3, 4:
		ps.BodySize = 1 + rng.Intn(400)
	default:
		ps.BodySize = 64<<10 + rng.Intn(8<<10)
	}
	if ps.HTTPMethod == http.MethodGet {
		ps.BodySize = 0
	}
	for _, cl := range classes {
		rs := readSpec{How: []string{"full", "full", "half", "none"}[rng.Intn(4)], At: []string{"when-called", "after-gate"}[rng.Intn(2)]}
		if cl == clOK || cl == clNOK {
			rs.How = "full"
		}
		ps.Reads = append(ps.Reads, rs)
	}

	return ps
}

func proxyBody(seed int64, size int) []byte {
	if size == 0 {
		return nil
	}
	b := make([]byte, size)
	x := uint32(seed)*2654435761 + 12345
	for i := range b { // cheap reproducible non-periodic-looking payload
		x = x*1664525 + 1013904223
		b[i] = byte(x >> 24)
	}
	copy(b, `{"c19":"`)

	return b
}

func shaHex(b []byte) string {
	h := sha256.Sum256(b)
	return hex.EncodeToString(h[:])
}

// proxyAnswer is the comparable form of a Proxy response.
type proxyAnswer struct {
	Status  int
	HdrNode string
	HdrSha  string
	Body    string
}

func expectedProxyAnswer(uid uint64, sha string) proxyAnswer {
	return proxyAnswer{Status: http.StatusOK, HdrNode: fmt.Sprint(uid), HdrSha: sha, Body: fmt.Sprintf(`{"node":"%d","body_sha256":"%s"}`, uid, sha)}
}

func readProxyAnswer(res *http.Response) proxyAnswer {
	if res == nil {
		return proxyAnswer{}
	}
	a := proxyAnswer{Status: res.StatusCode, HdrNode: res.Header.Get("X-C19-Node"), HdrSha: res.Header.Get("X-C19-Body-Sha")}
	if res.Body != nil {
		b, _ := io.ReadAll(res.Body)
		_ = res.Body.Close()
		a.Body = string(b)
	}

	return a
}

func proxyRequest(ctx context.Context, ps *proxySpec, body []byte) (*http.Request, error) {
	var rd io.Reader
	if ps.HTTPMethod == http.MethodPost {
		rd = bytes.NewReader(body)
	}
	req, err := http.NewRequestWithContext(ctx, ps.HTTPMethod, "http://c19.invalid"+proxyPath+"?"+proxyQuery, rd)
	if err != nil {
		return nil, err
	}
	req.Header.Set("Content-Type", "application/json")

	return req, nil
}

var proxyMethod = &method{
	Name: "Proxy", Style: "provide", SigStyle: "proxy",
	callCell: func(ctx context.Context, cl eth2wrap.Client, c *cellRun) (any, error) {
		req, err := proxyRequest(ctx, c.spec.Proxy, c.proxyBody)
		if err != nil {
			return nil, err
		}
		res, err := cl.Proxy(ctx, req)
		if err != nil {
			return nil, err
		}

		return readProxyAnswer(res), nil
	},
	expectCell: func(c *cellRun, n *node) any { return expectedProxyAnswer(n.uid, c.proxySha) },
}

func init() { methods = append(methods, proxyMethod) }

// Proxy is the scripted node's side of a proxied request.
func (n *node) Proxy(ctx context.Context, req *http.Request) (*http.Response, error) {
	c := n.run
	ps := c.spec.Proxy
	if ps == nil || n.idx >= len(ps.Reads) {
		return nil, &tagErr{msg: "c19: unexpected Proxy call"}
	}
	rd := ps.Reads[n.idx]
	var got []byte
	read := func() {
		if req.Body == nil {
			return
		}
		switch rd.How {
		case "full":
			got, _ = io.ReadAll(req.Body)
		case "half":
			buf := make([]byte, ps.BodySize/2)
			k, _ := io.ReadFull(req.Body, buf)
			got = buf[:k]
		}
		c.mu.Lock()
		c.tracef("%s read %d body bytes (%s, %s)", n.label(), len(got), rd.How, rd.At)
		c.mu.Unlock()
	}
	var pre func()
	if rd.At == "when-called" {
		pre = read
	}
	post := func() error {
		if rd.At != "when-called" {
			read()
		}
		if n.spec.Class != clOK {
			return nil
		}
		var problem string
		switch {
		case req.Method != ps.HTTPMethod:
			problem = fmt.Sprintf("method %s instead of %s", req.Method, ps.HTTPMethod)
		case req.URL == nil || req.URL.Path != proxyPath || req.URL.RawQuery != proxyQuery:
			problem = fmt.Sprintf("url %v", req.URL)
		case !bytes.Equal(got, c.proxyBody):
			problem = fmt.Sprintf("%d of %d request body bytes (sha256 %s… instead of %s…)", len(got), len(c.proxyBody), shaHex(got)[:12], shaHex(c.proxyBody)[:12])
		}
		if problem == "" {
			c.mu.Lock()
			c.bodyOKCount++
			c.mu.Unlock()

			return nil
		}
		c.mu.Lock()
		if c.bodyBad == "" {
			c.bodyBad = fmt.Sprintf("healthy node %s received %s", n.label(), problem)
		}
		c.bodyBadCount++
		c.tracef("%s: %s -> 400", n.label(), problem)
		c.mu.Unlock()

		return &eth2api.Error{Method: req.Method, Endpoint: proxyPath, StatusCode: http.StatusBadRequest, Data: []byte(fmt.Sprintf("c19n%d invalid request body", n.uid))}
	}
	if err := n.serveH(ctx, pre, post); err != nil {
		return nil, err
	}
	a := expectedProxyAnswer(n.uid, c.proxySha) // got == c.proxyBody was checked above for a healthy node
	if n.spec.Class != clOK {
		a = expectedProxyAnswer(n.uid, shaHex(got))
	}
	h := http.Header{}
	h.Set("Content-Type", "application/json")
	h.Set("X-C19-Node", a.HdrNode)
	h.Set("X-C19-Body-Sha", a.HdrSha)

	return &http.Response{Status: "200 OK", StatusCode: http.StatusOK, Proto: "HTTP/1.1", ProtoMajor: 1, ProtoMinor: 1, Header: h, Body: io.NopCloser(strings.NewReader(a.Body)), Request: req}, nil
}
