package c19

import (
	"context"
	"fmt"
	"sync/atomic"
	"time"

	eth2api "github.com/attestantio/go-eth2-client/api"

	"github.com/obolnetwork/charon/app/eth2wrap"

	"verifharness/kit"
)

// Part 5: clients that are older than the multi client's best-node selector period.
//
// Every other part builds a fresh client per cell, so state the client keeps between calls (the
// per-period success counters of its best-node selector, reset when a period of one minute has
// passed) never matters. Here a client is built, makes one successful warm-up call, and is used for
// an ordinary cell only after the selector period has elapsed: the first success of the new period
// runs the reset path while the call is in flight. The one-minute wait only paces the workload (the
// goroutine sleeps, the worker pool is widened by the number of aged cells); the verdicts are the
// ordinary causal ones of the cell engine. Seeded change C19-r7 (selector reset re-entering its own
// lock) made every call of the second period hang although a primary had answered.

// selectorPeriod mirrors eth2wrap's unexported bestPeriod constant (one minute) plus a margin.
const selectorPeriod = time.Minute + 1500*time.Millisecond

// agedNode forwards to whatever client it currently wraps: the warm-up stub first, the cell's
// scripted node afterwards. The swap happens while no call is in flight.
type agedNode struct {
	eth2wrap.Client
}

var agedSecondPeriodCalls atomic.Int64

func agedCount(thorough bool) int {
	if thorough {
		return 96
	}

	return 24
}

func runAgedCell(kc *kit.Case, spec *cellSpec) {
	spec.fill()
	c, err := newCellRun(kc, spec)
	if err != nil {
		kc.R.Inconclusive("beaconmock base could not be built: %v", err)
		return
	}
	bm, _ := base()
	var prim, fall []eth2wrap.Client
	var wraps []*agedNode
	for i := range c.nodes {
		w := &agedNode{Client: bm}
		wraps = append(wraps, w)
		if i < c.nP {
			prim = append(prim, w)
		} else {
			fall = append(fall, w)
		}
	}
	born := time.Now()
	m := eth2wrap.NewMultiForT(prim, fall)
	ctx, cancel := context.WithTimeout(context.Background(), 30*time.Second)
	_, werr := m.NodePeerCount(ctx, &eth2api.NodePeerCountOpts{})
	cancel()
	if werr != nil {
		kc.R.Inconclusive("case %d: aged client warm-up call failed: %v", kc.Idx, werr)
		return
	}
	kc.R.Count("aged/warm_up_calls_succeeded", 1)
	time.Sleep(time.Until(born.Add(selectorPeriod)))
	for i, w := range wraps {
		w.Client = c.nodes[i]
	}
	c.aged = m
	c.mu.Lock()
	c.tracef("client is %.1fs old (selector period 60s) and made one successful call in its first period", time.Since(born).Seconds())
	c.mu.Unlock()
	kc.R.Count("aged/cells_run", 1)
	c.drive()
	ok := c.cleanup(1)
	c.evaluate(ok)
	c.mu.Lock()
	for _, r := range c.results {
		if r.err == nil {
			kc.R.Count("aged/calls_returned_success_in_second_selector_period", 1)
			agedSecondPeriodCalls.Add(1)
		}
	}
	c.mu.Unlock()
	kc.R.Seen("aged/cell_shapes", fmt.Sprintf("%s P=%d F=%d", spec.Method, len(spec.Prim), len(spec.Fall)))
}
