package c19

// Second world of the C19 check: the client users actually get — eth2wrap.NewMultiHTTP, i.e.
// multi -> lazy (first-use initialisation with go-eth2-client's http.New) -> httpAdapter — against
// loopback HTTP beacon nodes scripted by the harness. A node can answer correctly (node-unique
// payloads), be unreachable, answer 503 to everything, answer 400/404/503 on the called endpoint
// only, and block its handlers on a harness gate either during the client's first-use
// initialisation (node/syncing, node/version) or on the endpoint after initialisation.
//
// The per-node timeout is 60 s and is never reached by a healthy run: every verdict is causal
// ("the call returned only after the harness released the blocked handlers"), see hrun.mustReturn
// and hrun.afterCancel.

import (
	"context"
	"encoding/json"
	"errors"
	"fmt"
	"io"
	"log"
	"math/rand"
	"net"
	"net/http"
	"net/http/httptest"
	"net/http/httputil"
	"net/url"
	"reflect"
	"strings"
	"sync"
	"sync/atomic"
	"time"

	eth2api "github.com/attestantio/go-eth2-client/api"
	eth2v1 "github.com/attestantio/go-eth2-client/api/v1"
	eth2spec "github.com/attestantio/go-eth2-client/spec"
	"github.com/attestantio/go-eth2-client/spec/electra"
	eth2p0 "github.com/attestantio/go-eth2-client/spec/phase0"

	"github.com/obolnetwork/charon/app/eth2wrap"

	"verifharness/kit"
)

const nodeTimeout = 60 * time.Second

// violSeenHTTP counts the violations found through the production client (subset of violSeen).
var violSeenHTTP atomic.Int64

type hOutcome int

const (
	hOK      hOutcome = iota
	hDown             // nothing listens: connection refused (unreachable)
	hAll503           // every request is answered 503 (unavailable)
	hEp503            // initialisation fine, the called endpoint answers 503 (unavailable)
	hEp400            // initialisation fine, the called endpoint answers 400 (not unavailability)
	hEp404            // initialisation fine, the called endpoint answers 404 (not unavailability)
	hSyncing          // node reports is_syncing=true: go-eth2-client fails duty endpoints with "client is not synced" (syncing = unavailable)
	hDies             // initialised successfully by an earlier call, then the node goes away (resets every connection): unreachable
	numHOutcomes
)

var hOutcomeNames = map[hOutcome]string{hOK: "ok", hDown: "connection-refused", hAll503: "503-on-everything", hEp503: "endpoint-503", hEp400: "endpoint-400", hEp404: "endpoint-404", hSyncing: "reports-syncing", hDies: "unreachable-after-initialisation"}

func (o hOutcome) String() string { return hOutcomeNames[o] }

func (o hOutcome) cat() errCat {
	switch o {
	case hOK:
		return catNone
	case hDown, hAll503, hEp503, hSyncing, hDies:
		return catUnavailable
	case hEp400, hEp404:
		return catOther
	default:
		return catAmbiguous
	}
}

type hGate int

const (
	gNone     hGate = iota
	gInit           // handlers of node/syncing and node/version block (client's first-use initialisation)
	gEndpoint       // every other handler blocks (client already initialised)
)

var hGateNames = map[hGate]string{gNone: "none", gInit: "first-use-initialisation", gEndpoint: "endpoint-after-initialisation"}

type hnodeSpec struct {
	Outcome  hOutcome `json:"-"`
	OutcomeS string   `json:"outcome"`
	Gate     hGate    `json:"-"`
	GateS    string   `json:"blocks_at"`
	Hang     bool     `json:"hangs,omitempty"` // the gate is never opened before the verdict
}

type hcellSpec struct {
	Kind     string      `json:"kind"`
	Method   string      `json:"method"`
	Prim     []hnodeSpec `json:"primaries"`
	Fall     []hnodeSpec `json:"fallbacks"`
	Order    []int       `json:"release_order"` // over all nodes
	PreEnd   bool        `json:"context_ended_before_call,omitempty"`
	Deadline bool        `json:"context_end_is_deadline,omitempty"`
	Warm     bool        `json:"clients_initialised_by_earlier_call,omitempty"`
	Prime    bool        `json:"one_more_call_after_nodes_died,omitempty"` // lets go-eth2-client notice: "client is not active"
	BodySize int         `json:"proxy_body_bytes,omitempty"`
	Reads    []string    `json:"proxy_body_reads_per_node,omitempty"` // full | half | none (failing nodes)
	Headers  bool        `json:"custom_beacon_node_headers_configured,omitempty"`
}

func (s *hcellSpec) fill() {
	for i := range s.Prim {
		s.Prim[i].OutcomeS, s.Prim[i].GateS = s.Prim[i].Outcome.String(), hGateNames[s.Prim[i].Gate]
	}
	for i := range s.Fall {
		s.Fall[i].OutcomeS, s.Fall[i].GateS = s.Fall[i].Outcome.String(), hGateNames[s.Fall[i].Gate]
	}
}

type hmethod struct {
	Name     string
	Style    string
	SigStyle string
	Synced   bool // go-eth2-client requires a synced node for this endpoint
	HasNOK   bool // own success predicate: a node that reports syncing ANSWERS (not ok) instead of failing
	Path     string
	HTTPVerb string                                                                 // Proxy only
	call     func(ctx context.Context, cl eth2wrap.Client) (uint64, error)          // returns the uid found in the payload
	callCell func(ctx context.Context, cl eth2wrap.Client, c *hrun) (uint64, error) // Proxy: the request depends on the cell
}

func (m *hmethod) sigStyle() string {
	if m.SigStyle != "" {
		return m.SigStyle
	}

	return m.Style
}

// hproxyCall sends the cell's request through Proxy and identifies the answering node.
func hproxyCall(ctx context.Context, cl eth2wrap.Client, c *hrun) (uint64, error) {
	req, err := proxyRequest(ctx, &proxySpec{HTTPMethod: c.meth.HTTPVerb, BodySize: c.spec.BodySize}, c.proxyBody)
	if err != nil {
		return 0, err
	}
	res, err := cl.Proxy(ctx, req)
	if err != nil {
		return 0, err
	}
	a := readProxyAnswer(res)
	var uid uint64
	if _, err := fmt.Sscan(a.HdrNode, &uid); err != nil || a != expectedProxyAnswer(uid, c.proxySha) {
		return ^uint64(0), nil // headers and body of different nodes / not the request that was sent
	}

	return uid, nil
}

// hsyncState is the node/syncing answer of a node: is_syncing is the scripted class, is_optimistic,
// el_offline, sync_distance and head_slot vary per node. The node uid is kept in head_slot or, when
// head_slot is 0, in sync_distance, so the returned answer identifies its node.
func hsyncState(uid uint64, syncing bool) (eth2v1.SyncState, bool) {
	v := mix(uid)
	st := eth2v1.SyncState{IsSyncing: syncing, IsOptimistic: v&1 == 1, HeadSlot: eth2p0.Slot(uid)}
	if syncing {
		st.SyncDistance = []eth2p0.Slot{1, 1000, 250000}[(v>>1)%3] // head_slot stays non-zero: go-eth2-client treats (0, <=1) as synced
	} else {
		st.SyncDistance = []eth2p0.Slot{0, 0, 1, 37}[(v>>1)%4]
		if (v>>3)%4 == 0 {
			st.HeadSlot, st.SyncDistance = 0, eth2p0.Slot(uid)
		}
	}

	return st, (v>>5)&1 == 1
}

func describeHSync(uid uint64, syncing bool) string {
	st, el := hsyncState(uid, syncing)
	return fmt.Sprintf("is_syncing=%v is_optimistic=%v el_offline=%v head_slot_zero=%v sync_distance_zero=%v", st.IsSyncing, st.IsOptimistic, el, st.HeadSlot == 0, st.SyncDistance == 0)
}

// the attestation data every node aggregates over (the real client verifies slot and data root)
var haggData = func() *eth2p0.AttestationData { d := attData(7); d.Slot, d.Index = 7, 0; return d }()

func haggRoot() eth2p0.Root {
	r, err := haggData.HashTreeRoot()
	if err != nil {
		panic(err)
	}

	return r
}

func haggAttestation(uid uint64) *eth2spec.VersionedAttestation {
	ver, empty, _ := aggVariant(uid)
	bits := []byte{byte(uid) | 1, 0x01}
	if empty {
		bits = []byte{0x00, 0x01}
	}
	va := &eth2spec.VersionedAttestation{Version: ver}
	att := &eth2p0.Attestation{AggregationBits: bits, Data: haggData, Signature: nodeSig(uid)}
	switch ver {
	case eth2spec.DataVersionPhase0:
		va.Phase0 = att
	case eth2spec.DataVersionAltair:
		va.Altair = att
	case eth2spec.DataVersionBellatrix:
		va.Bellatrix = att
	case eth2spec.DataVersionCapella:
		va.Capella = att
	case eth2spec.DataVersionDeneb:
		va.Deneb = att
	default:
		cb := make([]byte, 8)
		cb[0] = 1 << (uid % 8)
		va.Electra = &electra.Attestation{AggregationBits: bits, Data: haggData, Signature: nodeSig(uid), CommitteeBits: cb}
	}

	return va
}

func haggJSON(uid uint64) (version, body string) {
	va := haggAttestation(uid)
	var (
		b   []byte
		err error
	)
	if va.Electra != nil {
		b, err = json.Marshal(va.Electra)
	} else {
		att, _ := firstPhase0(va)
		b, err = json.Marshal(att)
	}
	if err != nil {
		panic(err)
	}
	version = strings.ToLower(va.Version.String())

	return version, fmt.Sprintf(`{"version":"%s","data":%s}`, version, b)
}

func firstPhase0(va *eth2spec.VersionedAttestation) (*eth2p0.Attestation, bool) {
	for _, a := range []*eth2p0.Attestation{va.Phase0, va.Altair, va.Bellatrix, va.Capella, va.Deneb} {
		if a != nil {
			return a, true
		}
	}

	return nil, false
}

func init() {
	hmethods = append(hmethods,
		&hmethod{
			Name: "NodeSyncing", Style: "provide", HasNOK: true, Path: "/eth/v1/node/syncing",
			callCell: func(ctx context.Context, cl eth2wrap.Client, c *hrun) (uint64, error) {
				r, err := cl.NodeSyncing(ctx, &eth2api.NodeSyncingOpts{})
				if err != nil || r == nil || r.Data == nil {
					return 0, err
				}
				uid := uint64(r.Data.HeadSlot)
				if uid == 0 {
					uid = uint64(r.Data.SyncDistance)
				}
				for _, n := range c.nodes {
					if n.uid != uid {
						continue
					}
					if want, _ := hsyncState(uid, n.spec.Outcome == hSyncing); *r.Data == want {
						return uid, nil
					}
				}

				return ^uint64(0), nil // not the answer of any one node
			},
		},
		&hmethod{
			Name: "AggregateAttestation", Style: "provide", Synced: true, Path: "/eth/v2/validator/aggregate_attestation",
			callCell: func(ctx context.Context, cl eth2wrap.Client, _ *hrun) (uint64, error) {
				r, err := cl.AggregateAttestation(ctx, &eth2api.AggregateAttestationOpts{Slot: 7, AttestationDataRoot: haggRoot(), CommitteeIndex: 0})
				if err != nil || r == nil {
					return 0, err
				}
				if r.Data == nil {
					return ^uint64(0), nil
				}
				sig, err := r.Data.Signature()
				if err != nil {
					return ^uint64(0), nil
				}
				var uid uint64
				for i := 0; i < 8; i++ {
					uid |= uint64(sig[i]^byte(i*3)) << (8 * uint(i))
				}
				if !reflect.DeepEqual(r.Data, haggAttestation(uid)) {
					return ^uint64(0), nil
				}

				return uid, nil
			},
		},
	)
}

func init() {
	hmethods = append(hmethods,
		&hmethod{Name: "ProxyPOST", Style: "provide", SigStyle: "proxy", Path: proxyPath, HTTPVerb: http.MethodPost, callCell: hproxyCall},
		&hmethod{Name: "ProxyGET", Style: "provide", SigStyle: "proxy", Path: proxyPath, HTTPVerb: http.MethodGet, callCell: hproxyCall},
	)
}

var hmethods = []*hmethod{
	{
		Name: "NodePeerCount", Style: "provide", Path: "/eth/v1/node/peer_count",
		call: func(ctx context.Context, cl eth2wrap.Client) (uint64, error) {
			r, err := cl.NodePeerCount(ctx, &eth2api.NodePeerCountOpts{})
			if err != nil || r == nil || r.Data == nil {
				return 0, err
			}

			return r.Data.Connected, nil
		},
	},
	{
		Name: "AttestationData", Style: "provide", Synced: true, Path: "/eth/v1/validator/attestation_data",
		call: func(ctx context.Context, cl eth2wrap.Client) (uint64, error) {
			r, err := cl.AttestationData(ctx, &eth2api.AttestationDataOpts{Slot: 7, CommitteeIndex: 2})
			if err != nil || r == nil || r.Data == nil {
				return 0, err
			}
			var uid uint64
			for i := 0; i < 8; i++ { // inverse of root(uid, 1)
				uid |= uint64(r.Data.BeaconBlockRoot[i]^1^byte(i)) << (8 * uint(i))
			}
			if r.Data.BeaconBlockRoot != root(uid, 1) || r.Data.Source == nil || r.Data.Source.Root != root(uid, 2) || r.Data.Target == nil || r.Data.Target.Root != root(uid, 3) {
				return ^uint64(0), nil // a blend / no node's answer
			}

			return uid, nil
		},
	},
	{
		Name: "SubmitAttestations", Style: "submit", Synced: true, Path: "/eth/v2/beacon/pool/attestations",
		call: func(ctx context.Context, cl eth2wrap.Client) (uint64, error) {
			return 0, cl.SubmitAttestations(ctx, &eth2api.SubmitAttestationsOpts{Attestations: []*eth2spec.VersionedAttestation{submittedAttestation()}})
		},
	},
	{
		Name: "SubmitProposalPreparations", Style: "submit", Path: "/eth/v1/validator/prepare_beacon_proposer",
		call: func(ctx context.Context, cl eth2wrap.Client) (uint64, error) {
			return 0, cl.SubmitProposalPreparations(ctx, []*eth2v1.ProposalPreparation{{ValidatorIndex: 1}})
		},
	},
}

func hmethodByName(name string) *hmethod {
	for _, m := range hmethods {
		if m.Name == name {
			return m
		}
	}

	return hmethods[0]
}

// hnode is one scripted HTTP beacon node.
type hnode struct {
	run      *hrun
	idx      int
	fallback bool
	spec     hnodeSpec
	uid      uint64
	srv      *httptest.Server
	addr     string
	gate     chan struct{}

	// under run.mu
	dead       bool // lost after initialisation: resets every connection
	released   bool
	reqs       int
	pending    int   // handlers blocked on the gate right now
	aborted    int   // blocked handlers whose client gave up before the gate opened
	epAnswered int   // target endpoint answered with the scripted outcome
	firstSeq   int64 // event number of the first request after arming
}

func (n *hnode) label() string {
	if n.fallback {
		return fmt.Sprintf("f%d", n.idx-n.run.nP)
	}

	return fmt.Sprintf("p%d", n.idx)
}

func hex32(r eth2p0.Root) string { return fmt.Sprintf("%#x", r[:]) }

func (n *hnode) ServeHTTP(w http.ResponseWriter, r *http.Request) {
	c := n.run
	path := r.URL.Path
	if c.spec.Headers {
		if r.Header.Get("X-C19-Cell") == fmt.Sprint(c.kc.Idx) {
			c.kc.R.Count("http/requests_carrying_the_configured_headers", 1)
		} else {
			c.kc.R.Count("http/requests_without_the_configured_headers", 1)
		}
	}
	isInit := path == "/eth/v1/node/syncing" || path == "/eth/v1/node/version"
	c.mu.Lock()
	dead := n.dead
	// NodeSyncing as the call under test: the client's own probes and the call are the same request,
	// so such cells script no endpoint-only behaviour (see normalizeForMethod); every answered
	// node/syncing request counts as an answer of the endpoint.
	isEndpoint := path == "/eth/v1/node/syncing" && c.meth.Name == "NodeSyncing" && !dead
	c.mu.Unlock()
	if dead {
		if hj, ok := w.(http.Hijacker); ok {
			if conn, _, err := hj.Hijack(); err == nil {
				if tc, ok := conn.(*net.TCPConn); ok {
					_ = tc.SetLinger(0) // RST
				}
				_ = conn.Close()
			}
		}

		return
	}
	c.mu.Lock()
	armed := c.armed
	if armed {
		c.seq++
		n.reqs++
		if n.firstSeq == 0 {
			n.firstSeq = c.seq
		}
	}
	block := armed && !n.released && ((n.spec.Gate == gInit && isInit) || (n.spec.Gate == gEndpoint && !isInit))
	if block {
		n.pending++
		c.tracef("%s blocks %s", n.label(), path)
	} else if armed {
		c.tracef("%s serves %s", n.label(), path)
	}
	c.mu.Unlock()
	c.bump()
	if block {
		select {
		case <-n.gate:
			c.mu.Lock()
			n.pending--
			c.mu.Unlock()
		case <-r.Context().Done():
			c.mu.Lock()
			n.pending--
			n.aborted++
			c.tracef("%s: client gave up on %s", n.label(), path)
			c.mu.Unlock()
			c.bump()

			return
		}
	}

	writeJSON := func(code int, body string) {
		w.Header().Set("Content-Type", "application/json")
		w.WriteHeader(code)
		_, _ = w.Write([]byte(body))
	}
	writeErr := func(code int) {
		writeJSON(code, fmt.Sprintf(`{"code":%d,"message":"c19n%d scripted failure"}`, code, n.uid))
	}
	answered := func() {
		c.mu.Lock()
		if armed {
			n.epAnswered++
			c.tracef("%s answered %s (%s)", n.label(), path, n.spec.Outcome)
		}
		c.mu.Unlock()
		c.bump()
	}
	switch {
	case n.spec.Outcome == hAll503:
		writeErr(http.StatusServiceUnavailable)
	case path == "/eth/v1/node/syncing":
		st, elOffline := hsyncState(n.uid, n.spec.Outcome == hSyncing)
		writeJSON(200, fmt.Sprintf(`{"data":{"head_slot":"%d","sync_distance":"%d","is_optimistic":%v,"is_syncing":%v,"el_offline":%v}}`, st.HeadSlot, st.SyncDistance, st.IsOptimistic, st.IsSyncing, elOffline))
		if isEndpoint {
			answered()
		}
	case path == "/eth/v1/node/version":
		writeJSON(200, fmt.Sprintf(`{"data":{"version":"c19-node-%d/v1.0.0"}}`, n.uid))
	case path == c.meth.Path && c.meth.HTTPVerb != "":
		n.serveProxied(w, r, writeErr, writeJSON)
		answered()
	case path == c.meth.Path:
		switch n.spec.Outcome {
		case hEp503:
			writeErr(http.StatusServiceUnavailable)
		case hEp400:
			writeErr(http.StatusBadRequest)
		case hEp404:
			writeErr(http.StatusNotFound)
		default:
			switch c.meth.Name {
			case "NodePeerCount":
				writeJSON(200, fmt.Sprintf(`{"data":{"disconnected":"1","connecting":"2","connected":"%d","disconnecting":"3"}}`, n.uid))
			case "AttestationData":
				writeJSON(200, fmt.Sprintf(`{"data":{"slot":"7","index":"2","beacon_block_root":"%s","source":{"epoch":"0","root":"%s"},"target":{"epoch":"1","root":"%s"}}}`,
					hex32(root(n.uid, 1)), hex32(root(n.uid, 2)), hex32(root(n.uid, 3))))
			case "AggregateAttestation":
				ver, body := haggJSON(n.uid)
				w.Header().Set("Eth-Consensus-Version", ver)
				writeJSON(200, body)
			default:
				writeJSON(200, `{}`)
			}
		}
		answered()
	default:
		c.proxy.ServeHTTP(w, r) // spec, genesis, … from the shared beaconmock HTTP server
	}
}

// serveProxied handles the proxied request: failing nodes read the body fully / partially / not at
// all before failing; a healthy node answers 200 only for exactly the request that was sent.
func (n *hnode) serveProxied(w http.ResponseWriter, r *http.Request, writeErr func(int), writeJSON func(int, string)) {
	c := n.run
	how := "full"
	if n.idx < len(c.spec.Reads) {
		how = c.spec.Reads[n.idx]
	}
	healthy := n.spec.Outcome == hOK || n.spec.Outcome == hSyncing || n.spec.Outcome == hDies
	if healthy {
		how = "full"
	}
	var got []byte
	switch how {
	case "full":
		got, _ = io.ReadAll(r.Body)
	case "half":
		buf := make([]byte, c.spec.BodySize/2)
		k, _ := io.ReadFull(r.Body, buf)
		got = buf[:k]
	}
	switch n.spec.Outcome {
	case hEp503:
		writeErr(http.StatusServiceUnavailable)
		return
	case hEp400:
		writeErr(http.StatusBadRequest)
		return
	case hEp404:
		writeErr(http.StatusNotFound)
		return
	}
	var problem string
	q := r.URL.Query()
	switch {
	case r.Method != c.meth.HTTPVerb:
		problem = fmt.Sprintf("method %s instead of %s", r.Method, c.meth.HTTPVerb)
	case q.Get("slot") != "7" || q.Get("id") != "head":
		problem = "query " + r.URL.RawQuery
	case string(got) != string(c.proxyBody):
		problem = fmt.Sprintf("%d of %d request body bytes (sha256 %s… instead of %s…)", len(got), len(c.proxyBody), shaHex(got)[:12], c.proxySha[:12])
	}
	c.mu.Lock()
	armed := c.armed
	if armed && problem != "" {
		if c.bodyBad == "" {
			c.bodyBad = fmt.Sprintf("healthy node %s received %s", n.label(), problem)
		}
		c.bodyBadCount++
		c.tracef("%s: %s -> 400", n.label(), problem)
	} else if armed {
		c.bodyOKCount++
	}
	c.mu.Unlock()
	c.bump()
	if problem != "" {
		writeErr(http.StatusBadRequest)
		return
	}
	a := expectedProxyAnswer(n.uid, c.proxySha)
	w.Header().Set("X-C19-Node", a.HdrNode)
	w.Header().Set("X-C19-Body-Sha", a.HdrSha)
	writeJSON(http.StatusOK, a.Body)
}

type hresult struct {
	uid       uint64
	err       error
	cancelled bool
	seq       int64
}

type hrun struct {
	kc    *kit.Case
	spec  *hcellSpec
	meth  *hmethod
	nodes []*hnode
	nP    int
	proxy *httputil.ReverseProxy
	cctx  *callerCtx

	mu        sync.Mutex
	notify    chan struct{}
	armed     bool
	seq       int64
	cancelled bool
	cancelSeq int64
	toFinish  bool
	trace     []string
	done      bool
	res       hresult

	proxyBody    []byte
	proxySha     string
	bodyBad      string
	bodyBadCount int
	bodyOKCount  int

	stallAt, stallKind string
	released           []string
	pendingAtRelease   int
	cancelObs          string
	blockedObs         bool
	fbReqsWhileHung    int
}

func (c *hrun) tracef(format string, a ...any) { // c.mu held
	if len(c.trace) < 200 {
		c.trace = append(c.trace, fmt.Sprintf(format, a...))
	}
}

func (c *hrun) bump() {
	select {
	case c.notify <- struct{}{}:
	default:
	}
}

func (c *hrun) await(d time.Duration, pred func() bool) bool {
	timer := time.NewTimer(d)
	defer timer.Stop()
	for {
		c.mu.Lock()
		ok := pred()
		c.mu.Unlock()
		if ok {
			return true
		}
		select {
		case <-c.notify:
		case <-timer.C:
			c.mu.Lock()
			ok = pred()
			c.mu.Unlock()

			return ok
		}
	}
}

func (c *hrun) awaitSettle(pred func() bool) bool {
	if c.await(settle(), pred) {
		return true
	}

	return c.await(settle(), pred)
}

func (c *hrun) isDone() bool { return c.done } // c.mu held

func (c *hrun) doneNow() bool {
	c.mu.Lock()
	defer c.mu.Unlock()

	return c.done
}

func (c *hrun) release(n *hnode) {
	c.mu.Lock()
	if n.released {
		c.mu.Unlock()
		return
	}
	n.released = true
	c.tracef("release %s", n.label())
	c.mu.Unlock()
	close(n.gate)
}

func (c *hrun) endContext(toFinish bool) {
	c.mu.Lock()
	if c.cancelled {
		c.mu.Unlock()
		return
	}
	c.cancelled = true
	c.toFinish = toFinish
	c.seq++
	c.cancelSeq = c.seq
	c.tracef("caller-context-ends deadline=%v to-finish=%v", c.spec.Deadline, toFinish)
	c.mu.Unlock()
	if c.spec.Deadline {
		c.cctx.fire(context.DeadlineExceeded)
	} else {
		c.cctx.fire(context.Canceled)
	}
}

func (c *hrun) fallbackReqs() int { // c.mu held
	k := 0
	for _, n := range c.nodes[c.nP:] {
		k += n.reqs
	}

	return k
}

func newHRun(kc *kit.Case, spec *hcellSpec) (*hrun, error) {
	bm, err := base()
	if err != nil {
		return nil, err
	}
	target, err := url.Parse(bm.Address())
	if err != nil {
		return nil, err
	}
	c := &hrun{kc: kc, spec: spec, meth: hmethodByName(spec.Method), nP: len(spec.Prim), notify: make(chan struct{}, 1), cctx: newCallerCtx()}
	if c.meth.HTTPVerb == http.MethodPost {
		c.proxyBody = proxyBody(int64(kc.Idx)+1, spec.BodySize)
	}
	c.proxySha = shaHex(c.proxyBody)
	c.proxy = httputil.NewSingleHostReverseProxy(target)
	c.proxy.ErrorLog = log.New(io.Discard, "", 0)
	c.proxy.ErrorHandler = func(w http.ResponseWriter, _ *http.Request, _ error) { w.WriteHeader(http.StatusBadGateway) }
	all := append(append([]hnodeSpec(nil), spec.Prim...), spec.Fall...)
	for i, ns := range all {
		n := &hnode{run: c, idx: i, fallback: i >= c.nP, spec: ns, uid: uint64(kc.Idx)*16 + uint64(i) + 1, gate: make(chan struct{})}
		if ns.Outcome == hDown {
			n.addr = "http://127.0.0.1:1" // nothing listens on tcpmux in the sandbox: connection refused
		} else {
			n.srv = httptest.NewServer(n)
			n.addr = n.srv.URL
		}
		c.nodes = append(c.nodes, n)
	}

	return c, nil
}

func (c *hrun) closeServers() {
	for _, n := range c.nodes {
		c.release(n)
	}
	for _, n := range c.nodes {
		if n.srv != nil {
			n.srv.CloseClientConnections()
			n.srv.Close()
		}
	}
}

func (c *hrun) call(m eth2wrap.Client) {
	var (
		uid uint64
		err error
	)
	if c.meth.callCell != nil {
		uid, err = c.meth.callCell(c.cctx, m, c)
	} else {
		uid, err = c.meth.call(c.cctx, m)
	}
	c.mu.Lock()
	c.seq++
	c.res = hresult{uid: uid, err: err, cancelled: c.cancelled, seq: c.seq}
	c.done = true
	if err != nil {
		c.tracef("return error: %s", kit.Short(err.Error(), 200))
	} else {
		c.tracef("return success uid=%d", uid)
	}
	c.mu.Unlock()
	c.bump()
}

func (c *hrun) drive() error {
	var prim, fall []string
	for _, n := range c.nodes[:c.nP] {
		prim = append(prim, n.addr)
	}
	for _, n := range c.nodes[c.nP:] {
		fall = append(fall, n.addr)
	}
	// operators may configure custom request headers for their beacon nodes (--beacon-node-headers):
	// the same client set, built through the with-headers path of the constructor
	var headers map[string]string
	if c.spec.Headers {
		headers = map[string]string{"X-C19-Cell": fmt.Sprint(c.kc.Idx), "Authorization": "Basic YzE5OmMxOQ=="}
		c.kc.R.Count("http/cells_with_custom_headers", 1)
	}
	m, err := eth2wrap.NewMultiHTTP(nodeTimeout, [4]byte{}, headers, prim, fall)
	if err != nil {
		return err
	}
	if c.spec.Warm {
		wctx, wcancel := context.WithTimeout(context.Background(), 30*time.Second)
		_, _ = m.NodeVersion(wctx, &eth2api.NodeVersionOpts{})
		wcancel()
		died := false
		for _, n := range c.nodes {
			if n.spec.Outcome == hDies && n.srv != nil {
				// The node goes away, but its port stays bound: closing the listener would let another
				// cell's server reuse the port and answer in its place. From now on every connection
				// is reset without an answer.
				c.mu.Lock()
				n.dead = true
				c.mu.Unlock()
				n.srv.CloseClientConnections()
				died = true
			}
		}
		if died && c.spec.Prime {
			pctx, pcancel := context.WithTimeout(context.Background(), 30*time.Second)
			_, _ = m.NodePeerCount(pctx, &eth2api.NodePeerCountOpts{})
			pcancel()
		}
	}
	c.mu.Lock()
	c.armed = true
	c.mu.Unlock()
	if c.spec.PreEnd {
		c.endContext(false)
	}
	go c.call(m)
	if c.spec.PreEnd {
		c.afterCancel()
		return nil
	}
	if c.tier(c.nodes[:c.nP], true) {
		c.tier(c.nodes[c.nP:], false)
	}

	return nil
}

// reachable: a gate is only ever hit when the client gets that far.
func (n *hnode) gateReachable(warm bool) bool { return gateReachableSpec(n.spec, warm, n.run.meth) }

func gateReachableSpec(s hnodeSpec, warm bool, m *hmethod) bool {
	switch s.Gate {
	case gInit:
		return s.Outcome != hDown && s.Outcome != hDies && !warm
	case gEndpoint:
		// an inactive client never gets to the endpoint; neither does a client whose node reports
		// syncing when the endpoint requires a synced node
		if s.Outcome == hSyncing {
			return m.HasNOK
		}

		return s.Outcome != hDown && s.Outcome != hDies && s.Outcome != hAll503
	default:
		return false
	}
}

func (c *hrun) tier(nodes []*hnode, isPrim bool) bool {
	tname := "primary"
	if !isPrim {
		tname = "fallback"
	}
	// wait until every gated node of the tier has a blocked handler (the call is in flight there)
	c.await(entryWait(), func() bool {
		if c.done {
			return true
		}
		for _, n := range nodes {
			if n.gateReachable(c.spec.Warm) && !n.released && n.pending == 0 {
				return false
			}
		}

		return true
	})
	if c.doneNow() {
		return false
	}
	hasHang := false
	for _, n := range nodes {
		if n.spec.Outcome == hOK && !n.gateReachable(c.spec.Warm) {
			c.mustReturn(fmt.Sprintf("%s %s answers successfully (not blocked)", tname, n.label()), tname)
			return false
		}
		if n.gateReachable(c.spec.Warm) && n.spec.Hang {
			hasHang = true
		}
	}
	for _, k := range c.spec.Order {
		if k >= len(c.nodes) {
			continue
		}
		n := c.nodes[k]
		if n.fallback == isPrim || !n.gateReachable(c.spec.Warm) || n.spec.Hang {
			continue
		}
		c.release(n)
		if n.spec.Outcome == hOK {
			c.mustReturn(fmt.Sprintf("%s %s answered successfully after its release", tname, n.label()), tname)
			return false
		}
		// a failing node: let its failure travel (gate at initialisation: the endpoint is never reached)
		c.await(20*time.Millisecond, func() bool { return c.done || n.epAnswered > 0 })
		if c.await(2*time.Millisecond, c.isDone) {
			return false
		}
	}
	if hasHang {
		if c.await(5*time.Millisecond, c.isDone) {
			return false // evaluation: an error now is "failed before all nodes failed"
		}
		c.mu.Lock()
		c.blockedObs = true
		if isPrim {
			c.fbReqsWhileHung = c.fallbackReqs()
		}
		c.mu.Unlock()
		c.endContext(false)
		c.afterCancel()

		return false
	}
	if isPrim && c.nP < len(c.nodes) {
		if !c.awaitSettle(func() bool { return c.done || c.fallbackReqs() > 0 }) {
			c.stallAllAnswered(tname)
			return false
		}
		c.mu.Lock()
		to := !c.done && c.fallbackReqs() > 0
		c.mu.Unlock()

		return to
	}
	if !c.awaitSettle(c.isDone) {
		c.stallAllAnswered(tname)
	}

	return false
}

func (c *hrun) pendingHandlers() int { // c.mu held
	k := 0
	for _, n := range c.nodes {
		k += n.pending
	}

	return k
}

func (c *hrun) mustReturn(why, tname string) {
	if c.awaitSettle(func() bool { return c.done || c.bodyBad != "" }) {
		if !c.doneNow() {
			c.mu.Lock()
			c.stallAt = why
			c.mu.Unlock()
			c.stallKind = "request-altered"
		}

		return
	}
	c.mu.Lock()
	c.stallAt = why
	c.pendingAtRelease = c.pendingHandlers()
	c.tracef("STALL: %s but the call has not returned (%d handlers still blocked); releasing them", why, c.pendingAtRelease)
	c.mu.Unlock()
	for _, n := range c.nodes {
		c.mu.Lock()
		rel := n.released
		c.mu.Unlock()
		if !rel && n.gateReachable(c.spec.Warm) {
			c.released = append(c.released, n.label())
			c.release(n)
		}
	}
	if len(c.released) > 0 && c.awaitSettle(c.isDone) {
		c.stallKind = "returned-after-release"
		return
	}
	c.endContext(true)
	if c.awaitSettle(c.isDone) {
		c.stallKind = "returned-after-cancel"
		return
	}
	c.stallKind = "never"
}

func (c *hrun) stallAllAnswered(tname string) {
	c.mu.Lock()
	c.stallAt = "every " + tname + " node had answered or failed"
	c.tracef("STALL: all %s nodes answered but the call has not returned", tname)
	c.mu.Unlock()
	c.endContext(true)
	if c.awaitSettle(c.isDone) {
		c.stallKind = "returned-after-cancel"
		return
	}
	c.stallKind = "never"
}

// afterCancel: the caller's context has ended while handlers are still blocked. The call has to
// return with those handlers still unreleased. If it has not after the settle wait and handlers
// are still blocked (the client did not even give up on them) the harness releases them; returning
// only then is the violation. No blocked handler left and still no return = slow machine: inconclusive.
func (c *hrun) afterCancel() {
	if c.awaitSettle(c.isDone) {
		c.cancelObs = "prompt"
		return
	}
	c.mu.Lock()
	c.pendingAtRelease = c.pendingHandlers()
	c.tracef("STALL: caller context ended but the call has not returned; %d handlers still blocked; releasing", c.pendingAtRelease)
	c.mu.Unlock()
	for _, n := range c.nodes {
		c.mu.Lock()
		rel := n.released
		c.mu.Unlock()
		if !rel {
			c.released = append(c.released, n.label())
			c.release(n)
		}
	}
	if c.pendingAtRelease > 0 && c.awaitSettle(c.isDone) {
		c.cancelObs = "returned-after-release"
		return
	}
	c.cancelObs = "never"
	c.stallKind = "never"
}

// ---------------------------------------------------------------------------------------------

func htierCat(ns []hnodeSpec, warm bool, m *hmethod) string {
	var ok, hang, nok, u, n, a int
	for _, s := range ns {
		gated := s.Gate != gNone && s.Hang && gateReachableSpec(s, warm, m)
		switch {
		case gated:
			hang++
		case s.Outcome == hOK:
			ok++
		case s.Outcome == hSyncing && m.HasNOK:
			nok++
		case s.Outcome.cat() == catUnavailable:
			u++
		case s.Outcome.cat() == catOther:
			n++
		default:
			a++
		}
	}
	switch {
	case ok > 0:
		return tierSuccess
	case hang > 0:
		return tierBlocked
	case nok > 0:
		return tierFailNOK
	case a > 0:
		return tierFailAmbi
	case u > 0 && n > 0:
		return tierFailMix
	case u > 0:
		return tierFailU
	default:
		return tierFailN
	}
}

func hclassSet(ns []hnodeSpec) string {
	set := map[string]bool{}
	for _, s := range ns {
		set[s.Outcome.String()] = true
	}
	// the classes the real client turns into a local error name the signature even in a mixed tier
	if set[hSyncing.String()] {
		return hSyncing.String()
	}
	if set[hDies.String()] {
		return hDies.String()
	}
	if len(set) == 1 {
		for k := range set {
			return k
		}
	}

	return "several-classes"
}

func (c *hrun) violation(fired *[]string, rule, what string) {
	sig := fmt.Sprintf("eth2wrap.multihttp/%s/%s", c.meth.sigStyle(), rule)
	violSeen.Add(1)
	violSeenHTTP.Add(1)
	*fired = append(*fired, sig)
	c.mu.Lock()
	trace := append([]string(nil), c.trace...)
	res := "pending"
	if c.done {
		if c.res.err != nil {
			res = "error: " + kit.Short(c.res.err.Error(), 300)
		} else {
			res = fmt.Sprintf("success uid=%d", c.res.uid)
		}
	}
	nodes := []string{}
	for _, n := range c.nodes {
		nodes = append(nodes, fmt.Sprintf("%s uid=%d %s gate=%s hang=%v reqs=%d blocked=%d client-gave-up=%d endpoint-answers=%d", n.label(), n.uid, n.spec.Outcome, hGateNames[n.spec.Gate], n.spec.Hang, n.reqs, n.pending, n.aborted, n.epAnswered))
	}
	c.mu.Unlock()
	c.kc.Violation(sig, what, map[string]any{
		"cell": c.spec, "per_node_timeout": nodeTimeout.String(), "nodes": nodes, "trace": trace, "result": res,
		"stall_at": c.stallAt, "stall_kind": c.stallKind, "released": c.released, "handlers_blocked_at_release": c.pendingAtRelease, "cancel_observation": c.cancelObs,
	})
}

func (c *hrun) evaluate() {
	R := c.kc.R
	spec := c.spec
	var fired []string
	c.mu.Lock()
	done, r := c.done, c.res
	cancelSeq, toFinish := c.cancelSeq, c.toFinish
	type snap struct {
		firstSeq   int64
		reqs, epAn int
	}
	snaps := make([]snap, len(c.nodes))
	for i, n := range c.nodes {
		snaps[i] = snap{n.firstSeq, n.reqs, n.epAnswered}
	}
	c.mu.Unlock()
	if !done || c.stallKind == "never" {
		R.Inconclusive("case %d (http world): the call did not return within the watchdog (stall=%q cancel=%q handlers-blocked-at-release=%d)", c.kc.Idx, c.stallAt, c.cancelObs, c.pendingAtRelease)
		return
	}
	primCat, fallCat := htierCat(spec.Prim, spec.Warm, c.meth), "none"
	if len(spec.Fall) > 0 {
		fallCat = htierCat(spec.Fall, spec.Warm, c.meth)
	}
	cat := ""
	switch {
	case r.cancelled && !toFinish && spec.PreEnd:
		cat = "cancel/before-call"
	case r.cancelled && !toFinish:
		cat = "cancel/while-node-hung"
	default:
		switch primCat {
		case tierSuccess:
			cat = "primary-success"
		case tierFailU:
			if len(spec.Fall) == 0 {
				cat = "all-primaries-failed/no-fallbacks"
			} else {
				cat = "must-fall-back/fallbacks-" + fallCat
			}
		case tierFailN:
			if len(spec.Fall) == 0 {
				cat = "all-primaries-failed/no-fallbacks"
			} else {
				cat = "must-not-fall-back"
			}
		default:
			cat = "unspecified/" + primCat
		}
	}
	R.Count("http/cells/"+strings.SplitN(cat, "/", 2)[0], 1)
	bump(cellsTable, &cellsMu, fmt.Sprintf("HTTP P%dF%d | %s | %s", len(spec.Prim), len(spec.Fall), cat, c.meth.Name))
	R.Seen("http_methods", c.meth.Name)
	hungPhase := map[string]bool{}
	for i, n := range c.nodes {
		R.Seen("http_node_behaviours", n.spec.Outcome.String()+"/blocks-at-"+hGateNames[n.spec.Gate])
		if n.spec.Hang && n.gateReachable(spec.Warm) && snaps[i].reqs > 0 {
			hungPhase[hGateNames[n.spec.Gate]] = true
		}
	}
	phase := "several-phases"
	if len(hungPhase) == 1 {
		for k := range hungPhase {
			phase = k
		}
	}

	c.mu.Lock()
	bodyBad, bodyBadCount, bodyOKCount := c.bodyBad, c.bodyBadCount, c.bodyOKCount
	c.mu.Unlock()
	if c.meth.HTTPVerb != "" {
		R.Count("http/proxy/cells", 1)
		R.Count("http/proxy/healthy_nodes_that_received_the_intact_request", int64(bodyOKCount))
		R.Seen("http_proxy_requests", fmt.Sprintf("%s/%s", c.meth.HTTPVerb, sizeClass(len(c.proxyBody))))
	}
	if c.stallKind == "request-altered" {
		c.violation(&fired, "healthy-node-received-altered-request", fmt.Sprintf("%s: %s while the handlers of the other nodes were blocked, but it had been sent an altered request and answered 400: %s", c.meth.Name, c.stallAt, bodyBad))
		return
	}
	if bodyBadCount > 0 && r.err == nil {
		R.Count("http/observation/proxy-healthy-node-received-altered-request-but-call-succeeded", 1)
	}
	bodyNote := ""
	if bodyBad != "" {
		bodyNote = " — " + bodyBad + " and answered 400"
	}

	// (1) no waiting for slower / hung nodes
	if c.stallAt != "" {
		tier := "primary"
		if strings.HasPrefix(c.stallAt, "fallback") || strings.Contains(c.stallAt, "every fallback") {
			tier = "fallback"
		}
		switch {
		case strings.HasPrefix(c.stallAt, "every "):
			c.violation(&fired, "no-return-after-all-"+tier+"-nodes-answered", fmt.Sprintf("%s: %s, yet the call returned only after the harness ended the caller context", c.meth.Name, c.stallAt))
		case c.stallKind == "returned-after-release":
			c.violation(&fired, "waited-for-slower-node/"+tier, fmt.Sprintf("%s: %s while the handlers of the other nodes were blocked, but the call returned only after the harness released %v", c.meth.Name, c.stallAt, c.released))
		default:
			c.violation(&fired, "waited-for-hung-node/"+tier, fmt.Sprintf("%s: %s, but the call returned only after the harness ended the caller context (released %v before)", c.meth.Name, c.stallAt, c.released))
		}
	} else if primCat == tierSuccess && !r.cancelled {
		R.Count("http/first_success_returned_with_other_handlers_blocked", 1)
	}
	if c.blockedObs {
		R.Count("http/call_pending_while_node_hung_without_success", 1)
	}

	// (3) cancellation / deadline
	switch c.cancelObs {
	case "prompt":
		if r.cancelled {
			R.Count("http/cancel_returned_with_handlers_still_blocked", 1)
			R.Seen("http_cancel_hung_phase", phase)
			switch {
			case r.err == nil:
				R.Count("http/cancel_returned_success", 1)
			case errors.Is(r.err, context.Canceled) || errors.Is(r.err, context.DeadlineExceeded):
				R.Count("http/cancel_returned_context_error", 1)
			default:
				R.Count("http/cancel_returned_other_error", 1)
			}
		}
	case "returned-after-release":
		c.violation(&fired, "cancel-waited-for-hung-node/"+phase, fmt.Sprintf("%s: the caller context ended while a node hung (%s); %d handlers were still blocked %s later (the client had not given up on them) and the call returned only after the harness released them — it waits for the node (per-node timeout %s), not for its caller",
			c.meth.Name, phase, c.pendingAtRelease, 2*settle(), nodeTimeout))
	}

	// (2) fallback discipline (server-side evidence: requests received by fallback nodes)
	fbFirst := int64(0)
	for i := c.nP; i < len(c.nodes); i++ {
		if s := snaps[i].firstSeq; s != 0 && (fbFirst == 0 || s < fbFirst) {
			fbFirst = s
		}
	}
	fbBeforeEnd := fbFirst != 0 && (cancelSeq == 0 || fbFirst < cancelSeq)
	observableFallback := false // a connection-refused fallback has no server that could witness the attempt
	for _, s := range spec.Fall {
		observableFallback = observableFallback || (s.Outcome != hDown && s.Outcome != hDies)
	}
	switch {
	case fbBeforeEnd && (primCat == tierSuccess || primCat == tierBlocked):
		c.violation(&fired, "fallback-consulted-before-all-primaries-failed", fmt.Sprintf("%s: a fallback node received a request although the primaries were %s", c.meth.Name, primCat))
	case fbBeforeEnd && primCat == tierFailN:
		c.violation(&fired, "fallback-consulted-on-non-availability-error/"+hclassSet(spec.Prim), fmt.Sprintf("%s: every primary failed with a non-availability error (%s) yet a fallback node received a request", c.meth.Name, hclassSet(spec.Prim)))
	case fbBeforeEnd && primCat == tierFailU:
		R.Count("http/fallback_consulted_on_unavailability", 1)
		R.Seen("http_unavailability_that_fell_back", hclassSet(spec.Prim))
	case !fbBeforeEnd && primCat == tierFailN && len(spec.Fall) > 0 && !r.cancelled:
		R.Count("http/fallback_not_consulted_on_other_error", 1)
	}
	if primCat == tierFailU && observableFallback && !r.cancelled {
		switch hclassSet(spec.Prim) {
		case hSyncing.String():
			R.Count("http/cells_all_unavailable_with_syncing_primary_and_live_fallback", 1)
		case hDies.String():
			R.Count("http/cells_all_unavailable_with_primary_lost_after_initialisation_and_live_fallback", 1)
		}
	}

	// result rules
	okAnswered := func(lo, hi int) (uids map[uint64]bool) {
		uids = map[uint64]bool{}
		for i := lo; i < hi; i++ {
			n := c.nodes[i]
			if (n.spec.Outcome == hOK || n.spec.Outcome == hSyncing) && snaps[i].epAn > 0 {
				uids[n.uid] = true
			}
		}

		return uids
	}
	if r.err == nil {
		R.Count("http/returns/success", 1)
		all := okAnswered(0, len(c.nodes))
		if c.meth.Style == "provide" {
			if !all[r.uid] {
				c.violation(&fired, "result-is-not-exactly-one-nodes-answer", fmt.Sprintf("%s returned a payload (uid %d) that is not the answer of any node that had answered", c.meth.Name, r.uid))
			} else if okAnswered(c.nP, len(c.nodes))[r.uid] {
				R.Count("http/returns/success-from-fallback", 1)
			} else {
				R.Count("http/returns/success-from-primary", 1)
			}
			if c.meth.HasNOK && all[r.uid] {
				var x *hnode
				for _, n := range c.nodes {
					if n.uid == r.uid {
						x = n
					}
				}
				d := describeHSync(x.uid, x.spec.Outcome == hSyncing)
				R.Seen("http_returned_answer_variants/"+c.meth.Name, d)
				if x.spec.Outcome == hSyncing {
					R.Count("http/returns/not-ok-answer", 1)
					tier := c.nodes[:c.nP]
					if x.fallback {
						tier = c.nodes[c.nP:]
					}
					for _, o := range tier {
						if o.spec.Outcome == hOK && !(o.spec.Hang && o.gateReachable(spec.Warm)) && !r.cancelled && c.stallAt == "" {
							c.violation(&fired, "not-ok-answer-preempted-success", fmt.Sprintf("%s returned the not-ok answer of %s (%s) although %s answers successfully", c.meth.Name, x.label(), d, o.label()))
							break
						}
					}
				} else if !r.cancelled && c.stallAt == "" {
					R.Count("http/predicate/NodeSyncing/acceptable-answer-returned", 1)
					if strings.Contains(d, "is_optimistic=true") {
						R.Count("http/predicate/NodeSyncing/acceptable-optimistic-answer-returned", 1)
					}
				}
			}
		} else if len(all) == 0 {
			c.violation(&fired, "success-without-any-successful-node", fmt.Sprintf("%s returned nil although no node had answered the endpoint successfully", c.meth.Name))
		}
	} else {
		R.Count("http/returns/error", 1)
		if !r.cancelled && c.stallAt == "" {
			switch {
			case primCat == tierSuccess:
				c.violation(&fired, "failed-although-a-primary-answers-successfully", fmt.Sprintf("%s returned an error although a primary answers successfully: %s%s", c.meth.Name, kit.Short(r.err.Error(), 200), bodyNote))
			case primCat == tierBlocked:
				c.violation(&fired, "failed-before-all-primaries-failed", fmt.Sprintf("%s returned an error while a primary was hung (neither answered nor failed): %s", c.meth.Name, kit.Short(r.err.Error(), 200)))
			case primCat == tierFailU && observableFallback && !fbBeforeEnd:
				c.violation(&fired, "fallback-not-consulted-on-unavailability/"+hclassSet(spec.Prim), fmt.Sprintf("%s: every primary was unavailable (%s) but no fallback node received a request: %s", c.meth.Name, hclassSet(spec.Prim), kit.Short(r.err.Error(), 200)))
			case primCat == tierFailU && fallCat == tierSuccess:
				c.violation(&fired, "failed-although-a-fallback-answers-successfully", fmt.Sprintf("%s returned an error although the consulted fallbacks contain a node that answers successfully: %s%s", c.meth.Name, kit.Short(r.err.Error(), 200), bodyNote))
			}
		}
	}
	c.kc.NonTrivial(kit.Hash("http", fmt.Sprint(*spec)))
	if len(fired) == 0 && c.kc.Idx%997 == 3 {
		c.mu.Lock()
		R.Sample(map[string]any{"cell": spec, "category": cat, "trace": append([]string(nil), c.trace...)})
		c.mu.Unlock()
	}
}

func runHTTPCell(kc *kit.Case, spec *hcellSpec) {
	spec.Headers = kc.R.Rand(kc.Idx, 11).Intn(2) == 0
	spec.fill()
	c, err := newHRun(kc, spec)
	if err != nil {
		kc.R.Inconclusive("http world: %v", err)
		return
	}
	if err := c.drive(); err != nil {
		kc.R.Inconclusive("http world: NewMultiHTTP: %v", err)
		c.closeServers()

		return
	}
	// clean up: end the context, release every handler, wait for the call
	c.cctx.fire(context.Canceled)
	for _, n := range c.nodes {
		c.release(n)
	}
	c.await(30*time.Second, c.isDone)
	c.closeServers()
	c.evaluate()
}

// sampleHTTPCell draws one cell of the HTTP world.
func sampleHTTPCell(rng *rand.Rand) *hcellSpec {
	if k := rng.Intn(100); k < 8 {
		return unavailableHTTPCell(rng, hSyncing)
	} else if k < 14 {
		return unavailableHTTPCell(rng, hDies)
	}
	m := kit.Pick(rng, hmethods)
	spec := &hcellSpec{Kind: "http", Method: m.Name}
	P, F := 1+rng.Intn(3), rng.Intn(3)
	scenario := rng.Intn(10)
	pickFail := func() hOutcome {
		return []hOutcome{hDown, hAll503, hEp503, hEp400, hEp404, hSyncing}[rng.Intn(6)]
	}
	pickGate := func(o hOutcome) (hGate, bool) {
		switch rng.Intn(3) {
		case 0:
			return gNone, false
		case 1:
			return gInit, rng.Intn(2) == 0
		default:
			return gEndpoint, rng.Intn(2) == 0
		}
	}
	mk := func(o hOutcome, g hGate, hang bool) hnodeSpec {
		if o == hDown {
			g, hang = gNone, false
		}
		if o == hAll503 && g == gEndpoint {
			g = gInit
		}
		if g == gNone {
			hang = false
		}

		return hnodeSpec{Outcome: o, Gate: g, Hang: hang}
	}
	for i := 0; i < P+F; i++ {
		var ns hnodeSpec
		prim := i < P
		switch {
		case scenario < 4 && prim:
			// caller gives up while primaries hang (at first use or after initialisation) / fail fast
			if i == 0 || rng.Intn(2) == 0 {
				o := []hOutcome{hOK, hOK, hEp503, hAll503, hEp400}[rng.Intn(5)]
				g := []hGate{gInit, gInit, gEndpoint}[rng.Intn(3)]
				ns = mk(o, g, true)
			} else {
				ns = mk(pickFail(), gNone, false)
			}
		case scenario < 6 && prim:
			// one primary succeeds (maybe slowly), the others hang or fail
			if i == 0 {
				g, _ := pickGate(hOK)
				ns = mk(hOK, g, false)
			} else if rng.Intn(2) == 0 {
				ns = mk(hOK, []hGate{gInit, gEndpoint}[rng.Intn(2)], true)
			} else {
				g, h := pickGate(hOK)
				ns = mk(pickFail(), g, h)
			}
		case scenario < 9 && prim:
			// all primaries fail (fast or after a release): the fallback decision
			unavailable := rng.Intn(3) != 0
			var o hOutcome
			if unavailable {
				o = []hOutcome{hDown, hAll503, hEp503}[rng.Intn(3)]
			} else {
				o = []hOutcome{hEp400, hEp404}[rng.Intn(2)]
			}
			if scenario == 8 && rng.Intn(3) == 0 {
				o = pickFail() // mixed / ambiguous
			}
			g, _ := pickGate(o)
			ns = mk(o, g, false)
		case prim:
			o := hOutcome(rng.Intn(int(hDies))) // hDies needs the dedicated scenario (earlier call)
			g, h := pickGate(o)
			ns = mk(o, g, h)
		default: // fallbacks
			o := hOK
			if rng.Intn(3) == 0 {
				o = pickFail()
			}
			g, h := pickGate(o)
			if scenario >= 6 && scenario < 9 && i == P && rng.Intn(2) == 0 {
				o, h = hOK, false // make the first fallback a (possibly slow) success
			}
			ns = mk(o, g, h)
		}
		if prim {
			spec.Prim = append(spec.Prim, ns)
		} else {
			spec.Fall = append(spec.Fall, ns)
		}
	}
	if scenario < 6 && P > 1 { // the distinguished node is not always the first configured one
		j := rng.Intn(P)
		spec.Prim[0], spec.Prim[j] = spec.Prim[j], spec.Prim[0]
	}
	normalizeForMethod(spec, m)
	attachProxyBody(rng, spec, m, P+F)
	spec.Order = rng.Perm(P + F)
	spec.Deadline = rng.Intn(3) == 0
	spec.PreEnd = rng.Intn(25) == 0
	// an earlier call may already have initialised the node clients (only without first-use gates)
	noInitGate := true
	for _, ns := range append(append([]hnodeSpec(nil), spec.Prim...), spec.Fall...) {
		if ns.Gate == gInit {
			noInitGate = false
		}
	}
	spec.Warm = noInitGate && rng.Intn(3) == 0

	return spec
}

// unavailableHTTPCell: every primary fails with an unavailability of the real client, at least one
// of kind `must` (reports syncing / lost after successful initialisation), the others refused, 503
// on everything or 503 on the endpoint; 1-2 fallbacks, at least one with a live server.
func unavailableHTTPCell(rng *rand.Rand, must hOutcome) *hcellSpec {
	var m *hmethod
	if must == hSyncing {
		var synced []*hmethod // endpoints that require a synced node
		for _, hm := range hmethods {
			if hm.Synced {
				synced = append(synced, hm)
			}
		}
		m = kit.Pick(rng, synced)
	} else {
		m = kit.Pick(rng, hmethods)
	}
	spec := &hcellSpec{Kind: "http-unavailable", Method: m.Name, Warm: must == hDies, Prime: must == hDies && rng.Intn(2) == 0}
	P, F := 1+rng.Intn(3), 1+rng.Intn(2)
	others := []hOutcome{must, hDown, hAll503, hEp503}
	for i := 0; i < P; i++ {
		o := must
		if i > 0 && rng.Intn(2) == 0 {
			o = kit.Pick(rng, others)
		}
		ns := hnodeSpec{Outcome: o}
		if !spec.Warm && o != hDown && rng.Intn(3) == 0 {
			ns.Gate = gInit // slow: released by the harness, then fails
		}
		spec.Prim = append(spec.Prim, ns)
	}
	if P > 1 {
		j := rng.Intn(P)
		spec.Prim[0], spec.Prim[j] = spec.Prim[j], spec.Prim[0]
	}
	for i := 0; i < F; i++ {
		o := hOK
		if i > 0 || rng.Intn(4) == 0 {
			o = []hOutcome{hOK, hEp503, hEp400, hAll503, hDown}[rng.Intn(5)]
		}
		if i == 0 && o == hDown {
			o = hAll503 // at least one fallback has a live server that can witness the attempt
		}
		ns := hnodeSpec{Outcome: o}
		if !spec.Warm && o != hDown && rng.Intn(3) == 0 {
			ns.Gate = []hGate{gInit, gEndpoint}[rng.Intn(2)]
			if o == hAll503 {
				ns.Gate = gInit
			}
		}
		spec.Fall = append(spec.Fall, ns)
	}
	normalizeForMethod(spec, m)
	attachProxyBody(rng, spec, m, P+F)
	spec.Order = rng.Perm(P + F)

	return spec
}

// normalizeForMethod replaces behaviours that make no sense for the endpoint under test.
func normalizeForMethod(spec *hcellSpec, m *hmethod) {
	fix := func(ns *hnodeSpec) {
		if ns.Outcome == hSyncing && !m.Synced && !m.HasNOK {
			ns.Outcome = hEp503 // a syncing node still answers endpoints that need no synced node: script a plain failure
		}
		if m.Name == "NodeSyncing" {
			// the client's first-use probe and the call are the same request: no endpoint-only behaviour
			if ns.Outcome == hEp503 || ns.Outcome == hEp400 || ns.Outcome == hEp404 {
				ns.Outcome = hAll503
			}
			if ns.Gate == gEndpoint {
				ns.Gate = gInit
			}
		}
	}
	for i := range spec.Prim {
		fix(&spec.Prim[i])
	}
	for i := range spec.Fall {
		fix(&spec.Fall[i])
	}
}

func attachProxyBody(rng *rand.Rand, spec *hcellSpec, m *hmethod, nodes int) {
	if m.HTTPVerb == "" {
		return
	}
	if m.HTTPVerb == http.MethodPost {
		spec.BodySize = []int{0, 1 + rng.Intn(400), 1 + rng.Intn(400), 64<<10 + rng.Intn(8<<10)}[rng.Intn(4)]
	}
	for i := 0; i < nodes; i++ {
		spec.Reads = append(spec.Reads, []string{"full", "full", "half", "none"}[rng.Intn(4)])
	}
}
