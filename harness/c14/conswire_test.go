package c14

import (
	"context"
	"fmt"
	"strings"
	"sync/atomic"
	"time"

	k1 "github.com/decred/dcrd/dcrec/secp256k1/v4"
	"google.golang.org/protobuf/types/known/anypb"

	"github.com/obolnetwork/charon/app/k1util"
	"github.com/obolnetwork/charon/core"
	"github.com/obolnetwork/charon/core/consensus/protocols"
	cqbft "github.com/obolnetwork/charon/core/consensus/qbft"
	pbv1 "github.com/obolnetwork/charon/core/corepb/v1"
	"github.com/obolnetwork/charon/core/dutydb"
	"github.com/obolnetwork/charon/p2p"

	"verifharness/fakenet"
)

const msgCommit = 3 // core/qbft.MsgCommit

var consSlot atomic.Uint64 // every consensus delivery uses its own duty (instances are one-shot)

// consWire is a real core/consensus/qbft component (node 0 of a 4 node cluster) on an in-memory
// libp2p host, subscribed to a real DutyDB like core.Wire does. The harness plays the three other
// cluster members with their real p2p keys: it sends a quorum of signed COMMIT messages for a value.
// QBFT never looks into the value of a non-attester duty, so honest members would send exactly these
// COMMITs for whatever a Byzantine leader proposed.
type consWire struct {
	r       *rig
	net     *fakenet.Net
	cons    *cqbft.Consensus
	cancel  context.CancelFunc
	db      *dutydb.MemDB
	stage   string
	lastErr string
}

func (r *rig) newConsWire() (*consWire, error) {
	ctx, cancel := context.WithCancel(r.ctx)
	w := &consWire{r: r, net: fakenet.New(), cancel: cancel}
	host := w.net.Host(r.peers[0])
	var peers []p2p.Peer
	for i, id := range r.peers {
		w.net.Host(id)
		peers = append(peers, p2p.Peer{ID: id, Index: i, Name: p2p.PeerName(id)})
	}
	cons, err := cqbft.NewConsensus(ctx, r.eth2Cl, host, new(p2p.Sender), peers, r.p2pKeys[0], r.dead,
		func(core.Duty) bool { return true }, func(*pbv1.SniffedConsensusInstance) {}, false)
	if err != nil {
		cancel()
		return nil, err
	}
	cons.Subscribe(func(ctx context.Context, duty core.Duty, set core.UnsignedDataSet) error {
		w.stage = "decoded"
		err := w.db.Store(ctx, duty, set)
		if err == nil {
			w.stage = "stored"
		}

		return err
	})
	cons.Start(ctx)
	w.cons = cons

	return w, nil
}

func (w *consWire) close() { w.cancel() }

const msgPrePrepare = 1 // core/qbft.MsgPrePrepare

// admits hands one validly signed consensus message of peer 1 (type msgType, round 1, fresh duty of
// type dutyType, value_hash = hash, values = [anyVal]) to the real receive handler exactly like the
// libp2p stream handler does (VerifHandle, build tag verif) and returns the handler's error.
func (w *consWire) admits(dutyType core.DutyType, msgType int64, hash [32]byte, anyVal *anypb.Any) error {
	duty := core.Duty{Slot: w.r.futureSlot + consSlot.Add(1), Type: dutyType}
	msg := &pbv1.QBFTMsg{Type: msgType, Duty: core.DutyToProto(duty), PeerIdx: 1, Round: 1, ValueHash: hash[:]}
	if err := signQBFT(msg, w.r.p2pKeys[1]); err != nil {
		return err
	}
	ctx, cancel := context.WithTimeout(w.r.ctx, 30*time.Second)
	defer cancel()

	return w.cons.VerifHandle(ctx, w.r.peers[1], &pbv1.QBFTConsensusMsg{Msg: msg, Values: []*anypb.Any{anyVal}})
}

// refusedEqualValue tells the handler's "the signed value hash is not among the hashes I computed for
// the attached values" apart from every other refusal.
func refusedEqualValue(err error) bool {
	return err != nil && strings.Contains(err.Error(), "value hash not found")
}

func signQBFT(msg *pbv1.QBFTMsg, key *k1.PrivateKey) error {
	msg.Signature = nil
	h, _, err := hashProto(msg)
	if err != nil {
		return err
	}
	msg.Signature, err = k1util.Sign(key, h[:])

	return err
}

// decide makes the real consensus component decide on an UnsignedDataSet carrying data for the
// cluster's validator under duty type typ. It returns how far the decided value got, a panic that
// escaped the real qbft.Run / Decide callback (production: the process dies), and whether the
// instance finished within the watchdog.
func (w *consWire) decide(typ core.DutyType, data []byte) (string, *panicInfo, bool) {
	return w.decideSet(typ, &pbv1.UnsignedDataSet{Set: map[string][]byte{string(w.r.pubkey): data}})
}

// decideSet is decide for an arbitrary set. The real handler only accepts the COMMITs if its own
// (unexported) hashProto of the value equals the hash computed by the harness replica, so every
// decision is also evidence that the replica used by the determinism workload is faithful.
func (w *consWire) decideSet(typ core.DutyType, value *pbv1.UnsignedDataSet) (string, *panicInfo, bool) {
	w.stage = "not-decided"
	w.db = dutydb.NewMemDB(w.r.dead)
	// a slot in the (near) future: the production round timers are anchored at the slot's wall-clock
	// start, a past slot would time out round after round at once
	duty := core.Duty{Slot: w.r.futureSlot + consSlot.Add(1), Type: typ}
	hash, _, err := hashProto(value)
	if err != nil {
		return "hash-failed", nil, true
	}
	anyVal, err := anypb.New(value)
	if err != nil {
		return "any-failed", nil, true
	}
	// Probe (on a duty of its own) whether the real receive handler admits a peer message carrying
	// exactly this wrapped value: if it refuses a value whose hash is the signed one, the instance below
	// could only run into the watchdog, and the reason would be lost.
	if err := w.admits(typ, msgCommit, hash, anyVal); err != nil {
		w.lastErr = err.Error()
		if refusedEqualValue(err) {
			return "refused-equal-value", nil, true
		}

		return "probe-error", nil, true
	}

	ctx, cancel := context.WithTimeout(w.r.ctx, 60*time.Second)
	defer cancel()
	type res struct {
		pi  *panicInfo
		err error
	}
	done := make(chan res, 1)
	go func() {
		var e error
		// ProposePriority is the exported way to run an instance for any duty type with an own input
		// that is not an UnsignedDataSet (the node is not the one proposing the hostile value).
		pi := guard(func() {
			e = w.cons.ProposePriority(ctx, duty, &pbv1.PriorityResult{Topics: []*pbv1.PriorityTopicResult{{}}})
		})
		done <- res{pi, e}
	}()

	for i := 1; i <= 3; i++ {
		msg := &pbv1.QBFTMsg{Type: msgCommit, Duty: core.DutyToProto(duty), PeerIdx: int64(i), Round: 1, ValueHash: hash[:]}
		if err := signQBFT(msg, w.r.p2pKeys[i]); err != nil {
			return "sign-failed", nil, true
		}
		w.net.Inject(w.r.peers[i], w.r.peers[0], protocols.QBFTv2ProtocolID, &pbv1.QBFTConsensusMsg{Msg: msg, Values: []*anypb.Any{anyVal}})
	}

	select {
	case rs := <-done:
		if rs.err != nil {
			w.lastErr = rs.err.Error()
		} else if w.stage == "not-decided" && rs.pi == nil {
			w.stage = "decided-decode-rejected" // the instance decided, the subscriber's decoder refused the value
		}

		return w.stage, rs.pi, true
	case <-time.After(45 * time.Second):
		cancel()
		<-done

		return w.stage, nil, false
	}
}

// envelopeShapes sends validly signed consensus messages whose fixed-size fields have other sizes
// (truncated, over-long, empty hashes at the top level and inside a justification; missing duty;
// extreme rounds) to the real receive handler. A peer can send any bytes in these fields: the handler
// may refuse or ignore them, it must not panic (libp2p runs it in a goroutine without recover).
// Seeded change C14-r7: a 1..31 byte value_hash passed every check and crashed the conversion to a
// 32-byte array.
func (w *consWire) envelopeShapes(typ core.DutyType, report func(shape string, pi *panicInfo)) int {
	mk := func(n int, fill byte) []byte {
		b := make([]byte, n)
		for i := range b {
			b[i] = fill + byte(i)
		}

		return b
	}
	sent := 0
	send := func(shape string, build func(duty *pbv1.Duty) *pbv1.QBFTConsensusMsg) {
		duty := core.DutyToProto(core.Duty{Slot: w.r.futureSlot + consSlot.Add(1), Type: typ})
		msg := build(duty)
		if msg.GetMsg() != nil {
			if err := signQBFT(msg.Msg, w.r.p2pKeys[1]); err != nil {
				return
			}
		}
		for _, j := range msg.GetJustification() {
			if j != nil {
				_ = signQBFT(j, w.r.p2pKeys[2])
			}
		}
		ctx, cancel := context.WithTimeout(w.r.ctx, 30*time.Second)
		pi := guard(func() { _ = w.cons.VerifHandle(ctx, w.r.peers[1], msg) })
		cancel()
		sent++
		report(shape, pi)
	}
	for _, n := range []int{1, 2, 16, 31, 33, 48, 64, 1000} {
		n := n
		send(fmt.Sprintf("value_hash of %d bytes", n), func(d *pbv1.Duty) *pbv1.QBFTConsensusMsg {
			return &pbv1.QBFTConsensusMsg{Msg: &pbv1.QBFTMsg{Type: msgPrePrepare, Duty: d, PeerIdx: 1, Round: 1, ValueHash: mk(n, 1)}}
		})
		send(fmt.Sprintf("prepared_value_hash of %d bytes", n), func(d *pbv1.Duty) *pbv1.QBFTConsensusMsg {
			return &pbv1.QBFTConsensusMsg{Msg: &pbv1.QBFTMsg{Type: 4, Duty: d, PeerIdx: 1, Round: 2, PreparedRound: 1, PreparedValueHash: mk(n, 3)}}
		})
		send(fmt.Sprintf("justification value_hash of %d bytes", n), func(d *pbv1.Duty) *pbv1.QBFTConsensusMsg {
			return &pbv1.QBFTConsensusMsg{
				Msg:           &pbv1.QBFTMsg{Type: 4, Duty: d, PeerIdx: 1, Round: 2},
				Justification: []*pbv1.QBFTMsg{{Type: 2, Duty: d, PeerIdx: 2, Round: 1, ValueHash: mk(n, 5)}},
			}
		})
		send(fmt.Sprintf("justification prepared_value_hash of %d bytes", n), func(d *pbv1.Duty) *pbv1.QBFTConsensusMsg {
			return &pbv1.QBFTConsensusMsg{
				Msg:           &pbv1.QBFTMsg{Type: msgPrePrepare, Duty: d, PeerIdx: 1, Round: 2},
				Justification: []*pbv1.QBFTMsg{{Type: 4, Duty: d, PeerIdx: 2, Round: 2, PreparedRound: 1, PreparedValueHash: mk(n, 7)}},
			}
		})
	}
	send("no inner message", func(*pbv1.Duty) *pbv1.QBFTConsensusMsg { return &pbv1.QBFTConsensusMsg{} })
	send("no duty", func(*pbv1.Duty) *pbv1.QBFTConsensusMsg {
		return &pbv1.QBFTConsensusMsg{Msg: &pbv1.QBFTMsg{Type: msgCommit, PeerIdx: 1, Round: 1, ValueHash: mk(32, 1)}}
	})
	send("nil justification entry", func(d *pbv1.Duty) *pbv1.QBFTConsensusMsg {
		return &pbv1.QBFTConsensusMsg{Msg: &pbv1.QBFTMsg{Type: 4, Duty: d, PeerIdx: 1, Round: 2}, Justification: []*pbv1.QBFTMsg{nil}}
	})
	send("nil value entry", func(d *pbv1.Duty) *pbv1.QBFTConsensusMsg {
		return &pbv1.QBFTConsensusMsg{Msg: &pbv1.QBFTMsg{Type: msgCommit, Duty: d, PeerIdx: 1, Round: 1, ValueHash: mk(32, 1)}, Values: []*anypb.Any{nil}}
	})
	send("empty any value", func(d *pbv1.Duty) *pbv1.QBFTConsensusMsg {
		return &pbv1.QBFTConsensusMsg{Msg: &pbv1.QBFTMsg{Type: msgCommit, Duty: d, PeerIdx: 1, Round: 1, ValueHash: mk(32, 1)}, Values: []*anypb.Any{{}}}
	})
	send("unknown any type", func(d *pbv1.Duty) *pbv1.QBFTConsensusMsg {
		return &pbv1.QBFTConsensusMsg{Msg: &pbv1.QBFTMsg{Type: msgCommit, Duty: d, PeerIdx: 1, Round: 1, ValueHash: mk(32, 1)}, Values: []*anypb.Any{{TypeUrl: "type.googleapis.com/does.not.Exist", Value: mk(9, 1)}}}
	})
	send("round max int64", func(d *pbv1.Duty) *pbv1.QBFTConsensusMsg {
		return &pbv1.QBFTConsensusMsg{Msg: &pbv1.QBFTMsg{Type: msgCommit, Duty: d, PeerIdx: 1, Round: 1<<63 - 1, ValueHash: mk(32, 1)}}
	})
	send("peer index max int64", func(d *pbv1.Duty) *pbv1.QBFTConsensusMsg {
		return &pbv1.QBFTConsensusMsg{Msg: &pbv1.QBFTMsg{Type: msgCommit, Duty: d, PeerIdx: 1<<63 - 1, Round: 1, ValueHash: mk(32, 1)}}
	})

	return sent
}
