// Package c14 monitors property C14: duty data encoding is lossless, deterministic and total.
//
// Engine "codecmon": generated values of every core data type × fork version × blinded/full are
// (W1) round-tripped through every encoder the workflow uses, (W2) encoded as sets under different
// map insertion orders on several goroutines and hashed the way consensus hashes its values, and
// (W3) structurally damaged (JSON nodes, SSZ bytes, type confusion) and then decoded by the two real
// peer-data entry points (core.ParSignedDataSetFromProto / core.UnsignedDataSetFromProto); whatever
// decodes without error is pushed through the real receive → verify → store → aggregate operations
// and, as a real wire message, through a real parsigex stream handler on an in-memory libp2p host.
package c14

import (
	"bytes"
	"crypto/sha256"
	"encoding/hex"
	"fmt"
	"math/rand"
	"os"
	"path/filepath"
	"regexp"
	"sort"
	"strings"
	"sync"
	"testing"

	eth2p0 "github.com/attestantio/go-eth2-client/spec/phase0"
	ssz "github.com/ferranbt/fastssz"
	"google.golang.org/protobuf/proto"
	"google.golang.org/protobuf/types/known/anypb"

	"github.com/obolnetwork/charon/core"
	pbv1 "github.com/obolnetwork/charon/core/corepb/v1"

	"verifharness/kit"
)

var signedDuties = []core.DutyType{
	core.DutyProposer, core.DutyAttester, core.DutySignature, core.DutyExit, core.DutyBuilderProposer,
	core.DutyBuilderRegistration, core.DutyRandao, core.DutyPrepareAggregator, core.DutyAggregator,
	core.DutySyncMessage, core.DutyPrepareSyncContribution, core.DutySyncContribution, core.DutyInfoSync, core.DutyUnknown,
}

var unsignedDuties = []core.DutyType{
	core.DutyProposer, core.DutyAttester, core.DutyAggregator, core.DutySyncContribution, core.DutyRandao,
}

func TestCheck(t *testing.T) {
	r := kit.Start(t, "C14")
	defer r.Finish()
	r.Rule("codec case = one generated value of one (core type, fork version, blinded/full, optional-field variant), seeded from the case PRNG " +
		"(repo eth2 fuzzer + edge slots 0/20/2^32+20/max + valid BLS points): W1 JSON/SSZ/proto-set/Clone/SetSignature round trips compared on re-encoded bytes and roots; " +
		"W3 its JSON encoding with every shallow node and a PRNG sample of deeper nodes replaced by null / wrong-typed / {} / [] / [null] / removed / bad string, its SSZ encoding truncated at every offset class, " +
		"offset-tampered, bit-flipped, spliced with another value's encoding, random bytes, and every valid encoding decoded under every duty type; each input goes through the real " +
		"ParSignedDataFromProto or UnsignedDataSetFromProto and, if decoded, through verify→store→aggregate (parsigdb, sigagg, dutydb) in production order and through a real parsigex handler on fakenet. " +
		"and, for unsigned data, through a real consensus component that is made to decide the value and stores it in a real DutyDB. " +
		"prefix case = for every variant whose SSZ encoding starts with a value dependent byte (found by comparing encodings of several generated values), the values whose encoding starts with each JSON-like prefix ('{', white space + '{', '[', '\"', n/t/f, digit, '-', …), through all W1 oracles and the native wire context. " +
		"sweep case = byte strings of every length 0..N (zeros / random / small header words) in one decoding context, plus ill-formed protobuf envelopes and raw frames for the parsigex handler. " +
		"large case = one full (unblinded) deneb/electra/fulu proposal with k blobs (3..21), partially signed through a pair of real parsigex components (Broadcast → p2p.Send framing → stream handler with its read limit → subscriber) and unsigned through a real consensus component deciding it; differential oracle against the same proposal without blobs: size alone must not change how far the value gets. " +
		"determinism case = one set (family by case index) built under 8 insertion orders on 8 goroutines; multi-entry unsigned sets additionally as 8 different wire encodings of the same value (entries ascending/descending/random, proto.Marshal, anypb.New) each of which must decode to an equal value and be admitted by the real consensus receive handler in a signed PRE-PREPARE; hashed like consensus hashes values, re-encoded by a receiver, and (half of the unsigned ones) decided by the real consensus component. non-trivial = at least one damaged input decoded without error and at least one was rejected; distinct = hash of the generated value")
	r.Assume("a Byzantine cluster member holds a real share key, so a pure BLS mismatch (tbls.ErrSigNotVerified) is treated as passed by the verifier wrappers; every other verifier error ends the pipeline as in production")
	r.Assume("operations are applied in production order; an operation returning an error ends the pipeline (the node drops the message there); after a panic the remaining operations of the same stage still run, later stages are not entered (unreachable in production)")
	r.Assume("consensus value hash = SSZ hash root of the deterministic proto marshalling (replica of the unexported core/consensus/qbft.hashProto, identical to core/priority.hashProto); the replica is cross-checked by every consensus decision of the run: the real handler drops the harness' COMMITs unless its own hash of the value equals the replica's")
	r.Assume("consensus end-to-end: the harness plays the three other members of a 4 node cluster with their real p2p keys and sends a quorum of COMMITs for the value; honest members would send the same COMMITs for whatever a Byzantine leader proposed because QBFT does not inspect values of non-attester duties")
	r.Assume("fakenet delivers the wire message synchronously in the harness goroutine, which is the only reason a handler panic is recoverable here; libp2p runs stream handlers in its own goroutines without recover")
	r.RacePkgs(false, "core")

	rg := getRig(t)
	vars := allVariants()
	rounds := r.N(2, 10)
	nCodec := rounds * len(vars)
	nDet := r.N(48, 1500)
	r.Set("variants", len(vars))
	r.Require("roundtrip_values", int64(nCodec)*9/10)
	r.Require("inputs", int64(nCodec)*100)
	r.Require("decoded_ok", int64(nCodec)*10)
	r.Require("stage:verify-passed", int64(nCodec))
	r.Require("stage:aggregated", int64(rounds)*5)
	r.Require("wire_deliveries", int64(nCodec)*5)
	r.Require("determinism_sets", int64(nDet)*9/10)
	r.Require("wire_encodings_checked", int64(nDet))
	r.Require("wire_encodings_differing_from_sorted", int64(nDet)/2)

	ctxs := sweepContexts()
	nSweep := len(ctxs) * r.N(1, 4)
	r.Require("inputs:raw-sweep", int64(nSweep)*1000)
	r.Require("consensus_envelope_shapes", 100)

	// W1 for values whose SSZ encoding starts like a JSON document: one case per variant
	nPrefix := len(vars) * r.N(1, 3)
	r.Require("prefix_values", int64(nPrefix)/2)
	r.Require("prefix_value_dependent_variants", int64(r.N(1, 3))*3)

	// large values (full proposals with many blobs) over the real parsigex and consensus wire paths
	nLarge := len(largeVersions) * len(largeBlobCounts(r.Thorough()))
	r.Require("large_parsigex_sent", int64(nLarge)*2/3)
	r.Require("large_consensus_sent", int64(nLarge)*2/3)

	r.Cases(nCodec+nDet+nSweep+nPrefix+nLarge, 0, func(c *kit.Case) {
		switch {
		case c.Idx < nCodec:
			codecCase(c, rg, vars[c.Idx%len(vars)])
		case c.Idx < nCodec+nDet:
			determinismCase(c, rg)
		case c.Idx < nCodec+nDet+nSweep:
			sweepCase(c, rg, ctxs[(c.Idx-nCodec-nDet)%len(ctxs)])
		case c.Idx < nCodec+nDet+nSweep+nPrefix:
			prefixCase(c, rg, vars[(c.Idx-nCodec-nDet-nSweep)%len(vars)])
		default:
			largeCase(c, rg, c.Idx-nCodec-nDet-nSweep-nPrefix)
		}
	})
}

// ---------------------------------------------------------------------------------------------
// codec case: W1 + W3 for one generated value

type caseState struct {
	c        *kit.Case
	rg       *rig
	vr       variant
	seed     int64
	rng      *rand.Rand
	wire     *wire
	cons     *consWire
	inflight string
	nInput   int
	decoded  int
	rejected int
	val      any
	// for values derived from a generated one (prefixCase): how the value was made and how to build
	// an equal value independently
	derivedBy string
	twin      func() (any, error)
}

func label(vr variant) string {
	switch vr.K.Name {
	case "VersionedAttestation":
		if vr.Var == 3 {
			return "VersionedAttestation[validator-index-low-word-12-or-20]"
		}
		if vr.Var >= 1 {
			return "VersionedAttestation[no-validator-index]"
		}

		return "VersionedAttestation[validator-index]"
	default:
		return vr.K.Name
	}
}

func codecCase(c *kit.Case, rg *rig, vr variant) {
	r := c.R
	seed := c.Rng.Int63()
	g := newGen(r.T(), rand.New(rand.NewSource(seed)), rg.sigPool()) //nolint:gosec // reproducible workload
	var v any
	if pi := guard(func() { v = g.value(vr) }); pi != nil {
		r.Inconclusive("case %d: generator panicked for %v: %s at %s", c.Idx, vr, pi.Value, pi.Site)
		return
	}
	cs := &caseState{c: c, rg: rg, vr: vr, seed: seed, rng: c.Rng, val: v}
	cs.inflight = filepath.Join(os.Getenv("VERIF_OUT"), fmt.Sprintf("c14-inflight-%d.bin", c.Idx))
	if os.Getenv("VERIF_OUT") == "" {
		cs.inflight = ""
	}
	r.Seen("variants_run", vr.String())

	enc, ok := cs.roundTrips(g)
	if !ok {
		return
	}
	cs.totality(g, enc)
	if cs.cons != nil {
		cs.cons.close()
	}
	if cs.inflight != "" {
		_ = os.Remove(cs.inflight)
	}
	if cs.decoded > 0 && cs.rejected > 0 {
		c.NonTrivial(kit.Hash(vr.String(), sha256.Sum256(enc.JSON)))
	}
}

type encodings struct {
	JSON   []byte
	SSZ    []byte
	HasSSZ bool
}

func (cs *caseState) witness(extra map[string]any) map[string]any {
	w := map[string]any{"variant": cs.vr.String(), "version": cs.vr.Ver.String(), "blinded": cs.vr.Blinded, "value_seed": cs.seed}
	if cs.derivedBy != "" {
		w["derived_by"] = cs.derivedBy
	}
	for k, v := range extra {
		w[k] = v
	}

	return w
}

func showBytes(b []byte) any {
	const lim = 6000
	printable := len(b) > 0
	for _, ch := range b {
		if ch < 0x20 && ch != '\n' && ch != '\t' || ch > 0x7e {
			printable = false
			break
		}
	}
	sum := sha256.Sum256(b)
	if printable {
		if len(b) > lim {
			return map[string]any{"text_prefix": string(b[:lim]), "len": len(b), "sha256": hex.EncodeToString(sum[:])}
		}

		return string(b)
	}
	if len(b) > lim/2 {
		return map[string]any{"hex_prefix": hex.EncodeToString(b[:lim/2]), "len": len(b), "sha256": hex.EncodeToString(sum[:])}
	}

	return map[string]any{"hex": hex.EncodeToString(b), "len": len(b)}
}

// roundTrips is W1. It returns the valid encodings of the value.
func (cs *caseState) roundTrips(g *gen) (encodings, bool) {
	c, r, v, vr := cs.c, cs.c.R, cs.val, cs.vr
	lab := label(vr)
	var enc encodings
	checks := 0
	fail := func(format, rule, what string, extra map[string]any) {
		if extra == nil {
			extra = map[string]any{}
		}
		if enc.JSON != nil {
			extra["value_json"] = showBytes(enc.JSON)
		}
		c.Violation("roundtrip/"+lab+"/"+format+"/"+rule, fmt.Sprintf("%s: %s", vr, what), cs.witness(extra))
	}
	// try runs one step; a panic is a violation of its own.
	try := func(format string, fn func()) {
		checks++
		if pi := guard(fn); pi != nil {
			fail(format, "panic", fmt.Sprintf("panic %q at %s", pi.Value, pi.Site), map[string]any{"panic": pi})
		}
	}

	rootV, hasRoot, rootErr := [32]byte{}, false, error(nil)
	try("root", func() { rootV, hasRoot, rootErr = messageRoot(v) })
	if rootErr != nil {
		fail("root", "fails-on-generated-value", rootErr.Error(), nil)
		hasRoot = false
	}
	sameRoot := func(format, rule string, other any) {
		if !hasRoot {
			return
		}
		ro, _, err := messageRoot(other)
		if err != nil {
			fail(format, rule+"-root-fails", err.Error(), nil)
		} else if ro != rootV {
			fail(format, rule+"-root-differs", fmt.Sprintf("root %x became %x", rootV[:6], ro[:6]), nil)
		}
	}

	// ---- JSON ----
	var err error
	try("json", func() { enc.JSON, err = toJSON(v) })
	if err != nil || enc.JSON == nil {
		fail("json", "encode-fails", fmt.Sprint(err), nil)
		return enc, false
	}
	try("json", func() {
		again, e := toJSON(v)
		if e != nil || !bytes.Equal(again, enc.JSON) {
			fail("json", "second-encoding-of-same-value-differs", fmt.Sprint(e), map[string]any{"second": showBytes(again)})
		}
	})
	try("json", func() {
		v2, e := fromJSON(enc.JSON, v)
		if e != nil {
			fail("json", "decode-of-own-encoding-fails", e.Error(), nil)
			return
		}
		j2, e := toJSON(v2)
		if e != nil || !bytes.Equal(j2, enc.JSON) {
			fail("json", "reencoded-bytes-differ", fmt.Sprint(e), map[string]any{"reencoded": showBytes(j2)})
		}
		sameRoot("json", "decoded", v2)
	})

	// ---- SSZ ----
	try("ssz", func() { enc.SSZ, enc.HasSSZ, err = toSSZ(v) })
	if enc.HasSSZ && err != nil {
		fail("ssz", "encode-fails", err.Error(), nil)
		enc.HasSSZ = false
	}
	if enc.HasSSZ {
		try("ssz", func() {
			again, _, e := toSSZ(v)
			if e != nil || !bytes.Equal(again, enc.SSZ) {
				fail("ssz", "second-encoding-of-same-value-differs", fmt.Sprint(e), nil)
			}
		})
		try("ssz", func() {
			v3, e := fromSSZ(enc.SSZ, v)
			if e != nil {
				fail("ssz", "decode-of-own-encoding-fails", e.Error(), map[string]any{"ssz": showBytes(enc.SSZ)})
				return
			}
			s2, _, e := toSSZ(v3)
			if e != nil || !bytes.Equal(s2, enc.SSZ) {
				fail("ssz", "reencoded-bytes-differ", fmt.Sprint(e), nil)
			}
			j3, e := toJSON(v3)
			if e != nil || !bytes.Equal(j3, enc.JSON) {
				fail("ssz", "json-of-ssz-decoded-value-differs", fmt.Sprint(e), map[string]any{"json_after_ssz": showBytes(j3)})
			}
			sameRoot("ssz", "decoded", v3)
		})
	}

	// ---- Clone ----
	try("clone", func() {
		cl, e := cloneOf(v)
		if e != nil {
			fail("clone", "fails", e.Error(), nil)
			return
		}
		if typeName(cl) != typeName(v) {
			fail("clone", "type-differs", typeName(cl), nil)
		}
		j, e := toJSON(cl)
		if e != nil || !bytes.Equal(j, enc.JSON) {
			fail("clone", "bytes-differ", fmt.Sprint(e), map[string]any{"clone_json": showBytes(j)})
		}
		sameRoot("clone", "clone", cl)
	})

	// ---- SetSignature (signed) ----
	if sd, isSigned := v.(core.SignedData); isSigned {
		try("setsignature", func() {
			want := core.SigFromETH2(g.sig())
			v5, e := sd.SetSignature(want)
			if e != nil {
				fail("setsignature", "fails", e.Error(), nil)
				return
			}
			if !bytes.Equal(v5.Signature(), want) {
				fail("setsignature", "signature-not-set", "", nil)
			}
			if _, isSig := v.(core.Signature); !isSig {
				sameRoot("setsignature", "result", v5)
			}
			j, e := toJSON(v)
			if e != nil || !bytes.Equal(j, enc.JSON) {
				fail("setsignature", "original-changed", fmt.Sprint(e), nil)
			}
		})
	}

	// ---- proto set encoders with the duty type as decoding context ----
	if vr.K.Duty != 0 && vr.K.Signed {
		sd := v.(core.SignedData)
		try("proto", func() {
			cl, e := sd.Clone()
			if e != nil {
				return // reported above
			}
			pk2 := core.PubKeyFrom48Bytes(eth2p0.BLSPubKey{2})
			set := core.ParSignedDataSet{cs.rg.pubkey: {SignedData: sd, ShareIdx: 1}, pk2: {SignedData: cl, ShareIdx: 3}}
			pb, e := core.ParSignedDataSetToProto(set)
			if e != nil {
				fail("proto", "set-encode-fails", e.Error(), nil)
				return
			}
			pb2, e := wireRoundTrip(pb, new(pbv1.ParSignedDataSet))
			if e != nil {
				fail("proto", "wire-fails", e.Error(), nil)
				return
			}
			set2, e := core.ParSignedDataSetFromProto(vr.K.Duty, pb2)
			if e != nil {
				fail("proto", "set-decode-of-own-encoding-fails", e.Error(), map[string]any{"duty": vr.K.Duty.String()})
				return
			}
			for pk, orig := range set {
				got, found := set2[pk]
				if !found {
					fail("proto", "set-lost-a-key", string(pk), nil)
					continue
				}
				cs.compareSigned("proto", "ssz-wire", orig, got, enc, fail, sameRoot)
			}
		})
		// the JSON wire form older peers send
		try("proto", func() {
			pb := &pbv1.ParSignedDataSet{Set: map[string]*pbv1.ParSignedData{string(cs.rg.pubkey): {Data: enc.JSON, Signature: sd.Signature(), ShareIdx: 1}}}
			set2, e := core.ParSignedDataSetFromProto(vr.K.Duty, pb)
			if e != nil {
				fail("proto", "json-wire-decode-fails", e.Error(), map[string]any{"duty": vr.K.Duty.String()})
				return
			}
			cs.compareSigned("proto", "json-wire", core.ParSignedData{SignedData: sd, ShareIdx: 1}, set2[cs.rg.pubkey], enc, fail, sameRoot)
		})
	}
	if vr.K.Duty != 0 && !vr.K.Signed {
		ud := v.(core.UnsignedData)
		cmp := func(wireKind string, got core.UnsignedData) {
			if got == nil {
				fail("proto", wireKind+"-set-lost-a-key", "", nil)
				return
			}
			if typeName(got) != typeName(v) {
				fail("proto", wireKind+"-type-differs", fmt.Sprintf("%s decoded as %s under %v", typeName(v), typeName(got), vr.K.Duty), nil)
				return
			}
			j, e := toJSON(got)
			if e != nil || !bytes.Equal(j, enc.JSON) {
				fail("proto", wireKind+"-bytes-differ", fmt.Sprint(e), map[string]any{"decoded_json": showBytes(j)})
			}
			sameRoot("proto", wireKind, got)
		}
		try("proto", func() {
			pb, e := core.UnsignedDataSetToProto(core.UnsignedDataSet{cs.rg.pubkey: ud})
			if e != nil {
				fail("proto", "set-encode-fails", e.Error(), nil)
				return
			}
			pb2, e := wireRoundTrip(pb, new(pbv1.UnsignedDataSet))
			if e != nil {
				fail("proto", "wire-fails", e.Error(), nil)
				return
			}
			set2, e := core.UnsignedDataSetFromProto(vr.K.Duty, pb2)
			if e != nil {
				fail("proto", "set-decode-of-own-encoding-fails", e.Error(), map[string]any{"duty": vr.K.Duty.String()})
				return
			}
			cmp("ssz-wire", set2[cs.rg.pubkey])
		})
		try("proto", func() {
			pb := &pbv1.UnsignedDataSet{Set: map[string][]byte{string(cs.rg.pubkey): enc.JSON}}
			set2, e := core.UnsignedDataSetFromProto(vr.K.Duty, pb)
			if e != nil {
				fail("proto", "json-wire-decode-fails", e.Error(), map[string]any{"duty": vr.K.Duty.String()})
				return
			}
			cmp("json-wire", set2[cs.rg.pubkey])
		})
	}

	// ---- purity: an equal value built independently encodes to the same bytes ----
	try("purity", func() {
		var twin any
		if cs.twin != nil {
			var e error
			if twin, e = cs.twin(); e != nil {
				fail("purity", "equal-value-cannot-be-rebuilt", e.Error(), nil)
				return
			}
		} else {
			g2 := newGen(r.T(), rand.New(rand.NewSource(cs.seed)), cs.rg.sigPool()) //nolint:gosec // same seed on purpose
			twin = g2.value(vr)
		}
		j, e := toJSON(twin)
		if e != nil || !bytes.Equal(j, enc.JSON) {
			fail("purity", "equal-values-different-json", fmt.Sprint(e), map[string]any{"twin_json": showBytes(j)})
		}
		if enc.HasSSZ {
			s, _, e := toSSZ(twin)
			if e != nil || !bytes.Equal(s, enc.SSZ) {
				fail("purity", "equal-values-different-ssz", fmt.Sprint(e), nil)
			}
		}
	})

	if c.Idx%37 == 3 {
		r.Sample(map[string]any{"workload": "roundtrip", "variant": vr.String(), "value_seed": cs.seed, "json_len": len(enc.JSON), "ssz_len": len(enc.SSZ), "checks": checks, "root": hex.EncodeToString(rootV[:8])})
	}
	r.Count("roundtrip_values", 1)
	r.Count("roundtrip_checks", int64(checks))
	r.Count("roundtrip_json_bytes", int64(len(enc.JSON)))

	return enc, true
}

func (cs *caseState) compareSigned(format, wireKind string, orig, got core.ParSignedData, enc encodings,
	fail func(string, string, string, map[string]any), sameRoot func(string, string, any),
) {
	if got.SignedData == nil {
		fail(format, wireKind+"-set-lost-a-value", "", nil)
		return
	}
	if typeName(got.SignedData) != typeName(orig.SignedData) {
		fail(format, wireKind+"-type-differs", fmt.Sprintf("%s decoded as %s under %v", typeName(orig.SignedData), typeName(got.SignedData), cs.vr.K.Duty), nil)
		return
	}
	if got.ShareIdx != orig.ShareIdx {
		fail(format, wireKind+"-share-index-differs", fmt.Sprintf("%d != %d", got.ShareIdx, orig.ShareIdx), nil)
	}
	j, e := toJSON(got.SignedData)
	if e != nil || !bytes.Equal(j, enc.JSON) {
		fail(format, wireKind+"-bytes-differ", fmt.Sprint(e), map[string]any{"decoded_json": showBytes(j)})
	}
	if !bytes.Equal(got.Signature(), orig.Signature()) {
		fail(format, wireKind+"-signature-differs", "", nil)
	}
	if _, isSig := orig.SignedData.(core.Signature); !isSig {
		sameRoot(format, wireKind, got.SignedData)
	}
}

// ---------------------------------------------------------------------------------------------
// W3 totality

type input struct {
	Class  string // mutation class
	Where  string // payload / member name / "" (SSZ)
	Path   string // exact JSON path or SSZ note (witness only)
	Member string // innermost member name (witness only)
	Data   []byte
}

// sigClass is the mutation-class part of a signature. All byte level damage (truncation, offset
// tampering, bit flips, splices, random and fixed-length raw buffers) is one class: which of them
// happens to hit a defect varies with the seed, the defect does not.
func (in input) sigClass() string {
	switch {
	case strings.HasPrefix(in.Class, "ssz-") || strings.HasPrefix(in.Class, "raw-"):
		return "ssz-malformed"
	case in.Where == "":
		return in.Class
	case in.Where == "payload":
		return in.Class + "-payload"
	default:
		return in.Class + "@" + in.Where
	}
}

func (cs *caseState) budget() (jsonN, sszN int) {
	if cs.c.R.Thorough() {
		return 1200, 220
	}

	return 300, 70
}

func (cs *caseState) totality(g *gen, enc encodings) {
	r := cs.c.R
	cs.wire = cs.rg.newWire()
	jsonN, sszN := cs.budget()

	var inputs []input
	// JSON structural damage
	tree, err := parseJSON(enc.JSON)
	if err != nil {
		r.Inconclusive("case %d: own JSON does not parse: %v", cs.c.Idx, err)
		return
	}
	nodes := walk(tree)
	r.Count("json_nodes", int64(len(nodes)))
	type cand struct {
		in   input
		path []any
		with any
	}
	var shallow, deep []cand
	for _, nd := range nodes {
		for _, m := range jsonMutations {
			if len(nd.Path) == 0 && m.Class == "json-removed" {
				continue
			}
			with, ok := m.With(cs.rng, nd.Val)
			if !ok {
				continue
			}
			cd := cand{in: input{Class: m.Class, Where: where(nd.Path), Path: pathString(nd.Path), Member: lastMember(nd.Path)}, path: nd.Path, with: with}
			_, isObj := nd.Val.(map[string]any)
			_, isArr := nd.Val.([]any)
			switch {
			case len(nd.Path) <= 2:
				shallow = append(shallow, cd) // every class on every shallow node
			case (isObj || isArr) && (m.Class == "json-null" || (isArr && m.Class == "json-nullinarray")):
				shallow = append(shallow, cd) // every container member ← null, every list ← [null], at any depth
			case where(nd.Path) == "list-element" && !isObj && !isArr && m.Class == "json-emptyobject":
				shallow = append(shallow, cd) // every scalar list element ← {}
			default:
				deep = append(deep, cd)
			}
		}
	}
	// the exhaustive part above, plus a PRNG sample of all other (node, class) pairs
	cs.rng.Shuffle(len(deep), func(i, j int) { deep[i], deep[j] = deep[j], deep[i] })
	room := jsonN - len(shallow)
	if room < jsonN/3 {
		room = jsonN / 3
	}
	if len(deep) > room {
		deep = deep[:room]
	}
	for _, cd := range append(shallow, deep...) {
		b, e := toJSON(replace(tree, cd.path, cd.with))
		if e != nil {
			continue
		}
		cd.in.Data = b
		inputs = append(inputs, cd.in)
	}

	// raw documents
	for _, raw := range []string{"", " ", "{", "{}", "null", "[]", "[null]", `"x"`, "0", "true", `{"version":"phase0"}`, `{"version":"nope","block":{}}`, `{"version":99}`} {
		inputs = append(inputs, input{Class: "json-raw", Where: "document", Path: raw, Data: []byte(raw)})
	}

	// SSZ damage
	if enc.HasSSZ {
		var other []byte
		for tries := 0; tries < 5 && other == nil; tries++ {
			ov := allVariantsCached[cs.rng.Intn(len(allVariantsCached))]
			var b []byte
			if pi := guard(func() { b, _, _ = toSSZ(g.value(ov)) }); pi == nil && len(b) > 0 {
				other = b
			}
		}
		for _, m := range sszMutations(cs.rng, enc.SSZ, other, sszN) {
			inputs = append(inputs, input{Class: m.Class, Path: m.Note, Data: m.Data})
		}
	}

	k := cs.vr.K
	for _, in := range inputs {
		// native decoding context
		if k.Duty != 0 {
			cs.process(in, k.Signed, k.Duty, true)
		}
		// a foreign context for a third of them (the peer chooses the duty type)
		switch cs.rng.Intn(6) {
		case 0:
			cs.process(in, true, signedDuties[cs.rng.Intn(len(signedDuties))], false)
		case 1:
			cs.process(in, false, unsignedDuties[cs.rng.Intn(len(unsignedDuties))], false)
		default:
		}
	}
	// type confusion: the valid encodings under every duty type, both entry points
	conf := input{Class: "confusion-from-" + k.Name, Path: "valid json of " + cs.vr.String(), Data: enc.JSON}
	for _, typ := range signedDuties {
		if !(k.Signed && typ == k.Duty) {
			cs.process(conf, true, typ, false)
		}
	}
	for _, typ := range unsignedDuties {
		if !(!k.Signed && typ == k.Duty) {
			cs.process(conf, false, typ, false)
		}
	}
	if enc.HasSSZ {
		conf.Data, conf.Path = enc.SSZ, "valid ssz of "+cs.vr.String()
		for _, typ := range signedDuties {
			if !(k.Signed && typ == k.Duty) {
				cs.process(conf, true, typ, false)
			}
		}
		for _, typ := range unsignedDuties {
			if !(!k.Signed && typ == k.Duty) {
				cs.process(conf, false, typ, false)
			}
		}
	}
	// the valid encodings in their native context must pass (harness sanity + stage coverage)
	if k.Duty != 0 {
		cs.process(input{Class: "valid", Path: "json", Data: enc.JSON}, k.Signed, k.Duty, true)
		if enc.HasSSZ {
			cs.process(input{Class: "valid", Path: "ssz", Data: enc.SSZ}, k.Signed, k.Duty, true)
		}
	}
}

var allVariantsCached = func() []variant {
	var out []variant
	for _, v := range allVariants() {
		switch v.K.Name { // SSZ capable kinds only
		case "VersionedSignedProposal", "VersionedAttestation", "VersionedSignedAggregateAndProof", "SignedAggregateAndProof",
			"SignedSyncMessage", "SignedSyncContributionAndProof", "AttestationData", "VersionedProposal",
			"VersionedAggregatedAttestation", "AggregatedAttestation", "SyncContribution":
			out = append(out, v)
		}
	}

	return out
}()

// process runs one input in one decoding context and turns panics into violations.
func (cs *caseState) process(in input, signed bool, typ core.DutyType, native bool) {
	c, r := cs.c, cs.c.R
	cs.nInput++
	ctxName := "unsigned:" + typ.String()
	if signed {
		ctxName = "signed:" + typ.String()
	}
	if cs.inflight != "" {
		hdr := fmt.Sprintf("case=%d n=%d ctx=%s class=%s path=%s\n", c.Idx, cs.nInput, ctxName, in.sigClass(), in.Path)
		_ = os.WriteFile(cs.inflight, append([]byte(hdr), in.Data...), 0o644)
	}
	slot := uint64(100 + cs.nInput%7)
	var o *outcome
	if signed {
		var honest core.SignedData
		if native {
			honest, _ = cs.val.(core.SignedData)
		}
		o = cs.rg.runSigned(typ, slot, in.Data, honest, cs.rng.Intn(2) == 0)
	} else {
		o = cs.rg.runUnsigned(typ, slot, in.Data)
	}

	r.Count("inputs", 1)
	r.Count("inputs:"+in.Class, 1)
	if native {
		r.Count("inputs_native", 1)
	}
	if o.Decoded {
		cs.decoded++
		r.Count("decoded_ok", 1)
		r.Count("decoded_ok:"+in.Class, 1)
		r.Seen("decoded_types", o.DecodedType)
		if !native {
			r.Count("decoded_ok_foreign_context", 1)
		}
	} else if len(o.Panics) == 0 {
		cs.rejected++
		r.Count("decode_rejected", 1)
		if o.DecodeRecov {
			// allowed by the statement (rejected with an error), listed as a side observation
			r.Count("decode_panic_recovered_by_decoder", 1)
			r.Seen("decoder_recovered_in", ctxName)
			r.Seen("decoder_recovered_panics", ctxName+": "+o.DecodeErrFull)
			if signed {
				r.Seen("decoder_recovered_panics_signed_inputs", fmt.Sprintf("%s %s %s member=%s", ctxName, cs.vr.K.Name, in.sigClass(), in.Member))
			}
		}
	}
	r.Count("stage:"+o.Stage, 1)
	if o.Stage == "stored" || o.Stage == "aggregated" {
		r.Count("stage:verify-passed", 1)
	}
	if o.RejectedBy != "" {
		r.Seen("rejected_by", o.RejectedBy)
	}
	for _, op := range o.Latent {
		r.Count("latent_panics_shielded_by_earlier_check", 1)
		r.Seen("latent_panics_shielded_by_earlier_check", fmt.Sprintf("%s %s: %s would panic, shielded by [%s]", o.DecodedType, in.sigClass(), op, o.RejectedBy))
	}
	if in.Class == "valid" {
		// How far a well-formed value gets is coverage, not a verdict (e.g. the beacon client library
		// knows no slot accessor for phase0/altair proposals, DutyDB refuses the legacy unversioned
		// aggregate): only the decoders are required to accept their own encodings.
		r.Count("valid_stage:"+o.Stage, 1)
		if o.RejectedBy != "" {
			r.Seen("valid_value_stopped_by", cs.vr.K.Name+": "+o.RejectedBy)
		}
		if !o.Decoded && len(o.Panics) == 0 {
			c.Violation("roundtrip/"+label(cs.vr)+"/proto/decoder-rejects-valid-"+in.Path, fmt.Sprintf("%s: %s", cs.vr, o.RejectedBy),
				cs.witness(map[string]any{"context": ctxName, "input": showBytes(in.Data)}))
		}
	}

	decType := o.DecodedType
	if decType == "" {
		decType = "decoder[" + ctxName + "]"
	}
	sigClass := in.sigClass()
	if !o.Decoded {
		// a panic that escaped the decoder itself: which damage provokes it varies, the defect is one
		sigClass = "malformed-input"
	}
	for _, p := range o.Panics {
		sig := fmt.Sprintf("%s/%s/%s", decType, sigClass, p.Op)
		c.Violation(sig,
			fmt.Sprintf("%s panicked (%s at %s) on a value decoded without error from a damaged %s encoding (%s, context %s)", p.Op, p.Info.Value, p.Info.Site, cs.vr, in.sigClass(), ctxName),
			cs.witness(map[string]any{"context": ctxName, "mutation": in.sigClass(), "path": in.Path, "member": in.Member, "input": showBytes(in.Data), "op": p.Op, "panic": p.Info, "stage": o.Stage, "all_panicking_ops": opNames(o.Panics)}))
		r.Seen("crash_sites", p.Info.Site)
		r.Seen("crash_inputs", fmt.Sprintf("%s %s member=%q op=%s", decType, in.sigClass(), in.Member, p.Op))
	}

	// end to end: the same bytes as a real wire message to a real parsigex handler
	if signed && (o.Decoded || len(o.Panics) > 0) {
		stage, pi := cs.wire.deliver(typ, slot, in.Data)
		r.Count("wire_deliveries", 1)
		r.Count("wire_stage:"+stage, 1)
		if pi != nil {
			sig := fmt.Sprintf("%s/%s/wire:parsigex-handler", decType, sigClass)
			c.Violation(sig,
				fmt.Sprintf("the real parsigex stream handler panicked (%s at %s) on a wire message carrying a damaged %s encoding (%s, duty %s); libp2p runs it in a goroutine without recover", pi.Value, pi.Site, cs.vr, in.sigClass(), typ),
				cs.witness(map[string]any{"context": ctxName, "mutation": in.sigClass(), "path": in.Path, "member": in.Member, "input": showBytes(in.Data), "panic": pi, "wire_stage": stage}))
			r.Seen("crash_sites", pi.Site)
			cs.wire = cs.rg.newWire()
		} else if len(o.Panics) == 0 {
			// the in-process pipeline and the wire pipeline must agree on how far the value gets
			want := map[string]string{"not-eth2": "verify-rejected", "verify-rejected": "verify-rejected", "stored": "stored", "aggregated": "stored"}[o.Stage]
			if stage != want && !(want == "stored" && stage == "verified") {
				r.Count("wire_stage_mismatch", 1)
				r.Seen("wire_stage_mismatch", fmt.Sprintf("%s:%s->%s", ctxName, o.Stage, stage))
			}
		}
	}
	// end to end: the same bytes decided by a real consensus component wired to a real DutyDB
	if !signed && typ.Valid() && (len(o.Panics) > 0 || (o.Decoded && cs.rng.Intn(6) == 0)) {
		cs.consensusDecide(in, sigClass, typ, ctxName, decType, o)
	}
	if len(o.Panics) > 0 {
		cs.canary()
	}
}

func (cs *caseState) consensusDecide(in input, sigClass string, typ core.DutyType, ctxName, decType string, o *outcome) {
	c, r := cs.c, cs.c.R
	if cs.cons == nil {
		cw, err := cs.rg.newConsWire()
		if err != nil {
			r.Inconclusive("case %d: consensus component: %v", c.Idx, err)
			return
		}
		cs.cons = cw
	}
	stage, pi, finished := cs.cons.decide(typ, in.Data)
	r.Count("consensus_deliveries", 1)
	r.Count("consensus_stage:"+stage, 1)
	switch {
	case stage == "refused-equal-value":
		c.Violation("consensus-hash/depends-on-wire-encoding/"+typ.String(),
			"the consensus receive handler refused a peer's COMMIT whose (single entry) value hashes to the signed value hash: "+cs.cons.lastErr,
			cs.witness(map[string]any{"context": ctxName, "input": showBytes(in.Data)}))
	case stage == "probe-error":
		r.Inconclusive("case %d: consensus receive handler refused the probe message: %s", c.Idx, cs.cons.lastErr)
	case !finished:
		r.Inconclusive("case %d: consensus instance did not finish within the watchdog although the handler admits the value (stage %s)", c.Idx, stage)
		cs.cons.close()
		cs.cons = nil
	case pi != nil:
		sig := fmt.Sprintf("%s/%s/wire:consensus-decide", decType, sigClass)
		c.Violation(sig,
			fmt.Sprintf("a panic (%s at %s) escaped the real consensus instance (qbft.Run → Decide → DutyDB.Store) deciding on a damaged %s encoding (%s, duty %s) committed by a quorum; nothing recovers it in production", pi.Value, pi.Site, cs.vr, in.sigClass(), typ),
			cs.witness(map[string]any{"context": ctxName, "mutation": in.sigClass(), "path": in.Path, "member": in.Member, "input": showBytes(in.Data), "panic": pi, "consensus_stage": stage}))
		r.Seen("crash_sites", pi.Site)
		cs.cons.close()
		cs.cons = nil
	default:
		// agreement between the direct pipeline and the consensus path
		want := map[string]string{"store-rejected": "decoded", "stored": "stored"}[o.Stage]
		if len(o.Panics) == 0 && stage != want {
			r.Count("consensus_stage_mismatch", 1)
			r.Seen("consensus_stage_mismatch", fmt.Sprintf("%s:%s->%s", ctxName, o.Stage, stage))
		}
	}
}

func opNames(ps []opPanic) []string {
	var out []string
	for _, p := range ps {
		out = append(out, p.Op)
	}

	return out
}

// canary checks that the process still handles a known-good value after a recovered panic.
func (cs *caseState) canary() {
	good := core.NewSignedRandao(7, eth2p0.BLSSignature(cs.rg.sigPool()[0]))
	b, _ := toJSON(good)
	o := cs.rg.runSigned(core.DutyRandao, 7, b, good, false)
	cs.c.R.Count("canaries", 1)
	if !o.Decoded || len(o.Panics) > 0 || o.Stage != "aggregated" {
		cs.c.Violation("canary/known-good-value-fails-after-recovered-panic",
			fmt.Sprintf("after a recovered panic a known good SignedRandao stops at %s (%s)", o.Stage, o.RejectedBy), map[string]any{"panics": o.Panics})
	}
}

// ---------------------------------------------------------------------------------------------
// W1 for values whose SSZ encoding starts like a JSON document.
//
// The wire decoder (core.unmarshal) has to tell SSZ from JSON by looking at the bytes. For a type
// whose SSZ encoding begins with a value dependent field (a slot, a validator index, …) there are
// valid values whose encoding begins with '{', with JSON white space followed by '{', with '[', '"',
// a digit, '-', or like null/true/false. Such values are as valid as any other and must round trip.

// jsonLikePrefixes are the JSON-significant ways a byte string can begin.
var jsonLikePrefixes = [][]byte{
	[]byte("{"), []byte(" {"), []byte("\n{"), []byte("\t{"), []byte("\r{"), []byte("  {"), []byte(" \n\t\r{"),
	[]byte("["), []byte("\""), []byte("n"), []byte("t"), []byte("f"), []byte("7"), []byte("0"), []byte("-"),
	[]byte("{}"), []byte("[]"), []byte("null"), []byte("true"), []byte("false"), []byte("\"x\""), []byte("{\"a\":1}"),
}

// prefixCase finds out, by looking at encodings of several generated values, whether the SSZ encoding
// of the variant begins with a value dependent byte. If so it makes, for every JSON-like prefix, the
// value whose leading field has exactly these little-endian bytes: the prefix is written over the
// first bytes of a valid encoding and the type's own SSZ decoder turns that back into a value; the
// value counts only if it re-encodes to exactly those bytes (so it is a genuine value of the type and
// the bytes are its canonical encoding). Each such value goes through all W1 oracles and, as a valid
// wire message, through the native decoding context.
func prefixCase(c *kit.Case, rg *rig, vr variant) {
	r := c.R
	seed := c.Rng.Int63()
	g := newGen(r.T(), rand.New(rand.NewSource(seed)), rg.sigPool()) //nolint:gosec // reproducible workload
	var (
		base     any
		baseSSZ  []byte
		firsts   = map[byte]bool{}
		distinct = map[string]bool{}
	)
	for i := 0; i < 6; i++ {
		var (
			v   any
			b   []byte
			ok  bool
			err error
		)
		if pi := guard(func() { v = g.value(vr); b, ok, err = toSSZ(v) }); pi != nil {
			r.Inconclusive("case %d: generator panicked for %v: %s at %s", c.Idx, vr, pi.Value, pi.Site)
			return
		}
		if !ok || err != nil || len(b) == 0 {
			r.Seen("prefix_variants_without_ssz", vr.K.Name)
			return
		}
		if base == nil {
			base, baseSSZ = v, b
		}
		firsts[b[0]] = true
		distinct[string(b)] = true
	}
	r.Count("prefix_variants_inspected", 1)
	if len(firsts) == 1 {
		// all (different) values start with the same byte: a version, a fixed offset, …
		if len(distinct) > 1 {
			r.Seen("prefix_fixed_first_byte", fmt.Sprintf("%s %#02x", vr.K.Name, baseSSZ[0]))
		}

		return
	}
	r.Count("prefix_value_dependent_variants", 1)
	r.Seen("prefix_value_dependent_kinds", vr.K.Name)

	realised := 0
	for _, pfx := range jsonLikePrefixes {
		if len(pfx) > len(baseSSZ) {
			continue
		}
		patched := append([]byte(nil), baseSSZ...)
		copy(patched, pfx)
		derive := func() (any, error) {
			v, err := fromSSZ(patched, base)
			if err != nil {
				return nil, err
			}
			re, _, err := toSSZ(v)
			if err != nil {
				return nil, err
			}
			if !bytes.Equal(re, patched) {
				return nil, fmt.Errorf("not the canonical encoding of a value")
			}

			return v, nil
		}
		var (
			v   any
			err error
		)
		if pi := guard(func() { v, err = derive() }); pi != nil || err != nil {
			// the leading bytes are not free after all (an offset, a bounded field): no such value exists
			r.Count("prefix_not_realisable", 1)
			continue
		}
		realised++
		cs := &caseState{
			c: c, rg: rg, vr: vr, seed: seed, rng: c.Rng, val: v, twin: derive,
			derivedBy: fmt.Sprintf("generated value whose SSZ encoding was made to start with %q by choosing the leading field", pfx),
		}
		if out := os.Getenv("VERIF_OUT"); out != "" {
			cs.inflight = filepath.Join(out, fmt.Sprintf("c14-inflight-%d.bin", c.Idx))
		}
		enc, ok := cs.roundTrips(g)
		r.Count("prefix_values", 1)
		r.Seen("prefix_patterns_realised", fmt.Sprintf("%s %q", vr.K.Name, pfx))
		if !ok || !bytes.Equal(enc.SSZ, patched) {
			continue
		}
		if vr.K.Duty != 0 {
			// as real wire messages in the native context: SSZ wire form and legacy JSON wire form
			cs.wire = rg.newWire()
			cs.process(input{Class: "valid", Path: "ssz", Data: enc.SSZ}, vr.K.Signed, vr.K.Duty, true)
			cs.process(input{Class: "valid", Path: "json", Data: enc.JSON}, vr.K.Signed, vr.K.Duty, true)
			// JSON preceded by white space is still JSON for every JSON decoder; recorded, not judged
			// (no encoder of the workflow produces it)
			ws := append([]byte(" \n\t"), enc.JSON...)
			var o *outcome
			if vr.K.Signed {
				o = rg.runSigned(vr.K.Duty, 101, ws, nil, false)
			} else {
				o = rg.runUnsigned(vr.K.Duty, 101, ws)
			}
			r.Count("json_with_leading_whitespace", 1)
			if !o.Decoded {
				r.Seen("json_with_leading_whitespace_rejected", vr.K.Name+": "+o.RejectedBy)
			}
			if cs.cons != nil {
				cs.cons.close()
			}
		}
		if cs.inflight != "" {
			_ = os.Remove(cs.inflight)
		}
	}
	if realised > 0 {
		c.NonTrivial(kit.Hash("prefix", vr.String(), sha256.Sum256(baseSSZ)))
	}
}

// ---------------------------------------------------------------------------------------------
// W3 raw sweep: byte strings of every length in every decoding context (fixed-size SSZ containers
// accept any buffer of their size, so the interesting lengths cannot be guessed, only swept)

type decodeCtx struct {
	Signed bool
	Duty   core.DutyType
}

func sweepContexts() []decodeCtx {
	var out []decodeCtx
	for _, d := range signedDuties {
		out = append(out, decodeCtx{true, d})
	}
	for _, d := range unsignedDuties {
		out = append(out, decodeCtx{false, d})
	}

	return out
}

func sweepCase(c *kit.Case, rg *rig, dc decodeCtx) {
	cs := &caseState{c: c, rg: rg, rng: c.Rng, vr: variant{K: &kind{Name: "raw"}}}
	if out := os.Getenv("VERIF_OUT"); out != "" {
		cs.inflight = filepath.Join(out, fmt.Sprintf("c14-inflight-%d.bin", c.Idx))
	}
	cs.wire = rg.newWire()
	maxLen := 400
	if c.R.Thorough() {
		maxLen = 1200
	}
	for n := 0; n <= maxLen; n++ {
		zeros := make([]byte, n)
		rnd := make([]byte, n)
		c.Rng.Read(rnd)
		lowHdr := append([]byte(nil), rnd...) // plausible small little-endian header words, random body
		for i := 0; i < len(lowHdr) && i < 24; i++ {
			if i%4 != 0 {
				lowHdr[i] = 0
			} else {
				lowHdr[i] = byte(c.Rng.Intn(24))
			}
		}
		for _, in := range []input{
			{Class: "raw-sweep", Path: fmt.Sprintf("%d zero bytes", n), Data: zeros},
			{Class: "raw-sweep", Path: fmt.Sprintf("%d random bytes", n), Data: rnd},
			{Class: "raw-sweep", Path: fmt.Sprintf("%d bytes, small header words", n), Data: lowHdr},
		} {
			cs.process(in, dc.Signed, dc.Duty, false)
		}
	}
	if dc.Signed {
		cs.wireShapes(dc.Duty)
	} else if dc.Duty.Valid() {
		cs.consEnvelopeShapes(dc.Duty)
	}
	if cs.cons != nil {
		cs.cons.close()
	}
	if cs.inflight != "" {
		_ = os.Remove(cs.inflight)
	}
	if cs.decoded > 0 && cs.rejected > 0 {
		c.NonTrivial(kit.Hash("sweep", dc.Signed, dc.Duty, c.Rng.Int63()))
	}
}

// consEnvelopeShapes sends ill-shaped but validly signed consensus envelopes to the real handler.
func (cs *caseState) consEnvelopeShapes(typ core.DutyType) {
	c, r := cs.c, cs.c.R
	if cs.cons == nil {
		cw, err := cs.rg.newConsWire()
		if err != nil {
			r.Inconclusive("case %d: consensus component: %v", c.Idx, err)
			return
		}
		cs.cons = cw
	}
	n := cs.cons.envelopeShapes(typ, func(shape string, pi *panicInfo) {
		if pi == nil {
			return
		}
		c.Violation("consensus-handler/proto-envelope/"+strings.ReplaceAll(digitsRe.ReplaceAllString(shape, "N"), " ", "-"),
			fmt.Sprintf("the real consensus stream handler panicked (%s at %s) on a validly signed envelope with %s (duty %s); libp2p runs it in a goroutine without recover", pi.Value, pi.Site, shape, typ),
			map[string]any{"shape": shape, "duty": typ.String(), "panic": pi})
		r.Seen("crash_sites", pi.Site)
	})
	r.Count("consensus_envelope_shapes", int64(n))
}

var digitsRe = regexp.MustCompile(`[0-9]+`)

// wireShapes sends ill-formed protobuf envelopes and raw frames to the real parsigex handler.
func (cs *caseState) wireShapes(typ core.DutyType) {
	c, r := cs.c, cs.c.R
	good, _ := toJSON(core.NewSignedRandao(7, eth2p0.BLSSignature(cs.rg.sigPool()[0])))
	pk := string(cs.rg.pubkey)
	duty := &pbv1.Duty{Slot: 77, Type: int32(typ)}
	psd := func(idx int32) *pbv1.ParSignedData {
		return &pbv1.ParSignedData{Data: good, Signature: cs.rg.sigs[0], ShareIdx: idx}
	}
	set := func(m map[string]*pbv1.ParSignedData) *pbv1.ParSignedDataSet { return &pbv1.ParSignedDataSet{Set: m} }
	shapes := map[string]*pbv1.ParSigExMsg{
		"empty message":      {},
		"no duty":            {DataSet: set(map[string]*pbv1.ParSignedData{pk: psd(2)})},
		"no data set":        {Duty: duty},
		"empty set":          {Duty: duty, DataSet: set(map[string]*pbv1.ParSignedData{})},
		"empty entry":        {Duty: duty, DataSet: set(map[string]*pbv1.ParSignedData{pk: {}})},
		"nil entry":          {Duty: duty, DataSet: set(map[string]*pbv1.ParSignedData{pk: nil})},
		"share idx -1":       {Duty: duty, DataSet: set(map[string]*pbv1.ParSignedData{pk: psd(-1)})},
		"share idx 0":        {Duty: duty, DataSet: set(map[string]*pbv1.ParSignedData{pk: psd(0)})},
		"share idx max":      {Duty: duty, DataSet: set(map[string]*pbv1.ParSignedData{pk: psd(1<<31 - 1)})},
		"empty pubkey":       {Duty: duty, DataSet: set(map[string]*pbv1.ParSignedData{"": psd(2)})},
		"short pubkey":       {Duty: duty, DataSet: set(map[string]*pbv1.ParSignedData{"0x": psd(2)})},
		"non-hex pubkey":     {Duty: duty, DataSet: set(map[string]*pbv1.ParSignedData{strings.Repeat("z", 98): psd(2)})},
		"long pubkey":        {Duty: duty, DataSet: set(map[string]*pbv1.ParSignedData{strings.Repeat("a", 4096): psd(2)})},
		"duty type -1":       {Duty: &pbv1.Duty{Slot: 1, Type: -1}, DataSet: set(map[string]*pbv1.ParSignedData{pk: psd(2)})},
		"duty type 99":       {Duty: &pbv1.Duty{Slot: 1, Type: 99}, DataSet: set(map[string]*pbv1.ParSignedData{pk: psd(2)})},
		"slot max":           {Duty: &pbv1.Duty{Slot: 1<<64 - 1, Type: int32(typ)}, DataSet: set(map[string]*pbv1.ParSignedData{pk: psd(2)})},
		"good and bad entry": {Duty: duty, DataSet: set(map[string]*pbv1.ParSignedData{pk: psd(2), "0x00": {Data: []byte("null"), ShareIdx: 2}})},
		"short signature":    {Duty: duty, DataSet: set(map[string]*pbv1.ParSignedData{pk: {Data: good, Signature: []byte{1, 2, 3}, ShareIdx: 2}})},
	}
	names := make([]string, 0, len(shapes))
	for n := range shapes {
		names = append(names, n)
	}
	sort.Strings(names)
	for _, n := range names {
		_, pi := cs.wire.deliverMsg(shapes[n])
		r.Count("wire_envelope_shapes", 1)
		if pi != nil {
			c.Violation("parsigex-handler/proto-envelope/"+strings.ReplaceAll(n, " ", "-"),
				fmt.Sprintf("the real parsigex stream handler panicked (%s at %s) on an ill-formed envelope (%s, duty %s)", pi.Value, pi.Site, n, typ),
				map[string]any{"shape": n, "duty": typ.String(), "panic": pi})
			cs.wire = cs.rg.newWire()
		}
	}
	for i := 0; i < 64; i++ {
		frame := make([]byte, cs.rng.Intn(200))
		cs.rng.Read(frame)
		if i%2 == 0 && len(frame) > 2 { // plausible varint length prefix
			frame[0] = byte(len(frame) - 1)
		}
		r.Count("wire_raw_frames", 1)
		if pi := cs.wire.deliverRaw(frame); pi != nil {
			c.Violation("parsigex-handler/raw-frame/panic",
				fmt.Sprintf("the real parsigex stream handler panicked (%s at %s) on a raw frame", pi.Value, pi.Site),
				map[string]any{"frame": showBytes(frame), "panic": pi})
			cs.wire = cs.rg.newWire()
		}
	}
}

// ---------------------------------------------------------------------------------------------
// W2 determinism

// hashProto replicates core/consensus/qbft.hashProto (unexported; core/priority has the same copy).
func hashProto(msg proto.Message) ([32]byte, []byte, error) {
	hh := ssz.DefaultHasherPool.Get()
	defer ssz.DefaultHasherPool.Put(hh)
	index := hh.Index()
	b, err := proto.MarshalOptions{Deterministic: true}.Marshal(msg)
	if err != nil {
		return [32]byte{}, nil, err
	}
	hh.PutBytes(b)
	hh.Merkleize(index)
	h, err := hh.HashRoot()

	return h, b, err
}

// wireEncodings is the oracle "the consensus hash of a value does not depend on how a peer happened
// to serialise it". A consensus value is a protobuf map<pubkey,bytes>; protobuf leaves the order of map
// entries on the wire open and anypb.New (what every released version sends) emits Go's random map
// order. Several wire encodings of the SAME multi-entry set are built; each must (a) decode to an equal
// value that re-encodes to the sender's hash and (b) be admitted by the real receive handler in a
// validly signed PRE-PREPARE whose value_hash is the hash of the value.
func wireEncodings(c *kit.Case, cw *consWire, duty core.DutyType, pb *pbv1.UnsignedDataSet, wit map[string]any) {
	r := c.R
	hash, detBytes, err := hashProto(pb)
	if err != nil {
		r.Inconclusive("case %d: hash of determinism set: %v", c.Idx, err)
		return
	}
	keys := make([]string, 0, len(pb.GetSet()))
	for k := range pb.GetSet() {
		keys = append(keys, k)
	}
	sort.Strings(keys)
	concat := func(order []string) []byte {
		// the encodings of single entry sets, concatenated: protobuf merges them into one map
		var out []byte
		for _, k := range order {
			b, err := proto.Marshal(&pbv1.UnsignedDataSet{Set: map[string][]byte{k: pb.GetSet()[k]}})
			if err != nil {
				return nil
			}
			out = append(out, b...)
		}

		return out
	}
	desc := append([]string(nil), keys...)
	sort.Sort(sort.Reverse(sort.StringSlice(desc)))
	shuffled := func() []string {
		o := append([]string(nil), keys...)
		c.Rng.Shuffle(len(o), func(i, j int) { o[i], o[j] = o[j], o[i] })

		return o
	}
	type enc struct {
		kind string
		any  *anypb.Any
	}
	typeURL := ""
	if a, err := anypb.New(&pbv1.UnsignedDataSet{}); err == nil {
		typeURL = a.GetTypeUrl()
	}
	var encs []enc
	add := func(kind string, b []byte) {
		if b != nil {
			encs = append(encs, enc{kind, &anypb.Any{TypeUrl: typeURL, Value: b}})
		}
	}
	add("deterministic-marshal", detBytes)
	add("entries-ascending", concat(keys))
	add("entries-descending", concat(desc))
	add("entries-random-order", concat(shuffled()))
	add("entries-random-order", concat(shuffled()))
	if b, err := proto.Marshal(pb); err == nil {
		add("proto.Marshal", b)
	}
	for i := 0; i < 2; i++ {
		if a, err := anypb.New(pb); err == nil { // exactly what released versions put on the wire
			encs = append(encs, enc{"anypb.New", a})
		}
	}

	for _, e := range encs {
		r.Count("wire_encodings_checked", 1)
		r.Seen("wire_encoding_kinds", e.kind)
		if !bytes.Equal(e.any.GetValue(), detBytes) {
			r.Count("wire_encodings_differing_from_sorted", 1)
		}
		w := map[string]any{"encoding": e.kind, "duty": duty.String(), "entries": len(keys), "wire_value": showBytes(e.any.GetValue()), "signed_value_hash": hex.EncodeToString(hash[:])}
		for k, v := range wit {
			w[k] = v
		}
		// (a) it is the same value
		decoded := new(pbv1.UnsignedDataSet)
		if err := e.any.UnmarshalTo(decoded); err != nil || !proto.Equal(decoded, pb) {
			r.Inconclusive("case %d: harness built a wire encoding (%s) that is not the same value: %v", c.Idx, e.kind, err)
			continue
		}
		var h2 [32]byte
		set2, err := core.UnsignedDataSetFromProto(duty, decoded)
		if err == nil {
			var pb2 *pbv1.UnsignedDataSet
			if pb2, err = core.UnsignedDataSetToProto(set2); err == nil {
				h2, _, err = hashProto(pb2)
			}
		}
		if err != nil || h2 != hash {
			c.Violation("consensus-hash/wire-encoding-decodes-to-unequal-value/"+duty.String(),
				fmt.Sprintf("a %s wire encoding of a %d entry set decodes/re-encodes to hash %x (err %v), the sender's hash is %x", e.kind, len(keys), h2[:6], err, hash[:6]), w)
			continue
		}
		// (b) the receive path admits a peer's message carrying it
		err = cw.admits(duty, msgPrePrepare, hash, e.any)
		switch {
		case err == nil:
			r.Count("wire_encodings_admitted", 1)
		case refusedEqualValue(err):
			c.Violation("consensus-hash/depends-on-wire-encoding/"+duty.String(),
				fmt.Sprintf("the consensus receive handler refused a validly signed PRE-PREPARE whose value (%d entries, wire form %s) equals the value the signed hash belongs to: %s", len(keys), e.kind, err), w)
		default:
			r.Count("wire_encodings_other_refusal", 1)
			r.Inconclusive("case %d: consensus receive handler refused the message for another reason: %v", c.Idx, err)
		}
	}
}

func determinismCase(c *kit.Case, rg *rig) {
	r := c.R
	g := newGen(r.T(), rand.New(rand.NewSource(c.Rng.Int63())), rg.sigPool()) //nolint:gosec // reproducible workload
	// choose a duty type and the kinds that belong to it
	type family struct {
		duty   core.DutyType
		signed bool
		kinds  []string
		single bool
	}
	fams := []family{
		{core.DutyAttester, false, []string{"AttestationData"}, false},
		{core.DutyProposer, false, []string{"VersionedProposal"}, true},
		{core.DutyAggregator, false, []string{"VersionedAggregatedAttestation"}, false},
		{core.DutySyncContribution, false, []string{"SyncContribution", "SyncContributions"}, false},
		{core.DutyAttester, true, []string{"VersionedAttestation"}, false},
		{core.DutyAggregator, true, []string{"VersionedSignedAggregateAndProof"}, false},
		{core.DutyRandao, true, []string{"SignedRandao"}, false},
		{core.DutySyncMessage, true, []string{"SignedSyncMessage"}, false},
		{core.DutyBuilderRegistration, true, []string{"VersionedSignedValidatorRegistration"}, false},
		{core.DutyProposer, true, []string{"VersionedSignedProposal"}, true},
	}
	fam := fams[c.Idx%len(fams)] // every family in every run, whatever the seed
	var pool []variant
	for _, v := range allVariants() {
		for _, kn := range fam.kinds {
			if v.K.Name == kn {
				pool = append(pool, v)
			}
		}
	}
	n := 2 + c.Rng.Intn(6)
	if fam.single {
		n = 1
	}
	type entry struct {
		pk core.PubKey
		v  any
	}
	var entries []entry
	for i := 0; i < n; i++ {
		var pkb eth2p0.BLSPubKey
		c.Rng.Read(pkb[:])
		var v any
		vr := pool[c.Rng.Intn(len(pool))]
		if vr.K.Name == "VersionedAttestation" {
			vr.Var = 0 // see roundtrip finding: without validator index some slots cannot be re-decoded
		}
		if pi := guard(func() { v = g.value(vr) }); pi != nil {
			r.Inconclusive("case %d: generator panicked: %s", c.Idx, pi.Value)
			return
		}
		entries = append(entries, entry{core.PubKeyFrom48Bytes(pkb), v})
	}

	const workers = 8
	type result struct {
		hash  [32]byte
		bytes []byte
		err   error
		pi    *panicInfo
		// after a wire round trip and re-encoding on the "receiving node"
		hash2 [32]byte
		err2  error
	}
	res := make([]result, workers)
	orders := make([][]int, workers)
	for w := range orders {
		orders[w] = c.Rng.Perm(len(entries))
	}
	var wg sync.WaitGroup
	for w := 0; w < workers; w++ {
		wg.Add(1)
		go func(w int) {
			defer wg.Done()
			res[w].pi = guard(func() {
				var msg proto.Message
				if fam.signed {
					set := core.ParSignedDataSet{}
					for _, i := range orders[w] {
						set[entries[i].pk] = core.ParSignedData{SignedData: entries[i].v.(core.SignedData), ShareIdx: 1 + i%4}
					}
					pb, err := core.ParSignedDataSetToProto(set)
					if err != nil {
						res[w].err = err
						return
					}
					msg = pb
					res[w].hash, res[w].bytes, res[w].err = hashProto(msg)
					pb2, err := wireRoundTrip(pb, new(pbv1.ParSignedDataSet))
					if err == nil {
						var set2 core.ParSignedDataSet
						if set2, err = core.ParSignedDataSetFromProto(fam.duty, pb2); err == nil {
							var pb3 *pbv1.ParSignedDataSet
							if pb3, err = core.ParSignedDataSetToProto(set2); err == nil {
								res[w].hash2, _, err = hashProto(pb3)
							}
						}
					}
					res[w].err2 = err

					return
				}
				set := core.UnsignedDataSet{}
				for _, i := range orders[w] {
					set[entries[i].pk] = entries[i].v.(core.UnsignedData)
				}
				pb, err := core.UnsignedDataSetToProto(set)
				if err != nil {
					res[w].err = err
					return
				}
				msg = pb
				res[w].hash, res[w].bytes, res[w].err = hashProto(msg)
				pb2, err := wireRoundTrip(pb, new(pbv1.UnsignedDataSet))
				if err == nil {
					var set2 core.UnsignedDataSet
					if set2, err = core.UnsignedDataSetFromProto(fam.duty, pb2); err == nil {
						var pb3 *pbv1.UnsignedDataSet
						if pb3, err = core.UnsignedDataSetToProto(set2); err == nil {
							res[w].hash2, _, err = hashProto(pb3)
						}
					}
				}
				res[w].err2 = err
			})
		}(w)
	}
	wg.Wait()

	famName := "unsigned:" + fam.duty.String()
	if fam.signed {
		famName = "signed:" + fam.duty.String()
	}
	wit := map[string]any{"family": famName, "keys": len(entries), "orders": orders}
	for w := 0; w < workers; w++ {
		switch {
		case res[w].pi != nil:
			c.Violation("determinism/"+famName+"/set-encode-panics", fmt.Sprintf("panic %s at %s", res[w].pi.Value, res[w].pi.Site), wit)
		case res[w].err != nil:
			c.Violation("determinism/"+famName+"/set-encode-fails", res[w].err.Error(), wit)
		case res[w].hash != res[0].hash || !bytes.Equal(res[w].bytes, res[0].bytes):
			c.Violation("determinism/"+famName+"/same-set-encodes-to-different-bytes-or-hash",
				fmt.Sprintf("goroutine %d (order %v) produced hash %x, goroutine 0 (order %v) %x", w, orders[w], res[w].hash[:6], orders[0], res[0].hash[:6]), wit)
		case res[w].err2 != nil:
			c.Violation("determinism/"+famName+"/receiver-cannot-reencode", res[w].err2.Error(), wit)
		case res[w].hash2 != res[0].hash:
			c.Violation("determinism/"+famName+"/receiver-reencoding-changes-hash",
				fmt.Sprintf("hash after decode+encode %x, sender hash %x", res[w].hash2[:6], res[0].hash[:6]), wit)
		}
	}
	// The same set through the real consensus component.
	if !fam.signed && res[0].err == nil && res[0].pi == nil {
		set := core.UnsignedDataSet{}
		for _, e := range entries {
			set[e.pk] = e.v.(core.UnsignedData)
		}
		if pb, err := core.UnsignedDataSetToProto(set); err == nil {
			if cw, err := rg.newConsWire(); err == nil {
				if len(pb.GetSet()) >= 2 {
					wireEncodings(c, cw, fam.duty, pb, wit)
				}
				// A whole instance: its handler accepts the harness' COMMITs only if the real (unexported)
				// hashProto of the value equals the replica's hash.
				if c.Rng.Intn(2) == 0 {
					stage, pi, finished := cw.decideSet(fam.duty, pb)
					switch {
					case stage == "refused-equal-value":
						c.Violation("consensus-hash/depends-on-wire-encoding/"+fam.duty.String(),
							fmt.Sprintf("the consensus receive handler refused a peer's COMMIT whose value (wrapped with anypb.New like every released version does, %d entries) hashes to the signed value hash: %s", len(pb.GetSet()), cw.lastErr), wit)
					case stage == "probe-error":
						r.Inconclusive("case %d: consensus receive handler refused the probe message: %s", c.Idx, cw.lastErr)
					case !finished:
						r.Inconclusive("case %d: consensus instance did not decide the determinism set within the watchdog although the handler admits the value (stage %s)", c.Idx, stage)
					case pi != nil:
						c.Violation("determinism/"+famName+"/consensus-decide-panics", fmt.Sprintf("panic %s at %s", pi.Value, pi.Site), wit)
					default:
						r.Count("determinism_consensus_decisions", 1)
						r.Count("determinism_consensus_stage:"+stage, 1)
					}
				}
				cw.close()
			}
		}
	}
	r.Count("determinism_sets", 1)
	r.Count("determinism_encodings", workers)
	r.Seen("determinism_families", famName)
	distinct := map[string]bool{}
	for _, o := range orders {
		distinct[fmt.Sprint(o)] = true
	}
	if len(distinct) > 1 || fam.single {
		c.NonTrivial(kit.Hash("det", famName, hex.EncodeToString(res[0].hash[:])))
	}
}
