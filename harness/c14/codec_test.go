package c14

import (
	"encoding/json"
	"fmt"
	"reflect"
	"runtime"
	"strings"

	ssz "github.com/ferranbt/fastssz"
	"google.golang.org/protobuf/proto"

	"github.com/obolnetwork/charon/core"
)

// panicInfo describes a recovered panic: the value and the innermost frames.
type panicInfo struct {
	Value string   `json:"panic"`
	Site  string   `json:"site"`   // innermost non-runtime frame
	Top   string   `json:"charon"` // innermost charon frame
	Stack []string `json:"stack"`
}

// guard runs fn and converts a panic into a *panicInfo.
func guard(fn func()) (pi *panicInfo) {
	defer func() {
		if r := recover(); r != nil {
			pi = classifyPanic(r)
		}
	}()
	fn()

	return nil
}

const charonPrefix = "github.com/obolnetwork/charon/"

func classifyPanic(r any) *panicInfo {
	pi := &panicInfo{Value: trunc(fmt.Sprint(r), 200)}
	pcs := make([]uintptr, 64)
	n := runtime.Callers(3, pcs)
	frames := runtime.CallersFrames(pcs[:n])
	for {
		fr, more := frames.Next()
		fn := fr.Function
		if fn != "" && !strings.HasPrefix(fn, "runtime.") && !strings.Contains(fn, "verifharness/c14.guard") &&
			!strings.Contains(fn, "verifharness/c14.classifyPanic") {
			short := strings.TrimPrefix(fn, charonPrefix)
			if len(pi.Stack) < 14 {
				pi.Stack = append(pi.Stack, fmt.Sprintf("%s:%d", short, fr.Line))
			}
			if pi.Site == "" && !strings.HasPrefix(fn, "verifharness/") {
				pi.Site = short
			}
			if pi.Top == "" && strings.HasPrefix(fn, charonPrefix) {
				pi.Top = short
			}
		}
		if !more {
			break
		}
	}

	return pi
}

func trunc(s string, n int) string {
	if len(s) > n {
		return s[:n] + "…"
	}

	return s
}

// typeName returns the bare core type name of a value ("VersionedSignedProposal").
func typeName(v any) string {
	if v == nil {
		return "nil"
	}
	t := reflect.TypeOf(v)
	for t.Kind() == reflect.Pointer {
		t = t.Elem()
	}

	return t.Name()
}

// zeroPtr returns a pointer to a new zero value of v's type.
func zeroPtr(v any) any { return reflect.New(reflect.TypeOf(v)).Interface() }

// deref returns the value a zeroPtr result points to.
func deref(p any) any { return reflect.ValueOf(p).Elem().Interface() }

func toJSON(v any) ([]byte, error) { return json.Marshal(v) }

func toSSZ(v any) ([]byte, bool, error) {
	m, ok := v.(ssz.Marshaler)
	if !ok {
		return nil, false, nil
	}
	b, err := m.MarshalSSZ()

	return b, true, err
}

func fromJSON(b []byte, like any) (any, error) {
	p := zeroPtr(like)
	if err := json.Unmarshal(b, p); err != nil {
		return nil, err
	}

	return deref(p), nil
}

func fromSSZ(b []byte, like any) (any, error) {
	p := zeroPtr(like)
	u, ok := p.(ssz.Unmarshaler)
	if !ok {
		return nil, fmt.Errorf("%T has no UnmarshalSSZ", p)
	}
	if err := u.UnmarshalSSZ(b); err != nil {
		return nil, err
	}

	return deref(p), nil
}

// messageRoot returns the signing root of a signed value or the hash tree root of an unsigned one.
func messageRoot(v any) ([32]byte, bool, error) {
	switch x := v.(type) {
	case core.Signature:
		return [32]byte{}, false, nil // has no root by design
	case core.SignedData:
		r, err := x.MessageRoot()
		return r, true, err
	case core.AttestationData:
		r, err := x.Data.HashTreeRoot()
		return r, true, err
	case core.VersionedProposal:
		r, err := x.Root()
		return r, true, err
	case core.VersionedAggregatedAttestation:
		r, err := x.HashTreeRoot()
		return r, true, err
	case core.AggregatedAttestation:
		r, err := x.HashTreeRoot()
		return r, true, err
	case core.SyncContribution:
		r, err := x.HashTreeRoot()
		return r, true, err
	default:
		return [32]byte{}, false, nil
	}
}

func cloneOf(v any) (any, error) {
	switch x := v.(type) {
	case core.SignedData:
		return x.Clone()
	case core.UnsignedData:
		return x.Clone()
	default:
		return nil, fmt.Errorf("%T cannot be cloned", v)
	}
}

// wireRoundTrip marshals a proto message to bytes and back into a fresh message (what the wire does).
func wireRoundTrip[M proto.Message](m M, fresh M) (M, error) {
	b, err := proto.Marshal(m)
	if err != nil {
		return fresh, err
	}
	if err := proto.Unmarshal(b, fresh); err != nil {
		return fresh, err
	}

	return fresh, nil
}
