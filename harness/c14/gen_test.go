package c14

import (
	"fmt"

	"math/rand"
	"reflect"
	"testing"
	"time"

	bitfield "github.com/OffchainLabs/go-bitfield"
	eth2api "github.com/attestantio/go-eth2-client/api"
	eth2v1 "github.com/attestantio/go-eth2-client/api/v1"
	eth2spec "github.com/attestantio/go-eth2-client/spec"
	"github.com/attestantio/go-eth2-client/spec/altair"
	"github.com/attestantio/go-eth2-client/spec/deneb"
	"github.com/attestantio/go-eth2-client/spec/electra"
	eth2p0 "github.com/attestantio/go-eth2-client/spec/phase0"
	fuzz "github.com/google/gofuzz"

	"github.com/obolnetwork/charon/core"
	"github.com/obolnetwork/charon/eth2util"
	"github.com/obolnetwork/charon/tbls"
	"github.com/obolnetwork/charon/testutil"
)

// allVersions are the fork versions the core types support.
var allVersions = []eth2spec.DataVersion{
	eth2spec.DataVersionPhase0, eth2spec.DataVersionAltair, eth2spec.DataVersionBellatrix,
	eth2spec.DataVersionCapella, eth2spec.DataVersionDeneb, eth2spec.DataVersionElectra, eth2spec.DataVersionFulu,
}

func blindable(v eth2spec.DataVersion) bool { return v >= eth2spec.DataVersionBellatrix }

// kind is one core data type (the unit of the type/… part of a signature).
type kind struct {
	Name      string
	Signed    bool          // core.SignedData (true) or core.UnsignedData (false)
	Duty      core.DutyType // duty type under which the *FromProto decoders yield this type (0: none)
	Versioned bool
	Blindable bool
	// Variants is the number of structural variants besides version/blinded (e.g. optional fields).
	Variants int
	New      func(g *gen, ver eth2spec.DataVersion, blinded bool, variant int) any
}

// variant describes one concrete (kind, version, blinded, variant) combination.
type variant struct {
	K       *kind
	Ver     eth2spec.DataVersion
	Blinded bool
	Var     int
}

func (v variant) String() string {
	s := v.K.Name
	if v.K.Versioned {
		s += "/" + v.Ver.String()
	}
	if v.Blinded {
		s += "/blinded"
	}
	if v.K.Variants > 1 {
		s += fmt.Sprintf("/v%d", v.Var)
	}

	return s
}

// edge values for slot-like integers: the SSZ layout of VersionedAttestation is ambiguous when the
// low 32 bits of the slot equal 20, so those are generated on purpose.
var edgeU64 = []uint64{0, 1, 20, 1<<32 + 20, 7<<32 + 20, 1<<32 - 1, 1 << 32, 12, 13, 1 << 63, 1<<64 - 1}

func (g *gen) u64() uint64 {
	switch g.rng.Intn(4) {
	case 0:
		return edgeU64[g.rng.Intn(len(edgeU64))]
	case 1:
		return uint64(g.rng.Intn(1 << 20))
	default:
		return g.rng.Uint64()
	}
}

// gen produces values deterministically from one PRNG.
type gen struct {
	t    *testing.T
	rng  *rand.Rand
	f    *fuzz.Fuzzer
	sigs []eth2p0.BLSSignature // pool of valid BLS signatures (valid G2 points)
}

func newGen(t *testing.T, rng *rand.Rand, sigs []eth2p0.BLSSignature) *gen {
	g := &gen{t: t, rng: rng, sigs: sigs}
	// The repo's own eth2 fuzzer knows the SSZ/JSON validity constraints of the eth2 types (bit list
	// terminators, bit vector widths, list maxima); it is seeded from the case PRNG. On top of it:
	// small lists, cheap blobs, valid BLS points as signatures and edge values for slot-like ints.
	g.f = testutil.NewEth2Fuzzer(t, rng.Int63()+1).NumElements(1, 3).Funcs(
		func(b *deneb.Blob, c fuzz.Continue) {
			// A blob is 128 KiB of opaque bytes; fill a few positions only (speed).
			for i := 0; i < 8; i++ {
				b[c.Intn(len(b))] = byte(c.Intn(256))
			}
		},
		func(s *eth2p0.BLSSignature, c fuzz.Continue) { *s = g.sigs[c.Intn(len(g.sigs))] },
		func(s *eth2p0.Slot, _ fuzz.Continue) { *s = eth2p0.Slot(g.u64()) },
		func(s *eth2p0.Epoch, _ fuzz.Continue) { *s = eth2p0.Epoch(g.u64()) },
		func(s *eth2p0.ValidatorIndex, _ fuzz.Continue) { *s = eth2p0.ValidatorIndex(g.u64()) },
		func(s *eth2p0.CommitteeIndex, _ fuzz.Continue) { *s = eth2p0.CommitteeIndex(g.u64()) },
		// an (aggregate) attestation handled by the duty workflow belongs to exactly one committee
		func(a *electra.Attestation, c fuzz.Continue) {
			c.FuzzNoCustom(a)
			bits := bitfield.NewBitvector64()
			bits.SetBitAt(uint64(c.Intn(64)), true)
			a.CommitteeBits = bits
		},
		func(tm *time.Time, c fuzz.Continue) { *tm = time.Unix(int64(c.Intn(1<<31)), 0).UTC() },
	)

	return g
}

func (g *gen) sig() eth2p0.BLSSignature { return g.sigs[g.rng.Intn(len(g.sigs))] }

// fill fuzzes the value behind ptr and then empties some lists (non-nil empty, as a decoder yields).
func (g *gen) fill(ptr any) {
	g.f.Fuzz(ptr)
	g.shrink(reflect.ValueOf(ptr), 0)
}

var blobType = reflect.TypeOf(deneb.Blob{})

func (g *gen) shrink(v reflect.Value, depth int) {
	if depth > 12 {
		return
	}
	switch v.Kind() {
	case reflect.Pointer:
		if !v.IsNil() {
			g.shrink(v.Elem(), depth+1)
		}
	case reflect.Struct:
		for i := 0; i < v.NumField(); i++ {
			sf := v.Type().Field(i)
			if !sf.IsExported() {
				continue
			}
			fv := v.Field(i)
			// respect the SSZ list maximum declared on the field (first number of ssz-max)
			if fv.Kind() == reflect.Slice && fv.CanSet() && fv.Type().Elem().Kind() != reflect.Uint8 {
				if tag := sf.Tag.Get("ssz-max"); tag != "" {
					var max int
					if _, err := fmt.Sscanf(tag, "%d", &max); err == nil && max > 0 && fv.Len() > max {
						fv.Set(fv.Slice(0, max))
					}
				}
			}
			g.shrink(fv, depth+1)
		}
	case reflect.Slice:
		et := v.Type().Elem()
		if et.Kind() == reflect.Uint8 { // byte strings keep their (validity constrained) length
			return
		}
		if et == blobType { // at most one blob, mostly none
			if v.Len() > 0 && v.CanSet() {
				keep := 0
				if g.rng.Intn(4) == 0 {
					keep = 1
				}
				v.Set(v.Slice(0, keep))
			}

			return
		}
		if v.CanSet() && v.Len() > 0 && g.rng.Intn(3) == 0 {
			v.Set(reflect.MakeSlice(v.Type(), 0, 0))
			return
		}
		for i := 0; i < v.Len(); i++ {
			g.shrink(v.Index(i), depth+1)
		}
	default:
	}
}

func dv(t *testing.T, v eth2spec.DataVersion) eth2util.DataVersion {
	t.Helper()
	d, err := eth2util.DataVersionFromETH2(v)
	if err != nil {
		t.Fatalf("data version: %v", err)
	}

	return d
}

// kinds lists every core data type that crosses a wire or a store.
var kinds = []*kind{
	{
		Name: "VersionedSignedProposal", Signed: true, Duty: core.DutyProposer, Versioned: true, Blindable: true, Variants: 1,
		New: func(g *gen, ver eth2spec.DataVersion, blinded bool, _ int) any {
			p := core.VersionedSignedProposal{VersionedSignedProposal: eth2api.VersionedSignedProposal{Version: ver, Blinded: blinded}}
			g.fill(core.VersionedBlindedSSZValueForT(g.t, &p, dv(g.t, ver), blinded))

			return p
		},
	},
	{
		// variant 0: with validator index (what the local VC path produces), 1: without (what older peers
		// send), 2: without, and a slot whose low 32 bits are 20 (the two SSZ layouts of this type are told
		// apart by a 4-byte word that is the offset 20 in one layout and the low half of the slot in the other).
		// 3: with a validator index whose low 32 bits are 12 or 20 - the 4-byte word that is the first offset
		// in the other (12) or in this (20) layout, so a decoder that probes the word instead of decoding
		// mistakes one layout for the other (seeded change C14-r8).
		Name: "VersionedAttestation", Signed: true, Duty: core.DutyAttester, Versioned: true, Variants: 4,
		New: func(g *gen, ver eth2spec.DataVersion, _ bool, variant int) any {
			a := core.VersionedAttestation{VersionedAttestation: eth2spec.VersionedAttestation{Version: ver}}
			g.fill(core.VersionedSSZValueForT(g.t, &a, dv(g.t, ver)))
			if variant == 0 {
				idx := eth2p0.ValidatorIndex(g.u64())
				a.ValidatorIndex = &idx
			}
			if variant == 3 {
				idx := eth2p0.ValidatorIndex([]uint64{12, 1<<32 + 12, 0xffffffff<<32 + 12, 20, 5<<32 + 20, 12}[g.rng.Intn(6)])
				a.ValidatorIndex = &idx
			}
			if variant == 2 {
				if d, err := a.Data(); err == nil {
					d.Slot = eth2p0.Slot([]uint64{20, 1<<32 + 20, 7<<32 + 20, 0xffffffff<<32 + 20}[g.rng.Intn(4)])
				}
			}

			return a
		},
	},
	{
		Name: "VersionedSignedAggregateAndProof", Signed: true, Duty: core.DutyAggregator, Versioned: true, Variants: 1,
		New: func(g *gen, ver eth2spec.DataVersion, _ bool, _ int) any {
			a := core.VersionedSignedAggregateAndProof{VersionedSignedAggregateAndProof: eth2spec.VersionedSignedAggregateAndProof{Version: ver}}
			g.fill(core.VersionedSSZValueForT(g.t, &a, dv(g.t, ver)))

			return a
		},
	},
	{
		Name: "SignedAggregateAndProof", Signed: true, Duty: core.DutyAggregator, Variants: 1,
		New: func(g *gen, _ eth2spec.DataVersion, _ bool, _ int) any {
			var a core.SignedAggregateAndProof
			g.fill(&a.SignedAggregateAndProof)

			return a
		},
	},
	{
		Name: "VersionedSignedValidatorRegistration", Signed: true, Duty: core.DutyBuilderRegistration, Variants: 1,
		New: func(g *gen, _ eth2spec.DataVersion, _ bool, _ int) any {
			reg := new(eth2v1.SignedValidatorRegistration)
			g.fill(reg)

			return core.VersionedSignedValidatorRegistration{VersionedSignedValidatorRegistration: eth2api.VersionedSignedValidatorRegistration{
				Version: eth2spec.BuilderVersionV1, V1: reg,
			}}
		},
	},
	{
		Name: "SignedVoluntaryExit", Signed: true, Duty: core.DutyExit, Variants: 1,
		New: func(g *gen, _ eth2spec.DataVersion, _ bool, _ int) any {
			var e core.SignedVoluntaryExit
			g.fill(&e.SignedVoluntaryExit)

			return e
		},
	},
	{
		Name: "SignedRandao", Signed: true, Duty: core.DutyRandao, Variants: 1,
		New: func(g *gen, _ eth2spec.DataVersion, _ bool, _ int) any {
			return core.NewSignedRandao(eth2p0.Epoch(g.u64()), g.sig())
		},
	},
	{
		Name: "Signature", Signed: true, Duty: core.DutySignature, Variants: 1,
		New: func(g *gen, _ eth2spec.DataVersion, _ bool, _ int) any {
			return core.SigFromETH2(g.sig())
		},
	},
	{
		Name: "BeaconCommitteeSelection", Signed: true, Duty: core.DutyPrepareAggregator, Variants: 1,
		New: func(g *gen, _ eth2spec.DataVersion, _ bool, _ int) any {
			var s core.BeaconCommitteeSelection
			g.fill(&s.BeaconCommitteeSelection)

			return s
		},
	},
	{
		Name: "SignedSyncMessage", Signed: true, Duty: core.DutySyncMessage, Variants: 1,
		New: func(g *gen, _ eth2spec.DataVersion, _ bool, _ int) any {
			var s core.SignedSyncMessage
			g.fill(&s.SyncCommitteeMessage)

			return s
		},
	},
	{
		Name: "SyncCommitteeSelection", Signed: true, Duty: core.DutyPrepareSyncContribution, Variants: 1,
		New: func(g *gen, _ eth2spec.DataVersion, _ bool, _ int) any {
			var s core.SyncCommitteeSelection
			g.fill(&s.SyncCommitteeSelection)

			return s
		},
	},
	{
		Name: "SignedSyncContributionAndProof", Signed: true, Duty: core.DutySyncContribution, Variants: 1,
		New: func(g *gen, _ eth2spec.DataVersion, _ bool, _ int) any {
			var s core.SignedSyncContributionAndProof
			g.fill(&s.SignedContributionAndProof)

			return s
		},
	},
	{
		// Implements SignedData and has its own SSZ/JSON/Clone; not produced by a *FromProto decoder.
		Name: "SyncContributionAndProof", Signed: true, Variants: 1,
		New: func(g *gen, _ eth2spec.DataVersion, _ bool, _ int) any {
			var s core.SyncContributionAndProof
			g.fill(&s.ContributionAndProof)

			return s
		},
	},
	// ---- unsigned ----
	{
		Name: "AttestationData", Duty: core.DutyAttester, Variants: 1,
		New: func(g *gen, _ eth2spec.DataVersion, _ bool, _ int) any {
			var a core.AttestationData
			g.fill(&a.Data)
			g.fill(&a.Duty)

			return a
		},
	},
	{
		Name: "VersionedProposal", Duty: core.DutyProposer, Versioned: true, Blindable: true, Variants: 1,
		New: func(g *gen, ver eth2spec.DataVersion, blinded bool, _ int) any {
			p := core.VersionedProposal{VersionedProposal: eth2api.VersionedProposal{Version: ver, Blinded: blinded}}
			g.fill(core.VersionedBlindedSSZValueForT(g.t, &p, dv(g.t, ver), blinded))

			return p
		},
	},
	{
		Name: "VersionedAggregatedAttestation", Duty: core.DutyAggregator, Versioned: true, Variants: 1,
		New: func(g *gen, ver eth2spec.DataVersion, _ bool, _ int) any {
			a := core.VersionedAggregatedAttestation{VersionedAttestation: eth2spec.VersionedAttestation{Version: ver}}
			g.fill(core.VersionedSSZValueForT(g.t, &a, dv(g.t, ver)))

			return a
		},
	},
	{
		Name: "AggregatedAttestation", Duty: core.DutyAggregator, Variants: 1,
		New: func(g *gen, _ eth2spec.DataVersion, _ bool, _ int) any {
			var a core.AggregatedAttestation
			g.fill(&a.Attestation)

			return a
		},
	},
	{
		Name: "SyncContribution", Duty: core.DutySyncContribution, Variants: 1,
		New: func(g *gen, _ eth2spec.DataVersion, _ bool, _ int) any {
			var s core.SyncContribution
			g.fill(&s.SyncCommitteeContribution)

			return s
		},
	},
	{
		// variant = number of contributions (0, 1, 2, 3); variants 4 and 5: 2 / 3 contributions of ONE
		// slot and subcommittee that differ in the block root (distinct data: the duty store keys them
		// by slot, subcommittee and root), in variant 5 the last one an exact duplicate of the first.
		Name: "SyncContributions", Duty: core.DutySyncContribution, Variants: 6,
		New: func(g *gen, _ eth2spec.DataVersion, _ bool, variant int) any {
			n := variant
			if variant >= 4 {
				n = variant - 2
			}
			s := make(core.SyncContributions, 0, n)
			for i := 0; i < n; i++ {
				var c altair.SyncCommitteeContribution
				g.fill(&c)
				if variant >= 4 && i > 0 {
					c.Slot, c.SubcommitteeIndex = s[0].Slot, s[0].SubcommitteeIndex
					if variant == 5 && i == n-1 {
						c = s[0].SyncCommitteeContribution
						c.AggregationBits = append([]byte(nil), c.AggregationBits...)
					}
				}
				s = append(s, core.SyncContribution{SyncCommitteeContribution: c})
			}

			return s
		},
	},
}

// allVariants enumerates every (kind, version, blinded, variant).
func allVariants() []variant {
	var out []variant
	for _, k := range kinds {
		vers := []eth2spec.DataVersion{0}
		if k.Versioned {
			vers = allVersions
		}
		for _, ver := range vers {
			bl := []bool{false}
			if k.Blindable && blindable(ver) {
				bl = []bool{false, true}
			}
			for _, b := range bl {
				for i := 0; i < k.Variants; i++ {
					out = append(out, variant{K: k, Ver: ver, Blinded: b, Var: i})
				}
			}
		}
	}

	return out
}

func (g *gen) value(v variant) any { return v.K.New(g, v.Ver, v.Blinded, v.Var) }

// sigPool returns n valid BLS signatures and the share keys used (index 1..n).
func sigPool(t *testing.T, n int) ([]eth2p0.BLSSignature, map[int]tbls.PrivateKey, map[int]tbls.PublicKey) {
	t.Helper()
	rng := rand.New(rand.NewSource(14)) //nolint:gosec // fixed test keys
	secrets := map[int]tbls.PrivateKey{}
	pubs := map[int]tbls.PublicKey{}
	var sigs []eth2p0.BLSSignature
	for i := 1; i <= n; i++ {
		sk, err := tbls.GenerateInsecureKey(t, rng)
		if err != nil {
			t.Fatalf("key: %v", err)
		}
		pk, err := tbls.SecretToPublicKey(sk)
		if err != nil {
			t.Fatalf("pubkey: %v", err)
		}
		sig, err := tbls.Sign(sk, []byte(fmt.Sprintf("c14-%d", i)))
		if err != nil {
			t.Fatalf("sign: %v", err)
		}
		secrets[i], pubs[i] = sk, pk
		sigs = append(sigs, eth2p0.BLSSignature(sig))
	}

	return sigs, secrets, pubs
}
