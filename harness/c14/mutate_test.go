package c14

import (
	"bytes"
	"encoding/binary"
	"encoding/json"
	"fmt"
	"math/rand"
	"sort"
	"strings"
)

// ---- JSON structural mutations ----

// jnode is one node of a parsed JSON document, addressed by its path.
type jnode struct {
	Path []any // string keys and int indices
	Val  any
}

func parseJSON(b []byte) (any, error) {
	dec := json.NewDecoder(bytes.NewReader(b))
	dec.UseNumber()
	var v any
	if err := dec.Decode(&v); err != nil {
		return nil, err
	}

	return v, nil
}

// walk lists every node below root (root itself has the empty path).
func walk(root any) []jnode {
	var out []jnode
	var rec func(path []any, v any)
	rec = func(path []any, v any) {
		out = append(out, jnode{Path: append([]any(nil), path...), Val: v})
		switch x := v.(type) {
		case map[string]any:
			keys := make([]string, 0, len(x))
			for k := range x {
				keys = append(keys, k)
			}
			sortStrings(keys)
			for _, k := range keys {
				rec(append(path, k), x[k])
			}
		case []any:
			for i, e := range x {
				rec(append(path, i), e)
			}
		}
	}
	rec(nil, root)

	return out
}

func sortStrings(s []string) {
	for i := 1; i < len(s); i++ {
		for j := i; j > 0 && s[j] < s[j-1]; j-- {
			s[j], s[j-1] = s[j-1], s[j]
		}
	}
}

// remove is the sentinel replacement meaning "delete this member / element".
type removeT struct{}

var remove = removeT{}

// replace returns a copy of root with the node at path replaced (copy on write along the path).
func replace(root any, path []any, with any) any {
	if len(path) == 0 {
		if with == remove {
			return nil
		}

		return with
	}
	switch x := root.(type) {
	case map[string]any:
		k, _ := path[0].(string)
		cp := make(map[string]any, len(x))
		for kk, vv := range x {
			cp[kk] = vv
		}
		if len(path) == 1 && with == remove {
			delete(cp, k)
			return cp
		}
		cp[k] = replace(x[k], path[1:], with)

		return cp
	case []any:
		i, _ := path[0].(int)
		if i < 0 || i >= len(x) {
			return root
		}
		if len(path) == 1 && with == remove {
			cp := make([]any, 0, len(x)-1)
			cp = append(cp, x[:i]...)
			cp = append(cp, x[i+1:]...)

			return cp
		}
		cp := append([]any(nil), x...)
		cp[i] = replace(x[i], path[1:], with)

		return cp
	default:
		return root
	}
}

// jsonMutation is one class of structural damage.
type jsonMutation struct {
	Class string
	// With returns the replacement for a node (ok=false: not applicable to this node).
	With func(rng *rand.Rand, v any) (any, bool)
}

var jsonMutations = []jsonMutation{
	{"json-null", func(_ *rand.Rand, v any) (any, bool) { return nil, v != nil }},
	{"json-wrongtype", func(rng *rand.Rand, v any) (any, bool) {
		switch v.(type) {
		case string:
			return []any{json.Number("7"), map[string]any{"a": json.Number("1")}, true, []any{"x"}}[rng.Intn(4)], true
		case json.Number:
			return []any{"x", map[string]any{}, false}[rng.Intn(3)], true
		case bool:
			return []any{"true", json.Number("1")}[rng.Intn(2)], true
		case map[string]any:
			return []any{"x", json.Number("0"), []any{"x"}, true}[rng.Intn(4)], true
		case []any:
			return []any{"x", json.Number("0"), map[string]any{"a": "b"}}[rng.Intn(3)], true
		default: // null
			return "x", true
		}
	}},
	{"json-emptyobject", func(_ *rand.Rand, v any) (any, bool) {
		m, isObj := v.(map[string]any)
		return map[string]any{}, !(isObj && len(m) == 0)
	}},
	{"json-emptyarray", func(_ *rand.Rand, v any) (any, bool) {
		a, isArr := v.([]any)
		return []any{}, !(isArr && len(a) == 0)
	}},
	{"json-nullinarray", func(_ *rand.Rand, _ any) (any, bool) { return []any{nil}, true }},
	{"json-removed", func(_ *rand.Rand, _ any) (any, bool) { return remove, true }},
	{"json-badstring", func(rng *rand.Rand, v any) (any, bool) {
		s, ok := v.(string)
		if !ok {
			return nil, false
		}
		opts := []string{"", "0x", "0x00", "0xzz", "-1", "18446744073709551616", "1e3", s + "00", strings.TrimPrefix(s, "0x"), "0x" + strings.Repeat("ff", 96)}
		if len(s) > 4 {
			opts = append(opts, s[:len(s)-2], s[:len(s)-1])
		}

		return opts[rng.Intn(len(opts))], true
	}},
}

// pathShape renders a path without array indices ("block.body.attestations[].data").
func pathShape(path []any) string {
	var sb strings.Builder
	for _, p := range path {
		switch x := p.(type) {
		case string:
			if sb.Len() > 0 {
				sb.WriteByte('.')
			}
			sb.WriteString(x)
		case int:
			sb.WriteString("[]")
		}
	}
	if sb.Len() == 0 {
		return "$"
	}

	return sb.String()
}

func pathString(path []any) string {
	var sb strings.Builder
	sb.WriteByte('$')
	for _, p := range path {
		switch x := p.(type) {
		case string:
			sb.WriteByte('.')
			sb.WriteString(x)
		case int:
			fmt.Fprintf(&sb, "[%d]", x)
		}
	}

	return sb.String()
}

// payloadFields are the wrapper members that hold the version dependent payload of the versioned types.
var payloadFields = map[string]bool{"block": true, "attestation": true, "registration": true, "aggregate_and_proof": true}

// where reduces a path to the part of a signature that says where the damage was done. It is kept
// coarse on purpose: the same defect must get the same signature for every fork version and every
// seed, so member names and depths go to the witness, not to the signature.
//
//	document      the whole document
//	payload       the version dependent payload member of a versioned wrapper (block, attestation, …)
//	member        any other object member
//	list-element  an element of a list
func where(path []any) string {
	if len(path) == 0 {
		return "document"
	}
	if _, isIdx := path[len(path)-1].(int); isIdx {
		return "list-element"
	}
	if len(path) == 1 && payloadFields[path[0].(string)] {
		return "payload"
	}

	return "member"
}

// lastMember returns the innermost member name of a path (witness detail).
func lastMember(path []any) string {
	last := ""
	for _, p := range path {
		if s, ok := p.(string); ok {
			last = s
		}
	}

	return last
}

// ---- SSZ byte level mutations ----

type sszInput struct {
	Class string
	Note  string
	Data  []byte
}

// sszOffsets returns the positions of plausible 4-byte offset fields in an encoding: the wrapper
// offsets of the versioned containers and every aligned word whose value points inside the buffer.
func sszOffsets(b []byte) []int {
	var out []int
	for _, p := range []int{0, 4, 8, 9, 12, 16} {
		if p+4 <= len(b) {
			out = append(out, p)
		}
	}
	for p := 20; p+4 <= len(b) && len(out) < 40; p += 4 {
		v := binary.LittleEndian.Uint32(b[p:])
		if v > 8 && int(v) <= len(b) {
			out = append(out, p)
		}
	}

	return out
}

// sszMutations derives hostile byte strings from a valid SSZ encoding a (and a second encoding b of
// another value for splices).
func sszMutations(rng *rand.Rand, a, b []byte, n int) []sszInput {
	var out []sszInput
	add := func(class, note string, d []byte) { out = append(out, sszInput{Class: class, Note: note, Data: d}) }

	// truncations: every boundary class
	cuts := map[int]bool{0: true, 1: true, 4: true, 8: true, 9: true, 11: true, 12: true, 13: true, 16: true, 19: true, 20: true, 21: true, len(a) - 1: true, len(a) - 4: true, len(a) / 2: true}
	for _, p := range sszOffsets(a) {
		v := int(binary.LittleEndian.Uint32(a[p:]))
		cuts[v], cuts[v+1], cuts[v-1] = true, true, true
		cuts[p+4] = true
	}
	for i := 0; i < 6; i++ {
		cuts[rng.Intn(len(a)+1)] = true
	}
	cutList := make([]int, 0, len(cuts))
	for c := range cuts {
		if c >= 0 && c < len(a) {
			cutList = append(cutList, c)
		}
	}
	sort.Ints(cutList) // map order must not leak into the workload
	for _, c := range cutList {
		add("ssz-truncated", fmt.Sprintf("cut at %d of %d", c, len(a)), append([]byte(nil), a[:c]...))
	}
	// extension
	add("ssz-extended", "one extra byte", append(append([]byte(nil), a...), 0))
	add("ssz-extended", "32 extra bytes", append(append([]byte(nil), a...), make([]byte, 32)...))
	// offset tampering
	for _, p := range sszOffsets(a) {
		for _, v := range []uint32{0, 1, 4, 12, 13, 20, uint32(len(a)), uint32(len(a) + 1), uint32(len(a) - 1), 0x7fffffff, 0xffffffff} {
			if rng.Intn(3) != 0 {
				continue
			}
			d := append([]byte(nil), a...)
			binary.LittleEndian.PutUint32(d[p:], v)
			add("ssz-offset", fmt.Sprintf("word at %d <- %d", p, v), d)
		}
	}
	// header bit flips (version, blinded flag, validator index, first offsets)
	for i := 0; i < 12; i++ {
		d := append([]byte(nil), a...)
		p := rng.Intn(min(len(d), 24))
		d[p] ^= 1 << uint(rng.Intn(8))
		add("ssz-bitflip", fmt.Sprintf("header byte %d", p), d)
	}
	for i := 0; i < 6; i++ {
		d := append([]byte(nil), a...)
		p := rng.Intn(len(d))
		d[p] ^= 1 << uint(rng.Intn(8))
		add("ssz-bitflip", fmt.Sprintf("byte %d", p), d)
	}
	// splices of two encodings
	if len(b) > 0 {
		for i := 0; i < 10; i++ {
			ca, cb := rng.Intn(len(a)+1), rng.Intn(len(b)+1)
			d := append(append([]byte(nil), a[:ca]...), b[cb:]...)
			add("ssz-splice", fmt.Sprintf("a[:%d]+b[%d:]", ca, cb), d)
		}
		hdr := min(len(a), 13)
		add("ssz-splice", "header of a + body of b", append(append([]byte(nil), a[:hdr]...), b[min(len(b), hdr):]...))
	}
	// random bytes, with and without a plausible header
	for i := 0; i < 6; i++ {
		d := make([]byte, rng.Intn(300))
		rng.Read(d)
		add("ssz-random", "random bytes", d)
		if len(d) > 24 {
			h := append([]byte(nil), d...)
			copy(h, a[:min(len(a), 20)])
			add("ssz-random", "valid header + random body", h)
		}
	}
	// zero filled
	add("ssz-random", "zeros", make([]byte, len(a)))
	rng.Shuffle(len(out), func(i, j int) { out[i], out[j] = out[j], out[i] })
	if n > 0 && len(out) > n {
		out = out[:n]
	}

	return out
}
