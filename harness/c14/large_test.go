package c14

import (
	"bytes"
	"context"
	"fmt"
	"math/rand"
	"sync"
	"time"

	eth2spec "github.com/attestantio/go-eth2-client/spec"
	"github.com/attestantio/go-eth2-client/spec/deneb"
	"github.com/libp2p/go-libp2p/core/peer"

	"github.com/obolnetwork/charon/core"
	"github.com/obolnetwork/charon/core/parsigex"
	"github.com/obolnetwork/charon/p2p"

	"verifharness/fakenet"
	"verifharness/kit"
)

// Large values over the real wire paths (seeded change C14-r6).
//
// A full (unblinded) proposal of a blob carrying fork contains every blob (128 KiB each) and its
// proofs, so the partially signed block a node exchanges with its peers and the unsigned block the
// cluster agrees on are megabytes large. Such a value is as valid as a small one: the property's
// "survives encoding and decoding through each wire format" covers it. The oracle is differential:
// the same proposal is sent once without blobs and once with k blobs through
//   - two real parsigex components on an in-memory libp2p (sender Broadcast → receiver stream
//     handler, i.e. p2p.Send framing and the handler's delimited reader with its read limit), and
//   - a real consensus component that is made to decide the unsigned value (COMMITs carrying the value
//     arrive through the registered stream handler and its read limit),
// and size alone must not change how far the value gets.

var largeVersions = []eth2spec.DataVersion{eth2spec.DataVersionDeneb, eth2spec.DataVersionElectra, eth2spec.DataVersionFulu}

// blob counts: 6/9 are the deneb/electra mainnet maxima, 12..21 the fulu blob-parameter-only forks.
func largeBlobCounts(thorough bool) []int {
	if thorough {
		return []int{1, 3, 6, 8, 9, 12, 15, 21}
	}

	return []int{3, 9, 15}
}

func mkBlobs(rng *rand.Rand, k int) ([]deneb.Blob, []deneb.KZGProof, []deneb.KZGCommitment) {
	blobs := make([]deneb.Blob, k)
	proofs := make([]deneb.KZGProof, k)
	comms := make([]deneb.KZGCommitment, k)
	for i := range blobs {
		for j := 0; j < 64; j++ { // sparse content (speed), every blob different
			blobs[i][rng.Intn(len(blobs[i]))] = byte(rng.Intn(255) + 1)
		}
		blobs[i][0], blobs[i][len(blobs[i])-1] = byte(i+1), byte(i+1)
		rng.Read(proofs[i][:])
		rng.Read(comms[i][:])
	}

	return blobs, proofs, comms
}

// setSignedBlobs replaces the blob side of a full signed proposal by k blobs.
func setSignedBlobs(p *core.VersionedSignedProposal, rng *rand.Rand, k int) bool {
	blobs, proofs, comms := mkBlobs(rng, k)
	switch {
	case p.Deneb != nil && p.Deneb.SignedBlock != nil && p.Deneb.SignedBlock.Message != nil && p.Deneb.SignedBlock.Message.Body != nil:
		p.Deneb.Blobs, p.Deneb.KZGProofs = blobs, proofs
		p.Deneb.SignedBlock.Message.Body.BlobKZGCommitments = comms
	case p.Electra != nil && p.Electra.SignedBlock != nil && p.Electra.SignedBlock.Message != nil && p.Electra.SignedBlock.Message.Body != nil:
		p.Electra.Blobs, p.Electra.KZGProofs = blobs, proofs
		p.Electra.SignedBlock.Message.Body.BlobKZGCommitments = comms
	case p.Fulu != nil && p.Fulu.SignedBlock != nil && p.Fulu.SignedBlock.Message != nil && p.Fulu.SignedBlock.Message.Body != nil:
		p.Fulu.Blobs, p.Fulu.KZGProofs = blobs, proofs
		p.Fulu.SignedBlock.Message.Body.BlobKZGCommitments = comms
	default:
		return false
	}

	return true
}

func setUnsignedBlobs(p *core.VersionedProposal, rng *rand.Rand, k int) bool {
	blobs, proofs, comms := mkBlobs(rng, k)
	switch {
	case p.Deneb != nil && p.Deneb.Block != nil && p.Deneb.Block.Body != nil:
		p.Deneb.Blobs, p.Deneb.KZGProofs = blobs, proofs
		p.Deneb.Block.Body.BlobKZGCommitments = comms
	case p.Electra != nil && p.Electra.Block != nil && p.Electra.Block.Body != nil:
		p.Electra.Blobs, p.Electra.KZGProofs = blobs, proofs
		p.Electra.Block.Body.BlobKZGCommitments = comms
	case p.Fulu != nil && p.Fulu.Block != nil && p.Fulu.Block.Body != nil:
		p.Fulu.Blobs, p.Fulu.KZGProofs = blobs, proofs
		p.Fulu.Block.Body.BlobKZGCommitments = comms
	default:
		return false
	}

	return true
}

func kindByName(name string) *kind {
	for _, k := range kinds {
		if k.Name == name {
			return k
		}
	}

	return nil
}

// exchange is a pair of real parsigex components (sender = peer 1, receiver = peer 0) on one fakenet.
type exchange struct {
	net  *fakenet.Net
	send *parsigex.ParSigEx
	mu   sync.Mutex
	got  []core.ParSignedDataSet
}

func (r *rig) newExchange() *exchange {
	x := &exchange{net: fakenet.New()}
	x.net.SetPolicy(func(*fakenet.Envelope) fakenet.Verdict { return fakenet.DeliverSync })
	accept := func(context.Context, peer.ID, core.Duty, core.PubKey, core.ParSignedData) error { return nil }
	gater := func(core.Duty) bool { return true }
	recv := parsigex.NewParSigEx(x.net.Host(r.peers[0]), p2p.Send, 0, r.peers[:2], accept, gater)
	recv.Subscribe(func(_ context.Context, _ core.Duty, set core.ParSignedDataSet) error {
		x.mu.Lock()
		x.got = append(x.got, set)
		x.mu.Unlock()

		return nil
	})
	x.send = parsigex.NewParSigEx(x.net.Host(r.peers[1]), p2p.Send, 1, r.peers[:2], accept, gater)

	return x
}

// deliver broadcasts one partially signed value from the sender and returns what the receiver's
// subscriber was handed (nil if nothing), plus the sender's error.
func (x *exchange) deliver(ctx context.Context, duty core.Duty, pk core.PubKey, v core.ParSignedData) (core.ParSignedData, bool, error) {
	x.mu.Lock()
	x.got = nil
	x.mu.Unlock()
	err := x.send.Broadcast(ctx, duty, core.ParSignedDataSet{pk: v})
	x.net.WaitIdle()
	x.mu.Lock()
	defer x.mu.Unlock()
	for _, set := range x.got {
		if g, ok := set[pk]; ok {
			return g, true, err
		}
	}

	return core.ParSignedData{}, false, err
}

func sameSigned(a, b core.ParSignedData) (bool, string) {
	if a.ShareIdx != b.ShareIdx {
		return false, "share index differs"
	}
	ra, ea := a.MessageRoot()
	rb, eb := b.MessageRoot()
	if ea != nil || eb != nil || ra != rb {
		return false, fmt.Sprintf("message root differs (%v, %v)", ea, eb)
	}
	if !bytes.Equal(a.Signature(), b.Signature()) {
		return false, "signature differs"
	}
	ja, ea := toJSON(a.SignedData)
	jb, eb := toJSON(b.SignedData)
	if ea != nil || eb != nil || !bytes.Equal(ja, jb) {
		return false, fmt.Sprintf("JSON encoding differs (%v, %v)", ea, eb)
	}

	return true, ""
}

func largeCase(c *kit.Case, rg *rig, idx int) {
	r := c.R
	counts := largeBlobCounts(r.Thorough())
	ver := largeVersions[idx%len(largeVersions)]
	k := counts[(idx/len(largeVersions))%len(counts)]
	seed := c.Rng.Int63()
	g := newGen(r.T(), rand.New(rand.NewSource(seed)), rg.sigPool()) //nolint:gosec // reproducible workload
	ctx, cancel := context.WithTimeout(rg.ctx, 120*time.Second)
	defer cancel()

	// ---- partially signed full proposal through a pair of real parsigex components
	sk := kindByName("VersionedSignedProposal")
	sv, ok := sk.New(g, ver, false, 0).(core.VersionedSignedProposal)
	if ok {
		x := rg.newExchange()
		duty := core.Duty{Slot: 1000 + uint64(idx), Type: core.DutyProposer}
		base := sv
		if cl, err := sv.Clone(); err == nil {
			base, _ = cl.(core.VersionedSignedProposal)
		}
		if setSignedBlobs(&base, c.Rng, 0) && setSignedBlobs(&sv, c.Rng, k) {
			small := core.ParSignedData{SignedData: base, ShareIdx: honestShare}
			large := core.ParSignedData{SignedData: sv, ShareIdx: honestShare}
			gotS, okS, errS := x.deliver(ctx, duty, rg.pubkey, small)
			r.Count("large_parsigex_baseline_sent", 1)
			if okS {
				if same, why := sameSigned(small, gotS); !same {
					c.Violation("roundtrip/VersionedSignedProposal[full]/parsigex-wire/value-changed",
						fmt.Sprintf("%s full proposal without blobs arrived changed at the receiving parsigex component: %s", ver, why), map[string]any{"version": ver.String(), "seed": seed})
				}
				sz := 0
				if b, err := sv.MarshalSSZ(); err == nil {
					sz = len(b)
				}
				duty.Slot++
				gotL, okL, errL := x.deliver(ctx, duty, rg.pubkey, large)
				r.Count("large_parsigex_sent", 1)
				r.Seen("large_parsigex_sizes", fmt.Sprintf("%s blobs=%d ssz=%dKiB", ver, k, sz/1024))
				switch {
				case !okL:
					c.Violation("roundtrip/VersionedSignedProposal[full]/parsigex-wire/large-value-not-delivered",
						fmt.Sprintf("a %s full proposal with %d blobs (%d KiB SSZ) broadcast by a real parsigex component never reached the receiver's subscriber (sender error: %v), while the same proposal without blobs did: size alone decides whether the value survives the wire", ver, k, sz/1024, errL),
						map[string]any{"version": ver.String(), "blobs": k, "ssz_bytes": sz, "seed": seed, "sender_error": fmt.Sprint(errL)})
				default:
					r.Count("large_parsigex_delivered", 1)
					if same, why := sameSigned(large, gotL); !same {
						c.Violation("roundtrip/VersionedSignedProposal[full]/parsigex-wire/value-changed",
							fmt.Sprintf("%s full proposal with %d blobs arrived changed at the receiving parsigex component: %s", ver, k, why), map[string]any{"version": ver.String(), "blobs": k, "seed": seed})
					}
				}
			} else {
				r.Count("large_parsigex_baseline_not_delivered", 1)
				r.Seen("large_parsigex_baseline_not_delivered", fmt.Sprintf("%s: %v", ver, errS))
			}
		}
	}

	// ---- unsigned full proposal decided by a real consensus component
	uk := kindByName("VersionedProposal")
	uv, ok := uk.New(g, ver, false, 0).(core.VersionedProposal)
	if !ok {
		return
	}
	base := uv
	if cl, err := uv.Clone(); err == nil {
		base, _ = cl.(core.VersionedProposal)
	}
	if !setUnsignedBlobs(&base, c.Rng, 0) || !setUnsignedBlobs(&uv, c.Rng, k) {
		return
	}
	encS, errS := base.MarshalSSZ()
	encL, errL := uv.MarshalSSZ()
	if errS != nil || errL != nil {
		r.Count("large_unsigned_encode_failed", 1)
		return
	}
	cw, err := rg.newConsWire()
	if err != nil {
		r.Inconclusive("case %d: consensus component: %v", c.Idx, err)
		return
	}
	defer cw.close()
	stS, piS, finS := cw.decide(core.DutyProposer, encS)
	r.Count("large_consensus_baseline", 1)
	r.Count("large_consensus_baseline_stage:"+stS, 1)
	if piS != nil || !finS || (stS != "stored" && stS != "decoded") {
		return // the small twin does not get through either: nothing to compare (counted above)
	}
	stL, piL, finL := cw.decide(core.DutyProposer, encL)
	r.Count("large_consensus_sent", 1)
	r.Count("large_consensus_stage:"+stL, 1)
	r.Seen("large_consensus_sizes", fmt.Sprintf("%s blobs=%d ssz=%dKiB", ver, k, len(encL)/1024))
	switch {
	case piL != nil:
		c.Violation("roundtrip/VersionedProposal[full]/consensus-wire/large-value-panic",
			fmt.Sprintf("a panic (%s at %s) escaped the consensus instance deciding a %s proposal with %d blobs", piL.Value, piL.Site, ver, k), map[string]any{"version": ver.String(), "blobs": k, "seed": seed, "panic": piL})
	case stL != stS:
		c.Violation("roundtrip/VersionedProposal[full]/consensus-wire/large-value-not-decided",
			fmt.Sprintf("a %s proposal with %d blobs (%d KiB SSZ) committed by a quorum ended at stage %q (finished=%v, last error %q) while the same proposal without blobs reached %q: size alone decides whether the value survives the consensus wire", ver, k, len(encL)/1024, stL, finL, cw.lastErr, stS),
			map[string]any{"version": ver.String(), "blobs": k, "ssz_bytes": len(encL), "seed": seed})
	default:
		r.Count("large_consensus_same_stage", 1)
	}
	c.NonTrivial(kit.Hash("large", ver.String(), k, seed))
}
