package c14

import (
	"context"
	"strings"
	"sync"
	"testing"
	"time"

	eth2p0 "github.com/attestantio/go-eth2-client/spec/phase0"
	k1 "github.com/decred/dcrd/dcrec/secp256k1/v4"
	"github.com/libp2p/go-libp2p/core/peer"

	"github.com/obolnetwork/charon/app/errors"
	"github.com/obolnetwork/charon/app/eth2wrap"
	"github.com/obolnetwork/charon/app/log"
	"github.com/obolnetwork/charon/core"
	pbv1 "github.com/obolnetwork/charon/core/corepb/v1"
	"github.com/obolnetwork/charon/core/dutydb"
	"github.com/obolnetwork/charon/core/parsigdb"
	"github.com/obolnetwork/charon/core/parsigex"
	"github.com/obolnetwork/charon/core/sigagg"
	"github.com/obolnetwork/charon/eth2util"
	"github.com/obolnetwork/charon/p2p"
	"github.com/obolnetwork/charon/tbls"
	"github.com/obolnetwork/charon/tbls/tblsconv"
	"github.com/obolnetwork/charon/testutil"
	"github.com/obolnetwork/charon/testutil/beaconmock"

	"verifharness/fakenet"
)

// discard swallows charon's log output (handlers only log their errors; the harness observes the
// pipeline through its own wrappers instead).
type discard struct{}

func (discard) Write(p []byte) (int, error) { return len(p), nil }
func (discard) Sync() error                 { return nil }

// foreverDeadliner never expires anything, so every duty is storable.
type foreverDeadliner struct{ ch chan core.Duty }

func (foreverDeadliner) Add(core.Duty) core.DeadlineStatus { return core.DeadlineScheduled }
func (d foreverDeadliner) C() <-chan core.Duty             { return d.ch }

const (
	hostileShare = 2 // share index claimed by the Byzantine peer
	honestShare  = 1
	threshold    = 2
)

// rig holds the process-wide real dependencies of the pipelines.
type rig struct {
	t        *testing.T
	ctx      context.Context
	eth2Cl   eth2wrap.Client
	pubkey   core.PubKey // DV root key
	shares   map[int]tbls.PublicKey
	verify   func(context.Context, peer.ID, core.Duty, core.PubKey, core.ParSignedData) error // real parsigex verifier
	aggVerif func(context.Context, core.PubKey, core.SignedData) error                        // real sigagg verifier
	sigs     [][]byte
	sigPoolV []eth2p0.BLSSignature
	peers    []peer.ID
	p2pKeys  []*k1.PrivateKey
	// futureSlot is a slot that starts a little after the process started (consensus round timers)
	futureSlot uint64
	meta       parsigdb.MemDBMetadata
	dead       foreverDeadliner
}

var (
	rigOnce sync.Once
	theRig  *rig
)

func getRig(t *testing.T) *rig {
	t.Helper()
	rigOnce.Do(func() {
		log.InitJSONForT(t, discard{})
		ctx := context.Background()
		bmock, err := beaconmock.New(ctx)
		if err != nil {
			t.Fatalf("beaconmock: %v", err)
		}
		sigs, _, pubs := sigPool(t, 4)
		root, err := tblsconv.PubkeyToETH2(pubs[4])
		if err != nil {
			t.Fatalf("pubkey: %v", err)
		}
		pk := core.PubKeyFrom48Bytes(root)
		shares := map[int]tbls.PublicKey{honestShare: pubs[1], hostileShare: pubs[2], 3: pubs[3]}
		verify, err := parsigex.NewEth2Verifier(bmock, map[core.PubKey]map[int]tbls.PublicKey{pk: shares})
		if err != nil {
			t.Fatalf("verifier: %v", err)
		}
		r := &rig{
			t: t, ctx: ctx, eth2Cl: bmock, pubkey: pk, shares: shares, verify: verify,
			aggVerif: sigagg.NewVerifier(bmock),
			meta:     parsigdb.NewMemDBMetadata(12, time.Now().Add(-time.Hour)),
			dead:     foreverDeadliner{ch: make(chan core.Duty)},
		}
		r.sigPoolV = sigs
		for _, s := range sigs {
			r.sigs = append(r.sigs, append([]byte(nil), s[:]...))
		}
		for i := 0; i < 4; i++ {
			k := testutil.GenerateInsecureK1Key(t, 140+i)
			id, err := p2p.PeerIDFromKey(k.PubKey())
			if err != nil {
				t.Fatalf("peer id: %v", err)
			}
			r.peers = append(r.peers, id)
			r.p2pKeys = append(r.p2pKeys, k)
		}
		genesis, err := eth2wrap.FetchGenesisTime(ctx, bmock)
		if err != nil {
			t.Fatalf("genesis: %v", err)
		}
		slotDur, _, err := eth2wrap.FetchSlotsConfig(ctx, bmock)
		if err != nil {
			t.Fatalf("slots config: %v", err)
		}
		r.futureSlot = uint64(time.Since(genesis)/slotDur) + 50
		// warm the beacon mock's spec/genesis/fork caches once
		_, _ = eth2util.EpochFromSlot(ctx, bmock, 1)
		theRig = r
	})

	return theRig
}

func (r *rig) sigPool() []eth2p0.BLSSignature { return r.sigPoolV }

// opPanic is one operation that panicked on a successfully decoded value.
type opPanic struct {
	Op   string     `json:"op"`
	Info *panicInfo `json:"panic"`
}

// outcome is what one input did in one decoding context.
type outcome struct {
	Decoded        bool
	DecodeErr      string
	DecodeRecov    bool // the decoder's own recover() turned a panic into an error
	DecodeErrFull  string
	Latent         []string // accessors that would panic, shielded by an earlier rejecting check (side observation)
	DecodedType    string   // Go type of the decoded value
	Stage          string   // furthest stage reached: decode-rejected / not-eth2 / verify-rejected / stored / aggregated
	RejectedBy     string   // error class that stopped the pipeline
	Panics         []opPanic
	Value          any // decoded value (signed: core.ParSignedData, unsigned: core.UnsignedData)
	AggregatedRoot bool
}

func (o *outcome) panicAt(op string, pi *panicInfo) {
	o.Panics = append(o.Panics, opPanic{Op: op, Info: pi})
}

// errClass reduces an error to a stable short class for the rejected-by tables.
func errClass(err error) string {
	s := err.Error()
	for _, cut := range []string{": ", " ("} {
		if i := strings.Index(s, cut); i > 0 {
			s = s[:i]
		}
	}

	return trunc(s, 60)
}

// waive treats a pure "signature does not match" verdict as passed: a Byzantine cluster member holds
// a real share key and can sign any value whose signing root is computable. Every other error
// (undecodable signature, missing data, unknown share …) is respected.
func waive(err error) error {
	if err != nil && errors.Is(err, tbls.ErrSigNotVerified) {
		return nil
	}

	return err
}

// runSigned decodes data as a partial signature of duty type typ (the parsigex decoding context) and
// pushes the decoded value through the receive → verify → store → aggregate operations in production
// order. An operation that returns an error ends the pipeline (production drops the message there);
// an operation that panics is recorded and the remaining operations of the same stage still run (so
// one crashing accessor does not hide its siblings), but later stages are not entered: production is
// dead at that point and what they would do is unreachable.
// honest, if not nil, is a well-formed value of the same duty that an honest peer contributes.
func (r *rig) runSigned(typ core.DutyType, slot uint64, data []byte, honest core.SignedData, hostileFirst bool) *outcome {
	o := &outcome{Stage: "decode-rejected"}
	pb := &pbv1.ParSignedData{Data: data, Signature: r.sigs[0], ShareIdx: hostileShare}
	var (
		psd core.ParSignedData
		err error
	)
	if pi := guard(func() { psd, err = core.ParSignedDataFromProto(typ, pb) }); pi != nil {
		o.panicAt("decode", pi) // the decoder's recover did not hold
		return o
	}
	if err != nil {
		o.DecodeErr = errClass(err)
		o.DecodeRecov = strings.Contains(err.Error(), "panic recovered")
		if o.DecodeRecov {
			o.DecodeErrFull = trunc(err.Error(), 140)
		}
		o.RejectedBy = "decode: " + o.DecodeErr

		return o
	}
	o.Decoded = true
	o.Value = psd
	o.DecodedType = typeName(psd.SignedData)
	duty := core.Duty{Slot: slot, Type: typ}

	// ---- verify stage (parsigex.NewEth2Verifier → core.VerifyEth2SignedData) ----
	eth2Signed, ok := psd.SignedData.(core.Eth2SignedData)
	if !ok {
		o.Stage, o.RejectedBy = "not-eth2", "verify: invalid eth2 signed data"
		return o
	}
	stop := false
	step := func(op string, fn func() error) {
		if stop {
			return
		}
		var e error
		if pi := guard(func() { e = fn() }); pi != nil {
			o.panicAt(op, pi)
			return
		}
		if e != nil {
			stop = true
			o.RejectedBy = op + ": " + errClass(e)
		}
	}
	o.Stage = "verify-rejected"
	step("Epoch", func() error { _, e := eth2Signed.Epoch(r.ctx, r.eth2Cl); return e })
	step("MessageRoot", func() error { _, e := eth2Signed.MessageRoot(); return e })
	step("DomainName", func() error { _ = eth2Signed.DomainName(); return nil })
	step("Signature", func() error { _ = eth2Signed.Signature(); return nil })
	if len(o.Panics) > 0 {
		// production is dead at this point; what later stages would do is unreachable
		return o
	}
	if stop {
		// The message is dropped here. For the record (not a verdict): would the accessors the later
		// stages use have crashed had this check not rejected the value first?
		for op, fn := range map[string]func(){
			"MessageRoot": func() { _, _ = eth2Signed.MessageRoot() },
			"Signature":   func() { _ = eth2Signed.Signature() },
			"Clone":       func() { _, _ = eth2Signed.Clone() },
			"MarshalJSON": func() { _, _ = eth2Signed.MarshalJSON() },
		} {
			if pi := guard(fn); pi != nil {
				o.Latent = append(o.Latent, op)
			}
		}

		return o
	}
	// the real composite verifier (adds pubshare lookup and the BLS verdict)
	step("VerifyEth2SignedData", func() error {
		return waive(r.verify(r.ctx, r.peers[1], duty, r.pubkey, psd))
	})
	if stop || len(o.Panics) > 0 {
		return o
	}

	// ---- store stage (parsigdb.StoreExternal, threshold 2) and aggregation (sigagg) ----
	o.Stage = "stored"
	agg, err := sigagg.New(threshold, func(ctx context.Context, pk core.PubKey, d core.SignedData) error {
		return waive(r.aggVerif(ctx, pk, d))
	})
	if err != nil {
		r.t.Fatalf("sigagg: %v", err)
	}
	agg.Subscribe(func(_ context.Context, _ core.Duty, set core.SignedDataSet) error {
		o.Stage = "aggregated"
		// what AggSigDB / the broadcaster first do with the aggregate: clone, root, re-encode
		for _, sd := range set {
			step("aggregated.Clone", func() error { _, e := sd.Clone(); return e })
			step("aggregated.MessageRoot", func() error { _, e := sd.MessageRoot(); return e })
			step("aggregated.MarshalJSON", func() error { _, e := sd.MarshalJSON(); return e })
		}

		return nil
	})
	db := parsigdb.NewMemDB(threshold, r.dead, r.meta)
	db.SubscribeThreshold(func(ctx context.Context, d core.Duty, set map[core.PubKey][]core.ParSignedData) error {
		var e error
		if pi := guard(func() { e = agg.Aggregate(ctx, d, set) }); pi != nil {
			o.panicAt("SigAgg.Aggregate", pi)
			return nil
		}

		return e
	})
	storeHonest := func() {
		if honest == nil {
			return
		}
		_ = db.StoreExternal(r.ctx, duty, core.ParSignedDataSet{r.pubkey: core.ParSignedData{SignedData: honest, ShareIdx: honestShare}})
	}
	if !hostileFirst {
		storeHonest()
	}
	step("ParSigDB.StoreExternal", func() error {
		return db.StoreExternal(r.ctx, duty, core.ParSignedDataSet{r.pubkey: psd})
	})
	if hostileFirst && !stop && len(o.Panics) == 0 {
		if pi := guard(storeHonest); pi != nil {
			o.panicAt("ParSigDB.StoreExternal(honest-after-hostile)", pi)
		}
	}
	if len(o.Panics) > 0 {
		return o
	}
	// a peer may resend: the duplicate check re-encodes both values
	step("ParSigDB.StoreExternal(duplicate)", func() error {
		return db.StoreExternal(r.ctx, duty, core.ParSignedDataSet{r.pubkey: psd})
	})
	// re-encoding of a stored value for the wire
	step("ParSignedDataToProto", func() error { _, e := core.ParSignedDataToProto(psd); return e })

	return o
}

// runUnsigned decodes data as the unsigned data of duty type typ (the consensus decide context) and
// stores it in a real DutyDB, then re-encodes it.
func (r *rig) runUnsigned(typ core.DutyType, slot uint64, data []byte) *outcome {
	o := &outcome{Stage: "decode-rejected"}
	pb := &pbv1.UnsignedDataSet{Set: map[string][]byte{string(r.pubkey): data}}
	var (
		set core.UnsignedDataSet
		err error
	)
	if pi := guard(func() { set, err = core.UnsignedDataSetFromProto(typ, pb) }); pi != nil {
		o.panicAt("decode", pi)
		return o
	}
	if err != nil {
		o.DecodeErr = errClass(err)
		o.DecodeRecov = strings.Contains(err.Error(), "panic recovered")
		if o.DecodeRecov {
			o.DecodeErrFull = trunc(err.Error(), 140)
		}
		o.RejectedBy = "decode: " + o.DecodeErr

		return o
	}
	o.Decoded = true
	ud := set[r.pubkey]
	o.Value = ud
	o.DecodedType = typeName(ud)
	duty := core.Duty{Slot: slot, Type: typ}

	stop := false
	step := func(op string, fn func() error) {
		if stop {
			return
		}
		var e error
		if pi := guard(func() { e = fn() }); pi != nil {
			o.panicAt(op, pi)
			return
		}
		if e != nil {
			stop = true
			o.RejectedBy = op + ": " + errClass(e)
		}
	}
	o.Stage = "store-rejected"
	db := dutydb.NewMemDB(r.dead)
	step("DutyDB.Store", func() error { return db.Store(r.ctx, duty, set) })
	if stop || len(o.Panics) > 0 {
		return o
	}
	o.Stage = "stored"
	step("DutyDB.Store(again)", func() error { return db.Store(r.ctx, duty, set) })
	step("Clone", func() error { _, e := ud.Clone(); return e })
	step("MarshalJSON", func() error { _, e := ud.MarshalJSON(); return e })
	step("UnsignedDataSetToProto", func() error { _, e := core.UnsignedDataSetToProto(set); return e })

	return o
}

// wire is a real parsigex component on an in-memory libp2p host, wired like core.Wire does:
// parsigex → (real verifier) → parsigdb.StoreExternal → sigagg.Aggregate.
type wire struct {
	r     *rig
	net   *fakenet.Net
	self  peer.ID
	from  peer.ID
	db    *parsigdb.MemDB
	stage string
	rejBy string
}

func (r *rig) newWire() *wire {
	w := &wire{r: r, net: fakenet.New(), self: r.peers[0], from: r.peers[1]}
	host := w.net.Host(w.self)
	w.net.Host(w.from)
	verify := func(ctx context.Context, p peer.ID, d core.Duty, pk core.PubKey, psd core.ParSignedData) error {
		err := waive(r.verify(ctx, p, d, pk, psd))
		if err != nil {
			w.stage, w.rejBy = "verify-rejected", errClass(err)
		} else {
			w.stage = "verified"
		}

		return err
	}
	ex := parsigex.NewParSigEx(host, p2p.Send, 0, r.peers, verify, func(core.Duty) bool { return true })
	ex.Subscribe(func(ctx context.Context, d core.Duty, set core.ParSignedDataSet) error {
		err := w.db.StoreExternal(ctx, d, set)
		if err == nil {
			w.stage = "stored"
		}

		return err
	})

	return w
}

// deliverMsg sends an arbitrary (possibly ill-formed) ParSigExMsg to the handler.
func (w *wire) deliverMsg(msg *pbv1.ParSigExMsg) (string, *panicInfo) {
	w.stage, w.rejBy = "decode-rejected", ""
	w.db = parsigdb.NewMemDB(threshold, w.r.dead, w.r.meta)
	pi := guard(func() { w.net.Inject(w.from, w.self, "/charon/parsigex/2.0.0", msg) })

	return w.stage, pi
}

// deliverRaw sends raw bytes as a stream payload to the handler.
func (w *wire) deliverRaw(frame []byte) *panicInfo {
	return guard(func() { w.net.InjectRaw(w.from, w.self, "/charon/parsigex/2.0.0", frame) })
}

// deliver sends one fabricated ParSigExMsg from a peer to the real stream handler, synchronously, and
// reports a panic of the handler (in production that goroutine belongs to libp2p: the process dies).
func (w *wire) deliver(typ core.DutyType, slot uint64, data []byte) (string, *panicInfo) {
	w.stage, w.rejBy = "decode-rejected", ""
	w.db = parsigdb.NewMemDB(threshold, w.r.dead, w.r.meta)
	msg := &pbv1.ParSigExMsg{
		Duty:    &pbv1.Duty{Slot: slot, Type: int32(typ)},
		DataSet: &pbv1.ParSignedDataSet{Set: map[string]*pbv1.ParSignedData{string(w.r.pubkey): {Data: data, Signature: w.r.sigs[0], ShareIdx: hostileShare}}},
	}
	pi := guard(func() { w.net.Inject(w.from, w.self, "/charon/parsigex/2.0.0", msg) })

	return w.stage, pi
}
