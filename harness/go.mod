module verifharness

go 1.26

require (
	github.com/anishathalye/porcupine v1.3.0
	github.com/obolnetwork/charon v0.0.0
)

require (
	github.com/OffchainLabs/go-bitfield v0.0.0-20251031151322-f427d04d8506
	github.com/attestantio/go-builder-client v0.8.0
	github.com/attestantio/go-eth2-client v0.29.0
	github.com/coinbase/kryptology v1.5.6-0.20220316191335-269410e1b06b
	github.com/decred/dcrd/dcrec/secp256k1/v4 v4.4.1
	github.com/drand/kyber v1.3.2
	github.com/drand/kyber-bls12381 v0.3.4
	github.com/ethereum/go-ethereum v1.17.5
	github.com/ferranbt/fastssz v1.0.0
	github.com/fsnotify/fsnotify v1.10.1
	github.com/golang/snappy v1.0.1-0.20260716114414-9ae09f520e93
	github.com/google/gofuzz v1.2.0
	github.com/google/uuid v1.6.0
	github.com/gorilla/mux v1.8.1
	github.com/herumi/bls-eth-go-binary v1.36.4
	github.com/holiman/uint256 v1.3.2
	github.com/ipfs/go-log/v2 v2.9.2
	github.com/jonboulle/clockwork v0.5.0
	github.com/jsternberg/zap-logfmt v1.3.0
	github.com/libp2p/go-libp2p v0.48.0
	github.com/libp2p/go-msgio v0.3.0
	github.com/multiformats/go-multiaddr v0.16.1
	github.com/prometheus/client_golang v1.24.1
	github.com/prometheus/client_model v0.6.2
	github.com/protolambda/eth2-shuffle v1.1.0
	github.com/r3labs/sse/v2 v2.10.0
	github.com/rs/zerolog v1.35.1
	github.com/showwin/speedtest-go v1.7.11
	github.com/spf13/cobra v1.10.2
	github.com/spf13/pflag v1.0.10
	github.com/spf13/viper v1.21.0
	github.com/stretchr/testify v1.12.1
	github.com/wealdtech/go-eth2-wallet-encryptor-keystorev4 v1.4.1
	go.opentelemetry.io/otel v1.45.0
	go.opentelemetry.io/otel/exporters/otlp/otlptrace v1.45.0
	go.opentelemetry.io/otel/exporters/otlp/otlptrace/otlptracegrpc v1.45.0
	go.opentelemetry.io/otel/exporters/stdout/stdouttrace v1.45.0
	go.opentelemetry.io/otel/sdk v1.45.0
	go.opentelemetry.io/otel/trace v1.45.0
	go.uber.org/automaxprocs v1.6.0
	go.uber.org/goleak v1.3.0
	go.uber.org/zap v1.28.0
	golang.org/x/crypto v0.55.0
	golang.org/x/net v0.58.0
	golang.org/x/sync v0.22.0
	golang.org/x/term v0.45.0
	golang.org/x/text v0.41.0
	golang.org/x/time v0.15.0
	golang.org/x/tools v0.49.0
	google.golang.org/protobuf v1.36.12
	gopkg.in/natefinch/lumberjack.v2 v2.2.1
)

require (
	buf.build/gen/go/bufbuild/bufplugin/protocolbuffers/go v1.36.11-20260626152828-968bf0468096.1 // indirect
	buf.build/gen/go/bufbuild/protodescriptor/protocolbuffers/go v1.36.11-20250109164928-1da0de137947.1 // indirect
	buf.build/gen/go/bufbuild/protovalidate/protocolbuffers/go v1.36.11-20260709200747-435963d16310.1 // indirect
	buf.build/gen/go/bufbuild/registry/connectrpc/go v1.20.0-20260713175918-10d915f5b43b.1 // indirect
	buf.build/gen/go/bufbuild/registry/protocolbuffers/go v1.36.11-20260713175918-10d915f5b43b.1 // indirect
	buf.build/gen/go/pluginrpc/pluginrpc/protocolbuffers/go v1.36.11-20241007202033-cf42259fcbfc.1 // indirect
	buf.build/go/app v0.2.1-0.20260626143626-be153867abea // indirect
	buf.build/go/bufplugin v0.10.0 // indirect
	buf.build/go/bufprivateusage v0.1.0 // indirect
	buf.build/go/interrupt v1.1.0 // indirect
	buf.build/go/protovalidate v1.2.0 // indirect
	buf.build/go/protoyaml v0.7.0 // indirect
	buf.build/go/spdx v0.2.0 // indirect
	buf.build/go/standard v0.1.1-0.20260325175353-2b287e071df5 // indirect
	cel.dev/expr v0.25.2 // indirect
	connectrpc.com/connect v1.20.0 // indirect
	connectrpc.com/otelconnect v0.9.0 // indirect
	filippo.io/bigmod v0.1.1-0.20260103110540-f8a47775ebe5 // indirect
	filippo.io/keygen v0.0.0-20260114151900-8e2790ea4c5b // indirect
	github.com/DataDog/zstd v1.5.7 // indirect
	github.com/Microsoft/go-winio v0.6.2 // indirect
	github.com/ProjectZKM/Ziren/crates/go-runtime/zkvm_runtime v0.0.0-20251001021608-1fe7b43fc4d6 // indirect
	github.com/RaduBerinde/axisds v0.1.0 // indirect
	github.com/RaduBerinde/btreemap v0.0.0-20250419174037-3d62b7205d54 // indirect
	github.com/VictoriaMetrics/fastcache v1.13.0 // indirect
	github.com/antlr4-go/antlr/v4 v4.13.1 // indirect
	github.com/apapsch/go-jsonmerge/v2 v2.0.0 // indirect
	github.com/benbjohnson/clock v1.3.5 // indirect
	github.com/beorn7/perks v1.0.1 // indirect
	github.com/bits-and-blooms/bitset v1.24.4 // indirect
	github.com/bufbuild/buf v1.72.0 // indirect
	github.com/bufbuild/protocompile v0.14.2-0.20260716165721-bb5762d29672 // indirect
	github.com/bufbuild/protoplugin v0.0.0-20260414125817-25d1d281b46b // indirect
	github.com/casbin/govaluate v1.10.0 // indirect
	github.com/cenkalti/backoff/v5 v5.0.3 // indirect
	github.com/cespare/xxhash/v2 v2.3.0 // indirect
	github.com/chigopher/pathlib v0.19.1 // indirect
	github.com/cli/browser v1.3.0 // indirect
	github.com/cockroachdb/crlib v0.0.0-20241112164430-1264a2edc35b // indirect
	github.com/cockroachdb/errors v1.11.3 // indirect
	github.com/cockroachdb/fifo v0.0.0-20240816210425-c5d0cb0b6fc0 // indirect
	github.com/cockroachdb/logtags v0.0.0-20241215232642-bb51bb14a506 // indirect
	github.com/cockroachdb/pebble v1.1.5 // indirect
	github.com/cockroachdb/pebble/v2 v2.1.4 // indirect
	github.com/cockroachdb/redact v1.1.6 // indirect
	github.com/cockroachdb/swiss v0.0.0-20251224182025-b0f6560f979b // indirect
	github.com/cockroachdb/tokenbucket v0.0.0-20230807174530-cc333fc44b06 // indirect
	github.com/consensys/gnark-crypto v0.19.2 // indirect
	github.com/containerd/errdefs v1.0.0 // indirect
	github.com/containerd/errdefs/pkg v0.3.0 // indirect
	github.com/cpuguy83/go-md2man/v2 v2.0.7 // indirect
	github.com/crate-crypto/go-eth-kzg v1.5.0 // indirect
	github.com/davecgh/go-spew v1.1.2-0.20180830191138-d8f796af33cc // indirect
	github.com/davidlazar/go-crypto v0.0.0-20200604182044-b73af7476f6c // indirect
	github.com/dchest/siphash v1.2.3 // indirect
	github.com/deckarep/golang-set/v2 v2.8.0 // indirect
	github.com/distribution/reference v0.6.0 // indirect
	github.com/docker/cli v29.6.1+incompatible // indirect
	github.com/docker/docker-credential-helpers v0.9.8 // indirect
	github.com/docker/go-connections v0.7.0 // indirect
	github.com/docker/go-units v0.5.0 // indirect
	github.com/dunglas/httpsfv v1.1.0 // indirect
	github.com/emicklei/dot v1.8.0 // indirect
	github.com/ethereum/c-kzg-4844/v2 v2.1.8 // indirect
	github.com/ethereum/go-bigmodexpfix v0.0.0-20250911101455-f9e208c548ab // indirect
	github.com/felixge/httpsnoop v1.1.0 // indirect
	github.com/fjl/jsonw v0.1.0 // indirect
	github.com/flynn/noise v1.1.0 // indirect
	github.com/gballet/go-libpcsclite v0.0.0-20191108122812-4678299bea08 // indirect
	github.com/getsentry/sentry-go v0.31.1 // indirect
	github.com/go-logr/logr v1.4.4 // indirect
	github.com/go-logr/stdr v1.2.2 // indirect
	github.com/go-ole/go-ole v1.3.0 // indirect
	github.com/go-viper/mapstructure/v2 v2.5.0 // indirect
	github.com/goccy/go-yaml v1.17.0 // indirect
	github.com/gofrs/flock v0.13.0 // indirect
	github.com/gogo/protobuf v1.3.2 // indirect
	github.com/golang-jwt/jwt/v4 v4.5.2 // indirect
	github.com/google/cel-go v0.29.2 // indirect
	github.com/google/go-containerregistry v0.21.7 // indirect
	github.com/gorilla/websocket v1.5.3 // indirect
	github.com/grafana/pyroscope-go v1.2.7 // indirect
	github.com/grafana/pyroscope-go/godeltaprof v0.1.9 // indirect
	github.com/graph-gophers/graphql-go v1.6.0 // indirect
	github.com/grpc-ecosystem/grpc-gateway/v2 v2.29.0 // indirect
	github.com/hashicorp/go-bexpr v0.1.14 // indirect
	github.com/holiman/billy v0.0.0-20250707135307-f2f9b9aae7db // indirect
	github.com/holiman/bloomfilter/v2 v2.0.3 // indirect
	github.com/huandu/go-clone v1.7.2 // indirect
	github.com/huandu/xstrings v1.5.0 // indirect
	github.com/huin/goupnp v1.3.0 // indirect
	github.com/iancoleman/strcase v0.3.0 // indirect
	github.com/inconshreveable/mousetrap v1.1.0 // indirect
	github.com/influxdata/influxdb-client-go/v2 v2.14.0 // indirect
	github.com/influxdata/influxdb1-client v0.0.0-20220302092344-a9ab5670611c // indirect
	github.com/influxdata/line-protocol v0.0.0-20210922203350-b1ad95c89adf // indirect
	github.com/ipfs/go-cid v0.5.0 // indirect
	github.com/jackpal/go-nat-pmp v1.0.2 // indirect
	github.com/jbenet/go-temp-err-catcher v0.1.0 // indirect
	github.com/jdx/go-netrc v1.0.0 // indirect
	github.com/jinzhu/copier v0.4.0 // indirect
	github.com/kilic/bls12-381 v0.1.0 // indirect
	github.com/klauspost/compress v1.19.1 // indirect
	github.com/klauspost/cpuid/v2 v2.3.0 // indirect
	github.com/klauspost/pgzip v1.2.6 // indirect
	github.com/koron/go-ssdp v0.0.6 // indirect
	github.com/kr/pretty v0.3.1 // indirect
	github.com/kr/text v0.2.0 // indirect
	github.com/kylelemons/godebug v1.1.0 // indirect
	github.com/libp2p/go-buffer-pool v0.1.0 // indirect
	github.com/libp2p/go-flow-metrics v0.2.0 // indirect
	github.com/libp2p/go-libp2p-asn-util v0.4.1 // indirect
	github.com/libp2p/go-netroute v0.4.0 // indirect
	github.com/libp2p/go-reuseport v0.4.0 // indirect
	github.com/libp2p/go-yamux/v5 v5.0.1 // indirect
	github.com/marten-seemann/tcp v0.0.0-20210406111302-dfbc87cc63fd // indirect
	github.com/mattn/go-colorable v0.1.15 // indirect
	github.com/mattn/go-isatty v0.0.23 // indirect
	github.com/mattn/go-runewidth v0.0.16 // indirect
	github.com/miekg/dns v1.1.66 // indirect
	github.com/mikioh/tcpinfo v0.0.0-20190314235526-30a79bb1804b // indirect
	github.com/mikioh/tcpopt v0.0.0-20190314235656-172688c1accc // indirect
	github.com/minio/minlz v1.0.1-0.20250507153514-87eb42fe8882 // indirect
	github.com/minio/sha256-simd v1.0.1 // indirect
	github.com/mitchellh/go-homedir v1.1.0 // indirect
	github.com/mitchellh/mapstructure v1.5.0 // indirect
	github.com/mitchellh/pointerstructure v1.2.1 // indirect
	github.com/moby/docker-image-spec v1.3.1 // indirect
	github.com/moby/moby/api v1.55.0 // indirect
	github.com/moby/moby/client v0.5.0 // indirect
	github.com/mr-tron/base58 v1.2.0 // indirect
	github.com/multiformats/go-base32 v0.1.0 // indirect
	github.com/multiformats/go-base36 v0.2.0 // indirect
	github.com/multiformats/go-multiaddr-dns v0.4.1 // indirect
	github.com/multiformats/go-multiaddr-fmt v0.1.0 // indirect
	github.com/multiformats/go-multibase v0.2.0 // indirect
	github.com/multiformats/go-multicodec v0.9.1 // indirect
	github.com/multiformats/go-multihash v0.2.3 // indirect
	github.com/multiformats/go-multistream v0.6.1 // indirect
	github.com/multiformats/go-varint v0.0.7 // indirect
	github.com/munnerz/goautoneg v0.0.0-20191010083416-a7dc8b61c822 // indirect
	github.com/oapi-codegen/runtime v1.1.1 // indirect
	github.com/onsi/gomega v1.36.2 // indirect
	github.com/opencontainers/go-digest v1.0.0 // indirect
	github.com/opencontainers/image-spec v1.1.1 // indirect
	github.com/pbnjay/memory v0.0.0-20210728143218-7b4eea64cf58 // indirect
	github.com/pelletier/go-toml/v2 v2.2.4 // indirect
	github.com/peterh/liner v1.2.2 // indirect
	github.com/petermattis/goid v0.0.0-20260716134002-a9b348f0a2b9 // indirect
	github.com/pion/datachannel v1.5.10 // indirect
	github.com/pion/dtls/v3 v3.1.4 // indirect
	github.com/pion/ice/v4 v4.0.10 // indirect
	github.com/pion/interceptor v0.1.40 // indirect
	github.com/pion/logging v0.2.4 // indirect
	github.com/pion/mdns/v2 v2.0.7 // indirect
	github.com/pion/randutil v0.1.0 // indirect
	github.com/pion/rtcp v1.2.16 // indirect
	github.com/pion/rtp v1.8.19 // indirect
	github.com/pion/sctp v1.8.39 // indirect
	github.com/pion/sdp/v3 v3.0.18 // indirect
	github.com/pion/srtp/v3 v3.0.6 // indirect
	github.com/pion/stun/v3 v3.1.5 // indirect
	github.com/pion/transport/v3 v3.0.7 // indirect
	github.com/pion/transport/v4 v4.0.2 // indirect
	github.com/pion/turn/v4 v4.0.2 // indirect
	github.com/pion/webrtc/v4 v4.1.2 // indirect
	github.com/pk910/dynamic-ssz v1.3.2 // indirect
	github.com/pk910/hashtree-bindings v0.2.2 // indirect
	github.com/pkg/errors v0.9.1 // indirect
	github.com/prometheus/common v0.70.1 // indirect
	github.com/prometheus/procfs v0.21.1 // indirect
	github.com/quic-go/qpack v0.6.0 // indirect
	github.com/quic-go/quic-go v0.60.0 // indirect
	github.com/quic-go/webtransport-go v0.11.1 // indirect
	github.com/rivo/uniseg v0.4.7 // indirect
	github.com/rogpeppe/go-internal v1.14.1 // indirect
	github.com/rs/cors v1.11.1 // indirect
	github.com/russross/blackfriday/v2 v2.1.0 // indirect
	github.com/sagikazarmark/locafero v0.12.0 // indirect
	github.com/segmentio/asm v1.2.1 // indirect
	github.com/segmentio/encoding v0.5.4 // indirect
	github.com/shirou/gopsutil v3.21.11+incompatible // indirect
	github.com/sirupsen/logrus v1.9.4 // indirect
	github.com/spaolacci/murmur3 v1.1.0 // indirect
	github.com/spf13/afero v1.15.0 // indirect
	github.com/spf13/cast v1.10.0 // indirect
	github.com/stretchr/objx v0.5.3 // indirect
	github.com/subosito/gotenv v1.6.0 // indirect
	github.com/supranational/blst v0.3.16 // indirect
	github.com/syndtr/goleveldb v1.0.1-0.20210819022825-2ae1ddf74ef7 // indirect
	github.com/tetratelabs/wazero v1.12.0 // indirect
	github.com/tidwall/btree v1.8.1 // indirect
	github.com/tklauser/go-sysconf v0.3.15 // indirect
	github.com/tklauser/numcpus v0.10.0 // indirect
	github.com/urfave/cli/v2 v2.27.6 // indirect
	github.com/vektra/mockery/v2 v2.53.6 // indirect
	github.com/wlynxg/anet v0.0.5 // indirect
	github.com/xrash/smetrics v0.0.0-20240521201337-686a1a2994c1 // indirect
	github.com/yusufpapurcu/wmi v1.2.4 // indirect
	go.etcd.io/gofail v0.2.0 // indirect
	go.lsp.dev/jsonrpc2 v0.10.0 // indirect
	go.lsp.dev/pkg v0.0.0-20210717090340-384b27a52fb2 // indirect
	go.lsp.dev/protocol v0.12.0 // indirect
	go.lsp.dev/uri v0.3.0 // indirect
	go.opentelemetry.io/auto/sdk v1.2.1 // indirect
	go.opentelemetry.io/contrib/instrumentation/net/http/otelhttp v0.69.0 // indirect
	go.opentelemetry.io/otel/metric v1.45.0 // indirect
	go.opentelemetry.io/proto/otlp v1.11.0 // indirect
	go.uber.org/dig v1.19.0 // indirect
	go.uber.org/fx v1.24.0 // indirect
	go.uber.org/mock v0.5.2 // indirect
	go.uber.org/multierr v1.11.0 // indirect
	go.yaml.in/yaml/v3 v3.0.5 // indirect
	golang.org/x/exp v0.0.0-20260709172345-9ea1abe57597 // indirect
	golang.org/x/mod v0.39.0 // indirect
	golang.org/x/sys v0.47.0 // indirect
	golang.org/x/telemetry v0.0.0-20260811182544-a038080d80e5 // indirect
	golang.org/x/vuln v1.1.4 // indirect
	google.golang.org/genproto/googleapis/api v0.0.0-20260803160001-6ac0973c030d // indirect
	google.golang.org/genproto/googleapis/rpc v0.0.0-20260803160001-6ac0973c030d // indirect
	google.golang.org/grpc v1.83.0 // indirect
	gopkg.in/cenkalti/backoff.v1 v1.1.0 // indirect
	gopkg.in/yaml.v2 v2.4.0 // indirect
	gopkg.in/yaml.v3 v3.0.1 // indirect
	lukechampine.com/blake3 v1.4.1 // indirect
	mvdan.cc/xurls/v2 v2.6.0 // indirect
	pluginrpc.com/pluginrpc v0.5.0 // indirect
)

replace github.com/obolnetwork/charon => /repo

replace github.com/coinbase/kryptology => github.com/ObolNetwork/kryptology v0.1.0

replace github.com/attestantio/go-eth2-client => github.com/ObolNetwork/go-eth2-client v0.28.1-obol
