package c05

import (
	"context"
	"fmt"
	"sync"
	"testing"
	"time"

	k1 "github.com/decred/dcrd/dcrec/secp256k1/v4"
	ssz "github.com/ferranbt/fastssz"
	"github.com/libp2p/go-libp2p/core/peer"
	"google.golang.org/protobuf/proto"
	"google.golang.org/protobuf/types/known/anypb"

	"github.com/obolnetwork/charon/app/k1util"
	"github.com/obolnetwork/charon/core"
	cqbft "github.com/obolnetwork/charon/core/consensus/qbft"
	pbv1 "github.com/obolnetwork/charon/core/corepb/v1"
	"github.com/obolnetwork/charon/p2p"
	"github.com/obolnetwork/charon/testutil"
	"github.com/obolnetwork/charon/testutil/beaconmock"

	"verifharness/fakenet"
)

const protoQBFT = "/charon/consensus/qbft/2.0.0"

// stubDeadliner answers Add from a harness-controlled set of expired duties.
type stubDeadliner struct {
	mu      sync.Mutex
	expired map[core.Duty]bool
	ch      chan core.Duty
}

func newStubDeadliner() *stubDeadliner {
	return &stubDeadliner{expired: map[core.Duty]bool{}, ch: make(chan core.Duty)}
}

func (d *stubDeadliner) Add(duty core.Duty) core.DeadlineStatus {
	d.mu.Lock()
	defer d.mu.Unlock()
	if d.expired[duty] {
		return core.DeadlineExpired
	}
	if duty.Type == core.DutyExit || duty.Type == core.DutyBuilderRegistration {
		return core.DeadlineExempt
	}

	return core.DeadlineScheduled
}

func (d *stubDeadliner) C() <-chan core.Duty { return d.ch }

func (d *stubDeadliner) expire(duty core.Duty) { d.mu.Lock(); d.expired[duty] = true; d.mu.Unlock() }

// env is one cluster identity set: keys for n members (all held by the harness) plus a stranger.
type env struct {
	t        *testing.T
	n        int
	keys     []*k1.PrivateKey
	ids      []peer.ID
	peers    []p2p.Peer
	stranger *k1.PrivateKey
	bmock    beaconmock.Mock
	gateNow  time.Time // "now" of the duty gater
	slotsPerEpoch uint64
	slotDur  time.Duration
	genesis  time.Time
}

var keyGenMu sync.Mutex

var keySeq struct {
	sync.Mutex
	n int
}

func nextKeySeed() int {
	keySeq.Lock()
	defer keySeq.Unlock()
	for {
		keySeq.n++
		// testutil.GenerateInsecureK1Key never returns for seeds whose constant byte is 0x00 or 0xff
		// (ecdsa rejection sampling never accepts the constant reader) — skip those seeds.
		if b := (1000 + keySeq.n + 1) % 256; b != 0 && b != 255 {
			break
		}
	}

	return 1000 + keySeq.n
}

func newEnv(t *testing.T, bmock beaconmock.Mock, n int) *env {
	t.Helper()
	e := &env{t: t, n: n, bmock: bmock, slotsPerEpoch: 16, slotDur: 12 * time.Second}
	keyGenMu.Lock() // testutil.GenerateInsecureK1Key is not safe for concurrent use
	defer keyGenMu.Unlock()
	for i := 0; i < n; i++ {
		k := testutil.GenerateInsecureK1Key(t, nextKeySeed())
		id, err := p2p.PeerIDFromKey(k.PubKey())
		if err != nil {
			t.Fatal(err)
		}
		e.keys = append(e.keys, k)
		e.ids = append(e.ids, id)
		e.peers = append(e.peers, p2p.Peer{ID: id, Index: i, Name: p2p.PeerName(id)})
	}
	e.stranger = testutil.GenerateInsecureK1Key(t, nextKeySeed())

	return e
}

// node is a real consensus component on its own fakenet.
type node struct {
	e        *env
	idx      int
	net      *fakenet.Net
	cons     *cqbft.Consensus
	dl       *stubDeadliner
	ctx      context.Context
	cancel   context.CancelFunc
	mu       sync.Mutex
	sniffed  []*pbv1.SniffedConsensusInstance
	decided  []decidedEv
	admitted int
}

type decidedEv struct {
	Duty core.Duty
	Set  core.UnsignedDataSet
}

// newNode creates member idx as a real component; all other members exist as bare hosts (so sends
// to them fail fast) unless the same net is shared.
func (e *env) newNode(net *fakenet.Net, idx int) *node {
	e.t.Helper()
	ctx, cancel := context.WithCancel(context.Background())
	nd := &node{e: e, idx: idx, net: net, dl: newStubDeadliner(), ctx: ctx, cancel: cancel}
	for _, id := range e.ids {
		net.Host(id)
	}
	gater, err := core.NewDutyGater(ctx, e.bmock, core.WithDutyGaterForT(e.t, func() time.Time { return e.gateNow }, 2))
	if err != nil {
		e.t.Fatal(err)
	}
	sniff := func(inst *pbv1.SniffedConsensusInstance) {
		nd.mu.Lock()
		nd.sniffed = append(nd.sniffed, inst)
		nd.mu.Unlock()
	}
	c, err := cqbft.NewConsensus(ctx, e.bmock, net.Host(e.ids[idx]), new(p2p.Sender), e.peers, e.keys[idx], nd.dl, gater, sniff, false)
	if err != nil {
		e.t.Fatal(err)
	}
	c.Subscribe(func(_ context.Context, duty core.Duty, set core.UnsignedDataSet) error {
		nd.mu.Lock()
		nd.decided = append(nd.decided, decidedEv{Duty: duty, Set: set})
		nd.mu.Unlock()

		return nil
	})
	c.Start(ctx)
	nd.cons = c

	return nd
}

// ---- independent implementation of the signing scheme (deterministic proto marshal -> ssz
// merkleize -> secp256k1 recoverable signature); a drift of charon's hashing shows as honest
// harness-built messages being rejected. ----

func hashProtoIndep(m proto.Message) [32]byte {
	b, err := proto.MarshalOptions{Deterministic: true}.Marshal(m)
	if err != nil {
		panic(err)
	}
	hh := ssz.NewHasher()
	idx := hh.Index()
	hh.PutBytes(b)
	hh.Merkleize(idx)
	h, err := hh.HashRoot()
	if err != nil {
		panic(err)
	}

	return h
}

func signIndep(m *pbv1.QBFTMsg, key *k1.PrivateKey) *pbv1.QBFTMsg {
	c := proto.Clone(m).(*pbv1.QBFTMsg)
	c.Signature = nil
	h := hashProtoIndep(c)
	sig, err := k1util.Sign(key, h[:])
	if err != nil {
		panic(err)
	}
	c.Signature = sig

	return c
}

// authentic re-verifies a QBFTMsg independently: well-formed per the statement and signed by the
// member named as its source.
func (e *env) authentic(m *pbv1.QBFTMsg) error {
	if m == nil || m.GetDuty() == nil {
		return fmt.Errorf("nil message or duty")
	}
	if t := m.GetType(); t < 1 || t > 5 {
		return fmt.Errorf("invalid type %d", t)
	}
	if !core.DutyType(m.GetDuty().GetType()).Valid() {
		return fmt.Errorf("invalid duty type %d", m.GetDuty().GetType())
	}
	if m.GetRound() <= 0 || m.GetPreparedRound() < 0 {
		return fmt.Errorf("invalid round %d / prepared round %d", m.GetRound(), m.GetPreparedRound())
	}
	if m.GetPeerIdx() < 0 || int(m.GetPeerIdx()) >= e.n {
		return fmt.Errorf("peer index %d is not a member", m.GetPeerIdx())
	}
	c := proto.Clone(m).(*pbv1.QBFTMsg)
	c.Signature = nil
	h := hashProtoIndep(c)
	pk, err := k1util.Recover(h[:], m.GetSignature())
	if err != nil {
		return fmt.Errorf("signature does not recover: %v", err)
	}
	if !pk.IsEqual(e.keys[m.GetPeerIdx()].PubKey()) {
		return fmt.Errorf("signature is not by member %d", m.GetPeerIdx())
	}

	return nil
}

// wellFormed applies the whole statement to a wire message (independently of charon's code).
func (e *env) wellFormed(w *pbv1.QBFTConsensusMsg, nd *node) error {
	if err := e.authentic(w.GetMsg()); err != nil {
		return fmt.Errorf("msg: %v", err)
	}
	duty := core.DutyFromProto(w.GetMsg().GetDuty())
	if nd.dl.Add(duty) != core.DeadlineScheduled {
		return fmt.Errorf("duty %v expired or exempt", duty)
	}
	curEpoch := uint64(e.gateNow.Sub(e.genesis)/e.slotDur) / e.slotsPerEpoch
	if duty.Slot/e.slotsPerEpoch > curEpoch+2 {
		return fmt.Errorf("duty %v beyond the allowed window", duty)
	}
	if len(w.GetJustification()) > 2*e.n {
		return fmt.Errorf("%d justifications exceed 2n", len(w.GetJustification()))
	}
	if len(w.GetValues()) > 2*(len(w.GetJustification())+1) {
		return fmt.Errorf("%d values exceed the limit", len(w.GetValues()))
	}
	have := map[[32]byte]bool{}
	for _, v := range w.GetValues() {
		inner, err := v.UnmarshalNew()
		if err != nil {
			return fmt.Errorf("value does not unmarshal: %v", err)
		}
		have[hashProtoIndep(inner)] = true
	}
	ref := func(b []byte) error {
		if len(b) != 32 || [32]byte(b) == [32]byte{} {
			return nil
		}
		if !have[[32]byte(b)] {
			return fmt.Errorf("referenced hash %x has no matching value", b[:4])
		}

		return nil
	}
	all := append([]*pbv1.QBFTMsg{w.GetMsg()}, w.GetJustification()...)
	for i, j := range all {
		if i > 0 {
			if err := e.authentic(j); err != nil {
				return fmt.Errorf("justification %d: %v", i-1, err)
			}
			if core.DutyFromProto(j.GetDuty()) != duty {
				return fmt.Errorf("justification %d refers to another duty", i-1)
			}
		}
		if err := ref(j.GetValueHash()); err != nil {
			return err
		}
		if err := ref(j.GetPreparedValueHash()); err != nil {
			return err
		}
	}

	return nil
}

func anyOf(m proto.Message) *anypb.Any {
	a, err := anypb.New(m)
	if err != nil {
		panic(err)
	}

	return a
}

// mkMsg builds and signs a QBFTMsg with the independent signer.
func (e *env) mkMsg(typ int64, duty core.Duty, src int, round int64, vh []byte, pr int64, pvh []byte) *pbv1.QBFTMsg {
	m := &pbv1.QBFTMsg{Type: typ, Duty: core.DutyToProto(duty), PeerIdx: int64(src), Round: round, ValueHash: vh, PreparedRound: pr, PreparedValueHash: pvh}

	return signIndep(m, e.keys[src])
}
