// Package c05 checks that the consensus component acts only on authentic, well-formed peer
// messages (property C05): real core/consensus/qbft.Consensus instances on the in-memory libp2p,
// recorded honest wire traffic plus harness-built valid messages of every type, and every
// single-field alteration / substitution / limit violation / garbage injected into the real
// stream handler.
package c05

import (
	"bytes"
	"context"
	"fmt"
	"math/rand"
	"sort"
	"strings"
	"sync"
	"testing"
	"time"

	"google.golang.org/protobuf/encoding/protowire"
	"google.golang.org/protobuf/proto"
	"google.golang.org/protobuf/reflect/protoreflect"
	"google.golang.org/protobuf/types/known/anypb"

	"github.com/obolnetwork/charon/core"
	pbv1 "github.com/obolnetwork/charon/core/corepb/v1"
	"github.com/obolnetwork/charon/testutil"
	"github.com/obolnetwork/charon/testutil/beaconmock"

	"verifharness/fakenet"
	"verifharness/kit"
)

type base struct {
	Name string
	W    *pbv1.QBFTConsensusMsg
	From int // member index of the sender
}

type injector struct {
	c    *kit.Case
	r    *kit.Run
	e    *env
	lc   *fakenet.LogCapture
	nd   *node
	rng  *rand.Rand
	used int
}

// outcome of one injection, decided from what the real handler logged during the synchronous call.
type outcome struct {
	Admitted bool
	Reason   string
}

func (in *injector) target() *node {
	if in.nd == nil || in.nd.admitted > 80 { // the per-duty receive buffer holds 100 messages
		if in.nd != nil {
			in.nd.cancel()
		}
		in.nd = in.e.newNode(fakenet.New(), in.e.n-1)
	}

	return in.nd
}

func classify(entries []fakenet.LogEntry, peerName string) outcome {
	for _, e := range entries {
		if e.Peer != peerName {
			continue // another case's traffic (cases run in parallel, the log is process-wide)
		}
		switch {
		case strings.Contains(e.Msg, "P2P stream handler encountered an error"):
			reason := e.Msg
			if i := strings.Index(reason, "processed: "); i >= 0 {
				reason = reason[i+len("processed: "):]
			}

			return outcome{false, "handler: " + reason}
		case strings.Contains(e.Msg, "Failed to read p2p request"), strings.Contains(e.Msg, "Timeout reading p2p message"):
			return outcome{false, "read: frame rejected"}
		case strings.Contains(e.Msg, "LibP2P received invalid proto"):
			return outcome{false, "protonil: invalid proto"}
		}
	}

	return outcome{true, ""}
}

func (in *injector) injectRaw(from int, frame []byte) outcome {
	nd := in.target()
	mark := in.lc.Len()
	nd.net.InjectRaw(in.e.ids[from], in.e.ids[nd.idx], protoQBFT, frame)
	o := classify(in.lc.Since(mark), in.e.peers[from].Name)
	if o.Admitted {
		nd.admitted++
	}
	in.r.Count("injections", 1)

	return o
}

// inject hands w to the real receive handler through the verif hook (Consensus.VerifHandle) and
// reads the handler's own return value: nil = admitted into the per-duty receive buffer.
func (in *injector) inject(from int, w *pbv1.QBFTConsensusMsg) outcome {
	nd := in.target()
	ctx, cancel := context.WithTimeout(nd.ctx, 5*time.Second)
	defer cancel()
	err := nd.cons.VerifHandle(ctx, in.e.ids[from], w)
	in.r.Count("injections", 1)
	if err == nil {
		nd.admitted++
		return outcome{true, ""}
	}

	return outcome{false, "handler: " + err.Error()}
}

func reasonClass(s string) string {
	for _, k := range []string{"invalid consensus message signature", "recover pubkey", "empty signature", "invalid justification", "justification duty differs", "value hash not found",
		"prepared value hash not found", "too many justifications", "too many values", "invalid peer index", "invalid consensus message round", "invalid consensus message prepared round",
		"invalid consensus message type", "invalid consensus message duty type", "invalid duty", "duty expired", "unmarshal any", "invalid consensus message", "read: frame rejected", "protonil"} {
		if strings.Contains(s, k) {
			return k
		}
	}

	return kit.Short(s, 50)
}

// countdownCtx is a receive context whose deadline "fires" at a chosen point of the handler: Err()
// answers nil for the first k calls and DeadlineExceeded from then on (Done is closed at that moment).
// k = 0 is a context that has already expired when the handler starts.
type countdownCtx struct {
	context.Context
	mu   sync.Mutex
	left int
	done chan struct{}
	shut bool
}

func newCountdownCtx(parent context.Context, k int) *countdownCtx {
	c := &countdownCtx{Context: parent, left: k, done: make(chan struct{})}
	if k == 0 {
		c.shut = true
		close(c.done)
	}

	return c
}

func (c *countdownCtx) Err() error {
	c.mu.Lock()
	defer c.mu.Unlock()
	if c.left > 0 {
		c.left--
		return nil
	}
	if !c.shut {
		c.shut = true
		close(c.done)
	}

	return context.DeadlineExceeded
}

func (c *countdownCtx) Done() <-chan struct{} { return c.done }

// injectExpiring hands w to the handler under a receive context that expires after k liveness checks.
func (in *injector) injectExpiring(from int, w *pbv1.QBFTConsensusMsg, k int) outcome {
	nd := in.target()
	err := nd.cons.VerifHandle(newCountdownCtx(nd.ctx, k), in.e.ids[from], w)
	in.r.Count("injections", 1)
	if err == nil {
		nd.admitted++
		return outcome{true, ""}
	}

	return outcome{false, "handler: " + err.Error()}
}

// mustReject: the injected message violates the statement ⇒ it has to be rejected.
func (in *injector) mustReject(class, path string, from int, w *pbv1.QBFTConsensusMsg, baseName string) {
	// A sample is also delivered while the stream's receive deadline fires somewhere inside the handler
	// (or has fired already): whatever the context does, the message must not be admitted.
	if in.rng.Intn(6) == 0 {
		for try := 0; try < 2; try++ {
			k := in.rng.Intn(2 + 2*len(w.GetJustification()))
			in.r.Count("must_reject_under_expiring_receive_context", 1)
			if o := in.injectExpiring(from, w, k); o.Admitted {
				in.c.Violation("consensus/admitted/"+class+"/"+pathClass(path)+"/receive-context-expired-inside-handler",
					fmt.Sprintf("a %s message altered by %s at %s was admitted by the receive handler although (and while) its receive context expired after %d liveness checks", baseName, class, path, k),
					map[string]any{"base": baseName, "class": class, "path": path, "liveness_checks_before_expiry": k, "msg": protoText(w)})
				return
			}
		}
	}
	o := in.inject(from, w)
	in.r.Count("must_reject/"+class, 1)
	if o.Admitted {
		in.c.Violation("consensus/admitted/"+class+"/"+pathClass(path),
			fmt.Sprintf("a %s message altered by %s at %s was admitted by the receive handler", baseName, class, path),
			map[string]any{"base": baseName, "class": class, "path": path, "msg": protoText(w)})
		return
	}
	in.r.Seen("rejected_by", class+" -> "+reasonClass(o.Reason))
	in.r.Seen("altered_paths", pathClass(path))
}

// universal: whatever is admitted must be authentic and well-formed.
func (in *injector) universal(class string, from int, w *pbv1.QBFTConsensusMsg, baseName string) outcome {
	o := in.inject(from, w)
	in.r.Count("universal_only/"+class, 1)
	if o.Admitted {
		in.r.Count("universal_only_admitted/"+class, 1)
		if err := in.e.wellFormed(w, in.nd); err != nil {
			in.c.Violation("consensus/admitted-not-wellformed/"+class,
				fmt.Sprintf("the handler admitted a message (%s, class %s) that is not authentic/well-formed: %v", baseName, class, err),
				map[string]any{"base": baseName, "class": class, "msg": protoText(w), "why": err.Error()})
		}
	}

	return o
}

// mustAdmit: an untouched valid message (vacuity guard for the harness and the signing scheme).
func (in *injector) mustAdmit(b base) bool {
	o := in.inject(b.From, b.W)
	in.r.Count("must_admit", 1)
	if !o.Admitted {
		in.c.Violation("consensus/rejected-valid-message/"+strings.SplitN(b.Name, "#", 2)[0],
			fmt.Sprintf("a valid %s message was rejected: %s", b.Name, o.Reason), map[string]any{"base": b.Name, "reason": o.Reason, "msg": protoText(b.W)})
		return false
	}

	return true
}

func protoText(m proto.Message) string {
	s := fmt.Sprint(m)
	if len(s) > 3000 {
		s = s[:3000] + "…"
	}

	return s
}

var idxRe = strings.NewReplacer("0", "", "1", "", "2", "", "3", "", "4", "", "5", "", "6", "", "7", "", "8", "", "9", "")

func pathClass(p string) string { return idxRe.Replace(p) }

func TestCheck(t *testing.T) {
	r := kit.Start(t, "C05")
	defer r.Finish()
	lc := fakenet.CaptureLogs(t)
	r.Rule("case = one cluster identity set (n in {4,7}; all keys held by the harness) and one duty; base messages = every wire message recorded from real 4..7-node consensus runs on the in-memory network (round-1 and forced round-change runs; attester, proposer and priority values) " +
		"plus harness-built valid messages of every type signed with an independent implementation of the scheme (ROUND-CHANGE with prepared claim, justified PRE-PREPARE, DECIDED); each base message is injected unmodified into the real receive handler (must be admitted) and then with " +
		"every leaf field at every nesting level (enumerated by protobuf reflection) altered without re-signing, cross-signer / cross-duty / non-member substitutions, value removal/replacement, count-limit violations, validly re-signed ill-formed messages, expired / out-of-window duties, and arbitrary / truncated frames; " +
		"non-trivial = an injected alteration; distinct = (base message type, class, field path, alteration) hash")
	r.Assume("admission = the consensus receive handler returned a nil error (read through the verif-tagged hook Consensus.VerifHandle; production only logs that error), cross-checked against the instance sniffer in the sniffer phase; raw frames (garbage, truncated) go through the real stream handler on the in-memory network and are judged from charon's log output")
	r.Assume("reordering or dropping whole justifications, extra unreferenced values within the count limit and unknown fields on the unsigned envelope are not must-reject classes (the statement does not cover them); only the universal oracle applies to them")
	r.RacePkgs(false, "core/consensus/qbft", "core/qbft")
	r.Require("must_admit", 20)
	r.Require("decide_payload_checked", 1)
	r.Require("sniffed_peer_messages", 3)
	r.Require("injections", 500)

	ctx := context.Background()
	genesis := time.Now().Add(-1000 * 12 * time.Second).Truncate(12 * time.Second)
	bmock, err := beaconmock.New(ctx, beaconmock.WithGenesisTime(genesis), beaconmock.WithSlotDuration(12*time.Second), beaconmock.WithSlotsPerEpoch(16))
	if err != nil {
		t.Fatal(err)
	}
	defer bmock.Close()

	n := r.N(8, 60)
	var distinctMu sync.Mutex
	r.Cases(n, 4, func(c *kit.Case) {
		rng := c.Rng
		nn := []int{4, 7}[c.Idx%2]
		e := newEnv(t, bmock, nn)
		e.genesis = genesis
		e.gateNow = time.Now()
		slotNow := uint64(e.gateNow.Sub(genesis) / (12 * time.Second))
		kind := []string{"attester", "proposer", "priority"}[c.Idx%3]
		dutyType := map[string]core.DutyType{"attester": core.DutyAttester, "proposer": core.DutyProposer, "priority": core.DutyAttester}[kind]
		duty := core.Duty{Slot: slotNow, Type: dutyType}

		bases := recordHonest(c, e, duty, kind, rng)
		bases = append(bases, synthesize(e, duty, rng)...)
		in := &injector{c: c, r: r, e: e, lc: lc, rng: rng}
		defer func() {
			if in.nd != nil {
				in.nd.cancel()
			}
		}()
		perType := map[string]int{}
		budget := 14
		if r.Thorough() {
			budget = 60
		}
		for _, b := range bases {
			tname := strings.SplitN(b.Name, "#", 2)[0]
			if perType[tname] >= budget/7+1 {
				continue
			}
			perType[tname]++
			r.Seen("base_message_kinds", tname)
			if !in.mustAdmit(b) {
				continue
			}
			alterations(in, b, duty, func(h string) {
				distinctMu.Lock()
				r.Distinct(h)
				distinctMu.Unlock()
			})
		}
		garbage(in, bases)
		snifferPhase(c, e, duty, bases, rng)
		decidePayloadPhase(c, e, core.Duty{Slot: slotNow + 1, Type: core.DutyAttester}, rng)
		c.NonTrivial(kit.Hash("case", c.Idx))
		if c.Idx == 0 && len(bases) > 0 {
			r.Sample(map[string]any{"n": nn, "duty": duty.String(), "bases": len(bases), "example_base": bases[len(bases)-1].Name, "example_msg": kit.Short(protoText(bases[len(bases)-1].W), 600)})
		}
	})
}

// recordHonest runs real consensus instances on a shared in-memory network and taps every wire message.
func recordHonest(c *kit.Case, e *env, duty core.Duty, kind string, rng *rand.Rand) []base {
	net := fakenet.New()
	var mu sync.Mutex
	var rec []base
	seen := map[string]bool{}
	net.SetTap(func(env *fakenet.Envelope) {
		if env.Proto != protoQBFT {
			return
		}
		w := new(pbv1.QBFTConsensusMsg)
		if err := fakenet.Unframe(env.Data, w); err != nil {
			return
		}
		from := -1
		for i, id := range e.ids {
			if id == env.From {
				from = i
			}
		}
		name := fmt.Sprintf("recorded-%s-just%d", typeName(w.GetMsg().GetType()), min(len(w.GetJustification()), 1))
		key := fmt.Sprintf("%s/%d/%d", name, w.GetMsg().GetPeerIdx(), w.GetMsg().GetRound())
		mu.Lock()
		if !seen[key] {
			seen[key] = true
			rec = append(rec, base{Name: fmt.Sprintf("%s#%d", name, len(rec)), W: w, From: from})
		}
		mu.Unlock()
	})
	var nodes []*node
	for i := 0; i < e.n; i++ {
		nodes = append(nodes, e.newNode(net, i))
	}
	defer func() {
		for _, nd := range nodes {
			nd.cancel()
		}
	}()
	// Two duties: one where everybody proposes, one where the round-1 leader stays away (forces
	// ROUND-CHANGE and a justified PRE-PREPARE).
	run := func(d core.Duty, skipLeader bool) {
		leader := int((int64(d.Slot) + int64(d.Type) + 1) % int64(e.n))
		var wg sync.WaitGroup
		props := map[int]proto.Message{}
		for i, nd := range nodes {
			if skipLeader && i == leader {
				continue
			}
			wg.Add(1)
			go func(i int, nd *node) {
				defer wg.Done()
				pctx, cancel := context.WithTimeout(nd.ctx, 20*time.Second)
				defer cancel()
				var err error
				switch kind {
				case "priority":
					err = nd.cons.ProposePriority(pctx, d, &pbv1.PriorityResult{Msgs: []*pbv1.PriorityMsg{{Duty: core.DutyToProto(d), PeerId: fmt.Sprint("p", i)}}})
				case "proposer":
					err = nd.cons.Propose(pctx, d, core.UnsignedDataSet{testutil.RandomCorePubKey(e.t): testutil.RandomCapellaCoreVersionedProposal()})
				default:
					err = nd.cons.Propose(pctx, d, core.UnsignedDataSet{testutil.RandomCorePubKey(e.t): testutil.RandomCoreAttestationData(e.t)})
				}
				_ = err
			}(i, nd)
		}
		_ = props
		done := make(chan struct{})
		go func() { wg.Wait(); close(done) }()
		select {
		case <-done:
		case <-time.After(40 * time.Second):
			c.R.Count("honest_run_watchdog", 1)
		}
	}
	run(duty, false)
	run(core.Duty{Slot: duty.Slot, Type: duty.Type + 0}, false)
	d2 := core.Duty{Slot: duty.Slot + 1, Type: core.DutyProposer}
	run(d2, true)
	net.WaitIdle()
	mu.Lock()
	defer mu.Unlock()
	// only messages for `duty` can be replayed against the target (it gates on duty); keep d2's too:
	// the target treats every allowed duty alike.
	out := append([]base(nil), rec...)
	c.R.Count("recorded_honest_messages", int64(len(out)))
	dec := 0
	for _, nd := range nodes {
		nd.mu.Lock()
		dec += len(nd.decided)
		nd.mu.Unlock()
	}
	c.R.Count("honest_decisions", int64(dec))

	return out
}

func typeName(t int64) string {
	switch t {
	case 1:
		return "pre_prepare"
	case 2:
		return "prepare"
	case 3:
		return "commit"
	case 4:
		return "round_change"
	case 5:
		return "decided"
	default:
		return fmt.Sprintf("type%d", t)
	}
}

func zero32() []byte { return make([]byte, 32) }

// synthesize builds valid messages of the shapes honest runs rarely put on the wire.
func synthesize(e *env, duty core.Duty, rng *rand.Rand) []base {
	v1 := &pbv1.PriorityResult{Msgs: []*pbv1.PriorityMsg{{Duty: core.DutyToProto(duty), PeerId: fmt.Sprint("v1-", rng.Int63())}}}
	v2 := &pbv1.PriorityResult{Msgs: []*pbv1.PriorityMsg{{Duty: core.DutyToProto(duty), PeerId: fmt.Sprint("v2-", rng.Int63())}}}
	h1, h2 := hashProtoIndep(v1), hashProtoIndep(v2)
	q := (2*e.n + 2) / 3
	var out []base
	// prepares of round 1 for v1 by a quorum
	var prepares []*pbv1.QBFTMsg
	for i := 0; i < q; i++ {
		prepares = append(prepares, e.mkMsg(2, duty, i, 1, h1[:], 0, zero32()))
	}
	// ROUND-CHANGE with a prepared claim
	rc := e.mkMsg(4, duty, 0, 2, zero32(), 1, h1[:])
	out = append(out, base{Name: "built-round_change-prepared#0", From: 0, W: &pbv1.QBFTConsensusMsg{Msg: rc, Justification: prepares, Values: []*anypb.Any{anyOf(v1)}}})
	// ROUND-CHANGE whose prepared value is referenced by prepared_value_hash ONLY (no PREPARE beside it
	// carries that hash as its value hash), alone and as a justification of a PRE-PREPARE
	v3 := &pbv1.PriorityResult{Msgs: []*pbv1.PriorityMsg{{Duty: core.DutyToProto(duty), PeerId: fmt.Sprint("v3-", rng.Int63())}}}
	h3 := hashProtoIndep(v3)
	rc3 := e.mkMsg(4, duty, 2%e.n, 2, zero32(), 1, h3[:])
	out = append(out, base{Name: "built-round_change-prepared-value-referenced-by-prepared-hash-only#0", From: 2 % e.n, W: &pbv1.QBFTConsensusMsg{Msg: rc3, Values: []*anypb.Any{anyOf(v3)}}})
	{
		l2 := int((int64(duty.Slot) + int64(duty.Type) + 2) % int64(e.n))
		out = append(out, base{Name: "built-pre_prepare-with-justification-prepared-hash-only#0", From: l2, W: &pbv1.QBFTConsensusMsg{
			Msg: e.mkMsg(1, duty, l2, 2, h1[:], 0, zero32()), Justification: []*pbv1.QBFTMsg{rc3, e.mkMsg(2, duty, 1, 1, h1[:], 1, h3[:])},
			Values: []*anypb.Any{anyOf(v1), anyOf(v3)}}})
	}
	// null ROUND-CHANGE
	out = append(out, base{Name: "built-round_change-null#0", From: 1, W: &pbv1.QBFTConsensusMsg{Msg: e.mkMsg(4, duty, 1, 2, zero32(), 0, zero32())}})
	// justified PRE-PREPARE for round 2 by its leader: quorum ROUND-CHANGEs (one prepared) + the prepares
	leader2 := int((int64(duty.Slot) + int64(duty.Type) + 2) % int64(e.n))
	var just []*pbv1.QBFTMsg
	just = append(just, rc)
	for i := 1; i < q; i++ {
		just = append(just, e.mkMsg(4, duty, i, 2, zero32(), 0, zero32()))
	}
	just = append(just, prepares...)
	out = append(out, base{Name: "built-pre_prepare-justified#0", From: leader2, W: &pbv1.QBFTConsensusMsg{Msg: e.mkMsg(1, duty, leader2, 2, h1[:], 0, zero32()), Justification: just, Values: []*anypb.Any{anyOf(v1)}}})
	// the largest justification an honest leader can attach (getJustifiedQrc does not trim to quorum size):
	// ROUND-CHANGEs of all n members plus PREPAREs of all n members = 2n entries, exactly the documented limit
	{
		var jmax []*pbv1.QBFTMsg
		allPrep := append([]*pbv1.QBFTMsg(nil), prepares...)
		for i := q; i < e.n; i++ {
			allPrep = append(allPrep, e.mkMsg(2, duty, i, 1, h1[:], 0, zero32()))
		}
		jmax = append(jmax, rc)
		for i := 1; i < e.n; i++ {
			jmax = append(jmax, e.mkMsg(4, duty, i, 2, zero32(), 0, zero32()))
		}
		jmax = append(jmax, allPrep...)
		out = append(out, base{Name: "built-pre_prepare-justified-max#0", From: leader2, W: &pbv1.QBFTConsensusMsg{Msg: e.mkMsg(1, duty, leader2, 2, h1[:], 0, zero32()), Justification: jmax, Values: []*anypb.Any{anyOf(v1)}}})
		// one below the limit: all round changes plus a quorum of prepares (n+q)
		out = append(out, base{Name: "built-pre_prepare-justified-n-plus-q#0", From: leader2, W: &pbv1.QBFTConsensusMsg{Msg: e.mkMsg(1, duty, leader2, 2, h1[:], 0, zero32()), Justification: append(append([]*pbv1.QBFTMsg(nil), jmax[:e.n]...), prepares...), Values: []*anypb.Any{anyOf(v1)}}})
	}
	// DECIDED with a commit quorum
	var commits []*pbv1.QBFTMsg
	for i := 0; i < q; i++ {
		commits = append(commits, e.mkMsg(3, duty, i, 1, h2[:], 0, zero32()))
	}
	out = append(out, base{Name: "built-decided#0", From: 2, W: &pbv1.QBFTConsensusMsg{Msg: e.mkMsg(5, duty, 2, 1, h2[:], 0, zero32()), Justification: commits, Values: []*anypb.Any{anyOf(v2)}}})
	// plain PRE-PREPARE / PREPARE / COMMIT
	leader1 := int((int64(duty.Slot) + int64(duty.Type) + 1) % int64(e.n))
	out = append(out, base{Name: "built-pre_prepare#0", From: leader1, W: &pbv1.QBFTConsensusMsg{Msg: e.mkMsg(1, duty, leader1, 1, h2[:], 0, zero32()), Values: []*anypb.Any{anyOf(v2)}}})
	out = append(out, base{Name: "built-prepare#0", From: 1, W: &pbv1.QBFTConsensusMsg{Msg: e.mkMsg(2, duty, 1, 1, h2[:], 0, zero32()), Values: []*anypb.Any{anyOf(v2)}}})
	out = append(out, base{Name: "built-commit#0", From: 2, W: &pbv1.QBFTConsensusMsg{Msg: e.mkMsg(3, duty, 2, 1, h2[:], 0, zero32()), Values: []*anypb.Any{anyOf(v2)}}})

	return out
}

// leaf is one scalar field reachable in a message.
type leaf struct {
	path string
	set  func(m protoreflect.Message, v protoreflect.Value)
	get  func(m protoreflect.Message) protoreflect.Value
	fd   protoreflect.FieldDescriptor
	nav  func(root protoreflect.Message) protoreflect.Message
}

// leaves enumerates every populated scalar leaf of m (recursively, including repeated messages).
func leaves(root protoreflect.Message) []leaf {
	var out []leaf
	var walk func(prefix string, nav func(protoreflect.Message) protoreflect.Message)
	walk = func(prefix string, nav func(protoreflect.Message) protoreflect.Message) {
		m := nav(root)
		fds := m.Descriptor().Fields()
		for i := 0; i < fds.Len(); i++ {
			fd := fds.Get(i)
			name := prefix + string(fd.Name())
			switch {
			case fd.IsList() && fd.Kind() == protoreflect.MessageKind:
				l := m.Get(fd).List()
				for k := 0; k < l.Len(); k++ {
					k := k
					walk(fmt.Sprintf("%s[%d].", name, k), func(r protoreflect.Message) protoreflect.Message {
						return nav(r).Mutable(fd).List().Get(k).Message()
					})
				}
			case fd.IsList() || fd.IsMap():
				// no scalar lists/maps in these messages
			case fd.Kind() == protoreflect.MessageKind:
				if m.Has(fd) {
					walk(name+".", func(r protoreflect.Message) protoreflect.Message { return nav(r).Mutable(fd).Message() })
				}
			default:
				out = append(out, leaf{path: name, fd: fd, nav: nav})
			}
		}
	}
	walk("", func(r protoreflect.Message) protoreflect.Message { return r })

	return out
}

// alterValues returns representative other values for a leaf.
func alterValues(fd protoreflect.FieldDescriptor, cur protoreflect.Value, rng *rand.Rand, n int) []protoreflect.Value {
	var out []protoreflect.Value
	switch fd.Kind() {
	case protoreflect.Int64Kind, protoreflect.Sint64Kind, protoreflect.Sfixed64Kind:
		v := cur.Int()
		for _, x := range []int64{v + 1, v - 1, v ^ 2, v + 7} {
			if x != v {
				out = append(out, protoreflect.ValueOfInt64(x))
			}
		}
	case protoreflect.Int32Kind, protoreflect.Sint32Kind, protoreflect.Sfixed32Kind:
		v := int32(cur.Int())
		for _, x := range []int32{v + 1, v - 1, v ^ 2} {
			out = append(out, protoreflect.ValueOfInt32(x))
		}
	case protoreflect.Uint64Kind, protoreflect.Fixed64Kind:
		v := cur.Uint()
		for _, x := range []uint64{v + 1, v - 1, v ^ 4} {
			out = append(out, protoreflect.ValueOfUint64(x))
		}
	case protoreflect.Uint32Kind, protoreflect.Fixed32Kind:
		v := uint32(cur.Uint())
		for _, x := range []uint32{v + 1, v - 1} {
			out = append(out, protoreflect.ValueOfUint32(x))
		}
	case protoreflect.EnumKind:
		out = append(out, protoreflect.ValueOfEnum(cur.Enum()+1))
	case protoreflect.BoolKind:
		out = append(out, protoreflect.ValueOfBool(!cur.Bool()))
	case protoreflect.StringKind:
		s := cur.String()
		out = append(out, protoreflect.ValueOfString(s+"x"))
		if len(s) > 1 {
			out = append(out, protoreflect.ValueOfString(s[:len(s)-1]))
		}
	case protoreflect.BytesKind:
		b := cur.Bytes()
		flip := func(i int) protoreflect.Value {
			c := append([]byte(nil), b...)
			c[i] ^= 1 << uint(rng.Intn(8))
			return protoreflect.ValueOfBytes(c)
		}
		if len(b) > 0 {
			out = append(out, flip(0), flip(len(b)/2), flip(len(b)-1), flip(rng.Intn(len(b))))
			out = append(out, protoreflect.ValueOfBytes(b[:len(b)-1]))
		}
		out = append(out, protoreflect.ValueOfBytes(append(append([]byte(nil), b...), 0x01)))
	}
	rng.Shuffle(len(out), func(i, j int) { out[i], out[j] = out[j], out[i] })
	if len(out) > n {
		out = out[:n]
	}

	return out
}

func alterations(in *injector, b base, duty core.Duty, distinct func(string)) {
	e := in.e
	rng := in.rng
	perLeaf := 2
	if in.r.Thorough() {
		perLeaf = 4
	}
	tname := strings.SplitN(b.Name, "#", 2)[0]
	// (b)+(c) every leaf, no re-signing
	for _, lf := range leaves(b.W.ProtoReflect()) {
		cur := lf.nav(b.W.ProtoReflect()).Get(lf.fd)
		for _, nv := range alterValues(lf.fd, cur, rng, perLeaf) {
			w := proto.Clone(b.W).(*pbv1.QBFTConsensusMsg)
			lf.nav(w.ProtoReflect()).Set(lf.fd, nv)
			if proto.Equal(w, b.W) {
				continue
			}
			distinct(kit.Hash(tname, "leaf", lf.path, nv.String()))
			if isUnsignedEnvelopeNoop(lf.path, b.W, w) {
				in.universal("leaf-not-covered", b.From, w, b.Name)
				continue
			}
			in.mustReject("leaf-altered", lf.path, b.From, w, b.Name)
		}
	}
	// (d) substitutions
	other := (int(b.W.GetMsg().GetPeerIdx()) + 1) % e.n
	{ // signature by another member, source unchanged
		w := proto.Clone(b.W).(*pbv1.QBFTConsensusMsg)
		w.Msg = signIndep(w.Msg, e.keys[other])
		in.mustReject("signed-by-other-member", "msg.signature", b.From, w, b.Name)
	}
	{ // signature by a non-member
		w := proto.Clone(b.W).(*pbv1.QBFTConsensusMsg)
		w.Msg = signIndep(w.Msg, e.stranger)
		in.mustReject("signed-by-non-member", "msg.signature", b.From, w, b.Name)
	}
	{ // source relabelled to the member whose key signs: authentic but another source — admitted is fine (it IS that member's message)
		w := proto.Clone(b.W).(*pbv1.QBFTConsensusMsg)
		w.Msg.PeerIdx = int64(other)
		w.Msg = signIndep(w.Msg, e.keys[other])
		in.universal("resigned-as-other-member", other, w, b.Name)
	}
	otherDuty := core.Duty{Slot: duty.Slot, Type: core.DutyAggregator}
	if len(b.W.GetJustification()) > 0 {
		k := rng.Intn(len(b.W.GetJustification()))
		j := b.W.GetJustification()[k]
		own := core.DutyFromProto(b.W.GetMsg().GetDuty()) // the duty of THIS recorded message
		// justification from another duty (validly signed by its source for THAT duty — what a member
		// that saw the other duty's traffic can replay): each component of the duty differing alone
		for _, od := range []struct {
			name string
			d    core.Duty
		}{
			{"type", otherDuty},
			{"slot", core.Duty{Slot: own.Slot + 1, Type: own.Type}},
			{"slot", core.Duty{Slot: own.Slot - 1, Type: own.Type}},
			{"slot", core.Duty{Slot: own.Slot + 1<<32, Type: own.Type}},
		} {
			if od.d == own {
				continue
			}
			w := proto.Clone(b.W).(*pbv1.QBFTConsensusMsg)
			jj := proto.Clone(j).(*pbv1.QBFTMsg)
			jj.Duty = core.DutyToProto(od.d)
			w.Justification[k] = signIndep(jj, e.keys[jj.GetPeerIdx()])
			in.mustReject("justification-of-other-duty", fmt.Sprintf("justification[%d].duty.%s", k, od.name), b.From, w, b.Name)
		}
		{ // justification signed by a non-member key
			w := proto.Clone(b.W).(*pbv1.QBFTConsensusMsg)
			w.Justification[k] = signIndep(proto.Clone(j).(*pbv1.QBFTMsg), e.stranger)
			in.mustReject("justification-signed-by-non-member", fmt.Sprintf("justification[%d].signature", k), b.From, w, b.Name)
		}
		{ // justification signed by another member than its source
			w := proto.Clone(b.W).(*pbv1.QBFTConsensusMsg)
			w.Justification[k] = signIndep(proto.Clone(j).(*pbv1.QBFTMsg), e.keys[(int(j.GetPeerIdx())+1)%e.n])
			in.mustReject("justification-signed-by-other-member", fmt.Sprintf("justification[%d].signature", k), b.From, w, b.Name)
		}
		{ // ill-formed but validly signed justification
			w := proto.Clone(b.W).(*pbv1.QBFTConsensusMsg)
			jj := proto.Clone(j).(*pbv1.QBFTMsg)
			jj.Round = 0
			w.Justification[k] = signIndep(jj, e.keys[jj.GetPeerIdx()])
			in.mustReject("justification-round-zero-resigned", fmt.Sprintf("justification[%d].round", k), b.From, w, b.Name)
		}
		{ // dropping / reordering whole justifications: not covered by the statement
			w := proto.Clone(b.W).(*pbv1.QBFTConsensusMsg)
			w.Justification = append(w.Justification[:k], w.Justification[k+1:]...)
			in.universal("justification-dropped", b.From, w, b.Name)
			w2 := proto.Clone(b.W).(*pbv1.QBFTConsensusMsg)
			rng.Shuffle(len(w2.Justification), func(i, j int) { w2.Justification[i], w2.Justification[j] = w2.Justification[j], w2.Justification[i] })
			in.universal("justification-reordered", b.From, w2, b.Name)
		}
	}
	// cross-element reuse: an authentic sub-message followed by copies that keep its signature bytes but
	// alter signed fields (a verifier that caches "already verified" by signature would admit them)
	{
		dutyOf := core.DutyFromProto(b.W.GetMsg().GetDuty())
		var seedJ *pbv1.QBFTMsg
		if js := b.W.GetJustification(); len(js) > 0 {
			seedJ = js[rng.Intn(len(js))]
		} else {
			seedJ = e.mkMsg(3, dutyOf, other, 1, zero32(), 0, zero32())
		}
		alter := []struct {
			name string
			mut  func(m *pbv1.QBFTMsg)
		}{
			{"peer_idx", func(m *pbv1.QBFTMsg) { m.PeerIdx = (m.GetPeerIdx() + 1) % int64(e.n) }},
			{"round", func(m *pbv1.QBFTMsg) { m.Round++ }},
			{"type", func(m *pbv1.QBFTMsg) { m.Type = m.GetType()%5 + 1 }},
			{"duty", func(m *pbv1.QBFTMsg) { m.Duty = core.DutyToProto(otherDuty) }},
		}
		for _, a := range alter {
			for _, where := range []string{"after", "before"} {
				w := proto.Clone(b.W).(*pbv1.QBFTConsensusMsg)
				if len(w.Justification)+2 > 2*e.n {
					w.Justification = w.Justification[:2*e.n-2]
				}
				cp := proto.Clone(seedJ).(*pbv1.QBFTMsg)
				a.mut(cp) // signature bytes kept
				if where == "after" {
					w.Justification = append(w.Justification, proto.Clone(seedJ).(*pbv1.QBFTMsg), cp)
				} else {
					w.Justification = append(w.Justification, cp, proto.Clone(seedJ).(*pbv1.QBFTMsg))
				}
				in.mustReject("justification-copy-with-reused-signature", "justification[]."+a.name, b.From, w, b.Name)
			}
		}
		{ // the top-level message's own signature reused on an altered copy inside the justifications
			w := proto.Clone(b.W).(*pbv1.QBFTConsensusMsg)
			if len(w.Justification)+1 > 2*e.n {
				w.Justification = w.Justification[:2*e.n-1]
			}
			cp := proto.Clone(b.W.GetMsg()).(*pbv1.QBFTMsg)
			cp.PeerIdx = (cp.GetPeerIdx() + 1) % int64(e.n)
			w.Justification = append(w.Justification, cp)
			in.mustReject("justification-copy-with-reused-signature", "justification[].peer_idx(top-level signature)", b.From, w, b.Name)
		}
		{ // duplicated authentic justification: not forbidden by the statement
			w := proto.Clone(b.W).(*pbv1.QBFTConsensusMsg)
			if len(w.Justification)+2 <= 2*e.n {
				w.Justification = append(w.Justification, proto.Clone(seedJ).(*pbv1.QBFTMsg), proto.Clone(seedJ).(*pbv1.QBFTMsg))
				in.universal("justification-duplicated", b.From, w, b.Name)
			}
		}
	}
	if len(b.W.GetValues()) > 0 {
		{ // referenced value removed
			w := proto.Clone(b.W).(*pbv1.QBFTConsensusMsg)
			w.Values = nil
			in.mustReject("referenced-values-removed", "values", b.From, w, b.Name)
		}
		for i := range b.W.GetValues() { // exactly one value removed / altered by one byte: must be rejected iff some hash still refers to it
			for _, how := range []string{"removed", "byte-flipped", "padded-with-unknown-field", "padded-with-large-unknown-field"} {
				w := proto.Clone(b.W).(*pbv1.QBFTConsensusMsg)
				switch {
				case how == "removed":
					w.Values = append(w.Values[:i:i], w.Values[i+1:]...)
				case how == "byte-flipped":
					if len(w.Values[i].Value) > 0 {
						w.Values[i].Value[rng.Intn(len(w.Values[i].Value))] ^= 0x01
					}
				default:
					// bytes in a protobuf field the receiver's schema does not know (a newer peer, or padding
					// added by a relaying member): still a decodable value of the same type, but not the bytes
					// the signed hash refers to (seeded change C05-r7)
					n := 1 + rng.Intn(24)
					if how == "padded-with-large-unknown-field" {
						n = 20000
					}
					pad := make([]byte, n)
					rng.Read(pad)
					w.Values[i].Value = protowire.AppendBytes(protowire.AppendTag(append([]byte(nil), w.Values[i].Value...), protowire.Number(1000+rng.Intn(1000)), protowire.BytesType), pad)
				}
				if in.e.wellFormed(w, in.target()) != nil {
					in.mustReject("one-referenced-value-"+how, "values[]", b.From, w, b.Name)
				} else {
					in.universal("one-value-"+how+"-still-wellformed", b.From, w, b.Name)
				}
			}
		}
		{ // referenced value replaced by another valid value
			w := proto.Clone(b.W).(*pbv1.QBFTConsensusMsg)
			for i := range w.Values {
				w.Values[i] = anyOf(&pbv1.PriorityResult{Msgs: []*pbv1.PriorityMsg{{PeerId: fmt.Sprint("other-", rng.Int63())}}})
			}
			in.mustReject("referenced-values-replaced", "values[].value", b.From, w, b.Name)
		}
		{ // extra unreferenced value within the limit: not covered
			w := proto.Clone(b.W).(*pbv1.QBFTConsensusMsg)
			w.Values = append(w.Values, anyOf(&pbv1.PriorityResult{Msgs: []*pbv1.PriorityMsg{{PeerId: "extra"}}}))
			in.universal("extra-unreferenced-value", b.From, w, b.Name)
		}
	}
	// (e) limits
	{
		w := proto.Clone(b.W).(*pbv1.QBFTConsensusMsg)
		for len(w.Justification) <= 2*e.n {
			w.Justification = append(w.Justification, e.mkMsg(2, core.DutyFromProto(b.W.GetMsg().GetDuty()), rng.Intn(e.n), 1, zero32(), 0, zero32()))
		}
		in.mustReject("too-many-justifications", "justification", b.From, w, b.Name)
	}
	{
		w := proto.Clone(b.W).(*pbv1.QBFTConsensusMsg)
		for len(w.Values) <= 2*(len(w.Justification)+1) {
			w.Values = append(w.Values, anyOf(&pbv1.PriorityResult{Msgs: []*pbv1.PriorityMsg{{PeerId: fmt.Sprint("pad-", len(w.Values))}}}))
		}
		in.mustReject("too-many-values", "values", b.From, w, b.Name)
	}
	// (f) validly re-signed but ill-formed top-level message
	resigned := func(class, path string, mut func(m *pbv1.QBFTMsg)) {
		w := proto.Clone(b.W).(*pbv1.QBFTConsensusMsg)
		mut(w.Msg)
		key := e.keys[0]
		if idx := w.Msg.GetPeerIdx(); idx >= 0 && int(idx) < e.n {
			key = e.keys[idx]
		}
		w.Msg = signIndep(w.Msg, key)
		in.mustReject(class, path, b.From, w, b.Name)
	}
	resigned("resigned-round-zero", "msg.round", func(m *pbv1.QBFTMsg) { m.Round = 0 })
	resigned("resigned-round-negative", "msg.round", func(m *pbv1.QBFTMsg) { m.Round = -3 })
	resigned("resigned-prepared-round-negative", "msg.prepared_round", func(m *pbv1.QBFTMsg) { m.PreparedRound = -1 })
	resigned("resigned-type-zero", "msg.type", func(m *pbv1.QBFTMsg) { m.Type = 0 })
	resigned("resigned-type-sentinel", "msg.type", func(m *pbv1.QBFTMsg) { m.Type = 6 })
	resigned("resigned-type-huge", "msg.type", func(m *pbv1.QBFTMsg) { m.Type = 99 })
	resigned("resigned-duty-type-unknown", "msg.duty.type", func(m *pbv1.QBFTMsg) { m.Duty.Type = 0 })
	resigned("resigned-duty-type-invalid", "msg.duty.type", func(m *pbv1.QBFTMsg) { m.Duty.Type = 100 })
	resigned("resigned-peer-index-n", "msg.peer_idx", func(m *pbv1.QBFTMsg) { m.PeerIdx = int64(e.n) })
	resigned("resigned-peer-index-negative", "msg.peer_idx", func(m *pbv1.QBFTMsg) { m.PeerIdx = -1 })
	resigned("resigned-duty-nil", "msg.duty", func(m *pbv1.QBFTMsg) { m.Duty = nil })
	farSlot := (uint64(e.gateNow.Sub(e.genesis)/e.slotDur)/e.slotsPerEpoch + 4) * e.slotsPerEpoch
	{ // whole message consistently moved to a duty beyond the gater window (everything re-signed)
		w := proto.Clone(b.W).(*pbv1.QBFTConsensusMsg)
		far := core.DutyToProto(core.Duty{Slot: farSlot, Type: core.DutyFromProto(b.W.GetMsg().GetDuty()).Type})
		w.Msg.Duty = far
		w.Msg = signIndep(w.Msg, e.keys[w.Msg.GetPeerIdx()])
		for i, j := range w.Justification {
			j.Duty = far
			w.Justification[i] = signIndep(j, e.keys[j.GetPeerIdx()])
		}
		in.mustReject("duty-beyond-allowed-window", "msg.duty.slot", b.From, w, b.Name)
	}
	// boundary slots: values at which a signed / narrowed epoch comparison wraps (2^63, 2^63+now, max uint64, 2^32…)
	for _, bs := range []uint64{1 << 63, 1<<63 + duty.Slot, ^uint64(0), ^uint64(0) - duty.Slot, 1<<32 + duty.Slot + 100*e.slotsPerEpoch, 1 << 62} {
		w := proto.Clone(b.W).(*pbv1.QBFTConsensusMsg)
		far := core.DutyToProto(core.Duty{Slot: bs, Type: core.DutyFromProto(b.W.GetMsg().GetDuty()).Type})
		w.Msg.Duty = far
		w.Msg = signIndep(w.Msg, e.keys[w.Msg.GetPeerIdx()])
		for i, j := range w.Justification {
			j.Duty = far
			w.Justification[i] = signIndep(j, e.keys[j.GetPeerIdx()])
		}
		in.mustReject("duty-beyond-allowed-window", "msg.duty.slot(boundary)", b.From, w, b.Name)
	}
	{ // expired duty per the deadliner (everything re-signed for that duty)
		exp := core.Duty{Slot: duty.Slot - 40, Type: core.DutyFromProto(b.W.GetMsg().GetDuty()).Type}
		in.target().dl.expire(exp)
		w := proto.Clone(b.W).(*pbv1.QBFTConsensusMsg)
		w.Msg.Duty = core.DutyToProto(exp)
		w.Msg = signIndep(w.Msg, e.keys[w.Msg.GetPeerIdx()])
		for i, j := range w.Justification {
			j.Duty = core.DutyToProto(exp)
			w.Justification[i] = signIndep(j, e.keys[j.GetPeerIdx()])
		}
		in.mustReject("expired-duty", "msg.duty.slot", b.From, w, b.Name)
	}
	{ // expired duty for which the local node itself started (too late) to propose or participate:
		// the skipped instance must not make later peer messages for that duty acceptable
		nd := in.target()
		exp := core.Duty{Slot: duty.Slot - 41 - uint64(rng.Intn(8)), Type: core.DutyFromProto(b.W.GetMsg().GetDuty()).Type}
		nd.dl.expire(exp)
		lctx, lcancel := context.WithTimeout(nd.ctx, 10*time.Second)
		var lerr error
		how := "propose"
		if rng.Intn(2) == 0 {
			lerr = nd.cons.ProposePriority(lctx, exp, &pbv1.PriorityResult{Msgs: []*pbv1.PriorityMsg{{PeerId: "late"}}})
		} else {
			how = "participate"
			lerr = nd.cons.Participate(lctx, exp)
		}
		lcancel()
		in.r.Count("late_local_start_for_expired_duty/"+how, 1)
		if lerr != nil {
			in.r.Count("late_local_start_error/"+kit.Short(lerr.Error(), 50), 1)
		}
		w := proto.Clone(b.W).(*pbv1.QBFTConsensusMsg)
		w.Msg.Duty = core.DutyToProto(exp)
		w.Msg = signIndep(w.Msg, e.keys[w.Msg.GetPeerIdx()])
		for i, j := range w.Justification {
			j.Duty = core.DutyToProto(exp)
			w.Justification[i] = signIndep(j, e.keys[j.GetPeerIdx()])
		}
		in.mustReject("expired-duty-after-late-local-start", "msg.duty.slot", b.From, w, b.Name)
	}
}

// isUnsignedEnvelopeNoop: an alteration of the outer envelope that leaves every signed message and
// every referenced value semantically intact is not covered by the statement. With the current
// wire format no populated leaf is of that kind except the Any type_url's host prefix, which
// protobuf ignores when resolving the message type.
func isUnsignedEnvelopeNoop(path string, orig, alt *pbv1.QBFTConsensusMsg) bool {
	if !strings.Contains(path, "type_url") {
		return false
	}
	for i, v := range alt.GetValues() {
		ov := orig.GetValues()[i]
		if v.GetTypeUrl() == ov.GetTypeUrl() {
			continue
		}
		// still resolvable to the same message type?
		if v.MessageName() != ov.MessageName() {
			return false
		}
		if _, err := v.UnmarshalNew(); err != nil {
			return false
		}
	}

	return true
}

// garbage: arbitrary byte strings and truncated frames.
func garbage(in *injector, bases []base) {
	rng := in.rng
	check := func(class string, frame []byte) {
		o := in.injectRaw(0, frame)
		in.r.Count("garbage/"+class, 1)
		if o.Admitted {
			// an arbitrary frame may by chance be a valid message only if it decodes to an authentic one
			w := new(pbv1.QBFTConsensusMsg)
			if err := fakenet.Unframe(frame, w); err != nil || in.e.wellFormed(w, in.nd) != nil {
				in.c.Violation("consensus/admitted/garbage-frame/"+class, "an arbitrary / truncated frame was admitted by the receive handler",
					map[string]any{"class": class, "frame_hex_prefix": fmt.Sprintf("%x", frame[:min(len(frame), 64)]), "len": len(frame)})
			}
		} else {
			in.r.Seen("rejected_by", "garbage/"+class+" -> "+reasonClass(o.Reason))
		}
	}
	for i := 0; i < 12; i++ {
		b := make([]byte, rng.Intn(200))
		rng.Read(b)
		check("random-bytes", b)
	}
	check("empty", nil)
	for _, b := range bases {
		frame, err := fakenet.Frame(b.W)
		if err != nil || len(frame) < 4 {
			continue
		}
		for _, cut := range []int{1, len(frame) / 2, len(frame) - 1} {
			check("truncated", frame[:cut])
		}
		c := append([]byte(nil), frame...)
		c[rng.Intn(len(c))] ^= 0xff
		w := new(pbv1.QBFTConsensusMsg)
		if err := fakenet.Unframe(c, w); err != nil || !proto.Equal(w, b.W) {
			check("byte-flipped-frame", c)
		}
		if rng.Intn(3) == 0 {
			break
		}
	}
}

// snifferPhase cross-checks the admission signal against the instance sniffer: a running instance
// on the target receives a mix of valid and altered messages; exactly the valid ones may show up
// in the sniffed instance.
func snifferPhase(c *kit.Case, e *env, duty core.Duty, bases []base, rng *rand.Rand) {
	nd := e.newNode(fakenet.New(), e.n-1)
	defer nd.cancel()
	d := core.Duty{Slot: uint64(time.Since(e.genesis)/e.slotDur) + 1, Type: core.DutyRandao}
	pctx, pcancel := context.WithCancel(nd.ctx)
	done := make(chan struct{})
	go func() {
		defer close(done)
		_ = nd.cons.ProposePriority(pctx, d, &pbv1.PriorityResult{Msgs: []*pbv1.PriorityMsg{{PeerId: "own"}}})
	}()
	v := &pbv1.PriorityResult{Msgs: []*pbv1.PriorityMsg{{PeerId: fmt.Sprint("sniff-", rng.Int63())}}}
	h := hashProtoIndep(v)
	var valid, altered []*pbv1.QBFTConsensusMsg
	for i := 0; i < e.n-1 && i < 3; i++ {
		valid = append(valid, &pbv1.QBFTConsensusMsg{Msg: e.mkMsg(2, d, i, 1, h[:], 0, zero32()), Values: []*anypb.Any{anyOf(v)}})
		bad := &pbv1.QBFTConsensusMsg{Msg: e.mkMsg(2, d, i, 1, h[:], 0, zero32()), Values: []*anypb.Any{anyOf(v)}}
		bad.Msg.Round = 2 // altered after signing
		altered = append(altered, bad)
		bad2 := &pbv1.QBFTConsensusMsg{Msg: e.mkMsg(3, d, i, 1, h[:], 0, zero32()), Values: []*anypb.Any{anyOf(&pbv1.PriorityResult{Msgs: []*pbv1.PriorityMsg{{PeerId: "swapped"}}})}}
		altered = append(altered, bad2)
	}
	for _, w := range append(append([]*pbv1.QBFTConsensusMsg(nil), altered...), valid...) {
		nd.net.Inject(e.ids[w.GetMsg().GetPeerIdx()], e.ids[nd.idx], protoQBFT, w)
	}
	// the instance consumes its receive buffer asynchronously: wait until the valid ones were sniffed (pacing only)
	time.Sleep(400 * time.Millisecond)
	pcancel()
	select {
	case <-done:
	case <-time.After(20 * time.Second):
		c.R.Inconclusive("sniffer phase: instance did not stop")
		return
	}
	ok := kit.WaitUntil(10*time.Second, func() bool { nd.mu.Lock(); defer nd.mu.Unlock(); return len(nd.sniffed) > 0 })
	if !ok {
		c.R.Inconclusive("sniffer phase: no sniffed instance delivered")
		return
	}
	nd.mu.Lock()
	inst := nd.sniffed[0]
	nd.mu.Unlock()
	for _, sm := range inst.GetMsgs() {
		w := sm.GetMsg()
		if int(w.GetMsg().GetPeerIdx()) == nd.idx {
			continue // own messages
		}
		c.R.Count("sniffed_peer_messages", 1)
		if err := e.wellFormed(w, nd); err != nil {
			c.Violation("consensus/sniffed-not-wellformed", fmt.Sprintf("a message that is not authentic/well-formed reached the consensus instance: %v", err), map[string]any{"msg": protoText(w)})
		}
		for _, a := range altered {
			if proto.Equal(a, w) {
				c.Violation("consensus/altered-message-reached-instance", "an altered message reached the consensus instance (sniffer)", map[string]any{"msg": protoText(w)})
			}
		}
	}
}

// decidePayloadPhase: the target runs an instance; the other members' (harness-signed) messages
// carry the leader's value; the delivered payload must be exactly the proposed data whose hash was
// agreed, and messages that carry another value under that hash must not lead to its delivery.
func decidePayloadPhase(c *kit.Case, e *env, duty core.Duty, rng *rand.Rand) {
	for variant := 0; variant < 2; variant++ {
		nd := e.newNode(fakenet.New(), e.n-1)
		// the production round timer is anchored to the duty's slot: use a slot that starts now-ish
		d := core.Duty{Slot: uint64(time.Since(e.genesis)/e.slotDur) + 1 + uint64(variant), Type: duty.Type}
		good := core.UnsignedDataSet{testutil.RandomCorePubKey(e.t): testutil.RandomCoreAttestationData(e.t)}
		evil := core.UnsignedDataSet{testutil.RandomCorePubKey(e.t): testutil.RandomCoreAttestationData(e.t)}
		goodPB, _ := core.UnsignedDataSetToProto(good)
		evilPB, _ := core.UnsignedDataSetToProto(evil)
		h := hashProtoIndep(goodPB)
		leader1 := int((int64(d.Slot) + int64(d.Type) + 1) % int64(e.n))
		if leader1 == nd.idx {
			nd.cancel()
			continue
		}
		carried := goodPB
		if variant == 1 {
			carried = evilPB // messages reference hash(good) but carry another value
		}
		pctx, pcancel := context.WithTimeout(nd.ctx, 30*time.Second)
		done := make(chan struct{})
		go func() {
			defer close(done)
			if err := nd.cons.Propose(pctx, d, core.UnsignedDataSet{testutil.RandomCorePubKey(e.t): testutil.RandomCoreAttestationData(e.t)}); err != nil {
				c.R.Count("decide_payload_propose_error/"+kit.Short(err.Error(), 60), 1)
			}
		}()
		vals := []*anypb.Any{anyOf(carried)}
		send := func(typ int64, src int) {
			nd.net.Inject(e.ids[src], e.ids[nd.idx], protoQBFT, &pbv1.QBFTConsensusMsg{Msg: e.mkMsg(typ, d, src, 1, h[:], 0, zero32()), Values: vals})
		}
		send(1, leader1)
		q := (2*e.n + 2) / 3
		cnt := 0
		for i := 0; i < e.n && cnt < q; i++ {
			if i == nd.idx {
				continue
			}
			send(2, i)
			cnt++
		}
		cnt = 0
		for i := 0; i < e.n && cnt < q; i++ {
			if i == nd.idx {
				continue
			}
			send(3, i)
			cnt++
		}
		decided := kit.WaitUntil(map[int]time.Duration{0: 15 * time.Second, 1: 300 * time.Millisecond}[variant], func() bool { nd.mu.Lock(); defer nd.mu.Unlock(); return len(nd.decided) > 0 })
		pcancel()
		<-done
		nd.mu.Lock()
		decs := append([]decidedEv(nil), nd.decided...)
		nd.mu.Unlock()
		nd.cancel()
		if variant == 0 {
			if !decided {
				c.R.Count("decide_payload_phase_no_decision", 1)
				continue
			}
			c.R.Count("decide_payload_checked", 1)
		}
		for _, dv := range decs {
			got, err := core.UnsignedDataSetToProto(dv.Set)
			if err != nil {
				continue
			}
			gh := hashProtoIndep(got)
			if !bytes.Equal(gh[:], h[:]) || !proto.Equal(got, goodPB) {
				c.Violation("consensus/decided-payload-differs-from-agreed-hash",
					"the value delivered on decision is not the proposed data whose hash the quorum referenced",
					map[string]any{"variant": variant, "agreed_hash": fmt.Sprintf("%x", h[:8]), "delivered_hash": fmt.Sprintf("%x", gh[:8])})
			}
		}
	}
}

var _ = sort.Strings
