package c01

// nodeClient is the beacon-node client one node's components use: the shared beacon mock with the
// case's validator set, answering the chain-parameter lookups (spec, genesis, fork schedule, signing
// domains) from values read once from the mock when it was built. That takes the mock's HTTP
// client — which marks itself inactive when a loaded machine starves its health check — out of the
// workload, and gives the case a fault to inject: a node whose beacon node is flaky (restarting,
// timing out) fails a PRNG share of those lookups. Domain computation mirrors go-eth2-client's
// (fork at epoch from the schedule, genesis validators root except for the builder domain); charon
// still gets its domains from "the beacon node", the oracle still computes its own.

import (
	"bytes"
	"context"
	"errors"
	"math/rand"
	"sync"
	"sync/atomic"
	"time"

	eth2api "github.com/attestantio/go-eth2-client/api"
	eth2v1 "github.com/attestantio/go-eth2-client/api/v1"
	eth2p0 "github.com/attestantio/go-eth2-client/spec/phase0"

	"github.com/obolnetwork/charon/testutil/beaconmock"
)

type nodeClient struct {
	beaconmock.Mock
	env *mockEnv

	flaky     atomic.Bool // set once the node's components are constructed
	failProb  float64
	mu        sync.Mutex
	rng       *rand.Rand
	failed    atomic.Int64
	downUntil atomic.Int64 // unix nanos: short outage (pacing of a fault, never a verdict)
}

var errBNDown = errors.New("harness: beacon node lookup failed (node's beacon node is flaky)")

// maybeOutage is called between a node's verification of partial signatures (validator API or
// parsigex, already passed) and their storage in ParSigDB — which may complete a threshold and run
// SigAgg's verification of the aggregate: with PRNG probability the flaky beacon node goes away for
// a moment exactly there.
func (c *nodeClient) maybeOutage() {
	if !c.flaky.Load() {
		return
	}
	c.mu.Lock()
	hit := c.rng.Intn(2) == 0
	c.mu.Unlock()
	if hit {
		c.downUntil.Store(time.Now().Add(40 * time.Millisecond).UnixNano())
	}
}

func (c *nodeClient) fail() error {
	if !c.flaky.Load() {
		return nil
	}
	c.mu.Lock()
	f := c.rng.Float64() < c.failProb
	c.mu.Unlock()
	if time.Now().UnixNano() < c.downUntil.Load() {
		f = true
	}
	if f {
		c.failed.Add(1)
		return errBNDown
	}

	return nil
}

func (c *nodeClient) Spec(context.Context, *eth2api.SpecOpts) (*eth2api.Response[map[string]any], error) {
	if err := c.fail(); err != nil {
		return nil, err
	}

	return &eth2api.Response[map[string]any]{Data: c.env.spec, Metadata: map[string]any{}}, nil
}

func (c *nodeClient) Genesis(context.Context, *eth2api.GenesisOpts) (*eth2api.Response[*eth2v1.Genesis], error) {
	if err := c.fail(); err != nil {
		return nil, err
	}

	return &eth2api.Response[*eth2v1.Genesis]{Data: c.env.genesis, Metadata: map[string]any{}}, nil
}

func (c *nodeClient) ForkSchedule(context.Context, *eth2api.ForkScheduleOpts) (*eth2api.Response[[]*eth2p0.Fork], error) {
	if err := c.fail(); err != nil {
		return nil, err
	}

	return &eth2api.Response[[]*eth2p0.Fork]{Data: c.env.ch.forks, Metadata: map[string]any{}}, nil
}

func (c *nodeClient) domain(dt eth2p0.DomainType, epoch eth2p0.Epoch, fork *eth2p0.Fork) (eth2p0.Domain, error) {
	fv := fork.CurrentVersion
	if epoch < fork.Epoch {
		fv = fork.PreviousVersion
	}
	fd := &eth2p0.ForkData{CurrentVersion: fv}
	if !bytes.Equal(dt[:], []byte{0x00, 0x00, 0x00, 0x01}) {
		fd.GenesisValidatorsRoot = c.env.genesis.GenesisValidatorsRoot
	}
	root, err := fd.HashTreeRoot()
	if err != nil {
		return eth2p0.Domain{}, err
	}
	var d eth2p0.Domain
	copy(d[:], dt[:])
	copy(d[4:], root[:])

	return d, nil
}

func (c *nodeClient) Domain(_ context.Context, dt eth2p0.DomainType, epoch eth2p0.Epoch) (eth2p0.Domain, error) {
	if err := c.fail(); err != nil {
		return eth2p0.Domain{}, err
	}
	forks := c.env.ch.forks
	cur := forks[0]
	for _, f := range forks {
		if f.Epoch > epoch {
			break
		}
		cur = f
	}

	return c.domain(dt, epoch, cur)
}

func (c *nodeClient) GenesisDomain(_ context.Context, dt eth2p0.DomainType) (eth2p0.Domain, error) {
	if err := c.fail(); err != nil {
		return eth2p0.Domain{}, err
	}

	return c.domain(dt, 0, c.env.ch.forks[0])
}
