package c01

// Consensus-level misbehaviour of the Byzantine identities (beyond the statement's fault model,
// which only lets them send arbitrary partial signatures; it must not change the verdict either):
// two different PRE-PREPAREs as round-1 leader sent to two subsets, double PREPARE / COMMIT for
// every value seen on the wire and for own alternatives, ROUND-CHANGE noise. Messages are signed
// with an independent implementation of the scheme (deterministic proto marshal -> ssz merkleize ->
// secp256k1 recoverable signature, as in the c05 harness) and handed to the real receive handler
// through the verif-tagged hook Consensus.VerifHandle, whose return value shows admission.

import (
	"context"
	"math/rand"
	"sync"
	"time"

	eth2p0 "github.com/attestantio/go-eth2-client/spec/phase0"
	ssz "github.com/ferranbt/fastssz"
	"google.golang.org/protobuf/proto"
	"google.golang.org/protobuf/types/known/anypb"

	"github.com/obolnetwork/charon/app/k1util"
	"github.com/obolnetwork/charon/core"
	pbv1 "github.com/obolnetwork/charon/core/corepb/v1"
)

func hashProtoIndep(m proto.Message) [32]byte {
	b, err := proto.MarshalOptions{Deterministic: true}.Marshal(m)
	if err != nil {
		panic(err)
	}
	hh := ssz.NewHasher()
	idx := hh.Index()
	hh.PutBytes(b)
	hh.Merkleize(idx)
	h, err := hh.HashRoot()
	if err != nil {
		panic(err)
	}

	return h
}

func zero32() []byte { return make([]byte, 32) }

type consValue struct {
	hash [32]byte
	any  *anypb.Any
}

type byzCons struct {
	w   *world
	idx int
	rng *rand.Rand
}

func (b *byzCons) mk(typ int64, duty core.Duty, round int64, vh []byte, val *anypb.Any) *pbv1.QBFTConsensusMsg {
	m := &pbv1.QBFTMsg{Type: typ, Duty: core.DutyToProto(duty), PeerIdx: int64(b.idx), Round: round, ValueHash: vh, PreparedRound: 0, PreparedValueHash: zero32()}
	h := hashProtoIndep(m)
	sig, err := k1util.Sign(b.w.keys[b.idx], h[:])
	if err != nil {
		panic(err)
	}
	m.Signature = sig
	out := &pbv1.QBFTConsensusMsg{Msg: m}
	if val != nil {
		out.Values = []*anypb.Any{val}
	}

	return out
}

// ownValue builds an alternative candidate value for the duty.
func (b *byzCons) ownValue(duty core.Duty, variant int) (*consValue, error) {
	w := b.w
	var set core.UnsignedDataSet
	switch duty.Type {
	case core.DutyAttester:
		set = core.UnsignedDataSet{}
		var head [32]byte
		b.rng.Read(head[:])
		for _, v := range w.vals {
			d := w.candidateAttData(b.idx, v)
			d.BeaconBlockRoot = head
			set[v.Core] = core.AttestationData{Data: *d, Duty: w.attesterDuty(v)}
		}
	case core.DutyProposer:
		v := w.vals[w.p.ProposerVal]
		var rr eth2p0.BLSSignature
		b.rng.Read(rr[:])
		prop, err := w.candidateProposal(2000+w.logical(b.idx)*41+variant, v, rr)
		if err != nil {
			return nil, err
		}
		cp, err := core.NewVersionedProposal(prop)
		if err != nil {
			return nil, err
		}
		set = core.UnsignedDataSet{v.Core: cp}
	}
	pb, err := core.UnsignedDataSetToProto(set)
	if err != nil {
		return nil, err
	}
	a, err := anypb.New(pb)
	if err != nil {
		return nil, err
	}

	return &consValue{hash: hashProtoIndep(pb), any: a}, nil
}

// tappedValues returns the distinct values honest nodes put on the wire for duty.
func (b *byzCons) tappedValues(duty core.Duty) []*consValue {
	var out []*consValue
	seen := map[[32]byte]bool{}
	for _, q := range b.w.tap.consensus() {
		if core.DutyFromProto(q.GetMsg().GetDuty()) != duty {
			continue
		}
		for _, a := range q.GetValues() {
			inner, err := a.UnmarshalNew()
			if err != nil {
				continue
			}
			h := hashProtoIndep(inner)
			if !seen[h] {
				seen[h] = true
				out = append(out, &consValue{hash: h, any: a})
			}
		}
	}

	return out
}

func (b *byzCons) send(tgt int, m *pbv1.QBFTConsensusMsg, what string) {
	w := b.w
	if !w.hasStack(tgt) || tgt == b.idx || w.sched.isCrashed(tgt) || w.sched.isCrashed(b.idx) || w.stopped.Load() {
		return
	}
	ctx, cancel := context.WithTimeout(w.ctx, 2*time.Second) // the handler blocks while the duty's receive buffer is full
	defer cancel()
	err := w.nodes[tgt].cons.VerifHandle(ctx, w.ids[b.idx], m)
	if err != nil {
		w.r.Count("byzcons/refused/"+what, 1)
		w.mon.note("byzcons %d -> %d %s refused: %v", b.idx, tgt, what, err)

		return
	}
	w.r.Count("byzcons/admitted/"+what, 1)
}

func leaderOf(duty core.Duty, round int64, nodes int) int {
	return int((int64(duty.Slot) + int64(duty.Type) + round) % int64(nodes))
}

func (b *byzCons) runDuty(duty core.Duty, dutyStart time.Time) {
	w := b.w
	v1, err1 := b.ownValue(duty, 1)
	v2, err2 := b.ownValue(duty, 2)
	if err1 != nil || err2 != nil {
		w.r.Count("byzcons/build-error", 1)
		return
	}
	peers := b.rng.Perm(w.n)
	if leaderOf(duty, 1, w.n) == b.idx {
		// equivocating round-1 leader: v1 to one part of the cluster, v2 to the other
		if !w.sleepUntil(dutyStart.Add(time.Duration(b.rng.Intn(400)) * time.Millisecond)) {
			return
		}
		cut := 1 + b.rng.Intn(w.n-1)
		var wg sync.WaitGroup
		for k, p := range peers {
			val := v1
			if k >= cut {
				val = v2
			}
			wg.Add(1)
			go func(p int, val *consValue) {
				defer wg.Done()
				b.send(p, b.mk(1, duty, 1, val.hash[:], val.any), "pre-prepare-equivocation")
			}(p, val)
		}
		wg.Wait()
		w.r.Count("byzcons/equivocating_round1_leader", 1)
	}
	// double PREPARE / COMMIT over everything seen plus the own alternatives, in a few bursts
	for burst := 0; burst < 3; burst++ {
		if !w.sleepUntil(dutyStart.Add(time.Duration(150+burst*500+b.rng.Intn(400)) * time.Millisecond)) {
			return
		}
		vals := append(b.tappedValues(duty), v1, v2)
		round := int64(1 + burst/2)
		for _, val := range vals {
			for _, p := range peers {
				if b.rng.Intn(3) == 0 {
					continue
				}
				b.send(p, b.mk(2, duty, round, val.hash[:], val.any), "double-prepare")
				if b.rng.Intn(2) == 0 {
					b.send(p, b.mk(3, duty, round, val.hash[:], val.any), "double-commit")
				}
			}
		}
		if b.rng.Intn(2) == 0 {
			for _, p := range peers {
				b.send(p, b.mk(4, duty, round+1, zero32(), nil), "round-change")
			}
		}
	}
}

func (b *byzCons) run() {
	w := b.w
	if w.hasKind("proposer") {
		r := rand.New(rand.NewSource(b.rng.Int63()))
		bb := &byzCons{w: w, idx: b.idx, rng: r}
		w.go_(func() { bb.runDuty(w.propDuty, w.t0) })
	}
	if w.hasKind("attester") {
		r := rand.New(rand.NewSource(b.rng.Int63()))
		bb := &byzCons{w: w, idx: b.idx, rng: r}
		w.go_(func() { bb.runDuty(w.attDuty, w.t0.Add(slotSeconds*time.Second/3)) })
	}
}
