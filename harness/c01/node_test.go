package c01

// One node = the real core workflow components, constructed the way app.wireCoreWorkflow does and
// stitched with the real core.Wire (+ the production WithAsyncRetry option). Harness-supplied:
// Scheduler and Fetcher stubs (the harness triggers duties and supplies the node's own candidate
// data), Deadliner stubs, and the Broadcaster, which is the monitor. Thin pass-through wrappers
// around AggSigDB / SigAgg / ParSigDB / DutyDB observe inputs and returned errors.

import (
	"context"
	"fmt"
	"strings"
	"sync"
	"time"

	eth2api "github.com/attestantio/go-eth2-client/api"
	eth2v1 "github.com/attestantio/go-eth2-client/api/v1"
	eth2p0 "github.com/attestantio/go-eth2-client/spec/phase0"
	"github.com/libp2p/go-libp2p/core/peer"

	"github.com/obolnetwork/charon/app/retry"
	"github.com/obolnetwork/charon/core"
	"github.com/obolnetwork/charon/core/aggsigdb"
	cqbft "github.com/obolnetwork/charon/core/consensus/qbft"
	pbv1 "github.com/obolnetwork/charon/core/corepb/v1"
	"github.com/obolnetwork/charon/core/dutydb"
	"github.com/obolnetwork/charon/core/parsigdb"
	"github.com/obolnetwork/charon/core/parsigex"
	"github.com/obolnetwork/charon/core/sigagg"
	"github.com/obolnetwork/charon/core/validatorapi"
	"github.com/obolnetwork/charon/p2p"

	"verifharness/fakenet"
)

// stubDeadliner: nothing expires until the harness says so; exit / builder registration duties are
// exempt like in core.NewDutyDeadlineFunc.
type stubDeadliner struct {
	mu      sync.Mutex
	expired map[core.Duty]bool
	added   map[core.Duty]bool
	ch      chan core.Duty
}

func newStubDeadliner() *stubDeadliner {
	return &stubDeadliner{expired: map[core.Duty]bool{}, added: map[core.Duty]bool{}, ch: make(chan core.Duty, 64)}
}

func (d *stubDeadliner) Add(duty core.Duty) core.DeadlineStatus {
	d.mu.Lock()
	defer d.mu.Unlock()
	if duty.Type == core.DutyExit || duty.Type == core.DutyBuilderRegistration {
		return core.DeadlineExempt
	}
	if d.expired[duty] {
		return core.DeadlineExpired
	}
	d.added[duty] = true

	return core.DeadlineScheduled
}

func (d *stubDeadliner) C() <-chan core.Duty { return d.ch }

func (d *stubDeadliner) expire(duty core.Duty) {
	d.mu.Lock()
	already := d.expired[duty]
	d.expired[duty] = true
	added := d.added[duty]
	d.mu.Unlock()
	if already || !added {
		return // like core.Deadliner: only duties that were added are reported on C()
	}
	select {
	case d.ch <- duty:
	default:
	}
}

// stubSched is the harness-driven Scheduler.
type stubSched struct {
	mu   sync.Mutex
	subs []func(context.Context, core.Duty, core.DutyDefinitionSet) error
	defs map[core.Duty]core.DutyDefinitionSet
}

func (s *stubSched) SubscribeDuties(fn func(context.Context, core.Duty, core.DutyDefinitionSet) error) {
	s.mu.Lock()
	s.subs = append(s.subs, fn)
	s.mu.Unlock()
}
func (*stubSched) SubscribeSlots(func(context.Context, core.Slot) error) {}
func (*stubSched) RegisterFetcherFetchOnly(func(context.Context, core.Duty, core.DutyDefinitionSet, string, eth2p0.Root) error) {
}

func (s *stubSched) GetDutyDefinition(_ context.Context, duty core.Duty) (core.DutyDefinitionSet, error) {
	s.mu.Lock()
	defer s.mu.Unlock()
	d, ok := s.defs[duty]
	if !ok {
		return nil, fmt.Errorf("harness scheduler: duty not found")
	}

	return d.Clone()
}

// trigger does what scheduler.handleDuty does: call every subscriber with a clone.
func (s *stubSched) trigger(ctx context.Context, duty core.Duty) {
	s.mu.Lock()
	subs := append([]func(context.Context, core.Duty, core.DutyDefinitionSet) error(nil), s.subs...)
	d := s.defs[duty]
	s.mu.Unlock()
	for _, sub := range subs {
		clone, err := d.Clone()
		if err != nil {
			continue
		}
		_ = sub(ctx, duty, clone)
	}
}

// stubFetcher proposes the node's own candidate data.
type stubFetcher struct {
	nd       *node
	mu       sync.Mutex
	subs     []func(context.Context, core.Duty, core.UnsignedDataSet) error
	aggSigDB func(context.Context, core.Duty, core.PubKey, core.SubcommitteeIndex) (core.SignedData, error)
	awaitAtt func(ctx context.Context, slot uint64, commIdx uint64) (*eth2p0.AttestationData, error)
	proposed map[core.Duty]bool
}

func (f *stubFetcher) Subscribe(fn func(context.Context, core.Duty, core.UnsignedDataSet) error) {
	f.mu.Lock()
	f.subs = append(f.subs, fn)
	f.mu.Unlock()
}

func (f *stubFetcher) RegisterAggSigDB(fn func(context.Context, core.Duty, core.PubKey, core.SubcommitteeIndex) (core.SignedData, error)) {
	f.aggSigDB = fn
}

func (f *stubFetcher) RegisterAwaitAttData(fn func(ctx context.Context, slot uint64, commIdx uint64) (*eth2p0.AttestationData, error)) {
	f.awaitAtt = fn
}

func (*stubFetcher) FetchOnly(context.Context, core.Duty, core.DutyDefinitionSet, string, eth2p0.Root) error {
	return nil
}

func (f *stubFetcher) Fetch(ctx context.Context, duty core.Duty, _ core.DutyDefinitionSet) error {
	nd := f.nd
	w := nd.w
	if w.p.NoPropose[nd.idx] {
		w.r.Count("fetch/beacon-node-down-no-propose", 1)
		return nil // the node only participates
	}
	// beacon node latency
	select {
	case <-time.After(time.Duration(w.p.FetchDelayMs[nd.idx]) * time.Millisecond):
	case <-ctx.Done():
		return nil
	}
	var set core.UnsignedDataSet
	switch duty.Type {
	case core.DutyAttester:
		set = core.UnsignedDataSet{}
		for _, v := range w.vals {
			set[v.Core] = core.AttestationData{Data: *w.candidateAttData(nd.idx, v), Duty: w.attesterDuty(v)}
		}
	case core.DutyProposer:
		v := w.vals[w.p.ProposerVal]
		randao, err := f.aggSigDB(ctx, w.randaoDuty, v.Core, 0)
		if err != nil {
			return nil // case over before the randao was aggregated
		}
		prop, err := w.candidateProposal(w.logical(nd.idx), v, randao.Signature().ToETH2())
		if err != nil {
			w.r.Inconclusive("build candidate proposal: %v", err)
			return nil
		}
		cp, err := core.NewVersionedProposal(prop)
		if err != nil {
			w.r.Inconclusive("wrap candidate proposal: %v", err)
			return nil
		}
		set = core.UnsignedDataSet{v.Core: cp}
	default:
		return nil
	}
	w.mon.candidate(nd.idx, duty, set)
	f.mu.Lock()
	subs := append([]func(context.Context, core.Duty, core.UnsignedDataSet) error(nil), f.subs...)
	f.mu.Unlock()
	for _, sub := range subs {
		clone, err := set.Clone()
		if err != nil {
			return nil
		}
		if err := sub(ctx, duty, clone); err != nil {
			w.mon.note("node %d: propose %v: %v", nd.idx, duty, err)
		}
	}

	return nil
}

type node struct {
	w    *world
	idx  int
	bare bool
	host *fakenet.Host

	cons     *cqbft.Consensus
	dutyDB   *dutydb.MemDB
	vapi     *validatorapi.Component
	parSigDB *parsigdb.MemDB
	parSigEx *parsigex.ParSigEx
	sigAgg   *sigagg.Aggregator
	aggSigDB *aggsigdb.MemDB
	sched    *stubSched
	fetch    *stubFetcher
	retryer  *retry.Retryer[core.Duty]
	client   *nodeClient
	dls      []*stubDeadliner

	shutOnce sync.Once
}

// ---- pass-through wrappers (observation only) ----

type monBroadcaster struct{ nd *node }

func (b monBroadcaster) Broadcast(_ context.Context, duty core.Duty, set core.SignedDataSet) error {
	b.nd.w.mon.observe("broadcast", b.nd.idx, duty, set)
	return nil
}

type monAggSigDB struct {
	core.AggSigDB
	nd *node
}

func (a monAggSigDB) Store(ctx context.Context, duty core.Duty, set core.SignedDataSet) error {
	a.nd.w.mon.observe("aggsigdb-store", a.nd.idx, duty, set)
	err := a.AggSigDB.Store(ctx, duty, set)
	if err != nil {
		a.nd.w.mon.precursor("aggsigdb-store-error", "node %d %v: %v", a.nd.idx, duty, err)
	}

	return err
}

type monSigAgg struct {
	core.SigAgg
	nd *node
}

func (a monSigAgg) Aggregate(ctx context.Context, duty core.Duty, set map[core.PubKey][]core.ParSignedData) error {
	a.nd.w.mon.thresholdReached(a.nd.idx, duty, set)
	err := a.SigAgg.Aggregate(ctx, duty, set)
	if err != nil {
		a.nd.w.mon.precursor("sigagg-rejected-threshold-set", "node %d %v: %v", a.nd.idx, duty, err)
	}

	return err
}

type monParSigDB struct {
	core.ParSigDB
	nd *node
}

func (p monParSigDB) StoreExternal(ctx context.Context, duty core.Duty, set core.ParSignedDataSet) error {
	p.nd.client.maybeOutage()
	err := p.ParSigDB.StoreExternal(ctx, duty, set)
	p.nd.w.mon.parsigStored(p.nd.idx, "external", duty, set, err)

	return err
}

func (p monParSigDB) StoreInternal(ctx context.Context, duty core.Duty, set core.ParSignedDataSet) error {
	p.nd.client.maybeOutage()
	err := p.ParSigDB.StoreInternal(ctx, duty, set)
	p.nd.w.mon.parsigStored(p.nd.idx, "internal", duty, set, err)

	return err
}

type monDutyDB struct {
	core.DutyDB
	nd *node
}

func (d monDutyDB) Store(ctx context.Context, duty core.Duty, set core.UnsignedDataSet) error {
	err := d.DutyDB.Store(ctx, duty, set)
	d.nd.w.mon.decided(d.nd.idx, duty, set, err)

	return err
}

func (w *world) newNode(i int) (*node, error) {
	nd := &node{w: w, idx: i, host: w.net.Host(w.ids[i])}
	ctx := w.ctx
	dl := func() *stubDeadliner {
		d := newStubDeadliner()
		nd.dls = append(nd.dls, d)

		return d
	}
	nd.client = &nodeClient{Mock: w.bmock, env: w.env, failProb: 0.12, rng: w.r.Rand(w.c.Idx, 500+w.logical(i))}
	gater, err := core.NewDutyGater(ctx, nd.client)
	if err != nil {
		return nil, err
	}
	sniff := func(inst *pbv1.SniffedConsensusInstance) { w.mon.sniffed(i, inst) }
	sender := new(p2p.Sender)
	nd.cons, err = cqbft.NewConsensus(ctx, nd.client, nd.host, sender, w.peers, w.keys[i], dl(), gater, sniff, false)
	if err != nil {
		return nil, err
	}
	nd.dutyDB = dutydb.NewMemDB(dl())
	nd.vapi, err = validatorapi.NewComponent(nd.client, w.pubShare, i+1, func(core.PubKey) string { return "" }, false, 30_000_000)
	if err != nil {
		return nil, err
	}
	nd.parSigDB = parsigdb.NewMemDB(w.lock.Threshold, dl(), parsigdb.NewMemDBMetadata(slotSeconds, w.ch.genesisTime))
	verify, err := parsigex.NewEth2Verifier(nd.client, w.pubShare)
	if err != nil {
		return nil, err
	}
	countingVerify := func(ctx context.Context, from peer.ID, duty core.Duty, pk core.PubKey, data core.ParSignedData) error {
		err := verify(ctx, from, duty, pk, data)
		w.mon.verified(i, w.idxOf[from], duty, data, err)

		return err
	}
	// generous p2p timeouts: a loaded machine must not change what is accepted
	nd.parSigEx = parsigex.NewParSigEx(nd.host, sender.SendAsync, i, w.ids, countingVerify, gater,
		p2p.WithReceiveTimeout(10*time.Minute), p2p.WithSendTimeout(10*time.Minute))
	nd.sigAgg, err = sigagg.New(w.lock.Threshold, sigagg.NewVerifier(nd.client))
	if err != nil {
		return nil, err
	}
	nd.aggSigDB = aggsigdb.NewMemDB(dl()) // featureset.AggSigDBV2 is alpha: production default is MemDB
	nd.sched = &stubSched{defs: w.dutyDefinitions()}
	nd.fetch = &stubFetcher{nd: nd}
	nd.retryer = retry.New(func(core.Duty) (time.Time, bool) { return w.ctxEnd, true })

	core.Wire(nd.sched, nd.fetch, nd.cons,
		monDutyDB{DutyDB: nd.dutyDB, nd: nd}, nd.vapi,
		monParSigDB{ParSigDB: nd.parSigDB, nd: nd}, nd.parSigEx,
		monSigAgg{SigAgg: nd.sigAgg, nd: nd},
		monAggSigDB{AggSigDB: nd.aggSigDB, nd: nd},
		monBroadcaster{nd: nd},
		core.WithAsyncRetry(nd.retryer))

	nd.client.flaky.Store(w.p.BNFlaky[i]) // construction is over: from now on a flaky beacon node fails lookups
	nd.cons.Start(ctx)
	go nd.aggSigDB.Run(ctx)
	go nd.parSigDB.Trim(ctx)

	return nd, nil
}

func (nd *node) shutdown() {
	if nd.bare {
		return
	}
	nd.shutOnce.Do(func() {
		sctx, cancel := context.WithTimeout(context.Background(), 2*time.Minute)
		defer cancel()
		nd.retryer.Shutdown(sctx)
		nd.dutyDB.Shutdown()
	})
}

// expire makes every component of the node see the duty as expired (what the per-component
// deadliners of production do when the duty deadline passes).
func (nd *node) expire(duty core.Duty) {
	for _, d := range nd.dls {
		d.expire(duty)
	}
}

// dutyDefinitions is what the scheduler resolved for the slot.
func (w *world) dutyDefinitions() map[core.Duty]core.DutyDefinitionSet {
	out := map[core.Duty]core.DutyDefinitionSet{}
	att := core.DutyDefinitionSet{}
	for _, v := range w.vals {
		d := w.attesterDuty(v)
		att[v.Core] = core.NewAttesterDefinition(&d)
	}
	out[w.attDuty] = att
	pv := w.vals[w.p.ProposerVal]
	out[w.propDuty] = core.DutyDefinitionSet{pv.Core: core.NewProposerDefinition(&eth2v1.ProposerDuty{PubKey: pv.Eth2, Slot: eth2p0.Slot(w.slot), ValidatorIndex: pv.Idx})}

	return out
}

func (w *world) attesterDuty(v *valInfo) eth2v1.AttesterDuty {
	return eth2v1.AttesterDuty{
		PubKey: v.Eth2, Slot: eth2p0.Slot(w.slot), ValidatorIndex: v.Idx, CommitteeIndex: eth2p0.CommitteeIndex(v.Comm),
		CommitteeLength: v.CommLen, CommitteesAtSlot: 64, ValidatorCommitteeIndex: v.Pos,
	}
}

// candidateAttData is node i's own view of the chain for validator v's committee.
func (w *world) candidateAttData(i int, v *valInfo) *eth2p0.AttestationData {
	src, tgt := w.ffgMain[0], w.ffgMain[1]
	if w.p.SplitFFG[i] {
		src, tgt = w.ffgAlt[0], w.ffgAlt[1]
	}
	d := &eth2p0.AttestationData{
		Slot: eth2p0.Slot(w.slot), Index: eth2p0.CommitteeIndex(v.Comm),
		BeaconBlockRoot: w.headRoots[w.p.HeadChoice[i]],
		Source:          &eth2p0.Checkpoint{Epoch: eth2p0.Epoch(w.epoch - 1), Root: src},
		Target:          &eth2p0.Checkpoint{Epoch: eth2p0.Epoch(w.epoch), Root: tgt},
	}
	if w.p.Electra {
		d.Index = 0
	}

	return d
}

func isMismatch(err error) bool {
	return err != nil && strings.Contains(err.Error(), "mismatching partial signed data")
}

var _ = eth2api.VersionedProposal{}
