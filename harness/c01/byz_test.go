package c01

// Byzantine identities: up to f members of the cluster (together with crashed ones) are driven by
// the harness. They hold their real p2p identity and their real BLS key shares and send arbitrary
// partial signatures made with those shares: over other data, over the same message root under
// another fork's domain, different content to different peers, replays and duplicates, before and
// after the honest nodes act. Must-reject classes (a signature that is not valid for the claimed
// share) are sent as well; whether they are refused is C10's business, here they only show that
// nothing of the kind ends up in a broadcast object.

import (
	"fmt"
	"math/rand"
	"sort"
	"sync"

	"github.com/attestantio/go-eth2-client/spec/altair"
	eth2p0 "github.com/attestantio/go-eth2-client/spec/phase0"

	"github.com/obolnetwork/charon/core"
	pbv1 "github.com/obolnetwork/charon/core/corepb/v1"
	"github.com/obolnetwork/charon/eth2util"
	"github.com/obolnetwork/charon/tbls"
)

type byzDriver struct {
	w   *world
	idx int
	rng *rand.Rand // used by act() only, under mu
	mu  sync.Mutex
	at  []byzStep // actions, times in ms relative to the slot start
}

// forged is one partial-signature message: one or several validators of the cluster in one set.
type forged struct {
	Class string
	Duty  core.Duty
	Set   core.ParSignedDataSet
}

type byzStep struct {
	ms         int
	poison     bool
	transplant bool
	tailor     bool
}

// batchCtx fixes the choices that all validators of one multi-validator batch share.
type batchCtx struct {
	variant  int
	syncRoot [32]byte
	slot     uint64
	other    int
}

func (b *byzDriver) share(v *valInfo) tbls.PrivateKey { return v.Shares[b.idx+1] }

func (b *byzDriver) otherForkEpoch() uint64 {
	w := b.w
	cur := w.ch.forkVersionAt(w.epoch)
	for _, f := range w.ch.forks {
		if f.CurrentVersion != cur && uint64(f.Epoch) < w.epoch {
			return uint64(f.Epoch)
		}
	}

	return 0
}

func (b *byzDriver) randRoot() (r [32]byte) { b.rng.Read(r[:]); return r }

// honestLike builds the object an honest VC of this identity could sign for kind (random content
// where the content is not fixed by the duty).
func (b *byzDriver) build(kind string, v *valInfo, variant int) (any, core.Duty, error) {
	w := b.w
	switch kind {
	case "attester":
		d := w.candidateAttData(b.idx, v)
		switch variant % 3 {
		case 0:
			d.BeaconBlockRoot = b.randRoot()
		case 1:
			d.BeaconBlockRoot = w.headRoots[b.rng.Intn(len(w.headRoots))]
			d.Target.Root = b.randRoot()
		default:
			d.BeaconBlockRoot = w.headRoots[b.rng.Intn(len(w.headRoots))]
		}

		return w.buildAttestation(v, d), w.attDuty, nil
	case "proposer":
		var rr eth2p0.BLSSignature
		b.rng.Read(rr[:])
		up, err := w.candidateProposal(1000+w.logical(b.idx)*37+variant, v, rr)
		if err != nil {
			return nil, core.Duty{}, err
		}
		sp, err := signedOf(up)

		return sp, w.propDuty, err
	case "randao":
		ep := w.epoch
		if variant%2 == 0 {
			ep = w.epoch + 1 + uint64(b.rng.Intn(3))
		}

		return &eth2util.SignedEpoch{Epoch: eth2p0.Epoch(ep)}, w.randaoDuty, nil
	case "sync":
		m := &altair.SyncCommitteeMessage{Slot: eth2p0.Slot(w.slot), ValidatorIndex: v.Idx}
		if variant%2 == 0 {
			m.BeaconBlockRoot = w.syncRoots[b.rng.Intn(len(w.syncRoots))]
		} else {
			m.BeaconBlockRoot = b.randRoot()
		}

		return m, w.syncDuty, nil
	case "exit":
		ep := w.epoch + uint64(variant%3)
		duty := core.NewVoluntaryExit(w.ch.spe * w.epoch)
		if variant%2 == 1 {
			duty = core.NewVoluntaryExit(w.ch.spe * ep)
		}

		return &eth2p0.SignedVoluntaryExit{Message: &eth2p0.VoluntaryExit{Epoch: eth2p0.Epoch(ep), ValidatorIndex: v.Idx}}, duty, nil
	}

	return nil, core.Duty{}, fmt.Errorf("unknown kind %s", kind)
}

func (b *byzDriver) kinds() []string {
	var ks []string
	for _, k := range b.w.p.Kinds {
		ks = append(ks, k)
		if k == "proposer" {
			ks = append(ks, "randao")
		}
	}
	sort.Strings(ks)

	return ks
}

func (b *byzDriver) valFor(kind string) *valInfo {
	w := b.w
	switch kind {
	case "proposer", "randao":
		return w.vals[w.p.ProposerVal]
	case "exit":
		return w.vals[w.p.ExitVal]
	}

	return w.vals[b.rng.Intn(len(w.vals))]
}

// popularSyncRoot is the block root most VCs of the case sign (the one that can reach the threshold).
func (b *byzDriver) popularSyncRoot() [32]byte {
	w := b.w
	cnt := map[int]int{}
	best := 0
	for i := 0; i < w.n; i++ {
		if w.hasStack(i) {
			cnt[w.p.SyncChoice[i]]++
			if cnt[w.p.SyncChoice[i]] > cnt[best] {
				best = w.p.SyncChoice[i]
			}
		}
	}

	return w.syncRoots[best]
}

func (b *byzDriver) newBatchCtx() batchCtx {
	w := b.w
	own := b.idx + 1
	bc := batchCtx{variant: b.rng.Intn(6)}
	if b.rng.Intn(3) == 0 {
		bc.syncRoot = w.syncRoots[b.rng.Intn(len(w.syncRoots))]
	} else {
		bc.syncRoot = b.popularSyncRoot()
	}
	bc.slot = b.otherForkEpoch()*w.ch.spe + uint64(b.rng.Intn(int(w.ch.spe)))
	bc.other = 1 + b.rng.Intn(w.n)
	for bc.other == own {
		bc.other = 1 + b.rng.Intn(w.n)
	}

	return bc
}

// forge produces one message of a PRNG-chosen class: a single partial signature or, for the duty
// kinds every validator of the cluster performs (attester, sync), a batch of 2-3 validators in one
// set, all forged the same way.
func (b *byzDriver) forge() (*forged, error) {
	w := b.w
	ks := b.kinds()
	kind := ks[b.rng.Intn(len(ks))]
	classes := []string{"other-data", "other-data", "other-data", "honest-object-foreign-signature", "claims-other-share", "zero-or-garbage-signature", "replay-honest"}
	if kind == "sync" {
		classes = append(classes, "same-message-root-other-fork", "same-message-root-other-fork", "same-message-root-other-fork")
	}
	if len(w.vals) > 1 {
		classes = append(classes, "cross-validator")
	}
	class := classes[b.rng.Intn(len(classes))]
	multi := (kind == "attester" || kind == "sync") && len(w.vals) > 1 && class != "replay-honest" && b.rng.Intn(2) == 0

	return b.forgeClass(kind, class, multi)
}

// forgeClass forges class for kind, for one validator or (multi) for 2-3 validators in one set.
func (b *byzDriver) forgeClass(kind, class string, multi bool) (*forged, error) {
	w := b.w
	bc := b.newBatchCtx()
	vals := []*valInfo{b.valFor(kind)}
	if multi {
		perm := b.rng.Perm(len(w.vals))
		k := 2 + b.rng.Intn(len(w.vals)-1) // 2..len
		vals = nil
		for _, i := range perm[:k] {
			vals = append(vals, w.vals[i])
		}
	}
	out := &forged{Class: kind + "/" + class, Set: core.ParSignedDataSet{}}
	if multi {
		out.Class += "/batch"
	}
	for _, v := range vals {
		f, err := b.forgeOne(kind, v, class, bc)
		if err != nil {
			return nil, err
		}
		if f == nil {
			continue
		}
		if class == "replay-honest" {
			return f, nil
		}
		if len(out.Set) > 0 && f.Duty != out.Duty {
			continue // one message carries one duty
		}
		out.Duty = f.Duty
		for pk, par := range f.Set {
			out.Set[pk] = par
		}
	}
	if len(out.Set) == 0 {
		return nil, nil
	}

	return out, nil
}

func (b *byzDriver) forgeOne(kind string, v *valInfo, class string, bc batchCtx) (*forged, error) {
	w := b.w
	own := b.idx + 1
	variant := bc.variant
	mk := func(item any, duty core.Duty, shareIdx int) (*forged, error) {
		sd, err := toCore(item)
		if err != nil {
			return nil, err
		}

		return &forged{Class: kind + "/" + class, Duty: duty, Set: core.ParSignedDataSet{v.Core: core.ParSignedData{SignedData: sd, ShareIdx: shareIdx}}}, nil
	}
	switch class {
	case "other-data":
		item, duty, err := b.build(kind, v, variant)
		if err != nil {
			return nil, err
		}
		if err := w.ch.sign(item, b.share(v), "", nil); err != nil {
			return nil, err
		}

		return mk(item, duty, own)
	case "same-message-root-other-fork":
		// a sync committee message for the same block root whose slot lies in another fork: the
		// message root (the block root) equals the honest one, the signing root does not, and the
		// signature is perfectly valid for this identity's share.
		m := &altair.SyncCommitteeMessage{Slot: eth2p0.Slot(bc.slot), ValidatorIndex: v.Idx, BeaconBlockRoot: bc.syncRoot}
		if err := w.ch.sign(m, b.share(v), "", nil); err != nil {
			return nil, err
		}

		return mk(m, w.syncDuty, own)
	case "honest-object-foreign-signature":
		item, duty, err := b.honestObject(kind, v)
		if err != nil {
			return nil, err
		}
		info, err := w.ch.inspect(item)
		if err != nil {
			return nil, err
		}
		sig, err := w.ch.signRaw(b.share(v), b.randRoot(), info.Domain, info.Epoch)
		if err != nil {
			return nil, err
		}
		if err := setSig(item, sig); err != nil {
			return nil, err
		}

		return mk(item, duty, own)
	case "claims-other-share":
		item, duty, err := b.honestObject(kind, v)
		if err != nil {
			return nil, err
		}
		if err := w.ch.sign(item, b.share(v), "", nil); err != nil {
			return nil, err
		}
		return mk(item, duty, bc.other)
	case "cross-validator":
		item, duty, err := b.honestObject(kind, v)
		if err != nil {
			return nil, err
		}
		var v2 *valInfo
		for _, o := range w.vals {
			if o != v {
				v2 = o
			}
		}
		if err := w.ch.sign(item, b.share(v2), "", nil); err != nil {
			return nil, err
		}

		return mk(item, duty, own)
	case "zero-or-garbage-signature":
		item, duty, err := b.honestObject(kind, v)
		if err != nil {
			return nil, err
		}
		var s eth2p0.BLSSignature
		if variant%2 == 0 {
			b.rng.Read(s[:])
		}
		if err := setSig(item, s); err != nil {
			return nil, err
		}

		return mk(item, duty, own)
	case "replay-honest":
		msgs := w.tap.snapshot()
		if len(msgs) == 0 {
			return nil, nil
		}
		tm := msgs[b.rng.Intn(len(msgs))]
		duty := core.DutyFromProto(tm.Msg.GetDuty())
		set, err := core.ParSignedDataSetFromProto(duty.Type, tm.Msg.GetDataSet())
		if err != nil {
			return nil, err
		}
		return &forged{Class: "replay-honest", Duty: duty, Set: set}, nil
	}

	return nil, nil
}

// honestObject returns (a copy of) the object honest nodes exchange for kind/v if one was seen on
// the wire already, else what an honest VC of this identity would build.
func (b *byzDriver) honestObject(kind string, v *valInfo) (any, core.Duty, error) {
	w := b.w
	want := map[string]core.DutyType{"attester": core.DutyAttester, "proposer": core.DutyProposer, "randao": core.DutyRandao, "sync": core.DutySyncMessage, "exit": core.DutyExit}[kind]
	msgs := w.tap.snapshot()
	b.rng.Shuffle(len(msgs), func(i, j int) { msgs[i], msgs[j] = msgs[j], msgs[i] })
	for _, tm := range msgs {
		duty := core.DutyFromProto(tm.Msg.GetDuty())
		if duty.Type != want {
			continue
		}
		set, err := core.ParSignedDataSetFromProto(duty.Type, tm.Msg.GetDataSet())
		if err != nil {
			continue
		}
		par, ok := set[v.Core]
		if !ok {
			continue
		}
		item, err := fromCore(par.SignedData)
		if err != nil {
			continue
		}

		return deepCopy(item), duty, nil
	}

	return b.build(kind, v, 2)
}

func (b *byzDriver) msg(f *forged) (*pbv1.ParSigExMsg, error) {
	pb, err := core.ParSignedDataSetToProto(f.Set)
	if err != nil {
		return nil, err
	}

	return &pbv1.ParSigExMsg{Duty: core.DutyToProto(f.Duty), DataSet: pb}, nil
}

// act forges and sends: the same content to a subset, or different content to different peers.
func (b *byzDriver) act() { b.actWith("", false) }

// poison sends a multi-validator batch of cross-fork sync-committee partials (same block root as
// the honest majority, slot in another fork, valid under this identity's shares) to every peer,
// early enough to be among the first t partials the peers store for those validators.
func (b *byzDriver) poison() { b.actWith("same-message-root-other-fork", true) }

// tailor equivocates per recipient: every peer gets, for all validators in one set, this identity's
// valid partial signature over the sync-committee head that peer's own VC signs (a re-signing peer
// gets one of its two heads).
func (b *byzDriver) tailor() {
	w := b.w
	b.mu.Lock()
	defer b.mu.Unlock()
	var wg sync.WaitGroup
	for tgt := 0; tgt < w.n; tgt++ {
		if tgt == b.idx || !w.hasStack(tgt) || w.sched.isCrashed(tgt) || w.sched.isCrashed(b.idx) {
			continue
		}
		choice := w.p.SyncChoice[tgt]
		if w.p.ResignMs[tgt] >= 0 && b.rng.Intn(2) == 0 {
			choice = w.p.SyncChoice2[tgt]
		}
		set := core.ParSignedDataSet{}
		for _, v := range w.vals {
			m := &altair.SyncCommitteeMessage{Slot: eth2p0.Slot(w.slot), ValidatorIndex: v.Idx, BeaconBlockRoot: w.syncRoots[choice]}
			if err := w.ch.sign(m, b.share(v), "", nil); err != nil {
				return
			}
			set[v.Core] = core.NewPartialSignedSyncMessage(m, b.idx+1)
		}
		msg, err := b.msg(&forged{Duty: w.syncDuty, Set: set})
		if err != nil {
			continue
		}
		w.r.Count("byz/sent/sync/tailored-to-recipient", 1)
		wg.Add(1)
		go func(tgt int) {
			defer wg.Done()
			w.net.Inject(w.ids[b.idx], w.ids[tgt], protoParSigEx, msg)
		}(tgt)
	}
	wg.Wait()
}

func (b *byzDriver) actWith(forceClass string, all bool) {
	w := b.w
	b.mu.Lock()
	defer b.mu.Unlock()
	var targets []int
	for i := 0; i < w.n; i++ {
		if i != b.idx && w.hasStack(i) && (all || b.rng.Intn(4) != 0) {
			targets = append(targets, i)
		}
	}
	if len(targets) == 0 {
		return
	}
	equivocate := forceClass == "" && b.rng.Intn(2) == 0
	var f *forged
	var wg sync.WaitGroup
	for _, tgt := range targets {
		if f == nil || equivocate {
			var nf *forged
			var err error
			if forceClass != "" {
				nf, err = b.forgeClass("sync", forceClass, true)
			} else {
				nf, err = b.forge()
			}
			if err != nil {
				w.mon.note("byz %d: forge: %v", b.idx, err)
				w.r.Count("byz/forge-error", 1)

				continue
			}
			if nf == nil {
				continue
			}
			f = nf
		}
		m, err := b.msg(f)
		if err != nil {
			w.r.Count("byz/encode-error", 1)
			continue
		}
		reps := 1
		if b.rng.Intn(5) == 0 {
			reps = 2 + b.rng.Intn(2) // duplicated
		}
		w.r.Count("byz/sent/"+f.Class, int64(reps))
		w.mon.note("byz %d -> node %d: %s %v validators=%d x%d", b.idx, tgt, f.Class, f.Duty, len(f.Set), reps)
		if w.sched.isCrashed(tgt) || w.sched.isCrashed(b.idx) {
			continue
		}
		for k := 0; k < reps; k++ {
			wg.Add(1)
			go func(tgt int) {
				defer wg.Done()
				w.net.Inject(w.ids[b.idx], w.ids[tgt], protoParSigEx, m)
			}(tgt)
		}
	}
	wg.Wait()
}

// schedule draws the action times (before any goroutine uses the driver's PRNG): some before the
// honest nodes act, most while they do. Cases with sync-committee duties and several validators
// start with a poison batch (and repeat it once later for late starters).
func (b *byzDriver) schedule(actions int) {
	w := b.w
	for i := 0; i < actions; i++ {
		b.at = append(b.at, byzStep{ms: -300 + b.rng.Intn(4300)})
	}
	resigners := false
	for i := 0; i < w.n; i++ {
		if w.p.ResignMs[i] >= 0 {
			resigners = true
		}
	}
	if w.hasKind("sync") && resigners && b.rng.Intn(4) != 0 {
		// split heads and a re-signing VC: equivocate per recipient, first (this identity's share can
		// only count once per node)
		b.at = append(b.at, byzStep{ms: -350 + b.rng.Intn(300), tailor: true}, byzStep{ms: 300 + b.rng.Intn(2500), tailor: true})
	} else if w.hasKind("sync") && len(w.vals) > 1 {
		b.at = append(b.at, byzStep{ms: -350 + b.rng.Intn(300), poison: true}, byzStep{ms: 200 + b.rng.Intn(2000), poison: true})
	}
	b.at = append(b.at, byzStep{ms: 600 + b.rng.Intn(1500), transplant: true}, byzStep{ms: 2000 + b.rng.Intn(2000), transplant: true})
	sort.Slice(b.at, func(i, j int) bool { return b.at[i].ms < b.at[j].ms })
}

func (b *byzDriver) run() {
	w := b.w
	for _, st := range b.at {
		if !w.sleepUntil(w.after(st.ms)) {
			return
		}
		if w.stopped.Load() {
			return
		}
		if st.tailor {
			b.tailor()
		} else if st.transplant {
			b.transplant(false)
		} else if st.poison {
			b.poison()
		} else {
			b.act()
		}
	}
}

// ---- transplanted signatures ----
//
// The Byzantine identity records every partial signature it sees on the wire and later re-sends
// those signatures — with the share indices they were made for, its own and other members' — attached
// to OTHER signed data: (a) the same duty type one or two slots later with conflicting content,
// (b) the same duty and slot but another validator of the cluster, (c) another duty type. A
// signature is only valid for the object it was made for, so every such partial has to be refused;
// if a node ever accepted a signature because it "has verified it before", t of them would
// aggregate to the genuine group signature of the original object and be attached to the new one.

var kindOfDuty = map[core.DutyType]string{core.DutyAttester: "attester", core.DutyProposer: "proposer", core.DutyRandao: "randao", core.DutySyncMessage: "sync", core.DutyExit: "exit"}

type sigGroup struct {
	duty   core.Duty
	pk     core.PubKey
	root   [32]byte
	shares map[int]eth2p0.BLSSignature
}

// observedGroups groups the tapped partial signatures by (duty, validator, message root).
func (b *byzDriver) observedGroups() []*sigGroup {
	idx := map[string]*sigGroup{}
	for _, tm := range b.w.tap.snapshot() {
		duty := core.DutyFromProto(tm.Msg.GetDuty())
		if _, ok := kindOfDuty[duty.Type]; !ok {
			continue
		}
		set, err := core.ParSignedDataSetFromProto(duty.Type, tm.Msg.GetDataSet())
		if err != nil {
			continue
		}
		for pk, par := range set {
			if _, ok := b.w.byCore[pk]; !ok {
				continue
			}
			root, err := par.MessageRoot()
			if err != nil {
				continue
			}
			key := fmt.Sprintf("%v/%s/%x", duty, pk, root)
			g := idx[key]
			if g == nil {
				g = &sigGroup{duty: duty, pk: pk, root: root, shares: map[int]eth2p0.BLSSignature{}}
				idx[key] = g
			}
			if _, ok := g.shares[par.ShareIdx]; !ok {
				g.shares[par.ShareIdx] = par.Signature().ToETH2()
			}
		}
	}
	keys := make([]string, 0, len(idx))
	for k := range idx {
		keys = append(keys, k)
	}
	sort.Strings(keys)
	out := make([]*sigGroup, 0, len(keys))
	for _, k := range keys {
		out = append(out, idx[k])
	}

	return out
}

// otherObject builds an unsigned object of kind for validator v at slot (content differs from
// anything honest nodes sign) and the duty it is exchanged under.
func (b *byzDriver) otherObject(kind string, v *valInfo, slot uint64) (any, core.Duty, error) {
	w := b.w
	ep := w.ch.epochOf(slot)
	switch kind {
	case "attester":
		d := w.candidateAttData(b.idx, v)
		d.Slot = eth2p0.Slot(slot)
		d.BeaconBlockRoot = b.randRoot()
		d.Target.Epoch, d.Source.Epoch = eth2p0.Epoch(ep), eth2p0.Epoch(ep-1)
		d.Target.Root = b.randRoot()

		return w.buildAttestation(v, d), core.NewAttesterDuty(slot), nil
	case "proposer":
		var rr eth2p0.BLSSignature
		b.rng.Read(rr[:])
		up, err := w.candidateProposal(3000+w.logical(b.idx)*43+b.rng.Intn(7), v, rr)
		if err != nil {
			return nil, core.Duty{}, err
		}
		sp, err := signedOf(up)
		if err != nil {
			return nil, core.Duty{}, err
		}
		sb, err := signedBlockOf(sp)
		if err != nil {
			return nil, core.Duty{}, err
		}
		sb.Elem().FieldByName("Message").Elem().FieldByName("Slot").SetUint(slot)

		return sp, core.NewProposerDuty(slot), nil
	case "randao":
		return &eth2util.SignedEpoch{Epoch: eth2p0.Epoch(ep + 1)}, core.NewRandaoDuty(slot), nil
	case "sync":
		return &altair.SyncCommitteeMessage{Slot: eth2p0.Slot(slot), ValidatorIndex: v.Idx, BeaconBlockRoot: b.randRoot()}, core.NewSyncMessageDuty(slot), nil
	case "exit":
		e := ep + 2 + uint64(b.rng.Intn(2))
		return &eth2p0.SignedVoluntaryExit{Message: &eth2p0.VoluntaryExit{Epoch: eth2p0.Epoch(e), ValidatorIndex: v.Idx}}, core.NewVoluntaryExit(w.ch.spe * e), nil
	}

	return nil, core.Duty{}, fmt.Errorf("unknown kind %s", kind)
}

// transplant re-sends observed signatures attached to other signed data. full demands a group
// with at least t distinct share indices (the end-of-case run); otherwise whatever was seen so far
// is used, which also covers "before the honest nodes processed the original duty".
func (b *byzDriver) transplant(full bool) {
	w := b.w
	b.mu.Lock()
	defer b.mu.Unlock()
	groups := b.observedGroups()
	var cands []*sigGroup
	for _, g := range groups {
		if len(g.shares) >= w.k {
			cands = append(cands, g)
		}
	}
	if len(cands) == 0 {
		if full {
			w.r.Count("byz/transplant/no-threshold-group-observed", 1)
		}
		cands = groups
	}
	if len(cands) == 0 {
		return
	}
	g := cands[b.rng.Intn(len(cands))]
	v := w.byCore[g.pk]
	kind := kindOfDuty[g.duty.Type]
	variant := "a-same-type-later-slot"
	switch x := b.rng.Intn(10); {
	case x >= 8 && len(w.vals) > 1:
		variant = "b-other-validator-same-slot"
	case x >= 6:
		variant = "c-other-duty-type"
	}
	var item any
	var duty core.Duty
	var err error
	tv := v
	switch variant {
	case "a-same-type-later-slot":
		item, duty, err = b.otherObject(kind, v, w.slot+1+uint64(b.rng.Intn(2)))
	case "b-other-validator-same-slot":
		for _, o := range w.vals {
			if o != v {
				tv = o
			}
		}
		item, duty, err = b.build(kind, tv, 2)
	default:
		others := []string{}
		for _, k := range []string{"attester", "proposer", "randao", "sync", "exit"} {
			if k != kind {
				others = append(others, k)
			}
		}
		item, duty, err = b.otherObject(others[b.rng.Intn(len(others))], v, w.slot+1+uint64(b.rng.Intn(2)))
	}
	if err != nil {
		w.r.Count("byz/forge-error", 1)
		return
	}
	shares := make([]int, 0, len(g.shares))
	for s := range g.shares {
		shares = append(shares, s)
	}
	sort.Ints(shares)
	var msgs []*pbv1.ParSigExMsg
	for _, s := range shares {
		it := deepCopy(item)
		if err := setSig(it, g.shares[s]); err != nil {
			w.r.Count("byz/forge-error", 1)
			return
		}
		sd, err := toCore(it)
		if err != nil {
			w.r.Count("byz/forge-error", 1)
			return
		}
		m, err := b.msg(&forged{Duty: duty, Set: core.ParSignedDataSet{tv.Core: core.ParSignedData{SignedData: sd, ShareIdx: s}}})
		if err != nil {
			w.r.Count("byz/encode-error", 1)
			return
		}
		msgs = append(msgs, m)
	}
	w.r.Count("byz/sent/transplant/"+variant, int64(len(msgs)))
	if len(shares) >= w.k {
		w.r.Count("transplanted_sets_with_threshold_shares", 1)
	}
	w.mon.note("byz %d: transplant %s: %d signatures of %v %s onto %v", b.idx, variant, len(msgs), g.duty, v.Name, duty)
	var wg sync.WaitGroup
	for tgt := 0; tgt < w.n; tgt++ {
		if tgt == b.idx || !w.hasStack(tgt) || w.sched.isCrashed(tgt) || w.sched.isCrashed(b.idx) {
			continue
		}
		order := b.rng.Perm(len(msgs))
		wg.Add(1)
		go func(tgt int, order []int) {
			defer wg.Done()
			for _, i := range order {
				w.net.Inject(w.ids[b.idx], w.ids[tgt], protoParSigEx, msgs[i])
			}
		}(tgt, order)
	}
	wg.Wait()
}
