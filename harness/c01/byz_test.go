package c01

// Byzantine identities: up to f members of the cluster (together with crashed ones) are driven by
// the harness. They hold their real p2p identity and their real BLS key shares and send arbitrary
// partial signatures made with those shares: over other data, over the same message root under
// another fork's domain, different content to different peers, replays and duplicates, before and
// after the honest nodes act. Must-reject classes (a signature that is not valid for the claimed
// share) are sent as well; whether they are refused is C10's business, here they only show that
// nothing of the kind ends up in a broadcast object.

import (
	"fmt"
	"math/rand"
	"sort"
	"sync"

	"github.com/attestantio/go-eth2-client/spec/altair"
	eth2p0 "github.com/attestantio/go-eth2-client/spec/phase0"

	"github.com/obolnetwork/charon/core"
	pbv1 "github.com/obolnetwork/charon/core/corepb/v1"
	"github.com/obolnetwork/charon/eth2util"
	"github.com/obolnetwork/charon/tbls"
)

type byzDriver struct {
	w   *world
	idx int
	rng *rand.Rand
	mu  sync.Mutex
}

type forged struct {
	Class string
	Duty  core.Duty
	PK    core.PubKey
	Par   core.ParSignedData
}

func (b *byzDriver) share(v *valInfo) tbls.PrivateKey { return v.Shares[b.idx+1] }

func (b *byzDriver) otherForkEpoch() uint64 {
	w := b.w
	cur := w.ch.forkVersionAt(w.epoch)
	for _, f := range w.ch.forks {
		if f.CurrentVersion != cur && uint64(f.Epoch) < w.epoch {
			return uint64(f.Epoch)
		}
	}

	return 0
}

func (b *byzDriver) randRoot() (r [32]byte) { b.rng.Read(r[:]); return r }

// honestLike builds the object an honest VC of this identity could sign for kind (random content
// where the content is not fixed by the duty).
func (b *byzDriver) build(kind string, v *valInfo, variant int) (any, core.Duty, error) {
	w := b.w
	switch kind {
	case "attester":
		d := w.candidateAttData(b.idx, v)
		switch variant % 3 {
		case 0:
			d.BeaconBlockRoot = b.randRoot()
		case 1:
			d.BeaconBlockRoot = w.headRoots[b.rng.Intn(len(w.headRoots))]
			d.Target.Root = b.randRoot()
		default:
			d.BeaconBlockRoot = w.headRoots[b.rng.Intn(len(w.headRoots))]
		}

		return w.buildAttestation(v, d), w.attDuty, nil
	case "proposer":
		var rr eth2p0.BLSSignature
		b.rng.Read(rr[:])
		up, err := w.candidateProposal(1000+w.logical(b.idx)*37+variant, v, rr)
		if err != nil {
			return nil, core.Duty{}, err
		}
		sp, err := signedOf(up)

		return sp, w.propDuty, err
	case "randao":
		ep := w.epoch
		if variant%2 == 0 {
			ep = w.epoch + 1 + uint64(b.rng.Intn(3))
		}

		return &eth2util.SignedEpoch{Epoch: eth2p0.Epoch(ep)}, w.randaoDuty, nil
	case "sync":
		m := &altair.SyncCommitteeMessage{Slot: eth2p0.Slot(w.slot), ValidatorIndex: v.Idx}
		if variant%2 == 0 {
			m.BeaconBlockRoot = w.syncRoots[b.rng.Intn(len(w.syncRoots))]
		} else {
			m.BeaconBlockRoot = b.randRoot()
		}

		return m, w.syncDuty, nil
	case "exit":
		ep := w.epoch + uint64(variant%3)
		duty := core.NewVoluntaryExit(w.ch.spe * w.epoch)
		if variant%2 == 1 {
			duty = core.NewVoluntaryExit(w.ch.spe * ep)
		}

		return &eth2p0.SignedVoluntaryExit{Message: &eth2p0.VoluntaryExit{Epoch: eth2p0.Epoch(ep), ValidatorIndex: v.Idx}}, duty, nil
	}

	return nil, core.Duty{}, fmt.Errorf("unknown kind %s", kind)
}

func (b *byzDriver) kinds() []string {
	var ks []string
	for _, k := range b.w.p.Kinds {
		ks = append(ks, k)
		if k == "proposer" {
			ks = append(ks, "randao")
		}
	}
	sort.Strings(ks)

	return ks
}

func (b *byzDriver) valFor(kind string) *valInfo {
	w := b.w
	switch kind {
	case "proposer", "randao":
		return w.vals[w.p.ProposerVal]
	case "exit":
		return w.vals[w.p.ExitVal]
	}

	return w.vals[b.rng.Intn(len(w.vals))]
}

// forge produces one partial signature of a PRNG-chosen class.
func (b *byzDriver) forge() (*forged, error) {
	w := b.w
	ks := b.kinds()
	kind := ks[b.rng.Intn(len(ks))]
	v := b.valFor(kind)
	own := b.idx + 1
	classes := []string{"other-data", "other-data", "other-data", "honest-object-foreign-signature", "claims-other-share", "zero-or-garbage-signature", "replay-honest"}
	if kind == "sync" {
		classes = append(classes, "same-message-root-other-fork", "same-message-root-other-fork", "same-message-root-other-fork")
	}
	if len(w.vals) > 1 {
		classes = append(classes, "cross-validator")
	}
	class := classes[b.rng.Intn(len(classes))]
	variant := b.rng.Intn(6)
	mk := func(item any, duty core.Duty, shareIdx int) (*forged, error) {
		sd, err := toCore(item)
		if err != nil {
			return nil, err
		}

		return &forged{Class: kind + "/" + class, Duty: duty, PK: v.Core, Par: core.ParSignedData{SignedData: sd, ShareIdx: shareIdx}}, nil
	}
	switch class {
	case "other-data":
		item, duty, err := b.build(kind, v, variant)
		if err != nil {
			return nil, err
		}
		if err := w.ch.sign(item, b.share(v), "", nil); err != nil {
			return nil, err
		}

		return mk(item, duty, own)
	case "same-message-root-other-fork":
		// a sync committee message for the same block root whose slot lies in another fork: the
		// message root (the block root) equals the honest one, the signing root does not, and the
		// signature is perfectly valid for this identity's share.
		ep := b.otherForkEpoch()
		m := &altair.SyncCommitteeMessage{Slot: eth2p0.Slot(ep*w.ch.spe + uint64(b.rng.Intn(int(w.ch.spe)))), ValidatorIndex: v.Idx,
			BeaconBlockRoot: w.syncRoots[b.rng.Intn(len(w.syncRoots))]}
		if err := w.ch.sign(m, b.share(v), "", nil); err != nil {
			return nil, err
		}

		return mk(m, w.syncDuty, own)
	case "honest-object-foreign-signature":
		item, duty, err := b.honestObject(kind, v)
		if err != nil {
			return nil, err
		}
		info, err := w.ch.inspect(item)
		if err != nil {
			return nil, err
		}
		sig, err := w.ch.signRaw(b.share(v), b.randRoot(), info.Domain, info.Epoch)
		if err != nil {
			return nil, err
		}
		if err := setSig(item, sig); err != nil {
			return nil, err
		}

		return mk(item, duty, own)
	case "claims-other-share":
		item, duty, err := b.honestObject(kind, v)
		if err != nil {
			return nil, err
		}
		if err := w.ch.sign(item, b.share(v), "", nil); err != nil {
			return nil, err
		}
		other := 1 + b.rng.Intn(w.n)
		for other == own {
			other = 1 + b.rng.Intn(w.n)
		}

		return mk(item, duty, other)
	case "cross-validator":
		item, duty, err := b.honestObject(kind, v)
		if err != nil {
			return nil, err
		}
		var v2 *valInfo
		for _, o := range w.vals {
			if o != v {
				v2 = o
			}
		}
		if err := w.ch.sign(item, b.share(v2), "", nil); err != nil {
			return nil, err
		}

		return mk(item, duty, own)
	case "zero-or-garbage-signature":
		item, duty, err := b.honestObject(kind, v)
		if err != nil {
			return nil, err
		}
		var s eth2p0.BLSSignature
		if variant%2 == 0 {
			b.rng.Read(s[:])
		}
		if err := setSig(item, s); err != nil {
			return nil, err
		}

		return mk(item, duty, own)
	case "replay-honest":
		msgs := w.tap.snapshot()
		if len(msgs) == 0 {
			return nil, nil
		}
		tm := msgs[b.rng.Intn(len(msgs))]
		duty := core.DutyFromProto(tm.Msg.GetDuty())
		set, err := core.ParSignedDataSetFromProto(duty.Type, tm.Msg.GetDataSet())
		if err != nil {
			return nil, err
		}
		for pk, par := range set {
			return &forged{Class: "replay-honest", Duty: duty, PK: pk, Par: par}, nil
		}
	}

	return nil, nil
}

// honestObject returns (a copy of) the object honest nodes exchange for kind/v if one was seen on
// the wire already, else what an honest VC of this identity would build.
func (b *byzDriver) honestObject(kind string, v *valInfo) (any, core.Duty, error) {
	w := b.w
	want := map[string]core.DutyType{"attester": core.DutyAttester, "proposer": core.DutyProposer, "randao": core.DutyRandao, "sync": core.DutySyncMessage, "exit": core.DutyExit}[kind]
	msgs := w.tap.snapshot()
	b.rng.Shuffle(len(msgs), func(i, j int) { msgs[i], msgs[j] = msgs[j], msgs[i] })
	for _, tm := range msgs {
		duty := core.DutyFromProto(tm.Msg.GetDuty())
		if duty.Type != want {
			continue
		}
		set, err := core.ParSignedDataSetFromProto(duty.Type, tm.Msg.GetDataSet())
		if err != nil {
			continue
		}
		par, ok := set[v.Core]
		if !ok {
			continue
		}
		item, err := fromCore(par.SignedData)
		if err != nil {
			continue
		}

		return deepCopy(item), duty, nil
	}

	return b.build(kind, v, 2)
}

func (b *byzDriver) msg(f *forged) (*pbv1.ParSigExMsg, error) {
	pb, err := core.ParSignedDataSetToProto(core.ParSignedDataSet{f.PK: f.Par})
	if err != nil {
		return nil, err
	}

	return &pbv1.ParSigExMsg{Duty: core.DutyToProto(f.Duty), DataSet: pb}, nil
}

// act forges and sends: the same content to a subset, or different content to different peers.
func (b *byzDriver) act() {
	w := b.w
	b.mu.Lock()
	defer b.mu.Unlock()
	var targets []int
	for i := 0; i < w.n; i++ {
		if i != b.idx && w.hasStack(i) && b.rng.Intn(4) != 0 {
			targets = append(targets, i)
		}
	}
	if len(targets) == 0 {
		return
	}
	equivocate := b.rng.Intn(2) == 0
	var f *forged
	var wg sync.WaitGroup
	for _, tgt := range targets {
		if f == nil || equivocate {
			nf, err := b.forge()
			if err != nil {
				w.mon.note("byz %d: forge: %v", b.idx, err)
				w.r.Count("byz/forge-error", 1)

				continue
			}
			if nf == nil {
				continue
			}
			f = nf
		}
		m, err := b.msg(f)
		if err != nil {
			w.r.Count("byz/encode-error", 1)
			continue
		}
		reps := 1
		if b.rng.Intn(5) == 0 {
			reps = 2 + b.rng.Intn(2) // duplicated
		}
		w.r.Count("byz/sent/"+f.Class, int64(reps))
		w.mon.note("byz %d -> node %d: %s %v share=%d x%d", b.idx, tgt, f.Class, f.Duty, f.Par.ShareIdx, reps)
		if w.sched.isCrashed(tgt) || w.sched.isCrashed(b.idx) {
			continue
		}
		for k := 0; k < reps; k++ {
			wg.Add(1)
			go func(tgt int) {
				defer wg.Done()
				w.net.Inject(w.ids[b.idx], w.ids[tgt], protoParSigEx, m)
			}(tgt)
		}
	}
	wg.Wait()
}

// run spreads the actions over the case: some before the honest nodes act, most while they do.
func (b *byzDriver) run(actions int) {
	w := b.w
	var at []int
	for i := 0; i < actions; i++ {
		at = append(at, -300+b.rng.Intn(4300))
	}
	sort.Ints(at)
	for _, ms := range at {
		if !w.sleepUntil(w.after(ms)) {
			return
		}
		if w.stopped.Load() {
			return
		}
		b.act()
	}
}
