package c01

// Reflection helpers over go-eth2-client structs (copied from the c10 harness): deep copy and
// deterministic generation of well-formed values honouring ssz-size / ssz-max tags.

import (
	"math/big"
	"math/rand"
	"reflect"
	"strconv"
	"strings"
	"time"

	bitfield "github.com/OffchainLabs/go-bitfield"
)

var (
	bitlistType = reflect.TypeOf(bitfield.Bitlist{})
	bigIntType  = reflect.TypeOf(big.Int{})
	timeType    = reflect.TypeOf(time.Time{})
)

// maxGenArray bounds the size of array elements the generator will put into dynamic lists
// (deneb.Blob is 128 KiB; such lists stay empty).
const maxGenArray = 4096

// ---- deep copy ----

func deepCopy[T any](v T) T {
	out := deepCopyValue(reflect.ValueOf(v))
	if !out.IsValid() {
		var zero T
		return zero
	}

	return out.Interface().(T)
}

func deepCopyValue(v reflect.Value) reflect.Value {
	if !v.IsValid() {
		return v
	}
	switch v.Kind() {
	case reflect.Ptr:
		if v.IsNil() {
			return reflect.Zero(v.Type())
		}
		if v.Type().Elem() == bigIntType {
			n := new(big.Int).Set(v.Interface().(*big.Int))
			return reflect.ValueOf(n)
		}
		p := reflect.New(v.Type().Elem())
		p.Elem().Set(deepCopyValue(v.Elem()))

		return p
	case reflect.Struct:
		out := reflect.New(v.Type()).Elem()
		out.Set(v) // copies unexported fields shallowly (none are reference types in the spec structs)
		for i := 0; i < v.NumField(); i++ {
			if !out.Field(i).CanSet() {
				continue
			}
			out.Field(i).Set(deepCopyValue(v.Field(i)))
		}

		return out
	case reflect.Slice:
		if v.IsNil() {
			return reflect.Zero(v.Type())
		}
		out := reflect.MakeSlice(v.Type(), v.Len(), v.Len())
		if v.Type().Elem().Kind() == reflect.Uint8 {
			reflect.Copy(out, v)
			return out
		}
		for i := 0; i < v.Len(); i++ {
			out.Index(i).Set(deepCopyValue(v.Index(i)))
		}

		return out
	case reflect.Array:
		out := reflect.New(v.Type()).Elem()
		if v.Type().Elem().Kind() == reflect.Uint8 || v.Type().Elem().Kind() == reflect.Uint64 {
			out.Set(v)
			return out
		}
		for i := 0; i < v.Len(); i++ {
			out.Index(i).Set(deepCopyValue(v.Index(i)))
		}

		return out
	case reflect.Interface:
		if v.IsNil() {
			return reflect.Zero(v.Type())
		}
		out := reflect.New(v.Type()).Elem()
		out.Set(deepCopyValue(v.Elem()))

		return out
	default:
		return v
	}
}

// ---- generation ----

func sszDims(tag reflect.StructTag) (size []string, max []string) {
	if s, ok := tag.Lookup("ssz-size"); ok {
		size = strings.Split(s, ",")
	}
	if s, ok := tag.Lookup("ssz-max"); ok {
		max = strings.Split(s, ",")
	}

	return size, max
}

func dimInt(dims []string, i int) (int, bool) {
	if i >= len(dims) {
		return 0, false
	}
	n, err := strconv.Atoi(strings.TrimSpace(dims[i]))
	if err != nil {
		return 0, false
	}

	return n, true
}

func rest(dims []string) []string {
	if len(dims) <= 1 {
		return nil
	}

	return dims[1:]
}

// genValue returns a well-formed random value of type t.
func genValue(t reflect.Type, size, max []string, rng *rand.Rand) reflect.Value {
	switch t.Kind() {
	case reflect.Ptr:
		if t.Elem() == bigIntType {
			return reflect.Zero(t)
		}
		p := reflect.New(t.Elem())
		p.Elem().Set(genValue(t.Elem(), size, max, rng))

		return p
	case reflect.Struct:
		out := reflect.New(t).Elem()
		if t == timeType {
			out.Set(reflect.ValueOf(time.Unix(1_600_000_000+int64(rng.Intn(100_000_000)), 0).UTC()))
			return out
		}
		for i := 0; i < t.NumField(); i++ {
			f := t.Field(i)
			if !f.IsExported() {
				continue
			}
			fs, fm := sszDims(f.Tag)
			out.Field(i).Set(genValue(f.Type, fs, fm, rng))
		}

		return out
	case reflect.Array:
		out := reflect.New(t).Elem()
		if t.Elem().Kind() == reflect.Uint8 {
			b := make([]byte, t.Len())
			rng.Read(b)
			reflect.Copy(out, reflect.ValueOf(b))

			return out
		}
		for i := 0; i < t.Len(); i++ {
			out.Index(i).Set(genValue(t.Elem(), rest(size), rest(max), rng))
		}

		return out
	case reflect.Slice:
		if t == bitlistType {
			nbits := 1 + rng.Intn(12)
			bl := bitfield.NewBitlist(uint64(nbits))
			for i := 0; i < nbits; i++ {
				if rng.Intn(2) == 0 {
					bl.SetBitAt(uint64(i), true)
				}
			}

			return reflect.ValueOf(bl)
		}
		n, fixed := dimInt(size, 0)
		if t.Elem().Kind() == reflect.Uint8 {
			if !fixed {
				n = 1 + rng.Intn(8)
				if m, ok := dimInt(max, 0); ok && n > m {
					n = m
				}
			}
			b := make([]byte, n)
			rng.Read(b)
			out := reflect.MakeSlice(t, n, n)
			reflect.Copy(out, reflect.ValueOf(b))

			return out
		}
		if !fixed {
			n = 1
			if t.Elem().Kind() == reflect.Array && t.Elem().Len() > maxGenArray {
				n = 0
			}
			if t.Elem().Kind() == reflect.Uint64 {
				n = 1 + rng.Intn(3)
			}
		}
		out := reflect.MakeSlice(t, n, n)
		for i := 0; i < n; i++ {
			out.Index(i).Set(genValue(t.Elem(), rest(size), rest(max), rng))
		}

		return out
	case reflect.Uint8, reflect.Uint16, reflect.Uint32, reflect.Uint64, reflect.Uint:
		out := reflect.New(t).Elem()
		out.SetUint((rng.Uint64() >> uint(rng.Intn(64))) & maxUint(t))

		return out
	case reflect.Int8, reflect.Int16, reflect.Int32, reflect.Int64, reflect.Int:
		out := reflect.New(t).Elem()
		out.SetInt(int64(rng.Intn(1000)))

		return out
	case reflect.Bool:
		out := reflect.New(t).Elem()
		out.SetBool(rng.Intn(2) == 0)

		return out
	default:
		return reflect.Zero(t)
	}
}

func maxUint(t reflect.Type) uint64 {
	bits := t.Bits()
	if bits >= 64 {
		return ^uint64(0)
	}

	return (uint64(1) << uint(bits)) - 1
}

// gen returns a generated *T.
func gen[T any](rng *rand.Rand) *T {
	var zero T
	v := genValue(reflect.TypeOf(zero), nil, nil, rng)
	p := new(T)
	reflect.ValueOf(p).Elem().Set(v)

	return p
}
