package c01

// Simulated validator clients: one per node. A VC talks to its node's real validatorapi.Component
// the way a validator client does (AttestationData -> sign -> SubmitAttestations; Proposal with a
// randao reveal -> sign -> SubmitProposal; sync committee messages; voluntary exits) and signs
// exactly what it is served with that node's BLS key share. Signing roots are computed by the
// independent implementation in oracle_test.go.

import (
	"errors"
	"fmt"
	"math/rand"
	"reflect"
	"time"

	bitfield "github.com/OffchainLabs/go-bitfield"
	eth2api "github.com/attestantio/go-eth2-client/api"
	eth2spec "github.com/attestantio/go-eth2-client/spec"
	"github.com/attestantio/go-eth2-client/spec/altair"
	eth2p0 "github.com/attestantio/go-eth2-client/spec/phase0"

	"github.com/obolnetwork/charon/core"
	"github.com/obolnetwork/charon/eth2util"
	"github.com/obolnetwork/charon/tbls"
)

func isPost(v eth2spec.DataVersion) bool {
	return v == eth2spec.DataVersionElectra || v == eth2spec.DataVersionFulu
}

// buildAttestation wraps data into the versioned attestation validator v would publish.
func (w *world) buildAttestation(v *valInfo, data *eth2p0.AttestationData) *eth2spec.VersionedAttestation {
	ver := w.p.attVersion
	bits := bitfield.NewBitlist(v.CommLen)
	bits.SetBitAt(v.Pos, true)
	va := &eth2spec.VersionedAttestation{Version: ver}
	f := reflect.ValueOf(va).Elem().FieldByName(versionField[ver])
	att := reflect.New(f.Type().Elem())
	att.Elem().FieldByName("AggregationBits").Set(reflect.ValueOf(bits))
	att.Elem().FieldByName("Data").Set(reflect.ValueOf(deepCopy(data)))
	if isPost(ver) {
		cb := bitfield.NewBitvector64()
		cb.SetBitAt(v.Comm, true)
		att.Elem().FieldByName("CommitteeBits").Set(reflect.ValueOf(cb))
		idx := v.Idx
		va.ValidatorIndex = &idx
	}
	f.Set(att)

	return va
}

// candidateProposal is node i's own block for the slot (distinct per node) carrying the aggregated
// randao reveal, like the fetcher gets it from its beacon node.
func (w *world) candidateProposal(i int, v *valInfo, randao eth2p0.BLSSignature) (*eth2api.VersionedProposal, error) {
	rng := w.r.Rand(w.c.Idx, 100+i) // i: node number or an arbitrary stream id
	p := &eth2api.VersionedProposal{Version: w.p.propVersion, Blinded: w.p.PropBlinded}
	name := versionField[p.Version]
	if p.Blinded {
		name += "Blinded"
	}
	f := reflect.ValueOf(p).Elem().FieldByName(name)
	if !f.IsValid() {
		return nil, fmt.Errorf("no proposal field %s", name)
	}
	f.Set(genValue(f.Type(), nil, nil, rng))
	blk := f
	if b := f.Elem().FieldByName("Block"); b.IsValid() && b.Kind() == reflect.Ptr {
		blk = b
	}
	blk.Elem().FieldByName("Slot").SetUint(w.slot)
	blk.Elem().FieldByName("ProposerIndex").SetUint(uint64(v.Idx))
	body := blk.Elem().FieldByName("Body")
	if !body.IsValid() || body.IsNil() {
		return nil, errors.New("generated block has no body")
	}
	body.Elem().FieldByName("RANDAOReveal").Set(reflect.ValueOf(randao))

	return p, nil
}

// signedOf builds the signed container a VC would submit for the unsigned proposal it was served.
func signedOf(up *eth2api.VersionedProposal) (*eth2api.VersionedSignedProposal, error) {
	uf, err := versioned(up, up.Version, up.Blinded)
	if err != nil {
		return nil, err
	}
	name := versionField[up.Version]
	if up.Blinded {
		name += "Blinded"
	}
	sp := &eth2api.VersionedSignedProposal{Version: up.Version, Blinded: up.Blinded}
	sf := reflect.ValueOf(sp).Elem().FieldByName(name)
	if !sf.IsValid() {
		return nil, fmt.Errorf("no signed field %s", name)
	}
	s := reflect.New(sf.Type().Elem())
	if sb := s.Elem().FieldByName("SignedBlock"); sb.IsValid() {
		inner := reflect.New(sb.Type().Elem())
		inner.Elem().FieldByName("Message").Set(deepCopyValue(uf.Elem().FieldByName("Block")))
		sb.Set(inner)
		s.Elem().FieldByName("KZGProofs").Set(deepCopyValue(uf.Elem().FieldByName("KZGProofs")))
		s.Elem().FieldByName("Blobs").Set(deepCopyValue(uf.Elem().FieldByName("Blobs")))
	} else {
		s.Elem().FieldByName("Message").Set(deepCopyValue(uf))
	}
	sf.Set(s)

	return sp, nil
}

func proposalToBlinded(p *eth2api.VersionedSignedProposal) *eth2api.VersionedSignedBlindedProposal {
	return &eth2api.VersionedSignedBlindedProposal{
		Version: p.Version, Bellatrix: p.BellatrixBlinded, Capella: p.CapellaBlinded, Deneb: p.DenebBlinded,
		Electra: p.ElectraBlinded, Fulu: p.FuluBlinded,
	}
}

// ---- the flows ----

func (nd *node) share(v *valInfo) tbls.PrivateKey { return v.Shares[nd.idx+1] }

// vcAttester: one AttestationData query per committee (or committee 0 post-electra), then one
// signed attestation per validator, submitted as a batch or one by one.
func (nd *node) vcAttester(rng *rand.Rand) {
	w := nd.w
	type group struct {
		comm uint64
		vals []*valInfo
	}
	var groups []*group
	for _, v := range w.vals {
		q := v.Comm
		if w.p.Electra && rng.Intn(2) == 0 {
			q = 0 // VCs following the electra API ask for committee index 0
		}
		var g *group
		for _, x := range groups {
			if x.comm == q {
				g = x
			}
		}
		if g == nil {
			g = &group{comm: q}
			groups = append(groups, g)
		}
		g.vals = append(g.vals, v)
	}
	batch := rng.Intn(2) == 0
	var atts []*eth2spec.VersionedAttestation
	for _, g := range groups {
		resp, err := nd.vapi.AttestationData(w.ctx, &eth2api.AttestationDataOpts{Slot: eth2p0.Slot(w.slot), CommitteeIndex: eth2p0.CommitteeIndex(g.comm)})
		if err != nil {
			w.mon.vapiResult(nd.idx, "attestation-data", err)
			continue
		}
		for _, v := range g.vals {
			att := w.buildAttestation(v, resp.Data)
			if err := w.ch.sign(att, nd.share(v), "", nil); err != nil {
				w.r.Inconclusive("vc sign attestation: %v", err)
				return
			}
			atts = append(atts, att)
		}
	}
	if len(atts) == 0 {
		return
	}
	if batch {
		w.mon.vapiResult(nd.idx, "submit-attestations", nd.vapi.SubmitAttestations(w.ctx, &eth2api.SubmitAttestationsOpts{Attestations: atts}))
		return
	}
	for _, a := range atts {
		w.mon.vapiResult(nd.idx, "submit-attestations", nd.vapi.SubmitAttestations(w.ctx, &eth2api.SubmitAttestationsOpts{Attestations: []*eth2spec.VersionedAttestation{a}}))
	}
}

// vcProposer: randao reveal -> Proposal (blocks until consensus stored the block) -> sign -> submit.
func (nd *node) vcProposer() {
	w := nd.w
	v := w.vals[w.p.ProposerVal]
	se := &eth2util.SignedEpoch{Epoch: eth2p0.Epoch(w.epoch)}
	if err := w.ch.sign(se, nd.share(v), "", nil); err != nil {
		w.r.Inconclusive("vc sign randao: %v", err)
		return
	}
	resp, err := nd.vapi.Proposal(w.ctx, &eth2api.ProposalOpts{Slot: eth2p0.Slot(w.slot), RandaoReveal: se.Signature})
	if err != nil {
		w.mon.vapiResult(nd.idx, "proposal", err)
		return
	}
	w.mon.vapiResult(nd.idx, "proposal", nil)
	sp, err := signedOf(resp.Data)
	if err != nil {
		w.r.Inconclusive("vc build signed proposal: %v", err)
		return
	}
	if err := w.ch.sign(sp, nd.share(v), "", nil); err != nil {
		w.r.Inconclusive("vc sign proposal: %v", err)
		return
	}
	if sp.Blinded {
		w.mon.vapiResult(nd.idx, "submit-blinded-proposal", nd.vapi.SubmitBlindedProposal(w.ctx, &eth2api.SubmitBlindedProposalOpts{Proposal: proposalToBlinded(sp)}))
		return
	}
	w.mon.vapiResult(nd.idx, "submit-proposal", nd.vapi.SubmitProposal(w.ctx, &eth2api.SubmitProposalOpts{Proposal: sp}))
}

// vcSync: every VC signs the head its own beacon node reported (no consensus by design).
func (nd *node) vcSync(rng *rand.Rand) {
	w := nd.w
	submit := func(choice int, what string) {
		var msgs []*altair.SyncCommitteeMessage
		for _, v := range w.vals {
			m := &altair.SyncCommitteeMessage{Slot: eth2p0.Slot(w.slot), BeaconBlockRoot: w.syncRoots[choice], ValidatorIndex: v.Idx}
			if err := w.ch.sign(m, nd.share(v), "", nil); err != nil {
				w.r.Inconclusive("vc sign sync message: %v", err)
				return
			}
			msgs = append(msgs, m)
		}
		if rng.Intn(4) != 0 { // VCs normally submit all their validators' messages in one call
			w.mon.vapiResult(nd.idx, what, nd.vapi.SubmitSyncCommitteeMessages(w.ctx, msgs))
			return
		}
		for _, m := range msgs {
			w.mon.vapiResult(nd.idx, what, nd.vapi.SubmitSyncCommitteeMessages(w.ctx, []*altair.SyncCommitteeMessage{m}))
		}
	}
	submit(w.p.SyncChoice[nd.idx], "submit-sync-messages")
	// VC restart / fail-over inside the slot: the VC signs the same duty again for the head its
	// beacon node reports now. The node has to refuse that and must not exchange it.
	if d := w.p.ResignMs[nd.idx]; d >= 0 && w.p.SyncChoice2[nd.idx] != w.p.SyncChoice[nd.idx] {
		if !w.sleepUntil(time.Now().Add(msDur(d))) {
			return
		}
		resubmit := func(counter string) bool {
			w.resignMu.RLock()
			defer w.resignMu.RUnlock()
			if w.resignClosed {
				w.r.Count("resign/skipped_because_duties_are_about_to_expire", 1)
				return false
			}
			w.r.Count(counter, 1)
			submit(w.p.SyncChoice2[nd.idx], "resign-sync-messages")

			return true
		}
		if !resubmit("resign/sync_second_submissions") {
			return
		}
		// a VC whose submission was answered with an error retries it (up to twice, shortly after)
		for k := rng.Intn(3); k > 0; k-- {
			if !w.sleepUntil(time.Now().Add(msDur(1+rng.Intn(20)))) || !resubmit("resign/sync_retries_of_the_refused_submission") {
				return
			}
		}
	}
}

// vcResignAttestations: after a restart the VC signs attestations for the same duty again, for
// other data than the node served (a VC without slashing protection for the slot).
func (nd *node) vcResignAttestations(rng *rand.Rand) {
	w := nd.w
	var atts []*eth2spec.VersionedAttestation
	var head [32]byte
	rng.Read(head[:])
	for _, v := range w.vals {
		d := w.candidateAttData(nd.idx, v)
		d.BeaconBlockRoot = head
		att := w.buildAttestation(v, d)
		if err := w.ch.sign(att, nd.share(v), "", nil); err != nil {
			return
		}
		atts = append(atts, att)
	}
	resubmit := func(counter string) bool {
		w.resignMu.RLock()
		defer w.resignMu.RUnlock()
		if w.resignClosed {
			w.r.Count("resign/skipped_because_duties_are_about_to_expire", 1)
			return false
		}
		w.r.Count(counter, 1)
		w.mon.vapiResult(nd.idx, "resign-attestations", nd.vapi.SubmitAttestations(w.ctx, &eth2api.SubmitAttestationsOpts{Attestations: atts}))

		return true
	}
	if !resubmit("resign/attestation_second_submissions") {
		return
	}
	for k := rng.Intn(3); k > 0; k-- { // retries of the same (refused) submission
		if !w.sleepUntil(time.Now().Add(msDur(1+rng.Intn(20)))) || !resubmit("resign/attestation_retries_of_the_refused_submission") {
			return
		}
	}
}

func (w *world) exitEpoch(i int) uint64 { return w.epoch + uint64(w.p.ExitEpochOff[i]) }

func (nd *node) vcExit() {
	w := nd.w
	v := w.vals[w.p.ExitVal]
	ex := &eth2p0.SignedVoluntaryExit{Message: &eth2p0.VoluntaryExit{Epoch: eth2p0.Epoch(w.exitEpoch(nd.idx)), ValidatorIndex: v.Idx}}
	if err := w.ch.sign(ex, nd.share(v), "", nil); err != nil {
		w.r.Inconclusive("vc sign exit: %v", err)
		return
	}
	w.mon.vapiResult(nd.idx, "submit-exit", nd.vapi.SubmitVoluntaryExit(w.ctx, ex))
}

// nodeMain is the life of one node in the case: (late) start, duty triggers, validator client.
func (nd *node) nodeMain() {
	w := nd.w
	rng := w.r.Rand(w.c.Idx, 200+w.logical(nd.idx))
	start := w.after(w.p.StartDelayMs[nd.idx])
	if !w.sleepUntil(start) {
		return
	}
	// the scheduler triggers the slot's duties (fetch + participate go through the real wiring)
	if w.hasKind("proposer") {
		w.go_(func() { nd.sched.trigger(w.ctx, w.propDuty) })
	}
	attJitter := time50ms(rng)
	if w.hasKind("attester") {
		w.go_(func() {
			// attester duties are triggered a third into the slot; late nodes trigger at once
			at := w.t0.Add(slotSeconds * time.Second / 3)
			if start.After(at) {
				at = start
			}
			if w.sleepUntil(at.Add(-attJitter)) {
				nd.sched.trigger(w.ctx, w.attDuty)
			}
		})
	}
	vc := start.Add(msDur(w.p.VCDelayMs[nd.idx]))
	if w.hasKind("proposer") {
		w.go_(func() {
			if w.sleepUntil(vc) {
				nd.vcProposer()
			}
		})
	}
	if w.hasKind("attester") {
		r2 := rand.New(rand.NewSource(rng.Int63()))
		w.go_(func() {
			if w.sleepUntil(vc.Add(msDur(300 + r2.Intn(500)))) {
				nd.vcAttester(r2)
				if d := w.p.ResignMs[nd.idx]; d >= 0 && w.sleepUntil(time.Now().Add(msDur(d))) {
					nd.vcResignAttestations(r2)
				}
			}
		})
	}
	if w.hasKind("sync") {
		r3 := rand.New(rand.NewSource(rng.Int63()))
		w.go_(func() {
			if w.sleepUntil(vc.Add(msDur(r3.Intn(1500)))) {
				nd.vcSync(r3)
			}
		})
	}
	if w.hasKind("exit") {
		d := rng.Intn(1500)
		w.go_(func() {
			if w.sleepUntil(vc.Add(msDur(d))) {
				nd.vcExit()
			}
		})
	}
}

var _ = core.Duty{}
