package c01

// Adversarial network scheduler on top of fakenet. Every envelope sent by a real component is taken
// over by the scheduler (the fakenet policy returns Drop and the scheduler delivers copies itself):
// PRNG delay profile (reordering), duplication, a transient partition, and "crashes": a crashed
// node is cut off for good from a PRNG-chosen global envelope index on — which may fall in the
// middle of a broadcast fan-out. Everything between live nodes is eventually delivered (flush).
// Real time only paces deliveries; no verdict depends on it.

import (
	"container/heap"
	"fmt"
	"math/rand"
	"sync"
	"sync/atomic"
	"time"

	"github.com/libp2p/go-libp2p/core/peer"

	pbv1 "github.com/obolnetwork/charon/core/corepb/v1"

	"verifharness/fakenet"
)

const (
	protoParSigEx = "/charon/parsigex/2.0.0"
	protoQBFT     = "/charon/consensus/qbft/2.0.0"
)

type queued struct {
	at  time.Time
	env *fakenet.Envelope
	dup bool
	seq int64
}

type envHeap []*queued

func (h envHeap) Len() int { return len(h) }
func (h envHeap) Less(i, j int) bool {
	if h[i].at.Equal(h[j].at) {
		return h[i].seq < h[j].seq
	}

	return h[i].at.Before(h[j].at)
}
func (h envHeap) Swap(i, j int) { h[i], h[j] = h[j], h[i] }
func (h *envHeap) Push(x any)   { *h = append(*h, x.(*queued)) }
func (h *envHeap) Pop() any     { o := *h; n := len(o); x := o[n-1]; *h = o[:n-1]; return x }

type netSched struct {
	w   *world
	mu  sync.Mutex
	rng *rand.Rand
	q   envHeap
	seq int64

	seen     int64
	crashAt  map[peer.ID]int64
	crashed  map[peer.ID]bool
	baseMax  time.Duration
	longProb float64
	slowLink map[[2]int]time.Duration
	dupProb  float64
	lossy    map[[2]int]bool // directed links that lose about half of their messages

	partSide  map[peer.ID]int
	partFrom  time.Time
	partUntil time.Time

	log []*fakenet.Envelope // delivered envelopes, material for replays

	flushing  bool
	wake      chan struct{}
	quit      chan struct{}
	done      chan struct{}
	inflight  atomic.Int64
	pendingPS atomic.Int64 // partial-signature envelopes queued or being delivered

	// stats
	sent, delivered, dups, droppedCrash, heldByPartition, reordered, droppedLossy int64
	lastDeliveredSeq                                                              map[[2]int]int64
}

func newNetSched(w *world, rng *rand.Rand) *netSched {
	s := &netSched{w: w, rng: rng, crashAt: map[peer.ID]int64{}, crashed: map[peer.ID]bool{}, slowLink: map[[2]int]time.Duration{},
		partSide: map[peer.ID]int{}, wake: make(chan struct{}, 1), quit: make(chan struct{}), done: make(chan struct{}),
		lastDeliveredSeq: map[[2]int]int64{}, dupProb: w.p.DupProb}
	for i, at := range w.p.CrashAt {
		s.crashAt[w.ids[i]] = at
	}
	switch w.p.NetProfile {
	case "fast":
		s.baseMax = 3 * time.Millisecond
	case "jitter":
		s.baseMax = 60 * time.Millisecond
		s.longProb = 0.03
	case "slow-links":
		s.baseMax = 20 * time.Millisecond
		for k := 0; k < 1+w.n/2; k++ {
			a, b := rng.Intn(w.n), rng.Intn(w.n)
			s.slowLink[[2]int{a, b}] = time.Duration(100+rng.Intn(700)) * time.Millisecond
		}
	case "bursty":
		s.baseMax = 150 * time.Millisecond
		s.longProb = 0.08
	}
	s.lossy = map[[2]int]bool{}
	for k := 0; k < w.p.LossyLinks; k++ {
		a, b := rng.Intn(w.n), rng.Intn(w.n)
		if a != b {
			s.lossy[[2]int{a, b}] = true
		}
	}
	if w.p.Partition != "" {
		for _, id := range w.ids {
			s.partSide[id] = rng.Intn(2)
		}
		s.partFrom = w.t0.Add(time.Duration(rng.Intn(1800)) * time.Millisecond)
		s.partUntil = s.partFrom.Add(time.Duration(300+rng.Intn(1700)) * time.Millisecond)
	}
	go s.run()

	return s
}

func (s *netSched) kickLocked() {
	select {
	case s.wake <- struct{}{}:
	default:
	}
}

func (s *netSched) kick() {
	select {
	case s.wake <- struct{}{}:
	default:
	}
}

// policy is called by fakenet in the sender's goroutine for every envelope.
func (s *netSched) policy(e *fakenet.Envelope) fakenet.Verdict {
	now := time.Now()
	s.mu.Lock()
	idx := s.seen
	s.seen++
	s.sent++
	for id, at := range s.crashAt {
		if idx >= at && !s.crashed[id] {
			s.crashed[id] = true
			s.w.mon.note("net: node %d crashes at envelope %d", s.w.idxOf[id], idx)
		}
	}
	if s.crashed[e.From] || s.crashed[e.To] {
		s.droppedCrash++
		s.mu.Unlock()

		return fakenet.Drop
	}
	if e.Proto == protoParSigEx && s.lossy[[2]int{s.w.idxOf[e.From], s.w.idxOf[e.To]}] && !s.flushing && s.rng.Intn(2) == 0 {
		s.droppedLossy++
		s.mu.Unlock()

		return fakenet.Drop
	}
	at := now
	if !s.flushing {
		at = now.Add(time.Duration(s.rng.Int63n(int64(s.baseMax) + 1)))
		if s.rng.Float64() < s.longProb {
			at = at.Add(time.Duration(200+s.rng.Intn(1300)) * time.Millisecond)
		}
		if d, ok := s.slowLink[[2]int{s.w.idxOf[e.From], s.w.idxOf[e.To]}]; ok {
			at = at.Add(d)
		}
		if len(s.partSide) > 0 && s.partSide[e.From] != s.partSide[e.To] && !at.Before(s.partFrom) && at.Before(s.partUntil) {
			at = s.partUntil.Add(time.Duration(s.rng.Intn(100)) * time.Millisecond)
			s.heldByPartition++
		}
	}
	s.push(at, e.Clone(), false)
	if !s.flushing && s.rng.Float64() < s.dupProb {
		s.push(at.Add(time.Duration(s.rng.Intn(1200))*time.Millisecond), e.Clone(), true)
	}
	s.mu.Unlock()
	s.kick()

	return fakenet.Drop // the scheduler owns delivery (one-way sends only)
}

func (s *netSched) push(at time.Time, e *fakenet.Envelope, dup bool) {
	if e.Proto == protoParSigEx {
		s.pendingPS.Add(1)
	}
	s.seq++
	heap.Push(&s.q, &queued{at: at, env: e, dup: dup, seq: s.seq})
}

func (s *netSched) run() {
	defer close(s.done)
	for {
		now := time.Now()
		var due []*queued
		s.mu.Lock()
		for s.q.Len() > 0 && (s.flushing || !s.q[0].at.After(now)) {
			due = append(due, heap.Pop(&s.q).(*queued))
		}
		wait := 20 * time.Millisecond
		if s.q.Len() > 0 {
			if d := time.Until(s.q[0].at); d < wait {
				wait = d
			}
		}
		for _, it := range due {
			if s.crashed[it.env.From] || s.crashed[it.env.To] {
				s.droppedCrash++ // was in flight when the node went away
				if it.env.Proto == protoParSigEx {
					s.pendingPS.Add(-1)
				}
				continue
			}
			link := [2]int{s.w.idxOf[it.env.From], s.w.idxOf[it.env.To]}
			if it.env.Seq < s.lastDeliveredSeq[link] {
				s.reordered++
			} else {
				s.lastDeliveredSeq[link] = it.env.Seq
			}
			if it.dup {
				s.dups++
			}
			s.delivered++
			if len(s.log) < 600 && !it.dup {
				s.log = append(s.log, it.env)
			}
			s.inflight.Add(1)
			go func(e *fakenet.Envelope) {
				defer s.inflight.Add(-1)
				s.w.net.Deliver(e)
				if e.Proto == protoParSigEx {
					s.pendingPS.Add(-1)
				}
			}(it.env)
		}
		s.mu.Unlock()
		if wait < 0 {
			wait = 0
		}
		t := time.NewTimer(wait)
		select {
		case <-s.quit:
			t.Stop()
			return
		case <-s.wake:
		case <-t.C:
		}
		t.Stop()
	}
}

// flush switches to immediate delivery and waits (pacing only, bounded) until no partial-signature
// envelope is queued or being handled. Consensus instances that have not decided keep sending
// round changes for as long as the case lives, so "the network is silent" is not waited for.
func (s *netSched) flush(keep bool) {
	s.mu.Lock()
	s.flushing = true
	s.mu.Unlock()
	s.kick()
	for i := 0; i < 300; i++ {
		if s.pendingPS.Load() == 0 {
			time.Sleep(2 * time.Millisecond)
			if s.pendingPS.Load() == 0 {
				break
			}
		}
		time.Sleep(3 * time.Millisecond)
		s.kick()
	}
	if v := s.pendingPS.Load(); v != 0 {
		s.mu.Lock()
		ql := s.q.Len()
		s.mu.Unlock()
		s.w.r.Seen("pacing_flush_gave_up", fmt.Sprintf("pending=%d queue=%d inflight=%d", v, ql, s.inflight.Load()))
	}
	if !keep {
		s.mu.Lock()
		s.flushing = false
		s.mu.Unlock()
	}
}

// replay queues copies of up to k already delivered envelopes for another delivery (duplicates /
// late replays). Deliveries stay asynchronous: the consensus handler blocks for its receive timeout
// once the per-duty buffer of a finished instance is full.
func (s *netSched) replay(rng *rand.Rand, k int) int {
	s.mu.Lock()
	defer s.mu.Unlock()
	if len(s.log) == 0 {
		return 0
	}
	n := 0
	now := time.Now()
	for i := 0; i < k; i++ {
		e := s.log[rng.Intn(len(s.log))]
		if s.crashed[e.From] || s.crashed[e.To] {
			continue
		}
		s.push(now, e.Clone(), true)
		n++
	}
	s.kickLocked()

	return n
}

// idle: nothing queued and no delivery running.
func (s *netSched) idle() bool {
	s.mu.Lock()
	defer s.mu.Unlock()

	return s.q.Len() == 0 && s.inflight.Load() == 0
}

func (s *netSched) isFlushing() bool {
	s.mu.Lock()
	defer s.mu.Unlock()

	return s.flushing
}

func (s *netSched) stop() {
	select {
	case <-s.quit:
	default:
		close(s.quit)
	}
	<-s.done
	for i := 0; i < 60000 && s.inflight.Load() != 0; i++ {
		time.Sleep(2 * time.Millisecond)
	}
}

func (s *netSched) isCrashed(i int) bool {
	s.mu.Lock()
	defer s.mu.Unlock()

	return s.crashed[s.w.ids[i]]
}

// tapLog records the partial-signature messages honest nodes put on the wire (what a Byzantine
// member of the cluster sees) for the Byzantine drivers.
type tapLog struct {
	w    *world
	mu   sync.Mutex
	msgs []tapped
	cons []*pbv1.QBFTConsensusMsg
}

type tapped struct {
	From int
	Msg  *pbv1.ParSigExMsg
}

func (t *tapLog) observe(e *fakenet.Envelope) {
	if e.Proto == protoQBFT {
		q := new(pbv1.QBFTConsensusMsg)
		if err := fakenet.Unframe(e.Data, q); err != nil || len(q.GetValues()) == 0 {
			return
		}
		t.mu.Lock()
		if len(t.cons) < 200 {
			t.cons = append(t.cons, q)
		}
		t.mu.Unlock()

		return
	}
	if e.Proto != protoParSigEx {
		return
	}
	m := new(pbv1.ParSigExMsg)
	if err := fakenet.Unframe(e.Data, m); err != nil {
		return
	}
	t.mu.Lock()
	if len(t.msgs) < 400 {
		t.msgs = append(t.msgs, tapped{From: t.w.idxOf[e.From], Msg: m})
	}
	t.mu.Unlock()
}

func (t *tapLog) snapshot() []tapped {
	t.mu.Lock()
	defer t.mu.Unlock()

	return append([]tapped(nil), t.msgs...)
}

func (t *tapLog) consensus() []*pbv1.QBFTConsensusMsg {
	t.mu.Lock()
	defer t.mu.Unlock()

	return append([]*pbv1.QBFTConsensusMsg(nil), t.cons...)
}
