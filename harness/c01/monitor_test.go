package c01

// The monitor is the Broadcaster of every node and sits in front of every AggSigDB.Store. It
// re-verifies every object independently (oracle_test.go) under the lock's group public key and
// keeps the cluster-wide map (duty, validator) -> first signing root seen.
//
// Everything else here is bookkeeping: which faults took effect (non-triviality), and "precursor"
// counters — events that the property statement does not forbid but that show an inner defence of
// the pipeline giving way (honest nodes storing different decided data, a threshold set with mixed
// message roots reaching SigAgg, SigAgg refusing a threshold set). They never decide the verdict.

import (
	"crypto/sha256"
	"encoding/hex"
	"fmt"
	"os"
	"sort"
	"sync"
	"time"

	"google.golang.org/protobuf/proto"

	"github.com/obolnetwork/charon/core"
	pbv1 "github.com/obolnetwork/charon/core/corepb/v1"
	"github.com/obolnetwork/charon/tbls"
)

type dkey struct {
	Duty core.Duty
	PK   core.PubKey
}

type seenRoot struct {
	Root   [32]byte
	Point  string
	Node   int
	Object string
	At     string
}

type monitor struct {
	w  *world
	mu sync.Mutex

	first      map[dkey]seenRoot
	bcastBy    map[dkey]map[int]int // broadcasts per node
	events     int
	thresholds int
	failing1   int // SigAgg calls with exactly one validator whose set mixes signing roots
	failing2   int // ... with two or more such validators in one call
	broadcasts int
	stores     int
	checkedOK  int

	trace []string

	// effects
	roundChanges                               int
	maxRound                                   int64
	decidedRounds                              map[core.Duty]map[int]int64
	rejected                                   map[string]int // verifier rejections by error class
	rejectedByz                                int
	acceptedByz                                int
	equivocations                              int
	candidates                                 map[core.Duty]map[string]bool
	decidedHash                                map[core.Duty]map[int]string
	precursors                                 map[string]int
	aggCalls                                   map[string]int
	templateOdd                                int
	vapiErrors                                 map[string]int
	vcSubmitted                                int
	dutyStoreErrs                              int
	resignRefused, resignAccepted, resignOther int
}

func newMonitor(w *world) *monitor {
	return &monitor{w: w, first: map[dkey]seenRoot{}, bcastBy: map[dkey]map[int]int{}, rejected: map[string]int{},
		candidates: map[core.Duty]map[string]bool{}, decidedHash: map[core.Duty]map[int]string{}, precursors: map[string]int{},
		aggCalls: map[string]int{}, decidedRounds: map[core.Duty]map[int]int64{}, vapiErrors: map[string]int{}}
}

func (m *monitor) stamp() string {
	return fmt.Sprintf("%+.3fs", time.Since(m.w.t0).Seconds())
}

// note appends to the bounded case trace (witness material only).
func (m *monitor) note(format string, a ...any) {
	m.mu.Lock()
	m.noteLocked(format, a...)
	m.mu.Unlock()
}

func (m *monitor) noteLocked(format string, a ...any) {
	if len(m.trace) < 600 {
		m.trace = append(m.trace, m.stamp()+" "+fmt.Sprintf(format, a...))
	}
}

func (m *monitor) precursor(name, format string, a ...any) {
	m.mu.Lock()
	m.precursors[name]++
	m.noteLocked("precursor "+name+": "+format, a...)
	m.mu.Unlock()
}

// strictMechanisms (C01_STRICT=1, off by default) turns the two precursors that name a mechanism
// of the property record — honest nodes storing different decided values, a mixed-root threshold
// set reaching SigAgg — into violations. The statement itself does not forbid them.
var strictMechanisms = os.Getenv("C01_STRICT") == "1"

func (m *monitor) mechanism(name, what string, extra map[string]any) {
	if !strictMechanisms {
		return
	}
	m.w.c.Violation("c01/mechanism/"+name, what, m.witness(extra))
}

func short(b []byte) string {
	if len(b) > 6 {
		b = b[:6]
	}

	return hex.EncodeToString(b)
}

// observe is the oracle: called with the input of Broadcaster.Broadcast and of AggSigDB.Store.
func (m *monitor) observe(point string, nodeIdx int, duty core.Duty, set core.SignedDataSet) {
	w := m.w
	for pk, obj := range set {
		dt := duty.Type.String()
		m.mu.Lock()
		m.events++
		if point == "broadcast" {
			m.broadcasts++
		} else {
			m.stores++
		}
		m.mu.Unlock()
		v, ok := w.byCore[pk]
		if !ok {
			w.c.Violation("c01/"+point+"/unknown-validator/"+dt,
				fmt.Sprintf("node %d handed a %s object for a public key that is not a validator of the cluster lock to %s", nodeIdx, dt, point),
				m.witness(map[string]any{"node": nodeIdx, "duty": duty.String(), "pubkey": string(pk)}))
			continue
		}
		item, err := fromCore(obj)
		if err != nil {
			w.c.Violation("c01/"+point+"/not-an-eth2-signed-object/"+dt, fmt.Sprintf("node %d: %v", nodeIdx, err),
				m.witness(map[string]any{"node": nodeIdx, "duty": duty.String(), "type": fmt.Sprintf("%T", obj)}))
			continue
		}
		info, err := w.ch.inspect(item)
		if err != nil {
			w.c.Violation("c01/"+point+"/uninspectable-object/"+dt, fmt.Sprintf("node %d: %v", nodeIdx, err),
				m.witness(map[string]any{"node": nodeIdx, "duty": duty.String(), "type": fmt.Sprintf("%T", obj), "object": kitShortJSON(obj)}))
			continue
		}
		sr, dom, err := w.ch.signingRoot(info.Root, info.Domain, info.Epoch)
		if err != nil {
			w.r.Inconclusive("oracle: signing root: %v", err)
			continue
		}
		valid := w.ch.verifies(info, v.Pub)
		if !valid {
			w.c.Violation("c01/"+point+"/signature-not-valid-under-group-key/"+dt,
				fmt.Sprintf("node %d handed a %s object to %s whose signature does not verify under the validator's group public key for the object's own signing root", nodeIdx, dt, point),
				m.witness(map[string]any{"node": nodeIdx, "duty": duty.String(), "validator": v.Name, "group_pubkey": "0x" + hex.EncodeToString(v.Pub[:]),
					"object_root": "0x" + hex.EncodeToString(info.Root[:]), "domain": info.Domain, "domain_value": "0x" + hex.EncodeToString(dom[:]), "epoch": info.Epoch,
					"signing_root": "0x" + hex.EncodeToString(sr[:]), "signature": "0x" + hex.EncodeToString(info.Sig[:]), "object": kitShortJSON(obj)}))
		}
		k := dkey{duty, pk}
		m.mu.Lock()
		if valid {
			m.checkedOK++
		}
		if info.Slot != duty.Slot && duty.Type != core.DutyExit && duty.Type != core.DutyRandao {
			m.templateOdd++
		}
		prev, seen := m.first[k]
		if !seen {
			m.first[k] = seenRoot{Root: sr, Point: point, Node: nodeIdx, Object: kitShortJSON(obj), At: m.stamp()}
		}
		if point == "broadcast" {
			if m.bcastBy[k] == nil {
				m.bcastBy[k] = map[int]int{}
			}
			m.bcastBy[k][nodeIdx]++
		}
		m.noteLocked("%s node=%d %v %s root=%s valid=%v", point, nodeIdx, duty, v.Name, short(sr[:]), valid)
		m.mu.Unlock()
		if seen && prev.Root != sr {
			w.c.Violation("c01/"+point+"/two-signing-roots-for-one-duty-and-validator/"+dt,
				fmt.Sprintf("two fully signed %s objects with different signing roots for one duty and validator: node %d at %s, node %d at %s", dt, prev.Node, prev.Point, nodeIdx, point),
				m.witness(map[string]any{"duty": duty.String(), "validator": v.Name,
					"first":  map[string]any{"node": prev.Node, "point": prev.Point, "at": prev.At, "signing_root": "0x" + hex.EncodeToString(prev.Root[:]), "object": prev.Object},
					"second": map[string]any{"node": nodeIdx, "point": point, "at": m.stamp(), "signing_root": "0x" + hex.EncodeToString(sr[:]), "object": kitShortJSON(obj), "valid": valid}}))
		}
	}
}

func kitShort(s string, n int) string {
	if len(s) > n {
		return s[:n]
	}

	return s
}

// missing lists which expected objects live honest nodes did not broadcast (pacing diagnostics).
func (m *monitor) missing(expected []dkey) string {
	m.mu.Lock()
	defer m.mu.Unlock()
	miss := map[string]int{}
	for i := 0; i < m.w.n; i++ {
		if m.w.roles[i] != roleHonest || m.w.p.BNFlaky[i] {
			continue // pacing waits for healthy honest nodes only
		}
		for _, k := range expected {
			if m.bcastBy[k][i] == 0 {
				miss[k.Duty.Type.String()]++
			}
		}
	}
	var parts []string
	for _, k := range sortedKeys(miss) {
		parts = append(parts, k)
	}

	return fmt.Sprint(parts)
}

func kitShortJSON(v any) string {
	s := mustJSONSafe(v)
	if len(s) > 1500 {
		s = s[:1500] + "…"
	}

	return s
}

func mustJSONSafe(v any) (s string) {
	defer func() {
		if r := recover(); r != nil {
			s = fmt.Sprintf("%+v", v)
		}
	}()

	return mustJSON(v)
}

func (m *monitor) witness(extra map[string]any) map[string]any {
	m.mu.Lock()
	tr := append([]string(nil), m.trace...)
	m.mu.Unlock()
	if len(tr) > 600 {
		tr = tr[len(tr)-600:]
	}
	out := map[string]any{"plan": m.w.p, "trace_tail": tr}
	for k, v := range extra {
		out[k] = v
	}

	return out
}

// ---- effects and precursors ----

func (m *monitor) sniffed(nodeIdx int, inst *pbv1.SniffedConsensusInstance) {
	var rc int
	var maxR int64
	var duty core.Duty
	for _, sm := range inst.GetMsgs() {
		q := sm.GetMsg().GetMsg()
		if q == nil {
			continue
		}
		duty = core.DutyFromProto(q.GetDuty())
		if q.GetType() == 4 { // ROUND_CHANGE
			rc++
		}
		if q.GetRound() > maxR {
			maxR = q.GetRound()
		}
	}
	m.mu.Lock()
	m.roundChanges += rc
	if maxR > m.maxRound {
		m.maxRound = maxR
	}
	if m.decidedRounds[duty] == nil {
		m.decidedRounds[duty] = map[int]int64{}
	}
	m.decidedRounds[duty][nodeIdx] = maxR
	m.mu.Unlock()
}

func errClass(err error) string {
	s := err.Error()
	for _, k := range []string{"unknown pubkey", "invalid shareIdx", "invalid eth2 signed data", "no signature found", "signature not verified", "invalid signature", "mismatching partial signed data",
		"clashing", "expired", "deserialize", "zero"} {
		if containsFold(s, k) {
			return k
		}
	}
	if len(s) > 60 {
		s = s[:60]
	}

	return s
}

func containsFold(s, sub string) bool {
	return len(sub) > 0 && len(s) >= len(sub) && (indexFold(s, sub) >= 0)
}

func indexFold(s, sub string) int {
	ls, lsub := []byte(s), []byte(sub)
	lower := func(b byte) byte {
		if b >= 'A' && b <= 'Z' {
			return b + 32
		}

		return b
	}
outer:
	for i := 0; i+len(lsub) <= len(ls); i++ {
		for j := range lsub {
			if lower(ls[i+j]) != lower(lsub[j]) {
				continue outer
			}
		}

		return i
	}

	return -1
}

// verified is called with the outcome of the real parsigex verifier for every received partial.
func (m *monitor) verified(nodeIdx, from int, duty core.Duty, data core.ParSignedData, err error) {
	m.mu.Lock()
	defer m.mu.Unlock()
	byz := m.w.isByz(from)
	if err != nil {
		m.rejected[errClass(err)]++
		if byz {
			m.rejectedByz++
		}
		m.noteLocked("parsigex node=%d from=%d %v share=%d REJECTED: %s", nodeIdx, from, duty, data.ShareIdx, errClass(err))

		return
	}
	if byz {
		m.acceptedByz++
	}
}

func (m *monitor) parsigStored(nodeIdx int, path string, duty core.Duty, set core.ParSignedDataSet, err error) {
	if err == nil {
		return
	}
	m.mu.Lock()
	defer m.mu.Unlock()
	if isMismatch(err) {
		m.equivocations++
		m.noteLocked("parsigdb node=%d %s %v: equivocating partial refused", nodeIdx, path, duty)

		return
	}
	m.precursors["parsigdb-store-error/"+errClass(err)]++
	m.noteLocked("parsigdb node=%d %s %v: %v", nodeIdx, path, duty, err)
}

func hashUnsigned(set core.UnsignedDataSet) string {
	pb, err := core.UnsignedDataSetToProto(set)
	if err != nil {
		return "unhashable:" + err.Error()
	}
	b, err := proto.MarshalOptions{Deterministic: true}.Marshal(pb)
	if err != nil {
		return "unhashable:" + err.Error()
	}
	h := sha256.Sum256(b)

	return hex.EncodeToString(h[:8])
}

func (m *monitor) candidate(nodeIdx int, duty core.Duty, set core.UnsignedDataSet) {
	h := hashUnsigned(set)
	m.mu.Lock()
	if m.candidates[duty] == nil {
		m.candidates[duty] = map[string]bool{}
	}
	m.candidates[duty][h] = true
	m.noteLocked("candidate node=%d %v value=%s", nodeIdx, duty, h)
	m.mu.Unlock()
}

// decided sees what consensus handed to the DutyDB of a node and whether the DutyDB took it.
func (m *monitor) decided(nodeIdx int, duty core.Duty, set core.UnsignedDataSet, err error) {
	h := hashUnsigned(set)
	var after []func()
	defer func() {
		for _, f := range after {
			f()
		}
	}()
	m.mu.Lock()
	defer m.mu.Unlock()
	if err != nil {
		m.dutyStoreErrs++
		m.precursors["dutydb-store-error/"+errClass(err)]++
		m.w.r.Seen("dutydb_store_errors", fmt.Sprintf("%s: %s", duty.Type, kitShort(err.Error(), 160)))
		m.noteLocked("dutydb node=%d %v value=%s store error: %v", nodeIdx, duty, h, err)

		return
	}
	if m.decidedHash[duty] == nil {
		m.decidedHash[duty] = map[int]string{}
	}
	if prev, ok := m.decidedHash[duty][nodeIdx]; ok && prev != h {
		m.precursors["node-stored-two-decided-values"]++
	}
	m.decidedHash[duty][nodeIdx] = h
	for other, oh := range m.decidedHash[duty] {
		if other != nodeIdx && oh != h {
			m.precursors["nodes-stored-different-decided-values"]++
			other, oh := other, oh
			after = append(after, func() {
				m.mechanism("nodes-stored-different-decided-values/"+duty.Type.String(),
					fmt.Sprintf("nodes %d and %d stored different decided unsigned data for one %s duty", other, nodeIdx, duty.Type),
					map[string]any{"duty": duty.String(), "node_a": other, "value_a": oh, "node_b": nodeIdx, "value_b": h})
			})
			break
		}
	}
	m.noteLocked("decided node=%d %v value=%s", nodeIdx, duty, h)
}

// thresholdReached sees the input of SigAgg.Aggregate.
func (m *monitor) thresholdReached(nodeIdx int, duty core.Duty, set map[core.PubKey][]core.ParSignedData) {
	var after []func()
	defer func() {
		for _, f := range after {
			f()
		}
	}()
	// how many validators of this one call cannot yield a valid aggregate: their threshold set
	// mixes signing roots (independent computation) although the message roots agree
	failing := 0
	for _, sigs := range set {
		sroots := map[[32]byte]bool{}
		for _, s := range sigs {
			item, err := fromCore(s.SignedData)
			if err != nil {
				continue
			}
			info, err := m.w.ch.inspect(item)
			if err != nil {
				continue
			}
			sr, _, err := m.w.ch.signingRoot(info.Root, info.Domain, info.Epoch)
			if err == nil {
				sroots[sr] = true
			}
		}
		if len(sroots) > 1 {
			failing++
		}
	}
	m.mu.Lock()
	defer m.mu.Unlock()
	m.thresholds++
	switch {
	case failing >= 2:
		m.failing2++
		m.noteLocked("threshold node=%d %v: %d validators of one call have mixed signing roots", nodeIdx, duty, failing)
	case failing == 1:
		m.failing1++
	}
	for pk, sigs := range set {
		roots := map[[32]byte]bool{}
		shares := map[int]bool{}
		for _, s := range sigs {
			r, err := s.MessageRoot()
			if err == nil {
				roots[r] = true
			}
			shares[s.ShareIdx] = true
		}
		if len(roots) > 1 {
			m.precursors["threshold-set-with-mixed-message-roots"]++
			nroots := len(roots)
			after = append(after, func() {
				m.mechanism("threshold-set-with-mixed-message-roots/"+duty.Type.String(),
					fmt.Sprintf("node %d: ParSigDB handed SigAgg a threshold set whose partials have %d different message roots", nodeIdx, nroots),
					map[string]any{"duty": duty.String(), "node": nodeIdx, "roots": nroots})
			})
		}
		if len(shares) < m.w.k {
			m.precursors["threshold-set-with-fewer-than-t-distinct-shares"]++
		}
		key := fmt.Sprintf("%d/%v/%s", nodeIdx, duty, pk)
		m.aggCalls[key]++
		if m.aggCalls[key] > 1 {
			m.precursors["threshold-fired-again-for-same-duty-and-validator"]++
		}
		v := m.w.byCore[pk]
		name := "?"
		if v != nil {
			name = v.Name
		}
		m.noteLocked("threshold node=%d %v %s partials=%d roots=%d", nodeIdx, duty, name, len(sigs), len(roots))
	}
}

func (m *monitor) vapiResult(nodeIdx int, what string, err error) {
	m.mu.Lock()
	defer m.mu.Unlock()
	if len(what) > 7 && what[:7] == "resign-" {
		switch {
		case isMismatch(err):
			m.resignRefused++
			m.noteLocked("vc node=%d %s: refused by the node (mismatching partial signed data)", nodeIdx, what)
		case err == nil:
			m.resignAccepted++ // nothing stored for the first submission (rejected or expired), or identical data
			m.noteLocked("vc node=%d %s: accepted by the node", nodeIdx, what)
		default:
			m.resignOther++
		}

		return
	}
	if err == nil {
		m.vcSubmitted++
		m.noteLocked("vc node=%d %s: accepted", nodeIdx, what)
		return
	}
	if m.w.stopped.Load() || m.w.ctx.Err() != nil {
		return
	}
	m.vapiErrors[what+": "+errClass(err)]++
	m.noteLocked("vc node=%d %s: %v", nodeIdx, what, err)
}

// allDone reports whether every live honest node broadcast every expected object (pacing only).
func (m *monitor) allDone(expected []dkey) bool {
	m.mu.Lock()
	defer m.mu.Unlock()
	for i := 0; i < m.w.n; i++ {
		if m.w.roles[i] != roleHonest || m.w.p.BNFlaky[i] {
			continue // pacing waits for healthy honest nodes only
		}
		for _, k := range expected {
			if m.bcastBy[k][i] == 0 {
				return false
			}
		}
	}

	return true
}

func sortedKeys(m map[string]int) []string {
	var ks []string
	for k := range m {
		ks = append(ks, k)
	}
	sort.Strings(ks)

	return ks
}

var _ = tbls.Verify
