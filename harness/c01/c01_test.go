// Package c01 checks property C01 end to end: several real charon nodes' core workflow (QBFT
// consensus component, DutyDB, validator API, ParSigDB, ParSigEx, SigAgg, AggSigDB — constructed
// like app.wireCoreWorkflow and stitched by the real core.Wire) run in one process over an
// adversarial in-memory libp2p network. The Broadcaster of every node is the monitor: every fully
// signed object must verify under the validator's group key (independent signing-root computation)
// and all objects for one duty and validator, from any node at any time, must share one signing root.
package c01

import (
	"fmt"
	"math/rand"
	"os"
	"runtime"
	"sort"
	"strconv"
	"strings"
	"sync/atomic"
	"testing"
	"time"

	"github.com/obolnetwork/charon/app/log"
	"github.com/obolnetwork/charon/core"
	"github.com/obolnetwork/charon/tbls"

	"verifharness/kit"
)

func msDur(ms int) time.Duration { return time.Duration(ms) * time.Millisecond }

func time50ms(rng *rand.Rand) time.Duration { return time.Duration(rng.Intn(50)) * time.Millisecond }

func envInt(k string, d int) int {
	if v, err := strconv.Atoi(os.Getenv(k)); err == nil && v > 0 {
		return v
	}

	return d
}

func TestCheck(t *testing.T) {
	r := kit.Start(t, "C01")
	defer r.Finish()
	lvl := os.Getenv("C01_LOG")
	if lvl == "" {
		lvl = "error"
	}
	if lvl == "off" {
		lvl = "fatal"
	}
	if err := log.InitLogger(log.Config{Level: lvl, Format: "console", Color: "disable"}); err != nil {
		t.Fatal(err)
	}
	if _, err := tbls.GenerateSecretKey(); err != nil { // single-threaded first use of the herumi CSPRNG
		t.Fatal(err)
	}

	r.Rule("case = one cluster (n in 3..7, t = ceil(2n/3), 1-3 validators with real threshold BLS keys) running one slot's duties (PRNG subset of attester, proposer+randao, sync-message, exit) on real nodes: " +
		"qbft.NewConsensus + dutydb + validatorapi (secure) + parsigdb + parsigex (real Eth2 verifier) + sigagg (real verifier) + aggsigdb wired by core.Wire/WithAsyncRetry over an in-memory libp2p; " +
		"per case the PRNG picks per-node candidate data (head roots, FFG checkpoints, blocks, sync block roots, exit epochs), late starts, beacon-node latency / no proposal, the delivery profile (delay, reordering, duplication, transient partition), " +
		"up to f = floor((n-1)/3) faulty identities (crash = cut off at a PRNG envelope index, possibly mid fan-out; Byzantine = harness-driven identity with its real key shares sending equivocating / cross-fork / replayed / invalid partial signatures, with or without an honest stack, " +
		"half of them also misbehaving in consensus: two PRE-PREPAREs as round-1 leader, double PREPARE/COMMIT, ROUND-CHANGE noise), " +
		"signatures observed on the wire re-sent with their share indices attached to other signed data (later slot / other validator / other duty type), nodes whose beacon node fails chain-parameter lookups (also exactly between partial verification and aggregation), " +
		"late replays and duty expiry followed by replays. A simulated VC per node signs exactly what its node serves. " +
		"non-trivial = at least one broadcast AND at least one fault or divergence took effect (round change, differing candidate data, refused or equivocating partial signature, envelopes lost to a crash); " +
		"distinct = hash of (n, roles, duty kinds, object versions, effects observed, broadcast pattern)")
	r.Assume("oracle trusted base: go-eth2-client hash-tree-roots, the beacon mock's spec / genesis / fork schedule read back once per shared mock, tbls.Verify (herumi); signing roots and domains are recomputed in the harness, not through core.VerifyEth2SignedData or eth2util/signing")
	r.Assume("safety only: liveness of the pipeline is not claimed; a case that broadcasts nothing is trivial. Real round timers and real goroutine scheduling drive the workload; wall-clock only paces it")
	r.Assume("six beacon mocks are shared by all cases (pre-electra / electra chain x three fork-schedule variants, 1 s slots, 16-slot epochs); each case adds its own validator set and runs the first slot that starts >= 0.4 s after the case is set up; the plan is drawn in logical node numbers and rotated by slot mod n so that QBFT leader election does not depend on the wall-clock slot; p2p identities come from a process-wide pool")
	r.Assume("scheduler and fetcher are harness stubs (they trigger duties and supply each node's own candidate data); deadliners are harness stubs (nothing expires unless the case expires it); the consensus controller / priority protocol, tracker and the beacon-node submission itself are not part of the cluster")
	r.Assume("precursor/* counters (honest nodes storing different decided values, mixed-root threshold sets, SigAgg refusing a threshold set) are informational: the statement does not forbid them, they show an inner defence giving way")
	r.RacePkgs(false, "core/parsigdb", "core/parsigex", "core/sigagg", "core/aggsigdb", "core/dutydb", "core/consensus/qbft", "core/validatorapi")

	if err := buildEnvs(r); err != nil {
		r.Inconclusive("build beacon mocks: %v", err)
		return
	}
	defer closeEnvs()

	n := r.N(150, 3000)
	par := envInt("C01_PAR", 24)
	r.Require("broadcast_events", int64(n)*3)
	r.Require("aggsigdb_store_events", int64(n)*3)
	r.Require("nontrivial_cases", int64(n)*3/10)
	r.Require("cases_with_broadcast", int64(n)/2)
	r.Require("threshold_triggers_with_2plus_failing_validators", int64(n)/15)
	r.Require("transplanted_sets_with_threshold_shares", int64(n)/5)
	r.Require("bn_lookup_failures_injected", int64(n))
	r.Require("resign/second_submission_refused_by_node", int64(n)/5)
	r.Require("resign/cases_with_balanced_head_split_and_resigning_vc", int64(n)/10)

	var sampled atomic.Int32
	r.Cases(n, par, func(c *kit.Case) {
		runCase(r, c, &sampled)
	})
	// resource diagnostics (evidence only)
	runtime.GC()
	var ms runtime.MemStats
	runtime.ReadMemStats(&ms)
	r.Set("goroutines_after_all_cases", runtime.NumGoroutine())
	r.Set("go_heap_inuse_mb_after_all_cases", ms.HeapInuse>>20)
}

func (w *world) expectedConsensusKeys() []dkey {
	var out []dkey
	if w.hasKind("attester") {
		for _, v := range w.vals {
			out = append(out, dkey{w.attDuty, v.Core})
		}
	}
	if w.hasKind("proposer") {
		pv := w.vals[w.p.ProposerVal]
		out = append(out, dkey{w.propDuty, pv.Core}, dkey{w.randaoDuty, pv.Core})
	}

	return out
}

func runCase(r *kit.Run, c *kit.Case, sampled *atomic.Int32) {
	var w *world
	var err error
	for attempt := 0; attempt < 4; attempt++ {
		// same PRNG stream on every attempt: the case stays the one its index determines
		if w, err = newWorld(r, c, r.Rand(c.Idx, 0)); err == nil {
			break
		}
		r.Count("setup/world_retries", 1)
		time.Sleep(500 * time.Millisecond)
	}
	if err != nil {
		r.Inconclusive("case %d: build world: %v", c.Idx, err)
		return
	}
	defer w.close()
	if late := time.Since(w.t0); late > 0 {
		r.Count("cases_set_up_after_slot_start", 1)
	}
	expected := w.expectedConsensusKeys()

	for _, nd := range w.nodes {
		if nd.bare {
			continue
		}
		nd := nd
		w.go_(func() {
			nd.nodeMain()
		})
	}

	var drivers []*byzDriver
	for i := 0; i < w.n; i++ {
		if w.isByz(i) {
			d := &byzDriver{w: w, idx: i, rng: r.Rand(c.Idx, 300+w.logical(i))}
			d.schedule(w.p.ByzActions)
			drivers = append(drivers, d)
			w.go_(d.run)
			if w.p.ByzConsensus[i] && os.Getenv("C01_NOBYZCONS") == "" {
				bc := &byzCons{w: w, idx: i, rng: r.Rand(c.Idx, 400+w.logical(i))}
				r.Count("byzcons/identities", 1)
				w.go_(bc.run)
			}
		}
	}

	// main phase (pacing only): until every live honest node broadcast every consensus duty and the
	// last VC flow was due, or the generous cap.
	lastVC := 0
	for i := 0; i < w.n; i++ {
		if w.hasStack(i) && w.roles[i] != roleCrash {
			if d := w.p.StartDelayMs[i] + w.p.VCDelayMs[i]; d > lastVC {
				lastVC = d
			}
		}
	}
	minEnd := w.after(lastVC + 1700)
	if !w.hasKind("sync") && !w.hasKind("exit") {
		minEnd = w.t0
	}
	ended := "cap"
	for time.Now().Before(w.endBy) {
		if time.Now().After(minEnd) && w.mon.allDone(expected) {
			ended = "all-live-honest-nodes-broadcast"
			break
		}
		time.Sleep(20 * time.Millisecond)
	}
	r.Count("main_phase_ended/"+ended, 1)
	if ended == "cap" {
		r.Seen("cap_cases_missing_broadcasts", w.mon.missing(expected)+" "+roleSet(w.p.Roles)+" net="+w.p.NetProfile+" part="+w.p.Partition)
	}
	r.Count("pacing/main_phase_ms_after_slot_start", time.Since(w.t0).Milliseconds())

	// final phase: deliver everything still in flight, replay old messages, late Byzantine traffic,
	// optionally expire duties on some nodes and replay again.
	rf := r.Rand(c.Idx, 2)
	mark := time.Now()
	phase := func(name string) {
		r.Count("pacing/phase_ms/"+name, time.Since(mark).Milliseconds())
		mark = time.Now()
	}
	w.sched.flush(false)
	phase("1-flush")
	w.settle()
	phase("2-settle")
	replayed := w.sched.replay(rf, 8+rf.Intn(25))
	phase("3-replay")
	for _, d := range drivers {
		for k := 0; k < 2; k++ {
			d.act()
		}
		d.transplant(true) // by now every share's signature was on the wire and has been verified by the nodes
	}
	phase("4-byz-late")
	if w.p.ExpireReplay {
		w.resignMu.Lock() // waits for re-submissions in flight; none starts afterwards
		w.resignClosed = true
		w.resignMu.Unlock()
		for _, nd := range w.nodes {
			if nd.bare || rf.Intn(2) == 0 {
				continue
			}
			for _, duty := range []core.Duty{w.attDuty, w.propDuty, w.randaoDuty, w.syncDuty} {
				if rf.Intn(2) == 0 {
					nd.expire(duty)
					r.Count("expired_duties", 1)
				}
			}
		}
		time.Sleep(5 * time.Millisecond)
		replayed += w.sched.replay(rf, 10+rf.Intn(20))
		for _, d := range drivers {
			d.act()
		}
	}
	phase("5-expire-replay")
	w.sched.flush(true)
	phase("6-flush")
	w.settle()
	phase("7-settle")
	r.Count("pacing/case_end_ms_after_slot_start", time.Since(w.t0).Milliseconds())
	if os.Getenv("C01_TRACE") != "" {
		w.mon.mu.Lock()
		fmt.Printf("case %d ended=%s plan=%s\n", c.Idx, ended, mustJSON(w.p))
		for _, l := range w.mon.trace {
			fmt.Println("  ", l)
		}
		w.mon.mu.Unlock()
	}
	w.finish(replayed, sampled)
}

// settle waits (pacing only, bounded) until the monitors saw nothing new for a few polls while no
// partial-signature message is in flight.
func (w *world) settle() {
	stable := 0
	lastEv := -1
	for i := 0; i < 40 && stable < 4; i++ {
		w.sched.flush(w.sched.isFlushing())
		time.Sleep(12 * time.Millisecond)
		w.mon.mu.Lock()
		ev := w.mon.events + w.mon.thresholds
		w.mon.mu.Unlock()
		if ev == lastEv && w.sched.pendingPS.Load() == 0 {
			stable++
		} else {
			stable = 0
		}
		lastEv = ev
	}
}

// finish turns what the case observed into counters, non-triviality and samples.
func (w *world) finish(replayed int, sampled *atomic.Int32) {
	r, c, m := w.r, w.c, w.mon
	s := w.sched
	s.mu.Lock()
	sent, delivered, dups, droppedCrash, held, reordered, droppedLossy := s.sent, s.delivered, s.dups, s.droppedCrash, s.heldByPartition, s.reordered, s.droppedLossy
	s.mu.Unlock()
	m.mu.Lock()
	defer m.mu.Unlock()

	r.Count("cases", 1)
	r.Count("broadcast_events", int64(m.broadcasts))
	r.Count("aggsigdb_store_events", int64(m.stores))
	r.Count("signatures_verified_under_group_key", int64(m.checkedOK))
	r.Count("distinct_duty_validator_keys_signed", int64(len(m.first)))
	r.Count("net/envelopes_sent", sent)
	r.Count("net/envelopes_delivered", delivered)
	r.Count("net/duplicates_and_replays_delivered", dups)
	r.Count("net/lost_to_crash", droppedCrash)
	r.Count("net/held_by_partition", held)
	r.Count("net/reordered_on_link", reordered)
	r.Count("net/replayed_late", int64(replayed))
	r.Count("consensus/round_change_messages", int64(m.roundChanges))
	r.Count("partials/rejected_by_verifier", sum(m.rejected))
	r.Count("partials/rejected_from_byzantine", int64(m.rejectedByz))
	r.Count("partials/accepted_from_byzantine", int64(m.acceptedByz))
	r.Count("partials/equivocation_refused_by_parsigdb", int64(m.equivocations))
	r.Count("vc/submissions_accepted", int64(m.vcSubmitted))
	r.Count("resign/second_submission_refused_by_node", int64(m.resignRefused))
	r.Count("resign/second_submission_accepted_nothing_stored_before", int64(m.resignAccepted))
	r.Count("resign/second_submission_other_error", int64(m.resignOther))
	if w.p.SyncSplit == "balanced" && w.hasKind("sync") {
		r.Count("resign/cases_with_balanced_head_split_and_resigning_vc", 1)
	}
	r.Count("net/lost_on_lossy_links", droppedLossy)
	for _, nd := range w.nodes {
		if !nd.bare {
			r.Count("bn_lookup_failures_injected", nd.client.failed.Load())
			if w.p.BNFlaky[nd.idx] {
				r.Count("nodes_with_flaky_beacon_node", 1)
			}
		}
	}
	r.Count("threshold_triggers_with_1_failing_validator", int64(m.failing1))
	r.Count("threshold_triggers_with_2plus_failing_validators", int64(m.failing2))
	r.Count("objects_whose_slot_differs_from_duty_slot", int64(m.templateOdd))
	for k, v := range m.rejected {
		r.Count("partials/rejected_by/"+k, int64(v))
	}
	for k, v := range m.precursors {
		r.Count("precursor/"+k, int64(v))
	}
	for k, v := range m.vapiErrors {
		r.Count("vc/rejected/"+k, int64(v))
	}
	r.Seen("cluster_sizes", fmt.Sprintf("n=%d t=%d f=%d", w.n, w.k, w.f))
	r.Seen("role_sets", roleSet(w.p.Roles))
	r.Seen("kinds", strings.Join(w.p.Kinds, "+"))
	r.Seen("net_profiles", w.p.NetProfile)
	if w.hasKind("attester") {
		r.Seen("attestation_versions", w.p.AttVersion)
	}
	if w.hasKind("proposer") {
		r.Seen("proposal_versions", fmt.Sprintf("%s blinded=%v", w.p.PropVersion, w.p.PropBlinded))
	}
	bcastTypes := map[string]int{}
	pattern := []string{}
	for k, by := range m.bcastBy {
		bcastTypes[k.Duty.Type.String()] += len(by)
		r.Seen("duty_types_broadcast", k.Duty.Type.String())
		pattern = append(pattern, fmt.Sprintf("%s:%d", k.Duty.Type, len(by)))
	}
	for k, v := range bcastTypes {
		r.Count("broadcasting_nodes/"+k, int64(v))
	}
	sort.Strings(pattern)
	if m.maxRound > 1 {
		r.Count("cases_with_round_above_1", 1)
	}
	r.Seen("max_consensus_round", fmt.Sprint(m.maxRound))

	// effects
	var effects []string
	if m.roundChanges > 0 {
		effects = append(effects, "round-change")
	}
	for _, hs := range m.candidates {
		if len(hs) > 1 {
			effects = append(effects, "differing-candidates")
			break
		}
	}
	if w.hasKind("sync") {
		roots := map[int]bool{}
		for i := 0; i < w.n; i++ {
			if w.hasStack(i) {
				roots[w.p.SyncChoice[i]] = true
			}
		}
		if len(roots) > 1 {
			effects = append(effects, "vcs-signed-different-sync-roots")
		}
	}
	if sum(m.rejected) > 0 {
		effects = append(effects, "partial-refused-by-verifier")
	}
	if m.equivocations > 0 {
		effects = append(effects, "equivocation-refused-by-parsigdb")
	}
	if m.acceptedByz > 0 {
		effects = append(effects, "byzantine-partial-admitted")
	}
	if droppedCrash > 0 {
		effects = append(effects, "crash-lost-envelopes")
	}
	for _, e := range effects {
		r.Count("effect/"+e, 1)
	}
	if m.broadcasts > 0 {
		r.Count("cases_with_broadcast", 1)
	}
	if m.broadcasts > 0 && len(effects) > 0 {
		r.Count("nontrivial_cases", 1)
		c.NonTrivial(kit.Hash(w.n, roleSet(w.p.Roles), strings.Join(w.p.Kinds, "+"), w.p.AttVersion, w.p.PropVersion, w.p.PropBlinded, strings.Join(effects, ","), strings.Join(pattern, ","), m.maxRound, w.p.NetProfile))
	}
	if len(effects) > 0 && m.broadcasts > 0 && sampled.Add(1) <= 3 {
		tr := m.trace
		if len(tr) > 40 {
			tr = tr[:40]
		}
		r.Sample(map[string]any{"case": c.Idx, "plan": w.p, "effects": effects, "broadcasts": pattern, "max_round": m.maxRound, "trace_head": tr})
	}
}

func sum(m map[string]int) int64 {
	var s int64
	for _, v := range m {
		s += int64(v)
	}

	return s
}

func roleSet(rs []string) string {
	c := map[string]int{}
	for _, r := range rs {
		c[r]++
	}
	var parts []string
	for _, k := range []string{"honest", "crash", "byz+stack", "byz-bare"} {
		if c[k] > 0 {
			parts = append(parts, fmt.Sprintf("%s=%d", k, c[k]))
		}
	}

	return strings.Join(parts, " ")
}
